package main

import (
	"go/ast"
	"sort"
	"strings"
)

// Facts about how x/evm reaches the bank (C06 / C05): NibiruBankKeeper overrides the NIBI-moving bank methods so that the
// in-flight StateDB learns about every unibi movement. Code that selects the embedded `BaseKeeper` explicitly skips the override.
//   bankBaseKeeperBypassSites   every function outside bank_extension.go (where the overrides themselves delegate) in which the
//                               selector `.BaseKeeper` occurs, as "pkg:func"
func init() {
	extractors["bankbypass"] = func(repo string, out *leanFile, js map[string]any) error {
		set := map[string]bool{}
		for _, dir := range []string{"x/evm/keeper", "x/evm/precompile", "x/evm/statedb", "x/evm/evmmodule"} {
			for _, sf := range loadDir(repo, dir) {
				if strings.HasSuffix(sf.rel, "_test.go") || strings.HasSuffix(sf.rel, "bank_extension.go") {
					continue
				}
				for _, d := range sf.file.Decls {
					fd, ok := d.(*ast.FuncDecl)
					if !ok || fd.Body == nil {
						continue
					}
					ast.Inspect(fd.Body, func(n ast.Node) bool {
						if se, ok := n.(*ast.SelectorExpr); ok && se.Sel.Name == "BaseKeeper" {
							set[dir+":"+funcName(fd)] = true
						}
						// composite-literal keys (`BaseKeeper: bankkeeper.NewBaseKeeper(...)`) construct the wrapper, they do not bypass it
						return true
					})
				}
			}
		}
		var sites []string
		for k := range set {
			sites = append(sites, k)
		}
		sort.Strings(sites)
		out.f("def bankBaseKeeperBypassSites : List String := %s\n", leanStrList(sites))
		return nil
	}
}
