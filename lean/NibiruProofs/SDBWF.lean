/-
  SDBWF — the StateDB stays well-formed through any transaction body, reverted frames included; hence `Commit` persists exactly the
  final view after ANY tree of writes, CreateAccount calls and nested frames (not only after a flat write sequence).

  Well-formedness (`WF`, SDBCommit): every cached object's OriginStorage agrees with the store, and every dirty slot has a cached
  origin — what `commitCtx` relies on when it skips a slot whose dirty value equals `OriginStorage[key]`.  A `storageChange`'s Revert
  writes `DirtyStorage[key] = prev` and so needs the origin of `key` to be cached in the object it finds; that holds because of a
  stack discipline (the object is the one the entry was appended on, or one with more cached).  The discipline is captured by
  `Chk s J`: reverting the journal `J` entry by entry, newest first, every entry finds what its Revert needs (`Pre`).  `Chk` is
  monotone in the extension order `Grows` (same store, every cached object still cached with at least the same origins), every
  Revert is monotone in it, and every operation leaves a state from which undoing its own entries leads `Grows`-above where it started.
-/
import NibiruProofs.SDBObs
import NibiruProofs.SDBCommit

namespace Nibiru.SDB
open Nibiru

/-! ### the extension order -/

def OriginSub (o o' : Obj) : Prop := ∀ k, (AList.find? o.origin k).isSome → (AList.find? o'.origin k).isSome

theorem OriginSub.refl (o : Obj) : OriginSub o o := fun _ h => h
theorem OriginSub.trans {o1 o2 o3 : Obj} (h1 : OriginSub o1 o2) (h2 : OriginSub o2 o3) : OriginSub o1 o3 := fun k h => h2 k (h1 k h)
theorem OriginSub.of_eq {o o' : Obj} (h : o'.origin = o.origin) : OriginSub o o' := fun k hk => by rw [h]; exact hk

structure Grows (s s' : S) : Prop where
  store : s'.txStore = s.txStore
  cache : s'.cache = s.cache
  objs : ∀ a o, AList.find? s.objs a = some o → ∃ o', AList.find? s'.objs a = some o' ∧ OriginSub o o'

theorem Grows.refl (s : S) : Grows s s := ⟨rfl, rfl, fun _ o h => ⟨o, h, OriginSub.refl o⟩⟩

theorem Grows.trans {s1 s2 s3 : S} (h1 : Grows s1 s2) (h2 : Grows s2 s3) : Grows s1 s3 := by
  refine ⟨h2.store.trans h1.store, h2.cache.trans h1.cache, fun a o ho => ?_⟩
  obtain ⟨o2, f2, e2⟩ := h1.objs a o ho
  obtain ⟨o3, f3, e3⟩ := h2.objs a o2 f2
  exact ⟨o3, f3, e2.trans e3⟩

/-- same store, cache context and objects -/
theorem grows_of_same {s t : S} (h1 : t.txStore = s.txStore) (h2 : t.cache = s.cache) (h3 : t.objs = s.objs) : Grows s t :=
  ⟨h1, h2, fun a o ho => ⟨o, by rw [h3]; exact ho, OriginSub.refl o⟩⟩

theorem grows_setObj {s t : S} (h : Grows s t) (a : Nat) (o' : Obj)
    (ho : ∀ o, AList.find? s.objs a = some o → OriginSub o o') : Grows s (setObj t a o') := by
  refine ⟨h.store, h.cache, fun b o hb => ?_⟩
  by_cases hab : a = b
  · subst hab; exact ⟨o', find_setObj_same _ _ _, ho o hb⟩
  · rw [find_setObj_other _ _ _ _ hab]; exact h.objs b o hb

theorem grows_erase {s t : S} (h : Grows s t) (a : Nat) (ha : AList.find? s.objs a = none) :
    Grows s { t with objs := AList.erase t.objs a } := by
  refine ⟨h.store, h.cache, fun b o hb => ?_⟩
  by_cases hab : a = b
  · subst hab; rw [ha] at hb; cases hb
  · show ∃ o', AList.find? (AList.erase t.objs a) b = some o' ∧ _
    rw [AList.find?_erase_ne _ _ _ hab]; exact h.objs b o hb

/-! ### `modObj` at the level of cached objects -/

theorem modObj_find (s : S) (a : Nat) (f : Obj → Obj) :
    (modObj s a f).txStore = s.txStore ∧ (modObj s a f).cache = s.cache ∧
    (∀ b, a ≠ b → AList.find? (modObj s a f).objs b = AList.find? s.objs b) ∧
    AList.find? (modObj s a f).objs a =
      (match AList.find? s.objs a with | some o => some (f o) | none => (loadObj (curStore s) a).map f) := by
  unfold modObj getObj
  cases hf : AList.find? s.objs a with
  | some o =>
    simp only
    exact ⟨rfl, rfl, fun b hb => find_setObj_other _ _ _ _ hb, find_setObj_same _ _ _⟩
  | none =>
    simp only
    cases hl : loadObj (curStore s) a with
    | none => exact ⟨rfl, rfl, fun b _ => rfl, hf⟩
    | some o =>
      simp only
      refine ⟨rfl, rfl, fun b hb => ?_, ?_⟩
      · rw [find_setObj_other _ _ _ _ hb]; exact AList.find?_set_ne _ _ _ _ hb
      · rw [find_setObj_same]; rfl

theorem grows_modObj (t : S) (a : Nat) (f : Obj → Obj) (hf : ∀ o, (f o).origin = o.origin) : Grows t (modObj t a f) := by
  obtain ⟨m1, m2, m3, m4⟩ := modObj_find t a f
  refine ⟨m1, m2, fun b o hb => ?_⟩
  by_cases hab : a = b
  · subst hab
    rw [m4, hb]
    exact ⟨f o, rfl, OriginSub.of_eq (hf o)⟩
  · rw [m3 b hab]; exact ⟨o, hb, OriginSub.refl o⟩

theorem grows_modObj_congr {t t' : S} (h : Grows t t') (a : Nat) (f : Obj → Obj) (hf : ∀ o, (f o).origin = o.origin) :
    Grows (modObj t a f) (modObj t' a f) := by
  obtain ⟨m1, m2, m3, m4⟩ := modObj_find t a f
  obtain ⟨n1, n2, n3, n4⟩ := modObj_find t' a f
  refine ⟨n1.trans (h.store.trans m1.symm), n2.trans (h.cache.trans m2.symm), fun b o hb => ?_⟩
  by_cases hab : a = b
  · subst hab
    rw [m4] at hb
    rw [n4]
    cases hx : AList.find? t.objs a with
    | some o0 =>
      rw [hx] at hb
      simp only at hb
      obtain ⟨o1, f1, e1⟩ := h.objs a o0 hx
      rw [f1]
      injection hb with hb
      subst hb
      exact ⟨f o1, rfl, fun k hk => by rw [hf] at hk ⊢; exact e1 k hk⟩
    | none =>
      rw [hx] at hb
      simp only at hb
      have hcur : curStore t' = curStore t := by unfold curStore; rw [h.cache, h.store]
      cases hl : loadObj (curStore t) a with
      | none => rw [hl] at hb; cases hb
      | some L =>
        rw [hl] at hb
        simp only [Option.map] at hb
        injection hb with hb
        subst hb
        have hL : L.origin = [] := by
          unfold loadObj at hl
          cases hacc : (curStore t).acct a with
          | none => rw [hacc] at hl; cases hl
          | some x => rw [hacc] at hl; simp only [Option.map] at hl; injection hl with hl; subst hl; rfl
        have hsub : ∀ o', OriginSub (f L) o' := by
          intro o' k hk
          rw [hf, hL] at hk
          cases hk
        cases hy : AList.find? t'.objs a with
        | some o1 => exact ⟨f o1, rfl, hsub _⟩
        | none =>
          simp only
          rw [hcur, hl]
          exact ⟨f L, rfl, hsub _⟩
  · rw [m3 b hab] at hb
    rw [n3 b hab]
    exact h.objs b o hb

/-! ### what each entry's Revert needs, and the check along the journal -/

def Pre (s : S) : Entry → Prop
  | .storage a k _ => ∃ o, AList.find? s.objs a = some o ∧ (AList.find? o.origin k).isSome
  | .resetObject a p => WFObj s.txStore a p
  | .precompile _ => False
  | _ => True

def Chk (s : S) : List Entry → Prop
  | [] => True
  | e :: rest => Pre s e ∧ Chk (revertEntry s e) rest

theorem chk_append (l1 l2 : List Entry) (s : S) : Chk s (l1 ++ l2) ↔ Chk s l1 ∧ Chk (revertEntries s l1) l2 := by
  induction l1 generalizing s with
  | nil => simp [Chk, revertEntries]
  | cons e t ih =>
    simp only [List.cons_append, Chk, revertEntries, List.foldl_cons]
    rw [ih (revertEntry s e)]
    exact ⟨fun h => ⟨⟨h.1, h.2.1⟩, h.2.2⟩, fun h => ⟨h.1.1, h.1.2, h.2⟩⟩

theorem pre_plain (s : S) (e : Entry) (h : Pre s e) : e.plain = true := by
  cases e <;> first | rfl | exact False.elim h

/-- **Revert keeps the StateDB well-formed** when the entry finds what it needs -/
theorem wf_revertEntry (s : S) (e : Entry) (h : WF s) (hp : Pre s e) : WF (revertEntry s e) := by
  have key : ∀ (a : Nat) (f : Obj → Obj), (∀ o, (f o).origin = o.origin ∧ (f o).dirty = o.dirty) → WF (modObj s a f) := by
    intro a f hf
    obtain ⟨w1, w2, w3⟩ := WF_getObj s a h
    unfold modObj
    rcases hg : getObj s a with ⟨s1, _ | o⟩
    · rw [hg] at w1; exact w1
    · rw [hg] at w1 w2 w3
      simp only at w1 w2 w3 ⊢
      refine WF_setObj s1 a (f o) w1 ?_
      rw [w2]
      exact WFObj_congr _ a o (f o) (w3 o rfl) (hf o).1 (hf o).2
  cases e with
  | balance a p => exact key a (fun o => { o with balance := p }) (fun _ => ⟨rfl, rfl⟩)
  | nonce a p => exact key a (fun o => { o with nonce := p }) (fun _ => ⟨rfl, rfl⟩)
  | code a p => exact key a (fun o => { o with codeHash := p, dirtyCode := true }) (fun _ => ⟨rfl, rfl⟩)
  | suicide a p pb => exact key a (fun o => { o with suicided := p, balance := pb }) (fun _ => ⟨rfl, rfl⟩)
  | storage a k p =>
    obtain ⟨o, ho, hk⟩ := hp
    show WF (match getObj s a with | (s1, some o) => setObj s1 a { o with dirty := AList.set o.dirty k p } | (s1, none) => s1)
    rw [getObj_cached' s a o ho]
    simp only
    refine WF_setObj s a _ h (WFObj_setDirty _ a o k p (h.2 a o ho) ?_)
    cases hw : AList.find? o.origin k with
    | some w => exact ⟨w, rfl⟩
    | none => rw [hw] at hk; cases hk
  | refund p => exact h
  | addLog => exact h
  | alAddr a => exact h
  | alSlot a k => exact h
  | createObject a =>
    refine ⟨h.1, fun b o hb => ?_⟩
    have hb' : AList.find? (AList.erase s.objs a) b = some o := hb
    by_cases hab : a = b
    · subst hab; rw [AList.find?_erase_self] at hb'; cases hb'
    · rw [AList.find?_erase_ne _ _ _ hab] at hb'; exact h.2 b o hb'
  | resetObject a p => exact WF_setObj s a p h hp
  | precompile c => exact False.elim hp

theorem wf_chk (l : List Entry) (s : S) (h : WF s) (hc : Chk s l) : WF (revertEntries s l) := by
  induction l generalizing s with
  | nil => exact h
  | cons e t ih =>
    simp only [revertEntries, List.foldl_cons]
    exact ih (revertEntry s e) (wf_revertEntry s e h hc.1) hc.2

theorem pre_mono {s s' : S} (h : Grows s s') (e : Entry) (hp : Pre s e) : Pre s' e := by
  cases e with
  | storage a k p =>
    obtain ⟨o, ho, hk⟩ := hp
    obtain ⟨o', ho', hsub⟩ := h.objs a o ho
    exact ⟨o', ho', hsub k hk⟩
  | resetObject a p => show WFObj s'.txStore a p; rw [h.store]; exact hp
  | precompile c => exact hp
  | _ => exact True.intro

/-- Revert is monotone in the extension order -/
theorem grows_revertEntry_congr {t t' : S} (h : Grows t t') (e : Entry) (he : e.plain = true) :
    Grows (revertEntry t e) (revertEntry t' e) := by
  cases e with
  | balance a p => exact grows_modObj_congr h a (fun o => { o with balance := p }) (fun _ => rfl)
  | nonce a p => exact grows_modObj_congr h a (fun o => { o with nonce := p }) (fun _ => rfl)
  | code a p => exact grows_modObj_congr h a (fun o => { o with codeHash := p, dirtyCode := true }) (fun _ => rfl)
  | suicide a p pb => exact grows_modObj_congr h a (fun o => { o with suicided := p, balance := pb }) (fun _ => rfl)
  | storage a k p => exact grows_modObj_congr h a (fun o => { o with dirty := AList.set o.dirty k p }) (fun _ => rfl)
  | refund p => exact ⟨h.store, h.cache, h.objs⟩
  | addLog => exact ⟨h.store, h.cache, h.objs⟩
  | alAddr a => exact ⟨h.store, h.cache, h.objs⟩
  | alSlot a k => exact ⟨h.store, h.cache, h.objs⟩
  | createObject a =>
    refine ⟨h.store, h.cache, fun b o hb => ?_⟩
    have hb' : AList.find? (AList.erase t.objs a) b = some o := hb
    show ∃ o', AList.find? (AList.erase t'.objs a) b = some o' ∧ _
    by_cases hab : a = b
    · subst hab; rw [AList.find?_erase_self] at hb'; cases hb'
    · rw [AList.find?_erase_ne _ _ _ hab] at hb' ⊢; exact h.objs b o hb'
  | resetObject a p =>
    refine ⟨h.store, h.cache, fun b o hb => ?_⟩
    have hb' : AList.find? (setObj t a p).objs b = some o := hb
    show ∃ o', AList.find? (setObj t' a p).objs b = some o' ∧ _
    by_cases hab : a = b
    · subst hab
      rw [find_setObj_same] at hb' ⊢
      injection hb' with hb'; subst hb'
      exact ⟨p, rfl, OriginSub.refl p⟩
    · rw [find_setObj_other _ _ _ _ hab] at hb' ⊢; exact h.objs b o hb'
  | precompile c => cases he

theorem chk_mono (l : List Entry) {s s' : S} (h : Grows s s') (hc : Chk s l) : Chk s' l := by
  induction l generalizing s s' with
  | nil => exact True.intro
  | cons e t ih => exact ⟨pre_mono h e hc.1, ih (grows_revertEntry_congr h e (pre_plain s e hc.1)) hc.2⟩

/-! ### undoing an operation's own entries leads `Grows`-above the state it started from -/

def EsOK (s : S) : Entry → Prop
  | .createObject a => AList.find? s.objs a = none
  | .resetObject a p => ∀ o, AList.find? s.objs a = some o → o = p
  | .precompile _ => False
  | _ => True

theorem grows_revertEntry {s t : S} (h : Grows s t) (e : Entry) (he : EsOK s e) : Grows s (revertEntry t e) := by
  cases e with
  | balance a p => exact h.trans (grows_modObj t a (fun o => { o with balance := p }) (fun _ => rfl))
  | nonce a p => exact h.trans (grows_modObj t a (fun o => { o with nonce := p }) (fun _ => rfl))
  | code a p => exact h.trans (grows_modObj t a (fun o => { o with codeHash := p, dirtyCode := true }) (fun _ => rfl))
  | suicide a p pb => exact h.trans (grows_modObj t a (fun o => { o with suicided := p, balance := pb }) (fun _ => rfl))
  | storage a k p => exact h.trans (grows_modObj t a (fun o => { o with dirty := AList.set o.dirty k p }) (fun _ => rfl))
  | refund p => exact ⟨h.store, h.cache, h.objs⟩
  | addLog => exact ⟨h.store, h.cache, h.objs⟩
  | alAddr a => exact ⟨h.store, h.cache, h.objs⟩
  | alSlot a k => exact ⟨h.store, h.cache, h.objs⟩
  | createObject a => exact grows_erase h a he
  | resetObject a p => exact grows_setObj h a p (fun o ho => by rw [he o ho]; exact OriginSub.refl p)
  | precompile c => exact False.elim he

theorem grows_revertEntries {s : S} (l : List Entry) (hl : ∀ e ∈ l, EsOK s e) {t : S} (h : Grows s t) : Grows s (revertEntries t l) := by
  induction l generalizing t with
  | nil => exact h
  | cons e r ih =>
    simp only [revertEntries, List.foldl_cons]
    exact ih (fun x hx => hl x (List.mem_cons_of_mem _ hx)) (grows_revertEntry h e (hl e (List.mem_cons_self ..)))

/-- the invariant: well-formed now, and well-formed after reverting the journal down to any length -/
def Inv (s : S) : Prop := WF s ∧ Chk s s.journal.reverse

/-- what an operation has to establish -/
structure Step (s s' : S) : Prop where
  wf : WF s'
  shape : ∃ es, s'.journal = s.journal ++ es ∧ Chk s' es.reverse ∧ Grows s (revertEntries s' es.reverse)

theorem inv_step {s s' : S} (h : Inv s) (st : Step s s') : Inv s' := by
  obtain ⟨es, hj, hchk, hback⟩ := st.shape
  refine ⟨st.wf, ?_⟩
  rw [hj, List.reverse_append, chk_append]
  exact ⟨hchk, chk_mono _ hback h.2⟩

theorem step_of_grows {s s' : S} (wf : WF s') (es : List Entry) (hj : s'.journal = s.journal ++ es) (hok : ∀ e ∈ es, EsOK s e)
    (hchk : Chk s' es.reverse) (hg : Grows s s') : Step s s' :=
  ⟨wf, es, hj, hchk, grows_revertEntries es.reverse (fun e he => hok e (List.mem_reverse.mp he)) hg⟩

/-! ### the operations -/

def Entry.easy : Entry → Bool
  | .storage _ _ _ | .resetObject _ _ | .precompile _ => false
  | _ => true

theorem chk_easy (l : List Entry) (hl : ∀ e ∈ l, e.easy = true) (t : S) : Chk t l := by
  induction l generalizing t with
  | nil => exact True.intro
  | cons e r ih =>
    refine ⟨?_, ih (fun x hx => hl x (List.mem_cons_of_mem _ hx)) _⟩
    have := hl e (List.mem_cons_self ..)
    cases e <;> first | exact True.intro | cases this

theorem grows_getObj (s : S) (a : Nat) : Grows s (getObj s a).1 := by
  unfold getObj
  split
  · exact Grows.refl s
  · rename_i hf
    split
    · exact grows_setObj (Grows.refl s) a _ (fun o ho => by rw [hf] at ho; cases ho)
    · exact Grows.refl s

theorem getObj_snd_none (s : S) (a : Nat) (e : (getObj s a).2 = none) : AList.find? s.objs a = none := by
  cases hf : AList.find? s.objs a with
  | none => rfl
  | some o =>
    rw [getObj_cached' s a o hf] at e
    exact absurd e (by simp)

theorem getObj_snd_find (s : S) (a : Nat) (o : Obj) (e : (getObj s a).2 = some o) : AList.find? (getObj s a).1.objs a = some o := by
  cases hf : AList.find? s.objs a with
  | some o0 =>
    rw [getObj_cached' s a o0 hf] at e ⊢
    have : o0 = o := by simpa using e
    subst this
    exact hf
  | none =>
    cases hl : loadObj (curStore s) a with
    | none =>
      have hg : getObj s a = (s, none) := by unfold getObj; simp only [hf, hl]
      rw [hg] at e
      exact absurd e (by simp)
    | some L =>
      have hg : getObj s a = ({ s with objs := AList.set s.objs a L }, some L) := by unfold getObj; simp only [hf, hl]
      rw [hg] at e ⊢
      have : L = o := by simpa using e
      subst this
      exact AList.find?_set_self _ _ _

theorem getObj_shape (s : S) (a : Nat) :
    (getObj s a).1.journal = s.journal ∧ Grows s (getObj s a).1 ∧
    (∀ o, AList.find? s.objs a = some o → (getObj s a).2 = some o) ∧
    ((getObj s a).2 = none → AList.find? s.objs a = none) ∧
    (∀ o, (getObj s a).2 = some o → AList.find? (getObj s a).1.objs a = some o) :=
  ⟨(getObj_revisions s a).2.2, grows_getObj s a, fun o ho => by rw [getObj_cached' s a o ho], getObj_snd_none s a,
   getObj_snd_find s a⟩

theorem getOrNew_shape (s : S) (a : Nat) :
    (∃ pre, (getOrNew s a).1.journal = s.journal ++ pre ∧ (∀ e ∈ pre, EsOK s e ∧ e.easy = true)) ∧ Grows s (getOrNew s a).1 ∧
    (∀ o, AList.find? s.objs a = some o → (getOrNew s a).2 = o) ∧
    AList.find? (getOrNew s a).1.objs a = some (getOrNew s a).2 := by
  obtain ⟨g1, g2, g3, g4, g5⟩ := getObj_shape s a
  unfold getOrNew
  rcases hg : getObj s a with ⟨s1, _ | o⟩
  · have e1 : (getObj s a).1 = s1 := by rw [hg]
    have e2 : (getObj s a).2 = none := by rw [hg]
    rw [e1] at g1 g2
    have hnone := g4 e2
    dsimp only
    refine ⟨⟨[.createObject a], by simp [g1], ?_⟩, ?_, fun o ho => (by rw [hnone] at ho; cases ho), find_setObj_same _ _ _⟩
    · intro e he
      simp only [List.mem_singleton] at he
      subst he
      exact ⟨hnone, rfl⟩
    · exact grows_setObj (g2.trans (grows_of_same (t := append s1 (.createObject a)) rfl rfl rfl)) a {} (fun o ho => by rw [hnone] at ho; cases ho)
  · have e1 : (getObj s a).1 = s1 := by rw [hg]
    have e2 : (getObj s a).2 = some o := by rw [hg]
    rw [e1] at g1 g2
    dsimp only
    refine ⟨⟨[], by simp [g1], by simp⟩, g2, fun o' ho' => ?_, ?_⟩
    · have := g3 o' ho'
      rw [e2] at this
      injection this
    · have := g5 o e2
      rw [e1] at this
      exact this

/-- a write that journals one entry behind `getOrNew` and replaces the object -/
theorem step_field (s : S) (a : Nat) (e : Entry) (o' : Obj) (hwf : WF (setObj (append (getOrNew s a).1 e) a o'))
    (hes : EsOK s e) (hpre : Pre (setObj (append (getOrNew s a).1 e) a o') e) (hor : OriginSub (getOrNew s a).2 o') :
    Step s (setObj (append (getOrNew s a).1 e) a o') := by
  obtain ⟨⟨pre, hj, hpreok⟩, hg, hsame, _⟩ := getOrNew_shape s a
  refine step_of_grows hwf (pre ++ [e]) (by simp [hj]) ?_ ?_ ?_
  · intro x hx
    rcases List.mem_append.mp hx with h | h
    · exact (hpreok x h).1
    · simp only [List.mem_singleton] at h; subst h; exact hes
  · rw [List.reverse_append]
    exact ⟨hpre, chk_easy _ (fun x hx => (hpreok x (List.mem_reverse.mp hx)).2) _⟩
  · exact grows_setObj (hg.trans (grows_of_same (t := append (getOrNew s a).1 e) rfl rfl rfl)) a o' (fun o ho => by rw [← hsame o ho]; exact hor)

/-- a write that replaces the object behind `getOrNew` without an entry of its own (or does nothing more) -/
theorem step_noentry (s : S) (a : Nat) (o' : Obj) (hwf : WF (setObj (getOrNew s a).1 a o')) (hor : OriginSub (getOrNew s a).2 o') :
    Step s (setObj (getOrNew s a).1 a o') := by
  obtain ⟨⟨pre, hj, hpreok⟩, hg, hsame, _⟩ := getOrNew_shape s a
  refine step_of_grows hwf pre hj (fun x hx => (hpreok x hx).1) (chk_easy _ (fun x hx => (hpreok x (List.mem_reverse.mp hx)).2) _) ?_
  exact grows_setObj hg a o' (fun o ho => by rw [← hsame o ho]; exact hor)

theorem step_getOrNew (s : S) (a : Nat) (hwf : WF (getOrNew s a).1) : Step s (getOrNew s a).1 := by
  obtain ⟨⟨pre, hj, hpreok⟩, hg, _, _⟩ := getOrNew_shape s a
  exact step_of_grows hwf pre hj (fun x hx => (hpreok x hx).1) (chk_easy _ (fun x hx => (hpreok x (List.mem_reverse.mp hx)).2) _) hg

theorem touch_originSub (s : S) (a : Nat) (o : Obj) (k : Nat) : OriginSub o (touchState s a o k) := by
  intro k' hk'
  unfold touchState
  cases hd : AList.find? o.dirty k with
  | some v => exact hk'
  | none =>
    simp only
    unfold cacheOrigin
    cases ho : AList.find? o.origin k with
    | some w => exact hk'
    | none =>
      simp only
      by_cases e : k = k'
      · subst e; rw [AList.find?_set_self]; rfl
      · rw [AList.find?_set_ne _ _ _ _ e]; exact hk'

theorem step_applyW (s : S) (h : WF s) (w : WOp) : Step s (applyW s w) := by
  have hwf := (WF_applyW s w h).1
  cases hacct : w.acct with
  | none =>
    have hcache : Cached [] s := fun a ha => by cases ha
    obtain ⟨es, hj, hon, _, _⟩ := undoW (A := []) s hcache w (fun a ha => by rw [hacct] at ha; cases ha)
    have heasy : ∀ e ∈ es, EsOK s e ∧ e.easy = true := by
      intro e hin
      have := hon e hin
      cases e <;> first | exact ⟨True.intro, rfl⟩ | exact False.elim this | cases this
    have hobjs : ∀ b, AList.find? (applyW s w).objs b = AList.find? s.objs b :=
      fun b => (applyW_other s w b (by rw [hacct]; simp)).2.2
    have hst := (applyW_other s w 0 (by rw [hacct]; simp)).2.1
    refine step_of_grows hwf es hj (fun e he => (heasy e he).1) (chk_easy _ (fun e he => (heasy e (List.mem_reverse.mp he)).2) _) ?_
    exact ⟨hst, applyW_cache s w, fun b o hb => ⟨o, by rw [hobjs b]; exact hb, OriginSub.refl o⟩⟩
  | some a0 =>
    cases w with
    | addLog => cases hacct
    | addRefund g => cases hacct
    | subRefund g => cases hacct
    | addAddr a => cases hacct
    | addSlot a k => cases hacct
    | addBalance a d =>
      have e : applyW s (.addBalance a d) = addBalance s a d := rfl
      rw [e, addBalance_eq] at hwf ⊢
      by_cases hd : d = 0
      · simp only [hd, if_true] at hwf ⊢; exact step_getOrNew s a hwf
      · simp only [hd, if_false] at hwf ⊢
        exact step_field s a _ _ hwf True.intro True.intro (OriginSub.of_eq rfl)
    | setNonce a n =>
      have e : applyW s (.setNonce a n) = setNonce s a n := rfl
      rw [e, setNonce_eq] at hwf ⊢
      exact step_field s a _ _ hwf True.intro True.intro (OriginSub.of_eq rfl)
    | setCode a c =>
      have e : applyW s (.setCode a c) = setCode s a c := rfl
      rw [e, setCode_eq] at hwf ⊢
      exact step_field s a _ _ hwf True.intro True.intro (OriginSub.of_eq rfl)
    | suicide a =>
      obtain ⟨g1, g2, g3, g4, g5⟩ := getObj_shape s a
      have e : applyW s (.suicide a) = (suicide s a).1 := rfl
      rw [e] at hwf ⊢
      unfold suicide at hwf ⊢
      rcases hg : getObj s a with ⟨s1, _ | o⟩
      · have e1 : (getObj s a).1 = s1 := by rw [hg]
        rw [e1] at g1 g2
        rw [hg] at hwf
        dsimp only at hwf ⊢
        exact step_of_grows hwf [] (by simp [g1]) (by simp) True.intro g2
      · have e1 : (getObj s a).1 = s1 := by rw [hg]
        have e2 : (getObj s a).2 = some o := by rw [hg]
        rw [e1] at g1 g2
        rw [hg] at hwf
        dsimp only at hwf ⊢
        refine step_of_grows hwf [.suicide a o.suicided o.balance] (by simp [g1]) (by simp [EsOK]) ⟨True.intro, True.intro⟩ ?_
        refine grows_setObj (g2.trans (grows_of_same (t := append s1 (.suicide a o.suicided o.balance)) rfl rfl rfl)) a _ (fun o0 ho0 => ?_)
        have := g3 o0 ho0
        rw [e2] at this
        injection this with this
        subst this
        exact OriginSub.of_eq rfl
    | setState a k v =>
      have e : applyW s (.setState a k v) = setState s a k v := rfl
      rw [e, setState_eq] at hwf ⊢
      obtain ⟨w1, w2, w3⟩ := WF_getOrNew s a h
      by_cases hv : objState (getOrNew s a).1 a (getOrNew s a).2 k = v
      · simp only [hv, if_true] at hwf ⊢
        exact step_noentry s a _ hwf (touch_originSub _ a _ k)
      · simp only [hv, if_false] at hwf ⊢
        refine step_field s a _ _ hwf True.intro ?_ (fun k' hk' => touch_originSub (getOrNew s a).1 a (getOrNew s a).2 k k' hk')
        refine ⟨_, find_setObj_same _ _ _, ?_⟩
        have hw : WFObj (getOrNew s a).1.txStore a (getOrNew s a).2 := by rw [w2]; exact w3
        obtain ⟨_, _, w, hw'⟩ := WFObj_touchState (getOrNew s a).1 a (getOrNew s a).2 k hw
        show (AList.find? (touchState (getOrNew s a).1 a (getOrNew s a).2 k).origin k).isSome
        rw [hw']; rfl

/-! ### reads -/

theorem wf_modObj (s : S) (a : Nat) (f : Obj → Obj) (h : WF s) (hf : ∀ o, WFObj s.txStore a o → WFObj s.txStore a (f o)) :
    WF (modObj s a f) := by
  obtain ⟨w1, w2, w3⟩ := WF_getObj s a h
  unfold modObj
  rcases hg : getObj s a with ⟨s1, _ | o⟩
  · rw [hg] at w1; exact w1
  · rw [hg] at w1 w2 w3
    simp only at w1 w2 w3 ⊢
    refine WF_setObj s1 a (f o) w1 ?_
    rw [w2]
    exact hf o (w3 o rfl)

theorem grows_modObj' (t : S) (a : Nat) (f : Obj → Obj) (hf : ∀ o, OriginSub o (f o)) : Grows t (modObj t a f) := by
  obtain ⟨m1, m2, m3, m4⟩ := modObj_find t a f
  refine ⟨m1, m2, fun b o hb => ?_⟩
  by_cases hab : a = b
  · subst hab
    rw [m4, hb]
    exact ⟨f o, rfl, hf o⟩
  · rw [m3 b hab]; exact ⟨o, hb, OriginSub.refl o⟩

theorem cacheOrigin_originSub (s : S) (a : Nat) (o : Obj) (k : Nat) : OriginSub o (cacheOrigin s a o k) := by
  intro k' hk'
  unfold cacheOrigin
  cases ho : AList.find? o.origin k with
  | some w => exact hk'
  | none =>
    simp only
    by_cases e : k = k'
    · subst e; rw [AList.find?_set_self]; rfl
    · rw [AList.find?_set_ne _ _ _ _ e]; exact hk'

theorem step_read (s : S) (h : WF s) (r : ROp) : Step s (applyR s r) := by
  have hi := inert_read s r
  have hwf : WF (applyR s r) := by
    cases r with
    | acc a => show WF (readAcc s a).1; rw [readAcc_fst]; exact (WF_getObj s a h).1
    | state a k =>
      show WF (getState s a k).1; rw [getState_fst]
      exact wf_modObj s a _ h (fun o ho => (WFObj_touchState s a o k ho).1)
    | committed a k =>
      show WF (getCommitted s a k).1; rw [getCommitted_fst]
      exact wf_modObj s a _ h (fun o ho => (WFObj_cacheOrigin s a o k ho).1)
  have hg : Grows s (applyR s r) := by
    cases r with
    | acc a => show Grows s (readAcc s a).1; rw [readAcc_fst]; exact grows_getObj s a
    | state a k => show Grows s (getState s a k).1; rw [getState_fst]; exact grows_modObj' s a _ (fun o => touch_originSub s a o k)
    | committed a k =>
      show Grows s (getCommitted s a k).1; rw [getCommitted_fst]; exact grows_modObj' s a _ (fun o => cacheOrigin_originSub s a o k)
  exact step_of_grows hwf [] (by simp [hi.journal]) (by simp) True.intro hg

theorem WF_createAccount (s : S) (a : Nat) (h : WF s) : WF (createAccount s a) := by
  obtain ⟨w1, w2, _⟩ := WF_getObj s a h
  unfold createAccount
  rcases hg : getObj s a with ⟨s1, _ | prev⟩
  · rw [hg] at w1
    exact WF_setObj _ a {} (WF_append s1 _ w1) (WFObj_empty _ _ _ rfl rfl)
  · rw [hg] at w1
    exact WF_setObj _ a _ (WF_append s1 _ w1) (WFObj_empty _ _ _ rfl rfl)

theorem step_createAccount (s : S) (h : WF s) (a : Nat) : Step s (createAccount s a) := by
  have hwf := WF_createAccount s a h
  obtain ⟨g1, g2, g3, g4, g5⟩ := getObj_shape s a
  obtain ⟨_, w2, w3⟩ := WF_getObj s a h
  unfold createAccount at hwf ⊢
  rcases hg : getObj s a with ⟨s1, _ | prev⟩
  · have e1 : (getObj s a).1 = s1 := by rw [hg]
    have e2 : (getObj s a).2 = none := by rw [hg]
    rw [e1] at g1 g2
    rw [hg] at hwf
    dsimp only at hwf ⊢
    have hnone := g4 e2
    refine step_of_grows hwf [.createObject a] (by simp [g1]) ?_ ⟨True.intro, True.intro⟩ ?_
    · intro e he; simp only [List.mem_singleton] at he; subst he; exact hnone
    · exact grows_setObj (g2.trans (grows_of_same (t := append s1 (.createObject a)) rfl rfl rfl)) a {} (fun o ho => by rw [hnone] at ho; cases ho)
  · have e1 : (getObj s a).1 = s1 := by rw [hg]
    have e2 : (getObj s a).2 = some prev := by rw [hg]
    rw [e1] at g1 g2 w2
    rw [hg] at hwf
    dsimp only at hwf ⊢
    refine ⟨hwf, [.resetObject a prev], by simp [g1], ?_, ?_⟩
    · refine ⟨?_, True.intro⟩
      show WFObj s1.txStore a prev
      rw [w2]; exact w3 prev e2
    · simp only [List.reverse_cons, List.reverse_nil, List.nil_append, revertEntries, List.foldl_cons, List.foldl_nil]
      show Grows s (setObj (setObj (append s1 (.resetObject a prev)) a { balance := prev.balance }) a prev)
      have hbase : Grows s (setObj (append s1 (.resetObject a prev)) a prev) := by
        refine grows_setObj (g2.trans (grows_of_same (t := append s1 (.resetObject a prev)) rfl rfl rfl)) a prev (fun o0 ho0 => ?_)
        have := g3 o0 ho0
        rw [e2] at this
        injection this with this
        subst this
        exact OriginSub.refl _
      refine ⟨hbase.store, hbase.cache, fun b o hb => ?_⟩
      obtain ⟨o', f', e'⟩ := hbase.objs b o hb
      refine ⟨o', ?_, e'⟩
      by_cases hab : a = b
      · subst hab; rw [find_setObj_same] at f' ⊢; exact f'
      · rw [find_setObj_other _ _ _ _ hab] at f' ⊢
        rw [find_setObj_other _ _ _ _ hab]; exact f'

theorem step_snapshot (s : S) (h : WF s) : Step s (snapshot s).1 :=
  step_of_grows ⟨h.1, h.2⟩ [] (by simp [snapshot]) (by simp) True.intro (grows_of_same rfl rfl rfl)

/-! ### the invariant through reverted frames, and through any transaction body -/

theorem revertToSnapshot_explicit (s s2 : S) (hrev : RevOK s)
    (hr : ∃ ex, s2.revisions = (snapshot s).1.revisions ++ ex ∧ ∀ r ∈ ex, (snapshot s).1.nextRev ≤ r.1 ∧ r.1 < s2.nextRev) :
    revertToSnapshot s2 (snapshot s).2 =
      some { (revertTo s2 s.journal.length) with revisions := s2.revisions.filter (fun r => r.1 < s.nextRev) } := by
  obtain ⟨ex, hr, _⟩ := hr
  have hr' : s2.revisions = (s.revisions ++ [(s.nextRev, s.journal.length)]) ++ ex := hr
  have hid : (snapshot s).2 = s.nextRev := rfl
  have hfind := find_ge_appended2 s.revisions ex s.nextRev s.journal.length hrev
  unfold revertToSnapshot
  rw [hid, hr', hfind]
  simp

theorem inv_revert (s s2 : S) (es : List Entry) (hj : s2.journal = s.journal ++ es) (hi : Inv s2) (revs : List (Nat × Nat)) :
    Inv { (revertTo s2 s.journal.length) with revisions := revs } := by
  have hdrop : s2.journal.drop s.journal.length = es := by rw [hj]; simp
  have htake : s2.journal.take s.journal.length = s.journal := by rw [hj]; simp
  have hc := hi.2
  rw [hj, List.reverse_append, chk_append] at hc
  have hwfR : WF (revertEntries s2 es.reverse) := wf_chk _ s2 hi.1 hc.1
  have hg : Grows (revertEntries s2 es.reverse) { (revertTo s2 s.journal.length) with revisions := revs } := by
    refine grows_of_same ?_ ?_ ?_
    · show (revertEntries s2 (s2.journal.drop s.journal.length).reverse).txStore = _; rw [hdrop]
    · show (revertEntries s2 (s2.journal.drop s.journal.length).reverse).cache = _; rw [hdrop]
    · show (revertEntries s2 (s2.journal.drop s.journal.length).reverse).objs = _; rw [hdrop]
  refine ⟨⟨hg.cache.trans hwfR.1, fun a o ho => ?_⟩, ?_⟩
  · have ho' : AList.find? (revertEntries s2 (s2.journal.drop s.journal.length).reverse).objs a = some o := ho
    rw [hdrop] at ho'
    have := hwfR.2 a o ho'
    show WFObj (revertEntries s2 (s2.journal.drop s.journal.length).reverse).txStore a o
    rw [hdrop]; exact this
  · show Chk _ (s2.journal.take s.journal.length).reverse
    rw [htake]
    exact chk_mono _ hg hc.2

mutual
theorem runT_inv (b : Tree) (s : S) (hi : Inv s) (hrev : RevOK s) : ∃ s', runT s b = some s' ∧ Inv s' ∧ Ext2 s s' := by
  have hc : s.cache = none := hi.1.1
  cases b with
  | w op => exact ⟨applyW s op, rfl, inv_step hi (step_applyW s hi.1 op), ext2_write s hc op⟩
  | r op => exact ⟨applyR s op, rfl, inv_step hi (step_read s hi.1 op), ext2_of_inert (inert_read s op) hc⟩
  | create a => exact ⟨createAccount s a, rfl, inv_step hi (step_createAccount s hi.1 a), ext2_create s hc a⟩
  | frame ok body =>
    have x0 := ext2_snapshot s hc
    have i0 : Inv (snapshot s).1 := inv_step hi (step_snapshot s hi.1)
    obtain ⟨s2, hrun, i2, x2⟩ := runTL_inv body (snapshot s).1 i0 (x0.revOK hrev)
    cases ok with
    | true => exact ⟨s2, by simp only [runT, hrun]; rfl, i2, x0.trans x2⟩
    | false =>
      obtain ⟨s3, h3, x3, _, _, _⟩ := ext2_revert s s2 hc hrev x2
      have hexp := revertToSnapshot_explicit s s2 hrev x2.revs
      rw [hexp] at h3
      obtain ⟨es, hj, _, _⟩ := x2.undo
      have hj' : s2.journal = s.journal ++ es := hj
      have i3 := inv_revert s s2 es hj' i2 (s2.revisions.filter (fun r => r.1 < s.nextRev))
      have e3 := Option.some.inj h3
      rw [e3] at i3
      exact ⟨s3, by simp only [runT, hrun, hexp]; exact congrArg some e3, i3, x3⟩
theorem runTL_inv (bs : List Tree) (s : S) (hi : Inv s) (hrev : RevOK s) : ∃ s', runTL s bs = some s' ∧ Inv s' ∧ Ext2 s s' := by
  cases bs with
  | nil => exact ⟨s, rfl, hi, Ext2.refl s hi.1.1⟩
  | cons b t =>
    obtain ⟨s1, hr1, i1, x1⟩ := runT_inv b s hi hrev
    obtain ⟨s2, hr2, i2, x2⟩ := runTL_inv t s1 i1 (x1.revOK hrev)
    exact ⟨s2, by simp only [runTL, hr1]; exact hr2, i2, x1.trans x2⟩
end

/-- a fresh StateDB at the start of a transaction satisfies the invariant -/
theorem inv_fresh (st : Store) : Inv { txStore := st } := ⟨WF_fresh st, True.intro⟩

/-- **the StateDB is well-formed after any transaction body** (no precompile calls): writes, CreateAccount, frames nested to any
    depth, returning or failing, on any accounts -/
theorem wf_after_any_body (st : Store) (body : List Tree) :
    ∃ s', runTL { txStore := st } body = some s' ∧ WF s' ∧ s'.txStore = st := by
  obtain ⟨s', hr, hi, hx⟩ := runTL_inv body { txStore := st } (inv_fresh st) (fun r hr => by cases hr)
  exact ⟨s', hr, hi.1, hx.store⟩

/-- **C04 (partial) — what Commit persists after ANY transaction body without precompile calls.** The body is any tree of writes,
    `CreateAccount` calls and call frames nested to any depth, each returning or failing (so the journal has been reverted any number
    of times, accounts were loaded lazily, created and removed again).  The run completes; afterwards `Commit` stores, for every
    dirtied live account, exactly the StateDB's final view — nonce, code hash, whole-unibi balance and the current value of EVERY
    slot; it removes every dirtied self-destructed account; and it leaves every account alone that no surviving journal entry
    dirtied. -/
theorem C04_commit_after_any_body_partial (st : Store) (body : List Tree) :
    ∃ s', runTL { txStore := st } body = some s' ∧
      (∀ a o, AList.find? s'.objs a = some o → a ∈ s'.dirties.map (·.1) → o.suicided = false →
        (commit s').txStore.acct a = some { nonce := o.nonce, codeHash := o.codeHash, balance := Int.tdiv o.balance weiPerUnibi } ∧
        ∀ k, (commit s').txStore.slot a k = objState s' a o k) ∧
      (∀ a o, AList.find? s'.objs a = some o → a ∈ s'.dirties.map (·.1) → o.suicided = true →
        (commit s').txStore.acct a = none) ∧
      (∀ a, a ∉ s'.dirties.map (·.1) → (commit s').txStore.acct a = st.acct a ∧ ∀ k, (commit s').txStore.slot a k = st.slot a k) := by
  obtain ⟨s', hr, hwf, hst⟩ := wf_after_any_body st body
  refine ⟨s', hr, fun a o ho hd hs => commit_persists_view s' hwf a o ho hd hs,
    fun a o ho hd hs => (commit_deletes_suicided s' hwf.1 a o ho hd hs).1, fun a hd => ?_⟩
  have := commit_frame s' hwf.1 a hd
  rw [hst] at this
  exact this

/-- non-vacuity: the tree of SDBObs's witness (an account created inside a failed frame, a storage write reverted, nested frames)
    runs to completion from a fresh StateDB -/
example : ∃ s', runTL { txStore := demoStore } demoTree = some s' ∧ WF s' := by
  obtain ⟨s', hr, hwf, _⟩ := wf_after_any_body demoStore demoTree
  exact ⟨s', hr, hwf⟩

end Nibiru.SDB
