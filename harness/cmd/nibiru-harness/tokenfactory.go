package main

import (
	"errors"
	"fmt"
	"strings"

	sdkmath "cosmossdk.io/math"
	sdk "github.com/cosmos/cosmos-sdk/types"
	sdkerrors "github.com/cosmos/cosmos-sdk/types/errors"
	authtypes "github.com/cosmos/cosmos-sdk/x/auth/types"
	banktypes "github.com/cosmos/cosmos-sdk/x/bank/types"
	distrtypes "github.com/cosmos/cosmos-sdk/x/distribution/types"

	"github.com/NibiruChain/collections"

	"github.com/NibiruChain/nibiru/v2/x/common/testutil/testapp"
	tftypes "github.com/NibiruChain/nibiru/v2/x/tokenfactory/types"

	"verif/harness/internal/hx"
)

func init() { runners["tf"] = runTokenFactory }

func utok(s string) string {
	if s == "" {
		return "_"
	}
	return s
}

func tfErrClass(err error) string {
	switch {
	case err == nil:
		return "ok"
	case errors.Is(err, tftypes.ErrDenomAlreadyRegistered):
		return "exists"
	case errors.Is(err, tftypes.ErrGetAdmin), errors.Is(err, collections.ErrNotFound):
		return "notfound"
	case errors.Is(err, tftypes.ErrInvalidSender), errors.Is(err, tftypes.ErrUnauthorized):
		return "unauthorized"
	case errors.Is(err, tftypes.ErrBlockedAddress):
		return "blocked"
	case errors.Is(err, sdkerrors.ErrInsufficientFunds):
		return "insufficient"
	default:
		return "other:" + strings.ReplaceAll(err.Error(), " ", "_")
	}
}

func runTokenFactory(r *hx.R, n int, w *hx.W, _ []string) error {
	nibiru, ctx0 := testapp.NewNibiruTestAppAndContext()
	k := nibiru.TokenFactoryKeeper
	for c := 0; c < n; c++ {
		ctx, _ := ctx0.CacheContext()
		var accts []string
		var valid []string
		for i := 0; i < 4; i++ {
			b := make([]byte, 20)
			r.Read(b)
			a := sdk.AccAddress(b).String()
			accts = append(accts, a)
			valid = append(valid, a, strings.ToUpper(a))
		}
		modAddrs := []string{nibiru.AccountKeeper.GetModuleAddress(authtypes.FeeCollectorName).String(),
			nibiru.AccountKeeper.GetModuleAddress(distrtypes.ModuleName).String()}
		var blocked []string
		for _, m := range modAddrs {
			if nibiru.BankKeeper.BlockedAddr(sdk.MustAccAddressFromBech32(m)) {
				blocked = append(blocked, m)
			}
			valid = append(valid, m)
		}
		viewAccts := append(append([]string{}, accts...), modAddrs...)
		subs := []string{"aaa", "bbb", "x", "a-b.c_d", "a/b", "ab"}
		denoms := []string{"unibi", "ibc/AAA", "erc20/0xabc"}
		for i, a := range accts {
			denoms = append(denoms, "tf/"+a+"/aaa")
			if i < 2 {
				denoms = append(denoms, "tf/"+a+"/bbb", "tf/"+a+"/x", "tf/"+a+"/a-b.c_d", "tf/"+a+"/ab", "tf/"+a+"/a/b")
			}
		}
		denoms = append(denoms, "tf/"+strings.ToUpper(accts[0])+"/aaa", "tf//aaa", "tf/"+accts[0]+"/", "tf/"+accts[0], "tg/"+accts[0]+"/aaa",
			"tf/notanaddress/aaa", "TF/"+accts[1]+"/aaa")
		// initial funds
		var balItems, supItems []string
		for _, a := range accts {
			coins := sdk.NewCoins(sdk.NewInt64Coin("unibi", r.Range(1, 1000)), sdk.NewInt64Coin("ibc/AAA", r.Range(1, 1000)))
			if err := testapp.FundAccount(nibiru.BankKeeper, ctx, sdk.MustAccAddressFromBech32(a), coins); err != nil {
				return err
			}
		}
		for _, a := range viewAccts {
			for _, d := range denoms {
				b := nibiru.BankKeeper.GetBalance(ctx, sdk.MustAccAddressFromBech32(a), d).Amount
				if !b.IsZero() {
					balItems = append(balItems, fmt.Sprintf("%s|%s=%s", a, d, b))
				}
			}
		}
		for _, d := range denoms {
			supItems = append(supItems, fmt.Sprintf("%s=%s", d, nibiru.BankKeeper.GetSupply(ctx, d).Amount))
		}
		var metaItems []string
		for _, d := range denoms {
			if _, ok := nibiru.BankKeeper.GetDenomMetaData(ctx, d); ok {
				metaItems = append(metaItems, d)
			}
		}
		render := func() string {
			var sup, bal, adm []string
			for _, d := range denoms {
				sup = append(sup, fmt.Sprintf("%s=%s", d, nibiru.BankKeeper.GetSupply(ctx, d).Amount))
			}
			for _, a := range viewAccts {
				for _, d := range denoms {
					b := nibiru.BankKeeper.GetBalance(ctx, sdk.MustAccAddressFromBech32(a), d).Amount
					if !b.IsZero() {
						bal = append(bal, fmt.Sprintf("%s|%s=%s", a, d, b))
					}
				}
			}
			for _, d := range denoms {
				if m, err := k.Store.GetDenomAuthorityMetadata(ctx, d); err == nil {
					adm = append(adm, fmt.Sprintf("%s=%s", d, m.Admin))
				}
			}
			return fmt.Sprintf("S=%s B=%s A=%s", items(sup), items(bal), items(adm))
		}
		w.Step(fmt.Sprintf("tf reset VALID=%s BLOCKED=%s BAL=%s SUP=%s META=%s ACCTS=%s DENOMS=%s", items(valid), items(blocked), items(balItems),
			items(supItems), items(metaItems), items(viewAccts), items(denoms)), "ok "+render())

		pickAcct := func() string {
			switch r.Pick(12) {
			case 0:
				return "notanaddress"
			case 1:
				return modAddrs[r.Pick(len(modAddrs))]
			case 2:
				return strings.ToUpper(accts[r.Pick(2)])
			default:
				return accts[r.Pick(len(accts))]
			}
		}
		pickDenom := func() string {
			if r.Chance(3, 4) {
				return denoms[3+r.Pick(len(accts)+10)]
			}
			return denoms[r.Pick(len(denoms))]
		}
		pickAmt := func() int64 {
			switch r.Pick(8) {
			case 0:
				return 0
			case 1:
				return -r.Range(1, 5)
			case 2:
				return r.Range(500, 5000)
			default:
				return r.Range(1, 300)
			}
		}
		// run executes a message the way the chain does: ValidateBasic, then the handler on a branched store discarded on error
		run := func(vb func() error, h func(sdk.Context) error) string {
			return hx.Recover(func() string {
				if err := vb(); err != nil {
					return "invalid " + render()
				}
				cctx, commit := ctx.CacheContext()
				err := h(cctx)
				cls := tfErrClass(err)
				if err == nil {
					commit()
				}
				return cls + " " + render()
			})
		}
		// generator-side shadow of (denom -> admin), used only to aim at the interesting cases
		adminOf := map[string]string{}
		holder := map[string]string{}
		var created []string
		aim := func() (string, string) { // an existing denom and, mostly, its current admin
			if len(created) == 0 || r.Chance(1, 4) {
				return pickAcct(), pickDenom()
			}
			d := created[r.Pick(len(created))]
			if r.Chance(4, 5) {
				return adminOf[d], d
			}
			return pickAcct(), d
		}
		steps := 10 + r.Pick(50)
		for i := 0; i < steps; i++ {
			var op, res string
			switch c := r.Pick(16); {
			case c < 3:
				sender, sub := pickAcct(), subs[r.Pick(len(subs))]
				if r.Chance(1, 10) {
					sub = ""
				}
				msg := &tftypes.MsgCreateDenom{Sender: sender, Subdenom: sub}
				op = fmt.Sprintf("tf create %s %s", sender, utok(sub))
				res = run(msg.ValidateBasic, func(c sdk.Context) error { _, err := k.CreateDenom(c, msg); return err })
				if strings.HasPrefix(res, "ok") {
					d := "tf/" + sender + "/" + sub
					created = append(created, d)
					adminOf[d] = sender
				}
			case c < 5:
				sender, denom := aim()
				na := pickAcct()
				msg := &tftypes.MsgChangeAdmin{Sender: sender, Denom: denom, NewAdmin: na}
				op = fmt.Sprintf("tf changeAdmin %s %s %s", sender, denom, na)
				res = run(msg.ValidateBasic, func(c sdk.Context) error { _, err := k.ChangeAdmin(c, msg); return err })
				if strings.HasPrefix(res, "ok") {
					adminOf[denom] = na
				}
			case c < 9:
				sender, denom := aim()
				amt, to := pickAmt(), ""
				if r.Chance(1, 2) {
					to = pickAcct()
				}
				msg := &tftypes.MsgMint{Sender: sender, Coin: sdk.Coin{Denom: denom, Amount: sdkmath.NewInt(amt)}, MintTo: to}
				op = fmt.Sprintf("tf mint %s %s %d %s", sender, denom, amt, utok(to))
				res = run(msg.ValidateBasic, func(c sdk.Context) error { _, err := k.Mint(c, msg); return err })
				if strings.HasPrefix(res, "ok") {
					holder[denom] = to
					if to == "" {
						holder[denom] = sender
					}
				}
			case c < 12:
				sender, denom := aim()
				amt, from := pickAmt(), ""
				if r.Chance(1, 2) {
					from = pickAcct()
				}
				if h, ok := holder[denom]; ok && r.Chance(2, 3) {
					from, amt = h, r.Range(1, 120)
				}
				msg := &tftypes.MsgBurn{Sender: sender, Coin: sdk.Coin{Denom: denom, Amount: sdkmath.NewInt(amt)}, BurnFrom: from}
				op = fmt.Sprintf("tf burn %s %s %d %s", sender, denom, amt, utok(from))
				res = run(msg.ValidateBasic, func(c sdk.Context) error { _, err := k.Burn(c, msg); return err })
			case c < 14:
				sender, denom := aim()
				amt := pickAmt()
				if r.Chance(1, 2) {
					sender, denom = pickAcct(), denoms[r.Pick(2)]
				} else if h, ok := holder[denom]; ok && r.Chance(2, 3) {
					sender, amt = h, r.Range(1, 60) // a holder, usually not the admin, burning its own tf coins
				}
				msg := &tftypes.MsgBurnNative{Sender: sender, Coin: sdk.Coin{Denom: denom, Amount: sdkmath.NewInt(amt)}}
				op = fmt.Sprintf("tf burnNative %s %s %d", sender, denom, amt)
				res = run(msg.ValidateBasic, func(c sdk.Context) error { _, err := k.BurnNative(c, msg); return err })
			default:
				sender, base := aim()
				msg := &tftypes.MsgSetDenomMetadata{Sender: sender, Metadata: banktypes.Metadata{Base: base, Display: base, Name: base, Symbol: base,
					DenomUnits: []*banktypes.DenomUnit{{Denom: base, Exponent: 0}}}}
				op = fmt.Sprintf("tf setMeta %s %s", sender, base)
				res = run(msg.ValidateBasic, func(c sdk.Context) error { _, err := k.SetDenomMetadata(c, msg); return err })
			}
			w.Count(strings.Fields(op)[1] + ":" + strings.SplitN(res, " ", 2)[0])
			w.Step(op, res)
		}
	}
	return nil
}
