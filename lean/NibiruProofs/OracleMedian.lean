/-
  Helper lemmas for C10: the weighted-median scan over a rate-sorted ballot.
-/
import NibiruModel.Oracle
namespace Nibiru.Oracle

theorem sumInts_append (a b : List Int) : sumInts (a ++ b) = sumInts a + sumInts b := by
  induction a with
  | nil => simp [sumInts]
  | cons x xs ih => simp [sumInts, ih]; omega

theorem sumInts_perm {a b : List Int} (h : a.Perm b) : sumInts a = sumInts b := by
  induction h with
  | nil => rfl
  | cons x _ ih => simp [sumInts, ih]
  | swap x y l => simp [sumInts]; omega
  | trans _ _ ih1 ih2 => rw [ih1, ih2]

/-- total power of the votes whose rate satisfies `p` -/
def powerWhere (p : Int → Bool) (l : List BVote) : Int := sumInts ((l.filter (fun v => p v.rate)).map (·.power))

theorem powerWhere_perm (p : Int → Bool) {a b : List BVote} (h : a.Perm b) : powerWhere p a = powerWhere p b :=
  sumInts_perm ((h.filter _).map _)

theorem powerWhere_cons (p : Int → Bool) (v : BVote) (l : List BVote) :
    powerWhere p (v :: l) = (if p v.rate then v.power else 0) + powerWhere p l := by
  unfold powerWhere
  by_cases h : p v.rate <;> simp [List.filter, h, sumInts]

theorem ballotPower_cons (v : BVote) (l : List BVote) : ballotPower (v :: l) = v.power + ballotPower l := by
  simp [ballotPower, sumInts]

theorem ballotPower_perm {a b : List BVote} (h : a.Perm b) : ballotPower a = ballotPower b :=
  sumInts_perm (h.map _)

def NonnegPowers (l : List BVote) : Prop := ∀ v ∈ l, 0 ≤ v.power

theorem powerWhere_nonneg (p : Int → Bool) (l : List BVote) (h : NonnegPowers l) : 0 ≤ powerWhere p l := by
  induction l with
  | nil => simp [powerWhere, sumInts]
  | cons v vs ih =>
    rw [powerWhere_cons]
    have h1 := h v (List.mem_cons_self)
    have h2 := ih (fun x hx => h x (List.mem_cons_of_mem _ hx))
    split <;> omega

theorem powerWhere_le_total (p : Int → Bool) (l : List BVote) (h : NonnegPowers l) : powerWhere p l ≤ ballotPower l := by
  induction l with
  | nil => simp [powerWhere, ballotPower, sumInts]
  | cons v vs ih =>
    rw [powerWhere_cons, ballotPower_cons]
    have h1 := h v (List.mem_cons_self)
    have h2 := ih (fun x hx => h x (List.mem_cons_of_mem _ hx))
    split <;> omega

def Sorted (l : List BVote) : Prop := l.Pairwise (fun a b => a.rate ≤ b.rate)

/-- What the scan returns, as a specification that does not mention the order of ties:
    `m` is the rate of a vote in the ballot, the votes with rate ≤ m carry at least `half` (counting what was scanned before),
    and for every smaller rate that occurs, the votes up to it carry less than `half`. -/
structure ScanSpec (half pivot : Int) (l : List BVote) (m : Int) : Prop where
  mem : ∃ v ∈ l, v.rate = m
  reach : half ≤ pivot + powerWhere (fun r => decide (r ≤ m)) l
  least : ∀ v ∈ l, v.rate < m → pivot + powerWhere (fun r => decide (r ≤ v.rate)) l < half

theorem powerWhere_all_gt (l : List BVote) (x : Int) (h : ∀ v ∈ l, x < v.rate) :
    powerWhere (fun r => decide (r ≤ x)) l = 0 := by
  induction l with
  | nil => simp [powerWhere, sumInts]
  | cons v vs ih =>
    rw [powerWhere_cons, ih (fun y hy => h y (List.mem_cons_of_mem _ hy))]
    have := h v (List.mem_cons_self)
    have : ¬ (v.rate ≤ x) := by omega
    simp [this]

/-- the scan meets its specification on a sorted ballot whose remaining power reaches `half` -/
theorem medianScan_spec (half : Int) (l : List BVote) (pivot : Int) (hs : Sorted l) (hnn : NonnegPowers l)
    (hreach : half ≤ pivot + ballotPower l) (hne : l ≠ []) :
    ScanSpec half pivot l (medianScan half pivot l) := by
  induction l generalizing pivot with
  | nil => exact absurd rfl hne
  | cons v vs ih =>
    have hsv := (List.pairwise_cons.mp hs)
    have hv0 := hnn v (List.mem_cons_self)
    have hnn' : NonnegPowers vs := fun x hx => hnn x (List.mem_cons_of_mem _ hx)
    unfold medianScan
    by_cases hhit : pivot + v.power ≥ half
    · simp only [hhit, if_true]
      refine ⟨⟨v, List.mem_cons_self, rfl⟩, ?_, ?_⟩
      · rw [powerWhere_cons]
        have := powerWhere_nonneg (fun r => decide (r ≤ v.rate)) vs hnn'
        simp; omega
      · intro x hx hlt
        rcases List.mem_cons.mp hx with h | h
        · subst h; omega
        · have := hsv.1 x h; omega
    · simp only [hhit, if_false]
      have hvs : vs ≠ [] := by
        intro h; subst h; simp [ballotPower, sumInts] at hreach; omega
      have hreach' : half ≤ (pivot + v.power) + ballotPower vs := by
        rw [ballotPower_cons] at hreach; omega
      have ih' := ih (pivot + v.power) hsv.2 hnn' hreach' hvs
      obtain ⟨⟨w, hw, hwm⟩, hr, hl⟩ := ih'
      have hvw : v.rate ≤ medianScan half (pivot + v.power) vs := by rw [← hwm]; exact hsv.1 w hw
      refine ⟨⟨w, List.mem_cons_of_mem _ hw, hwm⟩, ?_, ?_⟩
      · rw [powerWhere_cons]; simp [hvw]; omega
      · intro x hx hlt
        rcases List.mem_cons.mp hx with h | h
        · subst h
          rw [powerWhere_cons]
          simp only [Int.le_refl, decide_true, if_true]
          -- the other votes with rate ≤ x.rate: either none, or bounded through the induction hypothesis
          by_cases hex : ∃ y ∈ vs, y.rate ≤ x.rate
          · obtain ⟨y, hy, hyx⟩ := hex
            have hxy : x.rate ≤ y.rate := hsv.1 y hy
            have heq : y.rate = x.rate := by omega
            have := hl y hy (by omega)
            rw [heq] at this; omega
          · have : ∀ y ∈ vs, x.rate < y.rate := by
              intro y hy
              by_cases hh : y.rate ≤ x.rate
              · exact absurd ⟨y, hy, hh⟩ hex
              · omega
            rw [powerWhere_all_gt vs x.rate this]; omega
        · rw [powerWhere_cons]
          have hvx : v.rate ≤ x.rate := hsv.1 x h
          have := hl x h hlt
          simp [hvx]; omega

/-- the specification determines the result (so it does not depend on how ties were ordered, nor on the store order) -/
theorem ScanSpec_unique (half : Int) (a b : List BVote) (hp : a.Perm b) (m₁ m₂ : Int)
    (h1 : ScanSpec half 0 a m₁) (h2 : ScanSpec half 0 b m₂) : m₁ = m₂ := by
  by_cases hlt : m₁ < m₂
  · obtain ⟨v, hv, hvm⟩ := h1.mem
    have hvb : v ∈ b := hp.subset hv
    have := h2.least v hvb (by omega)
    have hr := h1.reach
    rw [powerWhere_perm _ hp, ← hvm] at hr
    omega
  · by_cases hgt : m₂ < m₁
    · obtain ⟨v, hv, hvm⟩ := h2.mem
      have hva : v ∈ a := hp.symm.subset hv
      have := h1.least v hva (by omega)
      have hr := h2.reach
      rw [← powerWhere_perm _ hp, ← hvm] at hr
      omega
    · omega

end Nibiru.Oracle

namespace Nibiru.Oracle

/-- with a pivot still below `half`, the votes strictly below the result carry less than `half`, and the vote that is
    hit has positive power -/
theorem medianScan_below (half : Int) (l : List BVote) (pivot : Int) (hs : Sorted l) (hnn : NonnegPowers l)
    (hreach : half ≤ pivot + ballotPower l) (hp : pivot < half) :
    pivot + powerWhere (fun r => decide (r < medianScan half pivot l)) l < half ∧
    ∃ v ∈ l, v.rate = medianScan half pivot l ∧ 0 < v.power := by
  induction l generalizing pivot with
  | nil => simp [ballotPower, sumInts] at hreach; omega
  | cons v vs ih =>
    have hsv := (List.pairwise_cons.mp hs)
    have hv0 := hnn v (List.mem_cons_self)
    have hnn' : NonnegPowers vs := fun x hx => hnn x (List.mem_cons_of_mem _ hx)
    unfold medianScan
    by_cases hhit : pivot + v.power ≥ half
    · simp only [hhit, if_true]
      constructor
      · have hz : powerWhere (fun r => decide (r < v.rate)) (v :: vs) = 0 := by
          rw [powerWhere_cons]
          have : powerWhere (fun r => decide (r < v.rate)) vs = 0 := by
            clear ih hreach hs hnn
            induction vs with
            | nil => simp [powerWhere, sumInts]
            | cons y ys ih2 =>
              rw [powerWhere_cons, ih2 ⟨fun a ha => hsv.1 a (List.mem_cons_of_mem _ ha), (List.pairwise_cons.mp hsv.2).2⟩
                (fun x hx => hnn' x (List.mem_cons_of_mem _ hx))]
              have := hsv.1 y (List.mem_cons_self)
              have : ¬ (y.rate < v.rate) := by omega
              simp [this]
          rw [this]; simp
        omega
      · exact ⟨v, List.mem_cons_self, rfl, by omega⟩
    · simp only [hhit, if_false]
      have hreach' : half ≤ (pivot + v.power) + ballotPower vs := by
        rw [ballotPower_cons] at hreach; omega
      obtain ⟨h1, w, hw, hwm, hwp⟩ := ih (pivot + v.power) hsv.2 hnn' hreach' (by omega)
      refine ⟨?_, w, List.mem_cons_of_mem _ hw, hwm, hwp⟩
      rw [powerWhere_cons]
      split <;> omega

theorem powerWhere_split (l : List BVote) (m : Int) :
    powerWhere (fun r => decide (r ≤ m)) l + powerWhere (fun r => decide (m < r)) l = ballotPower l := by
  induction l with
  | nil => simp [powerWhere, ballotPower, sumInts]
  | cons v vs ih =>
    rw [powerWhere_cons, powerWhere_cons, ballotPower_cons]
    by_cases h : v.rate ≤ m
    · have : ¬ (m < v.rate) := by omega
      simp [h, this]; omega
    · have : m < v.rate := by omega
      simp [h, this]; omega

/-! ### the insertion sort used by the model produces a sorted permutation -/

theorem insertBy_perm (x : BVote) (l : List BVote) :
    (insertBy (fun a b => decide (a.rate ≤ b.rate)) x l).Perm (x :: l) := by
  induction l with
  | nil => exact List.Perm.refl _
  | cons y ys ih =>
    unfold insertBy
    split
    · exact List.Perm.refl _
    · exact ((List.Perm.cons y ih).trans (List.Perm.swap x y ys))

theorem sortBallot_perm (l : List BVote) : (sortBallot l).Perm l := by
  induction l with
  | nil => exact List.Perm.refl _
  | cons x xs ih =>
    show (insertBy _ x (sortBy _ xs)).Perm (x :: xs)
    exact (insertBy_perm x _).trans (List.Perm.cons x ih)

theorem insertBy_sorted (x : BVote) (l : List BVote) (h : Sorted l) :
    Sorted (insertBy (fun a b => decide (a.rate ≤ b.rate)) x l) := by
  induction l with
  | nil => simp [insertBy, Sorted]
  | cons y ys ih =>
    have hy := List.pairwise_cons.mp h
    unfold insertBy
    by_cases hxy : x.rate ≤ y.rate
    · simp only [hxy, decide_true, if_true]
      apply List.pairwise_cons.mpr
      refine ⟨?_, h⟩
      intro a ha
      rcases List.mem_cons.mp ha with h1 | h1
      · subst h1; exact hxy
      · have := hy.1 a h1; omega
    · simp only [hxy, decide_false, Bool.false_eq_true, if_false]
      apply List.pairwise_cons.mpr
      refine ⟨?_, ih hy.2⟩
      intro a ha
      have := (insertBy_perm x ys).subset ha
      rcases List.mem_cons.mp this with h1 | h1
      · subst h1; omega
      · exact hy.1 a h1

theorem sortBallot_sorted (l : List BVote) : Sorted (sortBallot l) := by
  induction l with
  | nil => simp [sortBallot, sortBy, Sorted]
  | cons x xs ih => exact insertBy_sorted x _ ih

theorem NonnegPowers_perm {a b : List BVote} (h : a.Perm b) (hb : NonnegPowers b) : NonnegPowers a :=
  fun v hv => hb v (h.subset hv)

end Nibiru.Oracle
