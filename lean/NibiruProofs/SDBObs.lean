/-
  SDBObs — the frame theorems without the "touched accounts are cached" hypothesis.

  `Obs s s'`: two StateDBs without a cache context answer every read alike — for EVERY address the account `getStateObject` would
  hand out (cached object, else what it loads from the store, else nothing) is the same up to observational equality, and the
  counters agree.  Reverting any journal entry other than `PrecompileCalled` respects `Obs` (`revertEntry_obs`), and every write call
  on ANY account — cached, lazily loaded, or absent and created by the write (`createObjectChange`) — appends entries whose
  reversal, newest first, leads back to an `Obs`-equal state (`undoW_obs`).  With that, the tree induction of SDBNested goes
  through with no side condition on the accounts: frames may load accounts for the first time and may create accounts that
  the revert then removes again; `CreateAccount` is a body item.
-/
import NibiruProofs.SDBNested

namespace Nibiru.SDB
open Nibiru

/-! ### observational equality of what `getStateObject` hands out -/

def OptEqv (st : Store) (a : Nat) : Option Obj → Option Obj → Prop
  | some o, some o' => ObjEqv st a o o'
  | none, none => True
  | _, _ => False

theorem OptEqv.refl (st : Store) (a : Nat) (x : Option Obj) : OptEqv st a x x := by
  cases x with
  | none => exact True.intro
  | some o => exact ObjEqv.refl st a o

theorem OptEqv.trans {st : Store} {a : Nat} {x y z : Option Obj} (h1 : OptEqv st a x y) (h2 : OptEqv st a y z) : OptEqv st a x z := by
  cases x <;> cases y <;> cases z <;>
    first | exact True.intro | exact False.elim h1 | exact False.elim h2 | exact ObjEqv.trans h1 h2

/-- the counters and the store of `s'` are those of `s` -/
structure Core (s s' : S) : Prop where
  store : s'.txStore = s.txStore
  refund : s'.refund = s.refund
  logs : s'.logs = s.logs
  alA : s'.alAddrs = s.alAddrs
  alS : s'.alSlots = s.alSlots

theorem Core.refl (s : S) : Core s s := ⟨rfl, rfl, rfl, rfl, rfl⟩
theorem Core.symm {s s' : S} (h : Core s s') : Core s' s := ⟨h.store.symm, h.refund.symm, h.logs.symm, h.alA.symm, h.alS.symm⟩
theorem Core.trans {s1 s2 s3 : S} (h1 : Core s1 s2) (h2 : Core s2 s3) : Core s1 s3 :=
  ⟨h2.store.trans h1.store, h2.refund.trans h1.refund, h2.logs.trans h1.logs, h2.alA.trans h1.alA, h2.alS.trans h1.alS⟩

structure Obs (s s' : S) : Prop where
  cacheL : s.cache = none
  cacheR : s'.cache = none
  core : Core s s'
  objs : ∀ a, OptEqv s.txStore a (objOf s a) (objOf s' a)

theorem Obs.refl (s : S) (hc : s.cache = none) : Obs s s := ⟨hc, hc, Core.refl s, fun a => OptEqv.refl _ _ _⟩

theorem Obs.trans {s1 s2 s3 : S} (h1 : Obs s1 s2) (h2 : Obs s2 s3) : Obs s1 s3 := by
  refine ⟨h1.cacheL, h2.cacheR, h1.core.trans h2.core, fun a => ?_⟩
  have e := h2.objs a
  rw [h1.core.store] at e
  exact (h1.objs a).trans e

/-- same store, same counters, and pointwise the same `objOf` -/
theorem obs_of_pointwise {s s' : S} (hc : s.cache = none) (hc' : s'.cache = none) (c : Core s s')
    (h : ∀ b, objOf s' b = objOf s b) : Obs s s' :=
  ⟨hc, hc', c, fun a => by rw [h a]; exact OptEqv.refl _ _ _⟩

theorem objOf_none_load (s : S) (a : Nat) (h : objOf s a = none) : AList.find? s.objs a = none ∧ loadObj s.txStore a = none := by
  unfold objOf at h
  cases hf : AList.find? s.objs a with
  | some o => rw [hf] at h; cases h
  | none => rw [hf] at h; exact ⟨rfl, h⟩

/-! ### `modObj`: the shape of every field entry's Revert -/

def modObj (s : S) (a : Nat) (f : Obj → Obj) : S :=
  match getObj s a with
  | (s1, some o) => setObj s1 a (f o)
  | (s1, none) => s1

theorem modObj_spec (s : S) (hc : s.cache = none) (a : Nat) (f : Obj → Obj) :
    (∀ b, objOf (modObj s a f) b = if a = b then (objOf s a).map f else objOf s b) ∧ Core s (modObj s a f) ∧
    (modObj s a f).cache = none := by
  obtain ⟨h1, h2, h3, h4, h5, h6, h7, h8⟩ := getObj_spec s hc a
  unfold modObj
  rcases hg : getObj s a with ⟨s1, _ | o⟩
  · rw [hg] at h1 h2 h3 h4 h5 h6 h7 h8
    simp only at h1 h2 h3 h4 h5 h6 h7 h8 ⊢
    refine ⟨fun b => ?_, ⟨h3, h5, h6, h7, h8⟩, h4⟩
    rw [h2 b]
    by_cases hab : a = b
    · subst hab; simp only [if_true]; rw [← h1]; rfl
    · simp only [hab, if_false]
  · rw [hg] at h1 h2 h3 h4 h5 h6 h7 h8
    simp only at h1 h2 h3 h4 h5 h6 h7 h8 ⊢
    refine ⟨fun b => ?_, ⟨h3, h5, h6, h7, h8⟩, h4⟩
    rw [objOf_setObj]
    by_cases hab : a = b
    · subst hab; simp only [if_true]; rw [← h1]; rfl
    · simp only [hab, if_false]; exact h2 b

theorem obs_modObj {s s' : S} (h : Obs s s') (a : Nat) (f : Obj → Obj)
    (hf : ∀ o o', ObjEqv s.txStore a o o' → ObjEqv s.txStore a (f o) (f o')) : Obs (modObj s a f) (modObj s' a f) := by
  obtain ⟨m1, c1, k1⟩ := modObj_spec s h.cacheL a f
  obtain ⟨m2, c2, k2⟩ := modObj_spec s' h.cacheR a f
  refine ⟨k1, k2, c1.symm.trans (h.core.trans c2), fun b => ?_⟩
  rw [m1 b, m2 b, c1.store]
  by_cases hab : a = b
  · subst hab
    simp only [if_true]
    have e := h.objs a
    cases hx : objOf s a <;> cases hy : objOf s' a <;> rw [hx, hy] at e
    · exact True.intro
    · exact False.elim e
    · exact False.elim e
    · exact hf _ _ e
  · simp only [hab, if_false]
    exact h.objs b

/-! ### Revert respects `Obs` (every entry but `PrecompileCalled`) -/

def Entry.plain : Entry → Bool
  | .precompile _ => false
  | _ => true

theorem objOf_erase (s : S) (a b : Nat) :
    objOf { s with objs := AList.erase s.objs a } b = if a = b then loadObj s.txStore a else objOf s b := by
  unfold objOf
  by_cases hab : a = b
  · subst hab; simp only [if_true]; rw [AList.find?_erase_self]
  · simp only [hab, if_false]; rw [AList.find?_erase_ne _ _ _ hab]

theorem revertEntry_obs {s s' : S} (h : Obs s s') (e : Entry) (he : e.plain = true) : Obs (revertEntry s e) (revertEntry s' e) := by
  cases e with
  | precompile c => cases he
  | createObject a =>
    refine ⟨h.cacheL, h.cacheR, ⟨h.core.store, h.core.refund, h.core.logs, h.core.alA, h.core.alS⟩, fun b => ?_⟩
    show OptEqv s.txStore b (objOf { s with objs := AList.erase s.objs a } b) (objOf { s' with objs := AList.erase s'.objs a } b)
    rw [objOf_erase, objOf_erase, h.core.store]
    by_cases hab : a = b
    · simp only [hab, if_true]; exact OptEqv.refl _ _ _
    · simp only [hab, if_false]; exact h.objs b
  | resetObject a p =>
    refine ⟨h.cacheL, h.cacheR, ⟨h.core.store, h.core.refund, h.core.logs, h.core.alA, h.core.alS⟩, fun b => ?_⟩
    show OptEqv s.txStore b (objOf (setObj s a p) b) (objOf (setObj s' a p) b)
    rw [objOf_setObj, objOf_setObj]
    by_cases hab : a = b
    · simp only [hab, if_true]; exact ObjEqv.refl _ _ _
    · simp only [hab, if_false]; exact h.objs b
  | refund p => exact ⟨h.cacheL, h.cacheR, ⟨h.core.store, rfl, h.core.logs, h.core.alA, h.core.alS⟩, h.objs⟩
  | addLog => exact ⟨h.cacheL, h.cacheR, ⟨h.core.store, h.core.refund, by simp [revertEntry, h.core.logs], h.core.alA, h.core.alS⟩, h.objs⟩
  | alAddr a => exact ⟨h.cacheL, h.cacheR, ⟨h.core.store, h.core.refund, h.core.logs, by simp [revertEntry, h.core.alA], h.core.alS⟩, h.objs⟩
  | alSlot a k => exact ⟨h.cacheL, h.cacheR, ⟨h.core.store, h.core.refund, h.core.logs, h.core.alA, by simp [revertEntry, h.core.alS]⟩, h.objs⟩
  | balance a p =>
    exact obs_modObj h a (fun o => { o with balance := p })
      (fun o o' eo => ⟨rfl, eo.2.1, eo.2.2.1, eo.2.2.2.1, eo.2.2.2.2.1, eo.2.2.2.2.2⟩)
  | nonce a p =>
    exact obs_modObj h a (fun o => { o with nonce := p })
      (fun o o' eo => ⟨eo.1, rfl, eo.2.2.1, eo.2.2.2.1, eo.2.2.2.2.1, eo.2.2.2.2.2⟩)
  | code a p =>
    exact obs_modObj h a (fun o => { o with codeHash := p, dirtyCode := true })
      (fun o o' eo => ⟨eo.1, eo.2.1, rfl, eo.2.2.2.1, eo.2.2.2.2.1, eo.2.2.2.2.2⟩)
  | suicide a p pb =>
    exact obs_modObj h a (fun o => { o with suicided := p, balance := pb })
      (fun o o' eo => ⟨rfl, eo.2.1, eo.2.2.1, rfl, eo.2.2.2.2.1, eo.2.2.2.2.2⟩)
  | storage a k p =>
    refine obs_modObj h a (fun o => { o with dirty := AList.set o.dirty k p }) (fun o o' eo => ?_)
    refine ⟨eo.1, eo.2.1, eo.2.2.1, eo.2.2.2.1, eo.2.2.2.2.1, ?_⟩
    intro k'
    by_cases hk : k = k'
    · subst hk; simp [AList.find?_set_self]
    · simp only [AList.find?_set_ne _ _ _ _ hk]
      exact eo.2.2.2.2.2 k'

theorem revertEntries_obs (es : List Entry) (hes : ∀ e ∈ es, e.plain = true) {s s' : S} (h : Obs s s') :
    Obs (revertEntries s es) (revertEntries s' es) := by
  induction es generalizing s s' with
  | nil => exact h
  | cons e t ih =>
    simp only [revertEntries, List.foldl_cons]
    exact ih (fun x hx => hes x (List.mem_cons_of_mem _ hx)) (revertEntry_obs h e (hes e (List.mem_cons_self ..)))

/-! ### every write call can be undone — on any account -/

/-- the call appended `es`; reverting them newest first gives a state that answers every read as `s` does -/
def UndoObs (s s1 : S) : Prop :=
  ∃ es, s1.journal = s.journal ++ es ∧ (∀ e ∈ es, e.plain = true) ∧ Obs (revertEntries s1 es.reverse) s

theorem obs_intro {x s : S} (kx : x.cache = none) (hc : s.cache = none) (c : Core s x)
    (h : ∀ b, OptEqv s.txStore b (objOf x b) (objOf s b)) : Obs x s :=
  ⟨kx, hc, c.symm, fun b => by rw [c.store]; exact h b⟩

theorem getOrNew_journal (s : S) (hc : s.cache = none) (a : Nat) :
    (∀ o, objOf s a = some o → (getOrNew s a).1.journal = s.journal) ∧
    (objOf s a = none → (getOrNew s a).1.journal = s.journal ++ [.createObject a]) := by
  obtain ⟨h1, _⟩ := getObj_spec s hc a
  obtain ⟨_, _, hj⟩ := getObj_revisions s a
  unfold getOrNew
  rcases hg : getObj s a with ⟨s1, _ | o⟩
  · rw [hg] at h1 hj
    simp only at h1 hj ⊢
    refine ⟨fun o ho => ?_, fun _ => ?_⟩
    · rw [← h1] at ho; cases ho
    · show s1.journal ++ [Entry.createObject a] = _
      rw [hj]
  · rw [hg] at h1 hj
    simp only at h1 hj ⊢
    refine ⟨fun _ _ => hj, fun hn => ?_⟩
    rw [← h1] at hn; cases hn

/-- the common end of every account write: after reverting the entries the call appended behind `getOrNew`'s, the state `R` differs
    from `s` only in holding, at `a`, something equivalent to the object `getOrNew` returned; the `createObjectChange` (if the
    account did not exist) is reverted last and removes it again -/
theorem undo_close (s : S) (hc : s.cache = none) (a : Nat) (X R : S) (mid : List Entry)
    (hj : X.journal = (getOrNew s a).1.journal ++ mid) (hmid : ∀ e ∈ mid, e.plain = true)
    (hR : revertEntries X mid.reverse = R) (kR : R.cache = none) (cR : Core s R)
    (hRo : ∀ b, a ≠ b → objOf R b = objOf s b) (r : Obj) (hRa : objOf R a = some r)
    (hr : ObjEqv s.txStore a r (getOrNew s a).2) : UndoObs s X := by
  obtain ⟨j1, j2⟩ := getOrNew_journal s hc a
  have g2 := (getOrNew_spec s hc a).1
  cases hx : objOf s a with
  | some o =>
    refine ⟨mid, by rw [hj, j1 o hx], hmid, ?_⟩
    rw [hR]
    refine obs_intro kR hc cR (fun b => ?_)
    by_cases hab : a = b
    · subst hab
      rw [hRa, hx]
      rw [g2, hx] at hr
      exact hr
    · rw [hRo b hab]; exact OptEqv.refl _ _ _
  | none =>
    refine ⟨.createObject a :: mid, by rw [hj, j2 hx]; simp, ?_, ?_⟩
    · intro e he
      rcases List.mem_cons.mp he with h | h
      · subst h; rfl
      · exact hmid e h
    · rw [List.reverse_cons, revertEntries_append, hR]
      show Obs { R with objs := AList.erase R.objs a } s
      refine obs_intro kR hc ⟨cR.store, cR.refund, cR.logs, cR.alA, cR.alS⟩ (fun b => ?_)
      rw [objOf_erase]
      by_cases hab : a = b
      · subst hab
        simp only [if_true]
        rw [cR.store, (objOf_none_load s a hx).2, hx]
        exact True.intro
      · simp only [hab, if_false]
        rw [hRo b hab]; exact OptEqv.refl _ _ _

/-- a write that journals one field entry behind `getOrNew` -/
theorem undo_field (s : S) (hc : s.cache = none) (a : Nat) (e : Entry) (u : Obj → Obj) (o' : Obj)
    (hre : ∀ t, revertEntry t e = modObj t a u) (hp : e.plain = true)
    (hu : ObjEqv s.txStore a (u o') (getOrNew s a).2) :
    UndoObs s (setObj (append (getOrNew s a).1 e) a o') := by
  obtain ⟨_, g2, _, g4, g5, g6, g7, g8, g9⟩ := getOrNew_spec s hc a
  have kX : (setObj (append (getOrNew s a).1 e) a o').cache = none := g5
  obtain ⟨m1, c1, k1⟩ := modObj_spec (setObj (append (getOrNew s a).1 e) a o') kX a u
  have cX : Core s (setObj (append (getOrNew s a).1 e) a o') := ⟨g4, g6, g7, g8, g9⟩
  refine undo_close s hc a _ (modObj (setObj (append (getOrNew s a).1 e) a o') a u) [e] rfl
    (by intro x hx; simp only [List.mem_singleton] at hx; subst hx; exact hp)
    (by simp only [List.reverse_cons, List.reverse_nil, List.nil_append, revertEntries, List.foldl_cons, List.foldl_nil]; exact hre _)
    k1 (Core.trans cX c1) (fun b hab => ?_) (u o') ?_ hu
  · rw [m1 b]; simp only [hab, if_false]
    rw [objOf_setObj]; simp only [hab, if_false]
    rw [objOf_append]; exact g2 b hab
  · rw [m1 a]; simp only [if_true]
    rw [objOf_setObj]; simp

/-- a write that replaces the object behind `getOrNew` without a journal entry of its own -/
theorem undo_noentry (s : S) (hc : s.cache = none) (a : Nat) (o' : Obj)
    (hu : ObjEqv s.txStore a o' (getOrNew s a).2) : UndoObs s (setObj (getOrNew s a).1 a o') := by
  obtain ⟨_, g2, _, g4, g5, g6, g7, g8, g9⟩ := getOrNew_spec s hc a
  refine undo_close s hc a _ (setObj (getOrNew s a).1 a o') [] (by simp) (by simp) rfl g5 ⟨g4, g6, g7, g8, g9⟩
    (fun b hab => ?_) o' ?_ hu
  · rw [objOf_setObj]; simp only [hab, if_false]; exact g2 b hab
  · rw [objOf_setObj]; simp

theorem undo_getOrNew (s : S) (hc : s.cache = none) (a : Nat) : UndoObs s (getOrNew s a).1 := by
  obtain ⟨_, g2, g3, g4, g5, g6, g7, g8, g9⟩ := getOrNew_spec s hc a
  exact undo_close s hc a _ (getOrNew s a).1 [] (by simp) (by simp) rfl g5 ⟨g4, g6, g7, g8, g9⟩ g2 _ g3 (ObjEqv.refl _ _ _)

theorem getOrNew_of_some (s : S) (hc : s.cache = none) (a : Nat) (o : Obj) (h : objOf s a = some o) :
    getOrNew s a = ((getObj s a).1, o) := by
  obtain ⟨h1, _⟩ := getObj_spec s hc a
  unfold getOrNew
  rcases hg : getObj s a with ⟨s1, _ | o2⟩
  · rw [hg] at h1; simp only at h1; rw [← h1] at h; cases h
  · rw [hg] at h1; simp only at h1; rw [← h1] at h; injection h with h; subst h; rfl

theorem undoW_obs (s : S) (hc : s.cache = none) (w : WOp) : UndoObs s (applyW s w) := by
  cases hacct : w.acct with
  | none =>
    -- the global counters: the cached-accounts theorem with no accounts at all, and the objects are untouched
    have hcache : Cached [] s := fun a ha => by cases ha
    obtain ⟨es, hj, hon, _, he⟩ := undoW (A := []) s hcache w (fun a ha => by rw [hacct] at ha; cases ha)
    have hes : ∀ e ∈ es.reverse, EntryOn [] e := fun e h' => hon e (List.mem_reverse.mp h')
    have hplain : ∀ e ∈ es, e.plain = true := by
      intro e hin
      have := hon e hin
      cases e <;> first | rfl | exact this.elim
    refine ⟨es, hj, hplain, ?_⟩
    have k1 : (revertEntries (applyW s w) es.reverse).cache = none := by
      rw [revertEntries_cache2 es.reverse hes, applyW_cache]; exact hc
    refine obs_intro k1 hc ⟨he.store, he.refund, he.logs, he.alA, he.alS⟩ (fun b => ?_)
    have e1 := (revertEntries_other es.reverse hes (applyW s w) b (by simp)).2
    have e2 := (applyW_other s w b (by rw [hacct]; simp)).2.2
    have : objOf (revertEntries (applyW s w) es.reverse) b = objOf s b := by
      unfold objOf; rw [e1, e2, he.store]
    rw [this]; exact OptEqv.refl _ _ _
  | some a0 =>
    cases w with
    | addLog => cases hacct
    | addRefund g => cases hacct
    | subRefund g => cases hacct
    | addAddr a => cases hacct
    | addSlot a k => cases hacct
    | addBalance a d =>
      show UndoObs s (addBalance s a d)
      rw [addBalance_eq]
      by_cases hd : d = 0
      · simp only [hd, if_true]; exact undo_getOrNew s hc a
      · simp only [hd, if_false]
        exact undo_field s hc a _ (fun x => { x with balance := (getOrNew s a).2.balance }) _ (fun t => rfl) rfl (ObjEqv.refl _ _ _)
    | setNonce a n =>
      show UndoObs s (setNonce s a n)
      rw [setNonce_eq]
      exact undo_field s hc a _ (fun x => { x with nonce := (getOrNew s a).2.nonce }) _ (fun t => rfl) rfl (ObjEqv.refl _ _ _)
    | setCode a c =>
      show UndoObs s (setCode s a c)
      rw [setCode_eq]
      exact undo_field s hc a _ (fun x => { x with codeHash := (getOrNew s a).2.codeHash, dirtyCode := true }) _ (fun t => rfl) rfl
        ⟨rfl, rfl, rfl, rfl, fun _ => rfl, fun _ => rfl⟩
    | suicide a =>
      show UndoObs s (suicide s a).1
      cases hx : objOf s a with
      | none =>
        obtain ⟨h1, h2, h3, h4, h5, h6, h7, h8⟩ := getObj_spec s hc a
        obtain ⟨_, _, hj⟩ := getObj_revisions s a
        have : (suicide s a).1 = (getObj s a).1 := by
          unfold suicide
          rcases hg : getObj s a with ⟨s1, _ | o⟩
          · rfl
          · rw [hg] at h1; simp only at h1; rw [← h1] at hx; cases hx
        rw [this]
        refine ⟨[], by simp [hj], by simp, ?_⟩
        show Obs (getObj s a).1 s
        exact obs_intro h4 hc ⟨h3, h5, h6, h7, h8⟩ (fun b => by rw [h2 b]; exact OptEqv.refl _ _ _)
      | some o =>
        have hgn := getOrNew_of_some s hc a o hx
        have hg1 : (getOrNew s a).1 = (getObj s a).1 := by rw [hgn]
        have hg2 : (getOrNew s a).2 = o := by rw [hgn]
        obtain ⟨h1, _⟩ := getObj_spec s hc a
        have : (suicide s a).1 = setObj (append (getOrNew s a).1 (.suicide a (getOrNew s a).2.suicided (getOrNew s a).2.balance)) a
            { (getOrNew s a).2 with suicided := true, balance := 0 } := by
          rw [hg1, hg2]
          unfold suicide
          rcases hg : getObj s a with ⟨s1, _ | o2⟩
          · rw [hg] at h1; simp only at h1; rw [← h1] at hx; cases hx
          · rw [hg] at h1; simp only at h1; rw [← h1] at hx; injection hx with hx; subst hx; rfl
        rw [this]
        exact undo_field s hc a _ (fun x => { x with suicided := (getOrNew s a).2.suicided, balance := (getOrNew s a).2.balance }) _
          (fun t => rfl) rfl (ObjEqv.refl _ _ _)
    | setState a k v =>
      show UndoObs s (setState s a k v)
      rw [setState_eq]
      obtain ⟨_, _, _, g4, _⟩ := getOrNew_spec s hc a
      by_cases hv : objState (getOrNew s a).1 a (getOrNew s a).2 k = v
      · simp only [hv, if_true]
        refine undo_noentry s hc a _ ?_
        rw [← g4]; exact objEqv_touch _ a _ k
      · simp only [hv, if_false]
        refine undo_field s hc a _ (fun x => { x with dirty := AList.set x.dirty k (objState (getOrNew s a).1 a (getOrNew s a).2 k) }) _
          (fun t => rfl) rfl ?_
        rw [← g4]
        obtain ⟨f1, f2, f3, f4, f5⟩ := touch_fields (getOrNew s a).1 a (getOrNew s a).2 k
        refine ⟨f1, f2, f3, f4, fun k' => touch_committed _ a _ k k', ?_⟩
        intro k'
        by_cases hk : k = k'
        · subst hk
          simp only [AList.find?_set_self]
          exact objState_eq _ a _ k
        · simp only [AList.find?_set_ne _ _ _ _ hk, f5]
          rw [touch_committed _ a _ k k']

/-- `CreateAccount`: over nothing it journals `createObjectChange`, over an object `resetObjectChange` with the whole previous object -/
theorem undo_createAccount (s : S) (hc : s.cache = none) (a : Nat) : UndoObs s (createAccount s a) := by
  obtain ⟨h1, h2, h3, h4, h5, h6, h7, h8⟩ := getObj_spec s hc a
  obtain ⟨_, _, hj⟩ := getObj_revisions s a
  unfold createAccount
  rcases hg : getObj s a with ⟨s1, _ | prev⟩
  · rw [hg] at h1 h2 h3 h4 h5 h6 h7 h8 hj
    simp only at h1 h2 h3 h4 h5 h6 h7 h8 hj ⊢
    refine ⟨[.createObject a], by simp [hj], by simp [Entry.plain], ?_⟩
    simp only [List.reverse_cons, List.reverse_nil, List.nil_append, revertEntries, List.foldl_cons, List.foldl_nil]
    show Obs { (setObj (append s1 (.createObject a)) a {}) with objs := AList.erase (setObj (append s1 (.createObject a)) a {}).objs a } s
    refine obs_intro h4 hc ⟨h3, h5, h6, h7, h8⟩ (fun b => ?_)
    rw [objOf_erase]
    by_cases hab : a = b
    · subst hab
      simp only [if_true]
      show OptEqv s.txStore a (loadObj s1.txStore a) (objOf s a)
      rw [h3, (objOf_none_load s a h1.symm).2, ← h1]
      exact True.intro
    · simp only [hab, if_false]
      rw [objOf_setObj]; simp only [hab, if_false]
      rw [objOf_append, h2 b]; exact OptEqv.refl _ _ _
  · rw [hg] at h1 h2 h3 h4 h5 h6 h7 h8 hj
    simp only at h1 h2 h3 h4 h5 h6 h7 h8 hj ⊢
    refine ⟨[.resetObject a prev], by simp [hj], by simp [Entry.plain], ?_⟩
    simp only [List.reverse_cons, List.reverse_nil, List.nil_append, revertEntries, List.foldl_cons, List.foldl_nil]
    show Obs (setObj (setObj (append s1 (.resetObject a prev)) a { balance := prev.balance }) a prev) s
    refine obs_intro h4 hc ⟨h3, h5, h6, h7, h8⟩ (fun b => ?_)
    rw [objOf_setObj]
    by_cases hab : a = b
    · subst hab
      simp only [if_true]
      rw [← h1]; exact ObjEqv.refl _ _ _
    · simp only [hab, if_false]
      rw [objOf_setObj]; simp only [hab, if_false]
      rw [objOf_append, h2 b]; exact OptEqv.refl _ _ _

/-! ### reads: they cache (objects, origins) but change nothing observable and journal nothing -/

theorem getObj_txStore (s : S) (a : Nat) : (getObj s a).1.txStore = s.txStore := by
  unfold getObj
  split
  · rfl
  · split <;> rfl


inductive ROp where
  | acc (a : Nat)               -- GetBalance / GetNonce / GetCodeHash / Exist / Empty / HasSuicided: `getStateObject`
  | state (a k : Nat)           -- GetState
  | committed (a k : Nat)       -- GetCommittedState

def applyR (s : S) : ROp → S
  | .acc a => (readAcc s a).1
  | .state a k => (getState s a k).1
  | .committed a k => (getCommitted s a k).1

theorem readAcc_fst (s : S) (a : Nat) : (readAcc s a).1 = (getObj s a).1 := by
  unfold readAcc
  rcases getObj s a with ⟨s1, _ | o⟩ <;> rfl

theorem touch_congr (s s1 : S) (h : s1.txStore = s.txStore) (a : Nat) (o : Obj) (k : Nat) :
    touchState s1 a o k = touchState s a o k ∧ cacheOrigin s1 a o k = cacheOrigin s a o k := by
  unfold touchState cacheOrigin
  rw [h]
  exact ⟨rfl, rfl⟩

theorem getState_fst (s : S) (a k : Nat) : (getState s a k).1 = modObj s a (fun o => touchState s a o k) := by
  have h := getObj_txStore s a
  unfold getState modObj
  rcases hg : getObj s a with ⟨s1, _ | o⟩
  · rfl
  · rw [hg] at h; simp only; rw [(touch_congr s s1 h a o k).1]

theorem getCommitted_fst (s : S) (a k : Nat) : (getCommitted s a k).1 = modObj s a (fun o => cacheOrigin s a o k) := by
  have h := getObj_txStore s a
  unfold getCommitted modObj
  rcases hg : getObj s a with ⟨s1, _ | o⟩
  · rfl
  · rw [hg] at h; simp only; rw [(touch_congr s s1 h a o k).2]

theorem objEqv_cacheOrigin (s : S) (a : Nat) (o : Obj) (k : Nat) : ObjEqv s.txStore a (cacheOrigin s a o k) o := by
  unfold cacheOrigin
  cases ho : AList.find? o.origin k with
  | some w => simp only; exact ObjEqv.refl _ _ _
  | none =>
    simp only
    have key : ∀ k', (match AList.find? (AList.set o.origin k (s.txStore.slot a k)) k' with | some v => v | none => s.txStore.slot a k') =
        (match AList.find? o.origin k' with | some v => v | none => s.txStore.slot a k') := by
      intro k'
      by_cases hk : k = k'
      · subst hk; simp [AList.find?_set_self, ho]
      · simp [AList.find?_set_ne _ _ _ _ hk]
    refine ⟨rfl, rfl, rfl, rfl, key, fun k' => ?_⟩
    simp only
    cases AList.find? o.dirty k' with
    | some v => rfl
    | none => exact key k'

/-- the fields a read leaves alone -/
structure Inert (s s' : S) : Prop where
  journal : s'.journal = s.journal
  dirties : s'.dirties = s.dirties
  revisions : s'.revisions = s.revisions
  nextRev : s'.nextRev = s.nextRev
  store : s'.txStore = s.txStore
  cache : s'.cache = s.cache
  obs : s.cache = none → Obs s' s

theorem getObj_frame (s : S) (a : Nat) :
    (getObj s a).1.journal = s.journal ∧ (getObj s a).1.dirties = s.dirties ∧ (getObj s a).1.revisions = s.revisions ∧
    (getObj s a).1.nextRev = s.nextRev ∧ (getObj s a).1.txStore = s.txStore ∧ (getObj s a).1.cache = s.cache := by
  unfold getObj
  split
  · exact ⟨rfl, rfl, rfl, rfl, rfl, rfl⟩
  · split <;> exact ⟨rfl, rfl, rfl, rfl, rfl, rfl⟩

theorem inert_getObj (s : S) (a : Nat) : Inert s (getObj s a).1 := by
  obtain ⟨f1, f2, f3, f4, f5, f6⟩ := getObj_frame s a
  refine ⟨f1, f2, f3, f4, f5, f6, fun hc => ?_⟩
  obtain ⟨_, h2, h3, h4, h5, h6, h7, h8⟩ := getObj_spec s hc a
  exact obs_intro h4 hc ⟨h3, h5, h6, h7, h8⟩ (fun b => by rw [h2 b]; exact OptEqv.refl _ _ _)

theorem inert_modObj (s : S) (a : Nat) (f : Obj → Obj) (hf : ∀ o, ObjEqv s.txStore a (f o) o) : Inert s (modObj s a f) := by
  obtain ⟨f1, f2, f3, f4, f5, f6⟩ := getObj_frame s a
  have hfr : (modObj s a f).journal = s.journal ∧ (modObj s a f).dirties = s.dirties ∧ (modObj s a f).revisions = s.revisions ∧
      (modObj s a f).nextRev = s.nextRev ∧ (modObj s a f).txStore = s.txStore ∧ (modObj s a f).cache = s.cache := by
    unfold modObj
    rcases hg : getObj s a with ⟨s1, _ | o⟩
    · rw [hg] at f1 f2 f3 f4 f5 f6; exact ⟨f1, f2, f3, f4, f5, f6⟩
    · rw [hg] at f1 f2 f3 f4 f5 f6; exact ⟨f1, f2, f3, f4, f5, f6⟩
  refine ⟨hfr.1, hfr.2.1, hfr.2.2.1, hfr.2.2.2.1, hfr.2.2.2.2.1, hfr.2.2.2.2.2, fun hc => ?_⟩
  obtain ⟨m1, c1, k1⟩ := modObj_spec s hc a f
  refine obs_intro k1 hc c1 (fun b => ?_)
  rw [m1 b]
  by_cases hab : a = b
  · subst hab
    simp only [if_true]
    cases objOf s a with
    | none => exact True.intro
    | some o => exact hf o
  · simp only [hab, if_false]; exact OptEqv.refl _ _ _

theorem inert_read (s : S) (r : ROp) : Inert s (applyR s r) := by
  cases r with
  | acc a => show Inert s (readAcc s a).1; rw [readAcc_fst]; exact inert_getObj s a
  | state a k => show Inert s (getState s a k).1; rw [getState_fst]; exact inert_modObj s a _ (fun o => objEqv_touch s a o k)
  | committed a k =>
    show Inert s (getCommitted s a k).1; rw [getCommitted_fst]; exact inert_modObj s a _ (fun o => objEqv_cacheOrigin s a o k)

/-! ### transaction bodies: writes, CreateAccount, call frames nested to any depth -/

inductive Tree where
  | w (op : WOp)
  | r (op : ROp)
  | create (a : Nat)
  | frame (ok : Bool) (body : List Tree)

mutual
/-- `CreateAccount` only where `evm.create` may call it: the store holds no slots under the address -/
def Tree.OK (st : Store) : Tree → Prop
  | .w _ => True
  | .r _ => True
  | .create a => ∀ k, st.slot a k = 0
  | .frame _ body => Tree.OKL st body
def Tree.OKL (st : Store) : List Tree → Prop
  | [] => True
  | b :: t => Tree.OK st b ∧ Tree.OKL st t
end

mutual
def runT (s : S) : Tree → Option S
  | .w op => some (applyW s op)
  | .r op => some (applyR s op)
  | .create a => some (createAccount s a)
  | .frame ok body =>
    match runTL (snapshot s).1 body with
    | none => none
    | some s2 => if ok then some s2 else revertToSnapshot s2 (snapshot s).2
def runTL (s : S) : List Tree → Option S
  | [] => some s
  | b :: t => match runT s b with | none => none | some s1 => runTL s1 t
end

mutual
def runGT (g : GethSpec.G) : Tree → GethSpec.G
  | .w op => (GethSpec.apply g (toSpec op)).1
  | .r _ => g
  | .create a => (GethSpec.apply g (.createAccount a)).1
  | .frame ok body =>
    if ok then runGTL (GethSpec.apply g .snapshot).1 body
    else (GethSpec.apply (runGTL (GethSpec.apply g .snapshot).1 body) (.revert g.next)).1
def runGTL (g : GethSpec.G) : List Tree → GethSpec.G
  | [] => g
  | b :: t => runGTL (runGT g b) t
end

structure Ext2 (s s' : S) : Prop where
  undo : UndoObs s s'
  revs : ∃ ex, s'.revisions = s.revisions ++ ex ∧ ∀ r ∈ ex, s.nextRev ≤ r.1 ∧ r.1 < s'.nextRev
  next : s.nextRev ≤ s'.nextRev
  cache : s'.cache = none
  store : s'.txStore = s.txStore

theorem Ext2.refl (s : S) (hc : s.cache = none) : Ext2 s s :=
  ⟨⟨[], by simp, by simp, Obs.refl s hc⟩, ⟨[], by simp, by simp⟩, Nat.le_refl _, hc, rfl⟩

theorem Ext2.trans {s s1 s2 : S} (h1 : Ext2 s s1) (h2 : Ext2 s1 s2) : Ext2 s s2 := by
  obtain ⟨es1, j1, on1, e1⟩ := h1.undo
  obtain ⟨es2, j2, on2, e2⟩ := h2.undo
  obtain ⟨ex1, r1, b1⟩ := h1.revs
  obtain ⟨ex2, r2, b2⟩ := h2.revs
  refine ⟨⟨es1 ++ es2, by rw [j2, j1, List.append_assoc], ?_, ?_⟩, ⟨ex1 ++ ex2, by rw [r2, r1, List.append_assoc], ?_⟩,
    Nat.le_trans h1.next h2.next, h2.cache, h2.store.trans h1.store⟩
  · intro e he
    rcases List.mem_append.mp he with h | h
    · exact on1 e h
    · exact on2 e h
  · rw [List.reverse_append, revertEntries_append]
    exact (revertEntries_obs es1.reverse (fun e he => on1 e (List.mem_reverse.mp he)) e2).trans e1
  · intro r hr
    have n1 := h1.next
    have n2 := h2.next
    rcases List.mem_append.mp hr with h | h
    · have := b1 r h; omega
    · have := b2 r h; omega

theorem Ext2.revOK {s s' : S} (h : Ext2 s s') (hrev : RevOK s) : RevOK s' := by
  obtain ⟨ex, r, b⟩ := h.revs
  intro x hx
  rw [r] at hx
  have := h.next
  rcases List.mem_append.mp hx with h1 | h1
  · have := hrev x h1; omega
  · exact (b x h1).2

theorem createAccount_frame (s : S) (a : Nat) :
    (createAccount s a).txStore = s.txStore ∧ (createAccount s a).cache = s.cache ∧
    (createAccount s a).revisions = s.revisions ∧ (createAccount s a).nextRev = s.nextRev := by
  have h1 := getObj_txStore s a
  have h2 := getObj_cache2 s a
  obtain ⟨h3, h4, _⟩ := getObj_revisions s a
  unfold createAccount
  rcases hg : getObj s a with ⟨s1, _ | o⟩
  · rw [hg] at h1 h2 h3 h4; exact ⟨h1, h2, h3, h4⟩
  · rw [hg] at h1 h2 h3 h4; exact ⟨h1, h2, h3, h4⟩

theorem ext2_write (s : S) (hc : s.cache = none) (w : WOp) : Ext2 s (applyW s w) := by
  obtain ⟨r1, r2⟩ := applyW_revisions s w
  refine ⟨undoW_obs s hc w, ⟨[], by simp [r1], by simp⟩, by rw [r2]; exact Nat.le_refl _, (applyW_cache s w).trans hc, ?_⟩
  exact (applyW_other s w ((w.acct.getD 0) + 1) (by cases h : w.acct <;> simp)).2.1

theorem ext2_create (s : S) (hc : s.cache = none) (a : Nat) : Ext2 s (createAccount s a) := by
  obtain ⟨f1, f2, f3, f4⟩ := createAccount_frame s a
  exact ⟨undo_createAccount s hc a, ⟨[], by simp [f3], by simp⟩, by rw [f4]; exact Nat.le_refl _, f2.trans hc, f1⟩

theorem ext2_of_inert {s s' : S} (h : Inert s s') (hc : s.cache = none) : Ext2 s s' :=
  ⟨⟨[], by simp [h.journal], by simp, h.obs hc⟩, ⟨[], by simp [h.revisions], by simp⟩, by rw [h.nextRev]; exact Nat.le_refl _,
    h.cache.trans hc, h.store⟩

theorem ext2_snapshot (s : S) (hc : s.cache = none) : Ext2 s (snapshot s).1 := by
  refine ⟨⟨[], by simp [snapshot], by simp, ?_⟩, ⟨[(s.nextRev, s.journal.length)], rfl, ?_⟩, Nat.le_succ _, hc, rfl⟩
  · exact obs_of_pointwise hc hc (Core.refl s) (fun _ => rfl) |> fun h => ⟨h.cacheL, h.cacheR, ⟨rfl, rfl, rfl, rfl, rfl⟩, h.objs⟩
  · intro r hr
    simp only [List.mem_singleton] at hr
    subst hr
    exact ⟨Nat.le_refl _, Nat.lt_succ_self _⟩

theorem revertEntry_txStore (s : S) (e : Entry) : (revertEntry s e).txStore = s.txStore := by
  have key : ∀ (a : Nat) (f : Obj → Obj),
      (match getObj s a with | (s1, some o) => setObj s1 a (f o) | (s1, none) => s1).txStore = s.txStore := by
    intro a f
    have h := getObj_txStore s a
    rcases hg : getObj s a with ⟨s1, _ | o⟩
    · rw [hg] at h; exact h
    · rw [hg] at h; exact h
  cases e with
  | balance a p => exact key a (fun o => { o with balance := p })
  | nonce a p => exact key a (fun o => { o with nonce := p })
  | code a p => exact key a (fun o => { o with codeHash := p, dirtyCode := true })
  | storage a k p => exact key a (fun o => { o with dirty := AList.set o.dirty k p })
  | suicide a p pb => exact key a (fun o => { o with suicided := p, balance := pb })
  | refund p => rfl
  | addLog => rfl
  | alAddr a => rfl
  | alSlot a k => rfl
  | createObject a => rfl
  | resetObject a p => rfl
  | precompile c => rfl

theorem revertEntries_txStore (es : List Entry) (s : S) : (revertEntries s es).txStore = s.txStore := by
  induction es generalizing s with
  | nil => rfl
  | cons e t ih => simp only [revertEntries, List.foldl_cons]; exact (ih (revertEntry s e)).trans (revertEntry_txStore s e)

/-- **RevertToSnapshot of a frame whose body satisfied `Ext2`** — no condition on the accounts the body touched -/
theorem ext2_revert (s s2 : S) (hc : s.cache = none) (hrev : RevOK s) (h : Ext2 (snapshot s).1 s2) :
    ∃ s3, revertToSnapshot s2 (snapshot s).2 = some s3 ∧ Ext2 s s3 ∧ Obs s3 s ∧ s3.journal = s.journal ∧
      s3.revisions = s.revisions := by
  obtain ⟨es, hj, hon, he⟩ := h.undo
  obtain ⟨ex, hr, hb⟩ := h.revs
  have hj' : s2.journal = s.journal ++ es := hj
  have hr' : s2.revisions = (s.revisions ++ [(s.nextRev, s.journal.length)]) ++ ex := hr
  have hb' : ∀ r ∈ ex, s.nextRev + 1 ≤ r.1 := fun r hx => (hb r hx).1
  have hid : (snapshot s).2 = s.nextRev := rfl
  have hfind := find_ge_appended2 s.revisions ex s.nextRev s.journal.length hrev
  have hfil := filter_lt_appended2 s.revisions ex s.nextRev s.journal.length hrev hb'
  have hdrop : s2.journal.drop s.journal.length = es := by rw [hj']; simp
  have htake : s2.journal.take s.journal.length = s.journal := by rw [hj']; simp
  refine ⟨{ (revertTo s2 s.journal.length) with revisions := s2.revisions.filter (fun r => r.1 < s.nextRev) }, ?_, ?_⟩
  · unfold revertToSnapshot
    rw [hid, hr', hfind]
    simp
  · have e0 : Obs (revertEntries s2 (s2.journal.drop s.journal.length).reverse) s := by
      rw [hdrop]
      exact he.trans ⟨hc, hc, ⟨rfl, rfl, rfl, rfl, rfl⟩, fun a => OptEqv.refl _ _ _⟩
    have e1 : Obs { (revertTo s2 s.journal.length) with revisions := s2.revisions.filter (fun r => r.1 < s.nextRev) } s :=
      ⟨e0.cacheL, e0.cacheR, ⟨e0.core.store, e0.core.refund, e0.core.logs, e0.core.alA, e0.core.alS⟩, e0.objs⟩
    refine ⟨⟨⟨[], ?_, by simp, ?_⟩, ⟨[], ?_, by simp⟩, ?_, e1.cacheL, ?_⟩, e1, htake, by rw [hr']; exact hfil⟩
    · show s2.journal.take s.journal.length = s.journal ++ []
      rw [htake]; simp
    · exact e1
    · show s2.revisions.filter (fun r => decide (r.1 < s.nextRev)) = s.revisions ++ []
      rw [hr', hfil]; simp
    · show s.nextRev ≤ (revertEntries s2 (s2.journal.drop s.journal.length).reverse).nextRev
      rw [revertEntries_revs]
      have := h.next
      have e : (snapshot s).1.nextRev = s.nextRev + 1 := rfl
      omega
    · show (revertEntries s2 (s2.journal.drop s.journal.length).reverse).txStore = s.txStore
      rw [revertEntries_txStore]
      exact h.store

/-- transport of the simulation along `Obs` -/
theorem sim_of_obs (s s3 : S) (g : GethSpec.G) (h : Sim s g) (he : Obs s3 s) : Sim s3 g := by
  have hst : s3.txStore = s.txStore := he.core.store.symm
  refine ⟨he.cacheL, by rw [hst]; exact h.storeOK, fun b => ?_, he.core.refund.symm.trans h.refund, he.core.logs.symm.trans h.logs,
    he.core.alA.symm.trans h.alA, he.core.alS.symm.trans h.alS⟩
  have hr := h.objs b
  have eo := he.objs b
  cases h3 : objOf s3 b with
  | none =>
    cases h0 : objOf s b with
    | some o => rw [h3, h0] at eo; exact False.elim eo
    | none =>
      rw [h0] at hr
      cases hx : GethSpec.obj? g b with
      | none => exact True.intro
      | some x => rw [hx] at hr; exact False.elim hr
  | some o3 =>
    cases h0 : objOf s b with
    | none => rw [h3, h0] at eo; exact False.elim eo
    | some o =>
      rw [h3, h0] at eo
      rw [h0] at hr
      cases hx : GethSpec.obj? g b with
      | none => rw [hx] at hr; exact False.elim hr
      | some x =>
        rw [hx] at hr
        obtain ⟨r1, r2, r3, r4, r5, r6⟩ := hr
        obtain ⟨q1, q2, q3, q4, q5, q6⟩ := eo
        refine ⟨q1.trans r1, q2.trans r2, q3.trans r3, q4.trans r4, fun k => ?_, fun k => ?_⟩
        · rw [objState_eq]
          refine (q6 k).trans ?_
          rw [hst, ← objState_eq]
          exact r5 k
        · unfold committed
          refine (q5 k).trans ?_
          rw [hst]
          exact r6 k

/-! ### the theorem -/

mutual
theorem runT_sim (b : Tree) (s : S) (g : GethSpec.G) (h : Sim s g) (hrev : RevOK s) (hg : GethSpec.IdsBelow g)
    (hok : Tree.OK s.txStore b) :
    ∃ s', runT s b = some s' ∧ Sim s' (runGT g b) ∧ Ext2 s s' ∧ ExtG g (runGT g b) := by
  cases b with
  | w op =>
    exact ⟨applyW s op, rfl, by simp only [runGT]; exact sim_applyW s g h op, ext2_write s h.cache op,
      by simp only [runGT]; exact extG_plain g (toSpec op) (toSpec_plain op)⟩
  | r op =>
    have hi := inert_read s op
    exact ⟨applyR s op, rfl, by simp only [runGT]; exact sim_of_obs s _ g h (hi.obs h.cache), ext2_of_inert hi h.cache,
      by simp only [runGT]; exact ExtG.refl g⟩
  | create a =>
    simp only [Tree.OK] at hok
    exact ⟨createAccount s a, rfl, by simp only [runGT]; exact sim_createAccount s g h a hok, ext2_create s h.cache a,
      by simp only [runGT]; exact extG_plain g (.createAccount a) rfl⟩
  | frame ok body =>
    simp only [Tree.OK] at hok
    have hs1 : Sim (snapshot s).1 (GethSpec.apply g .snapshot).1 :=
      sim_congr_ref (snapshot s).1 g _ rfl rfl
        ⟨h.cache, h.storeOK, fun a => Rel_congr s (snapshot s).1 g g rfl rfl a _ _ (h.objs a), h.refund, h.logs, h.alA, h.alS⟩
    have x0 := ext2_snapshot s h.cache
    have y0 := extG_snapshot g
    obtain ⟨s2, hrun, hsim2, x2, y2⟩ := runTL_sim body (snapshot s).1 (GethSpec.apply g .snapshot).1 hs1
      (x0.revOK hrev) (y0.idsBelow hg) hok
    cases ok with
    | true =>
      refine ⟨s2, ?_, ?_, x0.trans x2, ?_⟩
      · simp only [runT, hrun]; rfl
      · simp only [runGT, if_true]; exact hsim2
      · simp only [runGT, if_true]; exact y0.trans y2
    | false =>
      obtain ⟨s3, h3, x3, e3, _, _⟩ := ext2_revert s s2 h.cache hrev x2
      obtain ⟨t1, t2, t3, t4⟩ := extG_revert g _ hg y2
      have hsim3 : Sim s3 g := sim_of_obs s s3 g h e3
      refine ⟨s3, ?_, ?_, x3, ?_⟩
      · simp only [runT, hrun]; exact h3
      · simp only [runGT, Bool.false_eq_true, if_false]
        exact sim_congr_ref s3 g _ t2 t1 hsim3
      · simp only [runGT, Bool.false_eq_true, if_false]
        refine ⟨t2, ⟨[], by simp [t3], by simp⟩, ?_⟩
        rw [t4]
        exact Nat.le_trans y0.next y2.next
theorem runTL_sim (bs : List Tree) (s : S) (g : GethSpec.G) (h : Sim s g) (hrev : RevOK s) (hg : GethSpec.IdsBelow g)
    (hok : Tree.OKL s.txStore bs) :
    ∃ s', runTL s bs = some s' ∧ Sim s' (runGTL g bs) ∧ Ext2 s s' ∧ ExtG g (runGTL g bs) := by
  cases bs with
  | nil => exact ⟨s, rfl, h, Ext2.refl s h.cache, ExtG.refl g⟩
  | cons b t =>
    simp only [Tree.OKL] at hok
    obtain ⟨s1, hr1, hs1, x1, y1⟩ := runT_sim b s g h hrev hg hok.1
    obtain ⟨s2, hr2, hs2, x2, y2⟩ := runTL_sim t s1 (runGT g b) hs1 (x1.revOK hrev) (y1.idsBelow hg) (by rw [x1.store]; exact hok.2)
    refine ⟨s2, ?_, ?_, x1.trans x2, y1.trans y2⟩
    · simp only [runTL, hr1]; exact hr2
    · simp only [runGTL]; exact hs2
end

/-- **C03 (partial) — any transaction body.** From related states with well-formed revision ids on both sides: ANY tree of write
    calls, `CreateAccount` calls (where `evm.create` may make them) and call frames nested to any depth, each returning or failing,
    on ANY accounts — cached, loaded for the first time inside a frame, absent from the store and created by a write inside a frame
    that is then reverted — runs to the end on Nibiru's journaled StateDB (no invalid snapshot id) and ends related to the
    reference run of the same tree: every account read, `GetState`, `GetCommittedState`, refund counter, log count and access list
    agree.  With `sim_init` (related states exist at the start of every transaction over the same persisted data, with empty
    revision lists) this covers the whole body of a transaction that makes no precompile call. -/
theorem C03_any_body_simulates_reference_partial (body : List Tree) (s : S) (g : GethSpec.G) (h : Sim s g) (hrev : RevOK s)
    (hg : GethSpec.IdsBelow g) (hok : Tree.OKL s.txStore body) :
    ∃ s', runTL s body = some s' ∧ Sim s' (runGTL g body) := by
  obtain ⟨s', hr, hs, _, _⟩ := runTL_sim body s g h hrev hg hok
  exact ⟨s', hr, hs⟩

/-! ### Nibiru's side alone (C04, frames without precompile calls) -/

mutual
theorem runT_ext (b : Tree) (s : S) (hc : s.cache = none) (hrev : RevOK s) : ∃ s', runT s b = some s' ∧ Ext2 s s' := by
  cases b with
  | w op => exact ⟨applyW s op, rfl, ext2_write s hc op⟩
  | r op => exact ⟨applyR s op, rfl, ext2_of_inert (inert_read s op) hc⟩
  | create a => exact ⟨createAccount s a, rfl, ext2_create s hc a⟩
  | frame ok body =>
    have x0 := ext2_snapshot s hc
    obtain ⟨s2, hrun, x2⟩ := runTL_ext body (snapshot s).1 x0.cache (x0.revOK hrev)
    cases ok with
    | true => exact ⟨s2, by simp only [runT, hrun]; rfl, x0.trans x2⟩
    | false =>
      obtain ⟨s3, h3, x3, _, _, _⟩ := ext2_revert s s2 hc hrev x2
      exact ⟨s3, by simp only [runT, hrun]; exact h3, x3⟩
theorem runTL_ext (bs : List Tree) (s : S) (hc : s.cache = none) (hrev : RevOK s) : ∃ s', runTL s bs = some s' ∧ Ext2 s s' := by
  cases bs with
  | nil => exact ⟨s, rfl, Ext2.refl s hc⟩
  | cons b t =>
    obtain ⟨s1, hr1, x1⟩ := runT_ext b s hc hrev
    obtain ⟨s2, hr2, x2⟩ := runTL_ext t s1 x1.cache (x1.revOK hrev)
    exact ⟨s2, by simp only [runTL, hr1]; exact hr2, x1.trans x2⟩
end

/-- **C04 (partial) — a failed frame is atomic whatever it contains and whatever accounts it touches, as long as it contains no
    precompile call.** Snapshot, ANY tree of writes, `CreateAccount`s and nested frames, RevertToSnapshot: the revert succeeds, and for
    EVERY address the account the StateDB hands out afterwards — existence included: an account created inside the frame is gone —
    has the balance, nonce, code hash, self-destruct flag and the current and committed value of every slot it had at the snapshot;
    refund counter, log count, access list, the store, the journal and the revision list are exactly the old ones. -/
theorem C04_any_frame_revert_restores_partial (s : S) (hc : s.cache = none) (hrev : RevOK s) (body : List Tree) :
    ∃ s3, runT s (.frame false body) = some s3 ∧ Obs s3 s ∧ s3.journal = s.journal ∧ s3.revisions = s.revisions := by
  have x0 := ext2_snapshot s hc
  obtain ⟨s2, hrun, x2⟩ := runTL_ext body (snapshot s).1 x0.cache (x0.revOK hrev)
  obtain ⟨s3, h3, _, e3, hj3, hr3⟩ := ext2_revert s s2 hc hrev x2
  exact ⟨s3, by simp only [runT, hrun]; exact h3, e3, hj3, hr3⟩

/-! ### non-vacuity: nothing is cached at the start; account 2 does not exist and is created inside a frame that fails -/

def demoTree : List Tree :=
  [ .r (.state 1 0), .w (.setState 1 0 5),
    .frame false [ .r (.acc 2), .w (.addBalance 2 7000000000000), .create 3, .w (.setNonce 3 1),
                   .frame true [ .w (.setState 1 0 9), .r (.committed 1 1), .w (.suicide 1) ] ],
    .frame true [ .w (.setNonce 2 4), .frame false [ .w (.setCode 2 8), .w (.addRefund 3) ] ],
    .w (.setState 1 1 2) ]

theorem demoTree_ok : Tree.OKL demoStore demoTree := by
  simp only [demoTree, Tree.OKL, Tree.OK, and_true, true_and]
  intro k
  have : ((1, 0) : Nat × Nat) ≠ (3, k) := fun e => by cases e
  simp [demoStore, Store.slot, AList.find?, this]

example : ∃ s', runTL { txStore := demoStore } demoTree = some s' ∧ Sim s' (runGTL { base := demoBase } demoTree) :=
  C03_any_body_simulates_reference_partial demoTree _ _ demo_sim (fun r hr => by cases hr) (fun r hr => by cases hr) demoTree_ok

end Nibiru.SDB
