/-
  SDBSim — Nibiru's journaled StateDB (NibiruModel.StateDB) simulates the go-ethereum reference semantics (NibiruModel.GethSpec)
  on every sequence of interpreter writes.

  `Sim s g` relates a StateDB without a precompile cache context to a reference state: for every address the account the
  StateDB would hand out (cached object, or what it would load from the store) and the reference account agree on balance, nonce,
  code hash, self-destruct flag, and on the current and committed value of every slot; refund counter, log count and access list
  agree.  Every write call (AddBalance, SetNonce, SetCode, SetState, Suicide, AddLog, AddRefund, SubRefund, AddAddress, AddSlot)
  preserves `Sim`, hence so does every sequence of them, of any length, over stores of any size.
-/
import NibiruModel.StateDB
import NibiruModel.GethSpec
import NibiruProofs.SDBRevert

namespace Nibiru.SDB
open Nibiru

/-- the account `getStateObject` hands out: the cached object, else what it loads from the store -/
def objOf (s : S) (a : Nat) : Option Obj :=
  match AList.find? s.objs a with
  | some o => some o
  | none => loadObj s.txStore a

/-- account-level agreement between an object of the StateDB and an account of the reference -/
def R (s : S) (g : GethSpec.G) (a : Nat) (o : Obj) (x : GethSpec.Acc) : Prop :=
  o.balance = x.balance ∧ o.nonce = x.nonce ∧ o.codeHash = x.code ∧ o.suicided = x.suicided ∧
  (∀ k, objState s a o k = GethSpec.stateOf g a x k) ∧ (∀ k, committed s a o k = GethSpec.committedOf g a x k)

def Rel (s : S) (g : GethSpec.G) (a : Nat) : Option Obj → Option GethSpec.Acc → Prop
  | some o, some x => R s g a o x
  | none, none => True
  | _, _ => False

structure Sim (s : S) (g : GethSpec.G) : Prop where
  cache : s.cache = none
  /-- the store holds no slots of accounts it does not hold -/
  storeOK : ∀ a, s.txStore.acct a = none → ∀ k, s.txStore.slot a k = 0
  objs : ∀ a, Rel s g a (objOf s a) (GethSpec.obj? g a)
  refund : s.refund = g.tx.refund
  logs : s.logs = g.tx.logs
  alA : s.alAddrs = g.tx.alAddrs
  alS : s.alSlots = g.tx.alSlots

/-! ### congruence: the relation only looks at the two stores -/

theorem objState_congr (s s' : S) (h : s'.txStore = s.txStore) (a : Nat) (o : Obj) (k : Nat) : objState s' a o k = objState s a o k := by
  unfold objState committed; rw [h]
theorem committed_congr (s s' : S) (h : s'.txStore = s.txStore) (a : Nat) (o : Obj) (k : Nat) : committed s' a o k = committed s a o k := by
  unfold committed; rw [h]

theorem R_congr (s s' : S) (g g' : GethSpec.G) (h : s'.txStore = s.txStore) (hg : g'.base = g.base) (a : Nat) (o : Obj) (x : GethSpec.Acc)
    (r : R s g a o x) : R s' g' a o x := by
  obtain ⟨r1, r2, r3, r4, r5, r6⟩ := r
  refine ⟨r1, r2, r3, r4, fun k => ?_, fun k => ?_⟩
  · rw [objState_congr s s' h]
    have := r5 k
    unfold GethSpec.stateOf GethSpec.committedOf at *
    rw [hg]; exact this
  · rw [committed_congr s s' h]
    have := r6 k
    unfold GethSpec.committedOf at *
    rw [hg]; exact this

theorem Rel_congr (s s' : S) (g g' : GethSpec.G) (h : s'.txStore = s.txStore) (hg : g'.base = g.base) (a : Nat)
    (o : Option Obj) (x : Option GethSpec.Acc) (r : Rel s g a o x) : Rel s' g' a o x := by
  cases o <;> cases x <;> simp only [Rel] at * <;> first | exact r | exact R_congr s s' g g' h hg a _ _ r

/-! ### the reference side -/

theorem gObj_setObj (g : GethSpec.G) (a b : Nat) (x : GethSpec.Acc) :
    GethSpec.obj? (GethSpec.setObj g a x) b = if a = b then some x else GethSpec.obj? g b := by
  unfold GethSpec.obj? GethSpec.setObj
  by_cases h : a = b
  · subst h; simp [AList.find?_set_self]
  · simp only [h, if_false]; rw [AList.find?_set_ne _ _ _ _ h]

/-! ### the StateDB side -/

theorem objOf_setObj (s : S) (a b : Nat) (o : Obj) : objOf (setObj s a o) b = if a = b then some o else objOf s b := by
  unfold objOf
  by_cases h : a = b
  · subst h; rw [find_setObj_same]; simp
  · rw [find_setObj_other _ _ _ _ h]; simp [h, setObj]

theorem objOf_append (s : S) (e : Entry) (b : Nat) : objOf (append s e) b = objOf s b := rfl

/-- without a cache context `getObj` returns `objOf`, caches it, and changes nothing observable -/
theorem getObj_spec (s : S) (hc : s.cache = none) (a : Nat) :
    (getObj s a).2 = objOf s a ∧ (∀ b, objOf (getObj s a).1 b = objOf s b) ∧ (getObj s a).1.txStore = s.txStore ∧
    (getObj s a).1.cache = none ∧ (getObj s a).1.refund = s.refund ∧ (getObj s a).1.logs = s.logs ∧
    (getObj s a).1.alAddrs = s.alAddrs ∧ (getObj s a).1.alSlots = s.alSlots := by
  unfold getObj objOf
  cases hf : AList.find? s.objs a with
  | some o => exact ⟨rfl, fun b => rfl, rfl, hc, rfl, rfl, rfl, rfl⟩
  | none =>
    have hcur : curStore s = s.txStore := by unfold curStore; rw [hc]; rfl
    simp only [hcur]
    cases hl : loadObj s.txStore a with
    | none => exact ⟨rfl, fun b => rfl, rfl, hc, rfl, rfl, rfl, rfl⟩
    | some o =>
      refine ⟨rfl, fun b => ?_, rfl, hc, rfl, rfl, rfl, rfl⟩
      simp only
      by_cases h : a = b
      · subst h; rw [AList.find?_set_self, hf, hl]
      · rw [AList.find?_set_ne _ _ _ _ h]

/-- `getOrNew`: the object it returns is `objOf` or a blank one; afterwards it is cached; nothing else is observable -/
theorem getOrNew_spec (s : S) (hc : s.cache = none) (a : Nat) :
    (getOrNew s a).2 = (objOf s a).getD {} ∧ (∀ b, a ≠ b → objOf (getOrNew s a).1 b = objOf s b) ∧
    objOf (getOrNew s a).1 a = some (getOrNew s a).2 ∧
    (getOrNew s a).1.txStore = s.txStore ∧ (getOrNew s a).1.cache = none ∧ (getOrNew s a).1.refund = s.refund ∧
    (getOrNew s a).1.logs = s.logs ∧ (getOrNew s a).1.alAddrs = s.alAddrs ∧ (getOrNew s a).1.alSlots = s.alSlots := by
  obtain ⟨h1, h2, h3, h4, h5, h6, h7, h8⟩ := getObj_spec s hc a
  unfold getOrNew
  rcases hg : getObj s a with ⟨s1, _ | o⟩
  · rw [hg] at h1 h2 h3 h4 h5 h6 h7 h8
    simp only at h1 h2 h3 h4 h5 h6 h7 h8
    refine ⟨by rw [← h1]; rfl, fun b hb => ?_, ?_, h3, h4, h5, h6, h7, h8⟩
    · simp only
      rw [objOf_setObj]; simp only [hb, if_false]; rw [objOf_append]; exact h2 b
    · simp only; rw [objOf_setObj]; simp
  · rw [hg] at h1 h2 h3 h4 h5 h6 h7 h8
    simp only at h1 h2 h3 h4 h5 h6 h7 h8
    exact ⟨by rw [← h1]; rfl, fun b _ => h2 b, by rw [h2 a, ← h1], h3, h4, h5, h6, h7, h8⟩

/-! ### one account is rewritten, everything else stays related -/

/-- the common shape of a write: `s'` and `g'` have the same stores as `s` and `g`, agree with them on every account but `a`,
    hold related accounts at `a`, and the counters agree -/
theorem sim_of_update (s s' : S) (g g' : GethSpec.G) (h : Sim s g) (a : Nat) (o' : Obj) (x' : GethSpec.Acc)
    (hst : s'.txStore = s.txStore) (hc : s'.cache = none) (hb : g'.base = g.base)
    (ho : ∀ b, objOf s' b = if a = b then some o' else objOf s b)
    (hx : ∀ b, GethSpec.obj? g' b = if a = b then some x' else GethSpec.obj? g b)
    (hr : R s' g' a o' x')
    (e1 : s'.refund = g'.tx.refund) (e2 : s'.logs = g'.tx.logs) (e3 : s'.alAddrs = g'.tx.alAddrs) (e4 : s'.alSlots = g'.tx.alSlots) :
    Sim s' g' := by
  refine ⟨hc, by rw [hst]; exact h.storeOK, fun b => ?_, e1, e2, e3, e4⟩
  rw [ho b, hx b]
  by_cases hab : a = b
  · subst hab; simp only [if_true, Rel]; exact hr
  · simp only [hab, if_false]; exact Rel_congr s s' g g' hst hb b _ _ (h.objs b)

/-- the related pair a write starts from: the existing accounts, or two blank ones -/
theorem start_pair (s : S) (g : GethSpec.G) (h : Sim s g) (a : Nat) :
    R s g a ((objOf s a).getD {}) (GethSpec.getOrNew g a) := by
  have hr := h.objs a
  unfold GethSpec.getOrNew
  cases ho : objOf s a with
  | some o =>
    cases hx : GethSpec.obj? g a with
    | some x => rw [ho, hx] at hr; exact hr
    | none => rw [ho, hx] at hr; exact hr.elim
  | none =>
    cases hx : GethSpec.obj? g a with
    | some x => rw [ho, hx] at hr; exact hr.elim
    | none =>
      -- both absent: the store has no account at `a`, hence no slots
      have hacct : s.txStore.acct a = none := by
        unfold objOf at ho
        cases hf : AList.find? s.objs a with
        | some o => rw [hf] at ho; cases ho
        | none =>
          rw [hf] at ho
          unfold loadObj at ho
          cases hq : s.txStore.acct a with
          | none => rfl
          | some q => rw [hq] at ho; cases ho
      have hz := h.storeOK a hacct
      simp only [Option.getD]
      refine ⟨rfl, rfl, rfl, rfl, fun k => ?_, fun k => ?_⟩
      · simp [objState, committed, AList.find?, GethSpec.stateOf, GethSpec.committedOf, hz k]
      · simp [committed, AList.find?, GethSpec.committedOf, hz k]

/-- a write that changes only balance / nonce / code / self-destruct flag of the object (storage maps untouched) -/
theorem R_fields (s : S) (g : GethSpec.G) (a : Nat) (o o' : Obj) (x x' : GethSpec.Acc) (r : R s g a o x)
    (hb : o'.balance = x'.balance) (hn : o'.nonce = x'.nonce) (hcd : o'.codeHash = x'.code) (hs : o'.suicided = x'.suicided)
    (ho1 : o'.origin = o.origin) (ho2 : o'.dirty = o.dirty) (hx1 : x'.storage = x.storage) (hx2 : x'.fresh = x.fresh) :
    R s g a o' x' := by
  obtain ⟨_, _, _, _, r5, r6⟩ := r
  refine ⟨hb, hn, hcd, hs, fun k => ?_, fun k => ?_⟩
  · have := r5 k
    unfold objState committed GethSpec.stateOf GethSpec.committedOf at *
    rw [ho1, ho2, hx1, hx2]; exact this
  · have := r6 k
    unfold committed GethSpec.committedOf at *
    rw [ho1, hx2]; exact this

/-! ### the write calls -/

def toSpec : WOp → GethSpec.Op
  | .addBalance a d => .addBalance a d
  | .setNonce a n => .setNonce a n
  | .setCode a h => .setCode a h
  | .setState a k v => .setState a k v
  | .suicide a => .suicide a
  | .addLog => .addLog
  | .addRefund r => .addRefund r
  | .subRefund r => .subRefund r
  | .addAddr a => .addAddr a
  | .addSlot a k => .addSlot a k

theorem objOf_write (s : S) (hc : s.cache = none) (a : Nat) (e : Entry) (o' : Obj) (b : Nat) :
    objOf (setObj (append (getOrNew s a).1 e) a o') b = if a = b then some o' else objOf s b := by
  rw [objOf_setObj]
  by_cases h : a = b
  · simp [h]
  · simp only [h, if_false]; rw [objOf_append]; exact (getOrNew_spec s hc a).2.1 b h

theorem objOf_write0 (s : S) (hc : s.cache = none) (a : Nat) (o' : Obj) (b : Nat) :
    objOf (setObj (getOrNew s a).1 a o') b = if a = b then some o' else objOf s b := by
  rw [objOf_setObj]
  by_cases h : a = b
  · simp [h]
  · simp only [h, if_false]; exact (getOrNew_spec s hc a).2.1 b h

/-- field writes: AddBalance / SetNonce / SetCode -/
theorem sim_field_write (s : S) (g : GethSpec.G) (h : Sim s g) (a : Nat) (e : Entry) (f : Obj → Obj) (f' : GethSpec.Acc → GethSpec.Acc)
    (hf : ∀ o x, o.balance = x.balance → o.nonce = x.nonce → o.codeHash = x.code → o.suicided = x.suicided →
      (f o).balance = (f' x).balance ∧ (f o).nonce = (f' x).nonce ∧ (f o).codeHash = (f' x).code ∧ (f o).suicided = (f' x).suicided)
    (hfo : ∀ o, (f o).origin = o.origin ∧ (f o).dirty = o.dirty) (hfx : ∀ x, (f' x).storage = x.storage ∧ (f' x).fresh = x.fresh) :
    Sim (setObj (append (getOrNew s a).1 e) a (f (getOrNew s a).2)) (GethSpec.setObj g a (f' (GethSpec.getOrNew g a))) := by
  obtain ⟨g1, _, _, g3, g4, g5, g6, g7, g8⟩ := getOrNew_spec s h.cache a
  have hp := start_pair s g h a
  rw [← g1] at hp
  obtain ⟨q1, q2, q3, q4⟩ := hf _ _ hp.1 hp.2.1 hp.2.2.1 hp.2.2.2.1
  refine sim_of_update s (setObj (append (getOrNew s a).1 e) a (f (getOrNew s a).2)) g
    (GethSpec.setObj g a (f' (GethSpec.getOrNew g a))) h a (f (getOrNew s a).2) (f' (GethSpec.getOrNew g a)) g3 g4 rfl
    (objOf_write s h.cache a e _) (fun b => gObj_setObj g a b _) ?_ ?_ ?_ ?_ ?_
  · apply R_congr s _ g _ g3 rfl
    exact R_fields s g a _ _ _ _ hp q1 q2 q3 q4 (hfo _).1 (hfo _).2 (hfx _).1 (hfx _).2
  · exact g5.trans h.refund
  · exact g6.trans h.logs
  · exact g7.trans h.alA
  · exact g8.trans h.alS

theorem addBalance_eq (s : S) (a : Nat) (d : Int) : addBalance s a d =
    if d = 0 then (getOrNew s a).1
    else setObj (append (getOrNew s a).1 (.balance a (getOrNew s a).2.balance)) a
      { (getOrNew s a).2 with balance := (getOrNew s a).2.balance + d } := rfl
theorem setNonce_eq (s : S) (a n : Nat) : setNonce s a n =
    setObj (append (getOrNew s a).1 (.nonce a (getOrNew s a).2.nonce)) a { (getOrNew s a).2 with nonce := n } := rfl
theorem setCode_eq (s : S) (a c : Nat) : setCode s a c =
    setObj (append (getOrNew s a).1 (.code a (getOrNew s a).2.codeHash)) a { (getOrNew s a).2 with codeHash := c, dirtyCode := true } := rfl
theorem setState_eq (s : S) (a k v : Nat) : setState s a k v =
    if objState (getOrNew s a).1 a (getOrNew s a).2 k = v then setObj (getOrNew s a).1 a (touchState (getOrNew s a).1 a (getOrNew s a).2 k)
    else setObj (append (getOrNew s a).1 (.storage a k (objState (getOrNew s a).1 a (getOrNew s a).2 k))) a
      { touchState (getOrNew s a).1 a (getOrNew s a).2 k with
        dirty := AList.set (touchState (getOrNew s a).1 a (getOrNew s a).2 k).dirty k v } := rfl

theorem objState_touch (s : S) (a : Nat) (o : Obj) (k k' : Nat) : objState s a (touchState s a o k) k' = objState s a o k' := by
  rw [objState_eq, objState_eq, (touch_fields s a o k).2.2.2.2, touch_committed]
theorem committed_touch (s : S) (a : Nat) (o : Obj) (k k' : Nat) : committed s a (touchState s a o k) k' = committed s a o k' := by
  unfold committed; exact touch_committed s a o k k'

theorem gStateOf_set (g : GethSpec.G) (a : Nat) (x : GethSpec.Acc) (k v k' : Nat) :
    GethSpec.stateOf g a { x with storage := AList.set x.storage k v } k' = if k = k' then v else GethSpec.stateOf g a x k' := by
  unfold GethSpec.stateOf GethSpec.committedOf
  by_cases h : k = k'
  · subst h; simp [AList.find?_set_self]
  · simp only [h, if_false]; rw [AList.find?_set_ne _ _ _ _ h]

/-- SetState -/
theorem sim_setState (s : S) (g : GethSpec.G) (h : Sim s g) (a k v : Nat) :
    Sim (setState s a k v) (GethSpec.setObj g a { GethSpec.getOrNew g a with storage := AList.set (GethSpec.getOrNew g a).storage k v }) := by
  obtain ⟨g1, _, _, g3, g4, g5, g6, g7, g8⟩ := getOrNew_spec s h.cache a
  have hp := start_pair s g h a
  rw [← g1] at hp
  -- the relation is insensitive to which of the two StateDB values carries the store
  have hp1 : R (getOrNew s a).1 g a (getOrNew s a).2 (GethSpec.getOrNew g a) := R_congr s _ g g g3 rfl a _ _ hp
  obtain ⟨r1, r2, r3, r4, r5, r6⟩ := hp1
  obtain ⟨t1, t2, t3, t4, t5⟩ := touch_fields (getOrNew s a).1 a (getOrNew s a).2 k
  rw [setState_eq]
  by_cases hpv : objState (getOrNew s a).1 a (getOrNew s a).2 k = v
  · simp only [hpv, if_true]
    refine sim_of_update s _ g _ h a (touchState (getOrNew s a).1 a (getOrNew s a).2 k) _ g3 g4 rfl
      (objOf_write0 s h.cache a _) (fun b => gObj_setObj g a b _) ?_ (g5.trans h.refund) (g6.trans h.logs) (g7.trans h.alA) (g8.trans h.alS)
    apply R_congr (getOrNew s a).1 _ g _ rfl rfl
    refine ⟨t1.trans r1, t2.trans r2, t3.trans r3, t4.trans r4, fun k' => ?_, fun k' => ?_⟩
    · rw [objState_touch, gStateOf_set]
      by_cases hk : k = k'
      · subst hk; simp only [if_true]; exact hpv
      · simp only [hk, if_false]; exact r5 k'
    · rw [committed_touch]; exact r6 k'
  · simp only [hpv, if_false]
    refine sim_of_update s _ g _ h a _ _ g3 g4 rfl
      (objOf_write s h.cache a _ _) (fun b => gObj_setObj g a b _) ?_ (g5.trans h.refund) (g6.trans h.logs) (g7.trans h.alA) (g8.trans h.alS)
    apply R_congr (getOrNew s a).1 _ g _ rfl rfl
    refine ⟨t1.trans r1, t2.trans r2, t3.trans r3, t4.trans r4, fun k' => ?_, fun k' => ?_⟩
    · rw [gStateOf_set]
      by_cases hk : k = k'
      · subst hk; simp only [if_true]
        rw [objState_eq]; simp only; rw [AList.find?_set_self]
      · simp only [hk, if_false]
        rw [← r5 k', ← objState_touch (getOrNew s a).1 a (getOrNew s a).2 k k', objState_eq, objState_eq]
        simp only; rw [AList.find?_set_ne _ _ _ _ hk]
    · have := r6 k'
      rw [← committed_touch (getOrNew s a).1 a (getOrNew s a).2 k k'] at this
      exact this

/-- access-list calls: only the two lists (and the journal) change -/
theorem sim_al (s s' : S) (g g' : GethSpec.G) (h : Sim s g) (h1 : s'.txStore = s.txStore) (h2 : s'.cache = s.cache)
    (h3 : s'.objs = s.objs) (h4 : s'.refund = s.refund) (h5 : s'.logs = s.logs) (hb : g'.base = g.base) (ho : g'.tx.objs = g.tx.objs)
    (hr : g'.tx.refund = g.tx.refund) (hl : g'.tx.logs = g.tx.logs) (eA : s'.alAddrs = g'.tx.alAddrs) (eS : s'.alSlots = g'.tx.alSlots) :
    Sim s' g' := by
  refine ⟨h2.trans h.cache, by rw [h1]; exact h.storeOK, fun b => ?_, by rw [h4, hr]; exact h.refund, by rw [h5, hl]; exact h.logs, eA, eS⟩
  have e1 : objOf s' b = objOf s b := by unfold objOf; rw [h3, h1]
  have e2 : GethSpec.obj? g' b = GethSpec.obj? g b := by unfold GethSpec.obj?; rw [ho, hb]
  rw [e1, e2]
  exact Rel_congr s s' g g' h1 hb b _ _ (h.objs b)

theorem addAddr_fields (s : S) (a : Nat) :
    (addAddr s a).txStore = s.txStore ∧ (addAddr s a).cache = s.cache ∧ (addAddr s a).objs = s.objs ∧ (addAddr s a).refund = s.refund ∧
    (addAddr s a).logs = s.logs ∧ (addAddr s a).alSlots = s.alSlots ∧
    (addAddr s a).alAddrs = if s.alAddrs.contains a then s.alAddrs else s.alAddrs ++ [a] := by
  unfold addAddr
  split <;> exact ⟨rfl, rfl, rfl, rfl, rfl, rfl, rfl⟩

theorem addSlot_fields (s : S) (a k : Nat) :
    (addSlot s a k).txStore = s.txStore ∧ (addSlot s a k).cache = s.cache ∧ (addSlot s a k).objs = s.objs ∧
    (addSlot s a k).refund = s.refund ∧ (addSlot s a k).logs = s.logs ∧
    (addSlot s a k).alSlots = (if s.alSlots.contains (a, k) then s.alSlots else s.alSlots ++ [(a, k)]) ∧
    (addSlot s a k).alAddrs = if s.alAddrs.contains a then s.alAddrs else s.alAddrs ++ [a] := by
  obtain ⟨f1, f2, f3, f4, f5, f6, f7⟩ := addAddr_fields s a
  unfold addSlot
  simp only
  rw [f6]
  split
  · exact ⟨f1, f2, f3, f4, f5, f6, f7⟩
  · exact ⟨f1, f2, f3, f4, f5, by simp only [f6], f7⟩

theorem gAddAddr_fields (g : GethSpec.G) (a : Nat) :
    (GethSpec.apply g (.addAddr a)).1.base = g.base ∧ (GethSpec.apply g (.addAddr a)).1.tx.objs = g.tx.objs ∧
    (GethSpec.apply g (.addAddr a)).1.tx.refund = g.tx.refund ∧ (GethSpec.apply g (.addAddr a)).1.tx.logs = g.tx.logs ∧
    (GethSpec.apply g (.addAddr a)).1.tx.alSlots = g.tx.alSlots ∧
    (GethSpec.apply g (.addAddr a)).1.tx.alAddrs = if g.tx.alAddrs.contains a then g.tx.alAddrs else g.tx.alAddrs ++ [a] := by
  simp only [GethSpec.apply]
  split <;> exact ⟨rfl, rfl, rfl, rfl, rfl, rfl⟩

theorem gAddSlot_fields (g : GethSpec.G) (a k : Nat) :
    (GethSpec.apply g (.addSlot a k)).1.base = g.base ∧ (GethSpec.apply g (.addSlot a k)).1.tx.objs = g.tx.objs ∧
    (GethSpec.apply g (.addSlot a k)).1.tx.refund = g.tx.refund ∧ (GethSpec.apply g (.addSlot a k)).1.tx.logs = g.tx.logs ∧
    (GethSpec.apply g (.addSlot a k)).1.tx.alSlots = (if g.tx.alSlots.contains (a, k) then g.tx.alSlots else g.tx.alSlots ++ [(a, k)]) ∧
    (GethSpec.apply g (.addSlot a k)).1.tx.alAddrs = if g.tx.alAddrs.contains a then g.tx.alAddrs else g.tx.alAddrs ++ [a] := by
  simp only [GethSpec.apply]
  by_cases h1 : g.tx.alAddrs.contains a = true
  · by_cases h2 : g.tx.alSlots.contains (a, k) = true
    · simp only [h1, h2, Bool.false_eq_true, ↓reduceIte]; refine ⟨?_, ?_, ?_, ?_, ?_, ?_⟩ <;> first | rfl | trivial
    · simp only [h1, h2, Bool.false_eq_true, ↓reduceIte]; refine ⟨?_, ?_, ?_, ?_, ?_, ?_⟩ <;> first | rfl | trivial
  · by_cases h2 : g.tx.alSlots.contains (a, k) = true
    · simp only [h1, h2, Bool.false_eq_true, ↓reduceIte]; refine ⟨?_, ?_, ?_, ?_, ?_, ?_⟩ <;> first | rfl | trivial
    · simp only [h1, h2, Bool.false_eq_true, ↓reduceIte]; refine ⟨?_, ?_, ?_, ?_, ?_, ?_⟩ <;> first | rfl | trivial

/-- **every write call preserves the simulation** -/
theorem sim_applyW (s : S) (g : GethSpec.G) (h : Sim s g) (w : WOp) : Sim (applyW s w) (GethSpec.apply g (toSpec w)).1 := by
  cases w with
  | addBalance a d =>
    simp only [applyW, toSpec, GethSpec.apply]
    rw [addBalance_eq]
    by_cases hd : d = 0
    · subst hd
      simp only [if_true]
      obtain ⟨g1, g2, g2', g3, g4, g5, g6, g7, g8⟩ := getOrNew_spec s h.cache a
      have hp := start_pair s g h a
      rw [← g1] at hp
      refine sim_of_update s (getOrNew s a).1 g _ h a (getOrNew s a).2 _ g3 g4 rfl ?_ (fun b => gObj_setObj g a b _) ?_
        (g5.trans h.refund) (g6.trans h.logs) (g7.trans h.alA) (g8.trans h.alS)
      · intro b
        by_cases hab : a = b
        · subst hab; simp only [if_true]; exact g2'
        · simp only [hab, if_false]; exact g2 b hab
      · apply R_congr s _ g _ g3 rfl
        exact R_fields s g a _ _ _ _ hp (by simp [hp.1]) hp.2.1 hp.2.2.1 hp.2.2.2.1 rfl rfl rfl rfl
    · simp only [hd, if_false]
      exact sim_field_write s g h a _ (fun o => { o with balance := o.balance + d }) (fun x => { x with balance := x.balance + d })
        (fun o x e1 e2 e3 e4 => ⟨by simp [e1], e2, e3, e4⟩) (fun _ => ⟨rfl, rfl⟩) (fun _ => ⟨rfl, rfl⟩)
  | setNonce a n =>
    simp only [applyW, toSpec, GethSpec.apply]
    rw [setNonce_eq]
    exact sim_field_write s g h a _ (fun o => { o with nonce := n }) (fun x => { x with nonce := n })
      (fun o x e1 e2 e3 e4 => ⟨e1, rfl, e3, e4⟩) (fun _ => ⟨rfl, rfl⟩) (fun _ => ⟨rfl, rfl⟩)
  | setCode a c =>
    simp only [applyW, toSpec, GethSpec.apply]
    rw [setCode_eq]
    exact sim_field_write s g h a _ (fun o => { o with codeHash := c, dirtyCode := true }) (fun x => { x with code := c })
      (fun o x e1 e2 e3 e4 => ⟨e1, e2, rfl, e4⟩) (fun _ => ⟨rfl, rfl⟩) (fun _ => ⟨rfl, rfl⟩)
  | setState a k v =>
    simp only [applyW, toSpec, GethSpec.apply]
    exact sim_setState s g h a k v
  | suicide a =>
    simp only [applyW, toSpec, GethSpec.apply, suicide]
    obtain ⟨h1, h2, h3, h4, h5, h6, h7, h8⟩ := getObj_spec s h.cache a
    have hr := h.objs a
    rcases hg : getObj s a with ⟨s1, _ | o⟩
    · rw [hg] at h1 h2 h3 h4 h5 h6 h7 h8
      simp only at h1 h2 h3 h4 h5 h6 h7 h8
      rw [← h1] at hr
      cases hx : GethSpec.obj? g a with
      | some x => rw [hx] at hr; exact hr.elim
      | none =>
        simp only
        exact ⟨h4, by rw [h3]; exact h.storeOK, fun b => by rw [h2 b]; exact Rel_congr s s1 g g h3 rfl b _ _ (h.objs b),
          h5.trans h.refund, h6.trans h.logs, h7.trans h.alA, h8.trans h.alS⟩
    · rw [hg] at h1 h2 h3 h4 h5 h6 h7 h8
      simp only at h1 h2 h3 h4 h5 h6 h7 h8
      rw [← h1] at hr
      cases hx : GethSpec.obj? g a with
      | none => rw [hx] at hr; exact hr.elim
      | some x =>
        rw [hx] at hr
        simp only
        have hs1 : Sim s1 g := ⟨h4, by rw [h3]; exact h.storeOK, fun b => by rw [h2 b]; exact Rel_congr s s1 g g h3 rfl b _ _ (h.objs b),
          h5.trans h.refund, h6.trans h.logs, h7.trans h.alA, h8.trans h.alS⟩
        refine sim_of_update s1 _ g _ hs1 a { o with suicided := true, balance := 0 } { x with suicided := true, balance := 0 } rfl h4 rfl
          (fun b => by rw [objOf_setObj, objOf_append]) (fun b => gObj_setObj g a b _) ?_ hs1.refund hs1.logs hs1.alA hs1.alS
        have hr1 : R s1 g a o x := R_congr s s1 g g h3 rfl a o x hr
        apply R_congr s1 _ g _ rfl rfl
        exact R_fields s1 g a o _ x _ hr1 rfl hr1.2.1 hr1.2.2.1 rfl rfl rfl rfl rfl
  | addLog =>
    simp only [applyW, toSpec, GethSpec.apply, addLog]
    exact ⟨h.cache, h.storeOK, fun b => Rel_congr s _ g _ rfl rfl b _ _ (h.objs b), h.refund, by simp [append, h.logs], h.alA, h.alS⟩
  | addRefund r =>
    simp only [applyW, toSpec, GethSpec.apply, addRefund]
    exact ⟨h.cache, h.storeOK, fun b => Rel_congr s _ g _ rfl rfl b _ _ (h.objs b), by simp [append, h.refund], h.logs, h.alA, h.alS⟩
  | subRefund r =>
    simp only [applyW, toSpec, GethSpec.apply, subRefund]
    rw [← h.refund]
    by_cases hr : r > s.refund
    · simp only [hr, if_true, Option.getD]; exact h
    · simp only [hr, if_false, Option.getD]
      exact ⟨h.cache, h.storeOK, fun b => Rel_congr s _ g _ rfl rfl b _ _ (h.objs b), by simp [append, h.refund], h.logs, h.alA, h.alS⟩
  | addAddr a =>
    obtain ⟨f1, f2, f3, f4, f5, f6, f7⟩ := addAddr_fields s a
    obtain ⟨q1, q2, q3, q4, q5, q6⟩ := gAddAddr_fields g a
    show Sim (addAddr s a) (GethSpec.apply g (.addAddr a)).1
    exact sim_al s _ g _ h f1 f2 f3 f4 f5 q1 q2 q3 q4 (by rw [f7, q6, h.alA]) (by rw [f6, q5, h.alS])
  | addSlot a k =>
    obtain ⟨f1, f2, f3, f4, f5, f6, f7⟩ := addSlot_fields s a k
    obtain ⟨q1, q2, q3, q4, q5, q6⟩ := gAddSlot_fields g a k
    show Sim (addSlot s a k) (GethSpec.apply g (.addSlot a k)).1
    exact sim_al s _ g _ h f1 f2 f3 f4 f5 q1 q2 q3 q4 (by rw [f7, q6, h.alA]) (by rw [f6, q5, h.alS])

/-- **every sequence of write calls preserves the simulation** -/
theorem sim_applyAll (ws : List WOp) (s : S) (g : GethSpec.G) (h : Sim s g) :
    Sim (applyAll s ws) ((ws.map toSpec).foldl (fun acc o => (GethSpec.apply acc o).1) g) := by
  induction ws generalizing s g with
  | nil => exact h
  | cons w ws ih => exact ih (applyW s w) (GethSpec.apply g (toSpec w)).1 (sim_applyW s g h w)

/-! ### what related states answer to the interpreter's reads -/

/-- account reads: existence, balance, nonce, code hash and self-destruct flag are the reference's -/
theorem sim_read (s : S) (g : GethSpec.G) (h : Sim s g) (a : Nat) :
    match GethSpec.obj? g a with
    | some x => (readAcc s a).2.exist = true ∧ (readAcc s a).2.balance = x.balance ∧ (readAcc s a).2.nonce = x.nonce ∧
        (readAcc s a).2.codeHash = x.code ∧ (readAcc s a).2.suicided = x.suicided
    | none => (readAcc s a).2.exist = false := by
  have hr := h.objs a
  have h1 := (getObj_spec s h.cache a).1
  unfold readAcc
  rcases hg : getObj s a with ⟨s1, _ | o⟩
  · rw [hg] at h1; simp only at h1; rw [← h1] at hr
    cases hx : GethSpec.obj? g a with
    | some x => rw [hx] at hr; exact hr.elim
    | none => rfl
  · rw [hg] at h1; simp only at h1; rw [← h1] at hr
    cases hx : GethSpec.obj? g a with
    | none => rw [hx] at hr; exact hr.elim
    | some x => rw [hx] at hr; exact ⟨rfl, hr.1, hr.2.1, hr.2.2.1, hr.2.2.2.1⟩

/-- storage reads: `GetState` and `GetCommittedState` return the reference's values -/
theorem sim_getState (s : S) (g : GethSpec.G) (h : Sim s g) (a k : Nat) :
    (getState s a k).2 = (match GethSpec.obj? g a with | some x => GethSpec.stateOf g a x k | none => 0) ∧
    (getCommitted s a k).2 = (match GethSpec.obj? g a with | some x => GethSpec.committedOf g a x k | none => 0) := by
  have hr := h.objs a
  obtain ⟨h1, _, h3, _⟩ := getObj_spec s h.cache a
  unfold getState getCommitted
  rcases hg : getObj s a with ⟨s1, _ | o⟩
  · rw [hg] at h1; simp only at h1; rw [← h1] at hr
    cases hx : GethSpec.obj? g a with
    | some x => rw [hx] at hr; exact hr.elim
    | none => exact ⟨rfl, rfl⟩
  · rw [hg] at h1 h3; simp only at h1 h3; rw [← h1] at hr
    cases hx : GethSpec.obj? g a with
    | none => rw [hx] at hr; exact hr.elim
    | some x =>
      rw [hx] at hr
      simp only
      exact ⟨by rw [objState_congr s s1 h3]; exact hr.2.2.2.2.1 k, by rw [committed_congr s s1 h3]; exact hr.2.2.2.2.2 k⟩

/-! ### the start of a transaction -/

/-- a fresh StateDB over a store and a fresh reference state over the same persisted data are related -/
theorem sim_init (st : Store) (b : GethSpec.Base)
    (hok : ∀ a, st.acct a = none → ∀ k, st.slot a k = 0)
    (hacc : ∀ a, AList.find? b.accts a = (st.acct a).map (fun x => (x.nonce, x.codeHash, x.balance * weiPerUnibi)))
    (hslot : ∀ a k, b.slot a k = st.slot a k) :
    Sim { txStore := st } { base := b } := by
  refine ⟨rfl, hok, fun a => ?_, rfl, rfl, rfl, rfl⟩
  unfold objOf GethSpec.obj? GethSpec.loadAcc loadObj
  simp only [AList.find?]
  rw [hacc a]
  cases hx : st.acct a with
  | none => simp [Rel]
  | some x =>
    simp only [Option.map, Rel]
    refine ⟨rfl, rfl, rfl, rfl, fun k => ?_, fun k => ?_⟩
    · simp [objState, committed, AList.find?, GethSpec.stateOf, GethSpec.committedOf, hslot]
    · simp [committed, AList.find?, GethSpec.committedOf, hslot]

/-! ### CreateAccount (where the interpreter may call it: no storage persisted under the address) -/

/-- `CreateAccount` on an address under which the store holds no slots (what `evm.create` guarantees: no code, no nonce, hence —
    on a chain that only writes storage of contracts — no storage) preserves the simulation: both sides keep the balance and start
    from empty storage. With persisted slots under the address the two differ (go-ethereum's new object hides them, Nibiru's reads
    them from the store); the interface-level generator stays away from that case and DESIGN.md §6 C03 records it. -/
theorem sim_createAccount (s : S) (g : GethSpec.G) (h : Sim s g) (a : Nat) (hs : ∀ k, s.txStore.slot a k = 0) :
    Sim (createAccount s a) (GethSpec.apply g (.createAccount a)).1 := by
  obtain ⟨h1, h2, h3, h4, h5, h6, h7, h8⟩ := getObj_spec s h.cache a
  have hr := h.objs a
  simp only [GethSpec.apply]
  unfold createAccount
  rcases hg : getObj s a with ⟨s1, _ | prev⟩
  · rw [hg] at h1 h2 h3 h4 h5 h6 h7 h8
    simp only at h1 h2 h3 h4 h5 h6 h7 h8
    rw [← h1] at hr
    cases hx : GethSpec.obj? g a with
    | some x => rw [hx] at hr; exact hr.elim
    | none =>
      simp only [Option.map, Option.getD]
      have hs1 : Sim s1 g := ⟨h4, by rw [h3]; exact h.storeOK, fun b => by rw [h2 b]; exact Rel_congr s s1 g g h3 rfl b _ _ (h.objs b),
        h5.trans h.refund, h6.trans h.logs, h7.trans h.alA, h8.trans h.alS⟩
      refine sim_of_update s1 _ g _ hs1 a {} { balance := 0, fresh := true } rfl h4 rfl
        (fun b => by rw [objOf_setObj, objOf_append]) (fun b => gObj_setObj g a b _) ?_ hs1.refund hs1.logs hs1.alA hs1.alS
      refine ⟨rfl, rfl, rfl, rfl, fun k => ?_, fun k => ?_⟩
      · simp [objState, committed, AList.find?, GethSpec.stateOf, GethSpec.committedOf, setObj, append, h3, hs k]
      · simp [committed, AList.find?, GethSpec.committedOf, setObj, append, h3, hs k]
  · rw [hg] at h1 h2 h3 h4 h5 h6 h7 h8
    simp only at h1 h2 h3 h4 h5 h6 h7 h8
    rw [← h1] at hr
    cases hx : GethSpec.obj? g a with
    | none => rw [hx] at hr; exact hr.elim
    | some x =>
      rw [hx] at hr
      simp only [Option.map, Option.getD]
      have hs1 : Sim s1 g := ⟨h4, by rw [h3]; exact h.storeOK, fun b => by rw [h2 b]; exact Rel_congr s s1 g g h3 rfl b _ _ (h.objs b),
        h5.trans h.refund, h6.trans h.logs, h7.trans h.alA, h8.trans h.alS⟩
      refine sim_of_update s1 _ g _ hs1 a { balance := prev.balance } { balance := x.balance, fresh := true } rfl h4 rfl
        (fun b => by rw [objOf_setObj, objOf_append]) (fun b => gObj_setObj g a b _) ?_ hs1.refund hs1.logs hs1.alA hs1.alS
      refine ⟨hr.1, rfl, rfl, rfl, fun k => ?_, fun k => ?_⟩
      · simp [objState, committed, AList.find?, GethSpec.stateOf, GethSpec.committedOf, setObj, append, h3, hs k]
      · simp [committed, AList.find?, GethSpec.committedOf, setObj, append, h3, hs k]

/-! ### a reverted frame: the journaled model is back in relation with the reference state from before the frame -/

theorem getObj_other (s : S) (a b : Nat) (h : a ≠ b) :
    (getObj s a).1.cache = s.cache ∧ (getObj s a).1.txStore = s.txStore ∧ AList.find? (getObj s a).1.objs b = AList.find? s.objs b := by
  unfold getObj
  cases AList.find? s.objs a with
  | some o => exact ⟨rfl, rfl, rfl⟩
  | none =>
    simp only
    cases loadObj (curStore s) a with
    | none => exact ⟨rfl, rfl, rfl⟩
    | some o => exact ⟨rfl, rfl, AList.find?_set_ne _ _ _ _ h⟩

theorem getOrNew_other (s : S) (a b : Nat) (h : a ≠ b) :
    (getOrNew s a).1.cache = s.cache ∧ (getOrNew s a).1.txStore = s.txStore ∧
      AList.find? (getOrNew s a).1.objs b = AList.find? s.objs b := by
  obtain ⟨h1, h2, h3⟩ := getObj_other s a b h
  unfold getOrNew
  rcases hg : getObj s a with ⟨s1, _ | o⟩
  · rw [hg] at h1 h2 h3
    simp only at h1 h2 h3 ⊢
    exact ⟨h1, h2, by rw [find_setObj_other _ _ _ _ h]; exact h3⟩
  · rw [hg] at h1 h2 h3; exact ⟨h1, h2, h3⟩

/-- a write call leaves the cache context, the store and every other account's object alone -/
theorem applyW_other (s : S) (w : WOp) (b : Nat) (hb : w.acct ≠ some b) :
    (applyW s w).cache = s.cache ∧ (applyW s w).txStore = s.txStore ∧ AList.find? (applyW s w).objs b = AList.find? s.objs b := by
  cases w with
  | addBalance a d =>
    have hab : a ≠ b := fun e => hb (by simp [WOp.acct, e])
    obtain ⟨h1, h2, h3⟩ := getOrNew_other s a b hab
    simp only [applyW]; rw [addBalance_eq]
    by_cases hd : d = 0
    · simp only [hd, if_true]; exact ⟨h1, h2, h3⟩
    · simp only [hd, if_false]; exact ⟨h1, h2, by rw [find_setObj_other _ _ _ _ hab]; exact h3⟩
  | setNonce a n =>
    have hab : a ≠ b := fun e => hb (by simp [WOp.acct, e])
    obtain ⟨h1, h2, h3⟩ := getOrNew_other s a b hab
    simp only [applyW]; rw [setNonce_eq]
    exact ⟨h1, h2, by rw [find_setObj_other _ _ _ _ hab]; exact h3⟩
  | setCode a c =>
    have hab : a ≠ b := fun e => hb (by simp [WOp.acct, e])
    obtain ⟨h1, h2, h3⟩ := getOrNew_other s a b hab
    simp only [applyW]; rw [setCode_eq]
    exact ⟨h1, h2, by rw [find_setObj_other _ _ _ _ hab]; exact h3⟩
  | setState a k v =>
    have hab : a ≠ b := fun e => hb (by simp [WOp.acct, e])
    obtain ⟨h1, h2, h3⟩ := getOrNew_other s a b hab
    simp only [applyW]; rw [setState_eq]
    split
    · exact ⟨h1, h2, by rw [find_setObj_other _ _ _ _ hab]; exact h3⟩
    · exact ⟨h1, h2, by rw [find_setObj_other _ _ _ _ hab]; exact h3⟩
  | suicide a =>
    have hab : a ≠ b := fun e => hb (by simp [WOp.acct, e])
    obtain ⟨h1, h2, h3⟩ := getObj_other s a b hab
    simp only [applyW, suicide]
    rcases hg : getObj s a with ⟨s1, _ | o⟩
    · rw [hg] at h1 h2 h3; exact ⟨h1, h2, h3⟩
    · rw [hg] at h1 h2 h3
      simp only at h1 h2 h3 ⊢
      exact ⟨h1, h2, by rw [find_setObj_other _ _ _ _ hab]; exact h3⟩
  | addLog => exact ⟨rfl, rfl, rfl⟩
  | addRefund r => exact ⟨rfl, rfl, rfl⟩
  | subRefund r =>
    simp only [applyW, subRefund]
    split <;> exact ⟨rfl, rfl, rfl⟩
  | addAddr a =>
    obtain ⟨f1, f2, f3, _⟩ := addAddr_fields s a
    exact ⟨f2, f1, by show AList.find? (addAddr s a).objs b = _; rw [f3]⟩
  | addSlot a k =>
    obtain ⟨f1, f2, f3, _⟩ := addSlot_fields s a k
    exact ⟨f2, f1, by show AList.find? (addSlot s a k).objs b = _; rw [f3]⟩

theorem applyAll_other {A : List Nat} (ws : List WOp) (s : S) (hw : ∀ w ∈ ws, ∀ a, w.acct = some a → a ∈ A) (b : Nat) (hb : b ∉ A) :
    (applyAll s ws).cache = s.cache ∧ (applyAll s ws).txStore = s.txStore ∧ AList.find? (applyAll s ws).objs b = AList.find? s.objs b := by
  induction ws generalizing s with
  | nil => exact ⟨rfl, rfl, rfl⟩
  | cons w ws ih =>
    have hwb : w.acct ≠ some b := fun e => hb (hw w (List.mem_cons_self ..) b e)
    obtain ⟨h1, h2, h3⟩ := applyW_other s w b hwb
    obtain ⟨i1, i2, i3⟩ := ih (applyW s w) (fun x hx => hw x (List.mem_cons_of_mem _ hx))
    exact ⟨i1.trans h1, i2.trans h2, i3.trans h3⟩

/-- reverting an entry of a write call on an account of `A` leaves the cache context and every object outside `A` alone -/
theorem revertEntry_other {A : List Nat} (s : S) (e : Entry) (he : EntryOn A e) (b : Nat) (hb : b ∉ A) :
    (revertEntry s e).cache = s.cache ∧ AList.find? (revertEntry s e).objs b = AList.find? s.objs b := by
  have key : ∀ (a : Nat) (f : Obj → Obj), a ∈ A →
      (match getObj s a with | (s1, some o) => setObj s1 a (f o) | (s1, none) => s1).cache = s.cache ∧
      AList.find? (match getObj s a with | (s1, some o) => setObj s1 a (f o) | (s1, none) => s1).objs b = AList.find? s.objs b := by
    intro a f ha
    have hab : a ≠ b := fun e => hb (e ▸ ha)
    obtain ⟨h1, _, h3⟩ := getObj_other s a b hab
    rcases hg : getObj s a with ⟨s1, _ | o⟩
    · rw [hg] at h1 h3; exact ⟨h1, h3⟩
    · rw [hg] at h1 h3
      simp only at h1 h3 ⊢
      exact ⟨h1, by rw [find_setObj_other _ _ _ _ hab]; exact h3⟩
  cases e with
  | balance a p => exact key a (fun o => { o with balance := p }) he
  | nonce a p => exact key a (fun o => { o with nonce := p }) he
  | code a p => exact key a (fun o => { o with codeHash := p, dirtyCode := true }) he
  | storage a k p => exact key a (fun o => { o with dirty := AList.set o.dirty k p }) he
  | suicide a p pb => exact key a (fun o => { o with suicided := p, balance := pb }) he
  | refund p => exact ⟨rfl, rfl⟩
  | addLog => exact ⟨rfl, rfl⟩
  | alAddr a => exact ⟨rfl, rfl⟩
  | alSlot a k => exact ⟨rfl, rfl⟩
  | createObject a => exact he.elim
  | resetObject a p => exact he.elim
  | precompile c => exact he.elim

theorem revertEntries_other {A : List Nat} (es : List Entry) (hes : ∀ e ∈ es, EntryOn A e) (s : S) (b : Nat) (hb : b ∉ A) :
    (revertEntries s es).cache = s.cache ∧ AList.find? (revertEntries s es).objs b = AList.find? s.objs b := by
  induction es generalizing s with
  | nil => exact ⟨rfl, rfl⟩
  | cons e t ih =>
    simp only [revertEntries, List.foldl_cons]
    obtain ⟨h1, h2⟩ := revertEntry_other s e (hes e (List.mem_cons_self ..)) b hb
    obtain ⟨i1, i2⟩ := ih (fun x hx => hes x (List.mem_cons_of_mem _ hx)) (revertEntry s e)
    exact ⟨i1.trans h1, i2.trans h2⟩

/-- transport of the simulation along observational equality on `A` and identity outside `A` -/
theorem sim_of_eqv {A : List Nat} (s s3 : S) (g : GethSpec.G) (h : Sim s g) (he : Eqv A s3 s) (hc : s3.cache = none)
    (hout : ∀ b, b ∉ A → AList.find? s3.objs b = AList.find? s.objs b) : Sim s3 g := by
  refine ⟨hc, by rw [he.store]; exact h.storeOK, fun b => ?_, he.refund.trans h.refund, he.logs.trans h.logs,
    he.alA.trans h.alA, he.alS.trans h.alS⟩
  by_cases hb : b ∈ A
  · obtain ⟨o3, o, f3, f, eo⟩ := he.objs b hb
    have hr := h.objs b
    have e1 : objOf s3 b = some o3 := by unfold objOf; rw [f3]
    have e2 : objOf s b = some o := by unfold objOf; rw [f]
    rw [e1]; rw [e2] at hr
    cases hx : GethSpec.obj? g b with
    | none => rw [hx] at hr; exact hr.elim
    | some x =>
      rw [hx] at hr
      obtain ⟨r1, r2, r3, r4, r5, r6⟩ := hr
      obtain ⟨q1, q2, q3, q4, q5, q6⟩ := eo
      refine ⟨q1.trans r1, q2.trans r2, q3.trans r3, q4.trans r4, fun k => ?_, fun k => ?_⟩
      · rw [objState_eq]
        refine (q6 k).trans ?_
        rw [he.store, ← objState_eq]
        exact r5 k
      · unfold committed
        refine (q5 k).trans ?_
        rw [he.store]
        exact r6 k
  · have e1 : objOf s3 b = objOf s b := by unfold objOf; rw [hout b hb, he.store]
    rw [e1]
    exact Rel_congr s s3 g g he.store rfl b _ _ (h.objs b)

theorem getObj_cache2 (s : S) (a : Nat) : (getObj s a).1.cache = s.cache := by
  unfold getObj
  cases AList.find? s.objs a with
  | some o => rfl
  | none =>
    simp only
    cases loadObj (curStore s) a <;> rfl

theorem getOrNew_cache2 (s : S) (a : Nat) : (getOrNew s a).1.cache = s.cache := by
  have h := getObj_cache2 s a
  unfold getOrNew
  rcases hg : getObj s a with ⟨s1, _ | o⟩
  · rw [hg] at h; exact h
  · rw [hg] at h; exact h

theorem applyW_cache (s : S) (w : WOp) : (applyW s w).cache = s.cache := by
  cases w with
  | addBalance a d =>
    simp only [applyW]; rw [addBalance_eq]
    split <;> exact getOrNew_cache2 s a
  | setNonce a n => simp only [applyW]; rw [setNonce_eq]; exact getOrNew_cache2 s a
  | setCode a c => simp only [applyW]; rw [setCode_eq]; exact getOrNew_cache2 s a
  | setState a k v =>
    simp only [applyW]; rw [setState_eq]
    split <;> exact getOrNew_cache2 s a
  | suicide a =>
    have h := getObj_cache2 s a
    simp only [applyW, suicide]
    rcases hg : getObj s a with ⟨s1, _ | o⟩
    · rw [hg] at h; exact h
    · rw [hg] at h; exact h
  | addLog => rfl
  | addRefund r => rfl
  | subRefund r => simp only [applyW, subRefund]; split <;> rfl
  | addAddr a => exact (addAddr_fields s a).2.1
  | addSlot a k => exact (addSlot_fields s a k).2.1

theorem applyAll_cache (ws : List WOp) (s : S) : (applyAll s ws).cache = s.cache := by
  induction ws generalizing s with
  | nil => rfl
  | cons w ws ih => exact (ih (applyW s w)).trans (applyW_cache s w)

theorem revertEntry_cache2 {A : List Nat} (s : S) (e : Entry) (he : EntryOn A e) : (revertEntry s e).cache = s.cache := by
  have key : ∀ (a : Nat) (f : Obj → Obj),
      (match getObj s a with | (s1, some o) => setObj s1 a (f o) | (s1, none) => s1).cache = s.cache := by
    intro a f
    have h := getObj_cache2 s a
    rcases hg : getObj s a with ⟨s1, _ | o⟩
    · rw [hg] at h; exact h
    · rw [hg] at h; exact h
  cases e with
  | balance a p => exact key a (fun o => { o with balance := p })
  | nonce a p => exact key a (fun o => { o with nonce := p })
  | code a p => exact key a (fun o => { o with codeHash := p, dirtyCode := true })
  | storage a k p => exact key a (fun o => { o with dirty := AList.set o.dirty k p })
  | suicide a p pb => exact key a (fun o => { o with suicided := p, balance := pb })
  | refund p => rfl
  | addLog => rfl
  | alAddr a => rfl
  | alSlot a k => rfl
  | createObject a => exact he.elim
  | resetObject a p => exact he.elim
  | precompile c => exact he.elim

theorem revertEntries_cache2 {A : List Nat} (es : List Entry) (hes : ∀ e ∈ es, EntryOn A e) (s : S) :
    (revertEntries s es).cache = s.cache := by
  induction es generalizing s with
  | nil => rfl
  | cons e t ih =>
    simp only [revertEntries, List.foldl_cons]
    exact (ih (fun x hx => hes x (List.mem_cons_of_mem _ hx)) (revertEntry s e)).trans
      (revertEntry_cache2 s e (hes e (List.mem_cons_self ..)))

/-- **a reverted frame.** From related states, with the accounts of `A` cached (the interpreter reads an account before it writes
    it): Snapshot, any sequence of writes on accounts of `A`, RevertToSnapshot — the call succeeds and the journaled model is again
    related to the reference state from before the frame (to which the reference's own revert returns, `C03_spec_revert_restores`). -/
theorem sim_reverted_frame {A : List Nat} (s : S) (g : GethSpec.G) (h : Sim s g) (hc : Cached A s)
    (hrev : ∀ r ∈ s.revisions, r.1 < s.nextRev) (ws : List WOp) (hw : ∀ w ∈ ws, ∀ a, w.acct = some a → a ∈ A) :
    ∃ s3, revertToSnapshot (applyAll (snapshot s).1 ws) (snapshot s).2 = some s3 ∧ Sim s3 g := by
  obtain ⟨s3, h3, he⟩ := snapshot_revert_restores s hc hrev ws hw
  refine ⟨s3, h3, ?_⟩
  -- what the reverted state is made of
  obtain ⟨es, hj, hon, _⟩ := undo_all ws (snapshot s).1 (cached_of_objs hc rfl) hw
  have hid : (snapshot s).2 = s.nextRev := rfl
  have hr' : (applyAll (snapshot s).1 ws).revisions = s.revisions ++ [(s.nextRev, s.journal.length)] :=
    (applyAll_revisions (snapshot s).1 ws).1
  have hfind := find_ge_appended s.revisions s.nextRev s.journal.length hrev
  have h3' := h3
  unfold revertToSnapshot at h3'
  rw [hid, hr', hfind] at h3'
  simp at h3'
  have hc3 : s3.cache = (revertTo (applyAll (snapshot s).1 ws) s.journal.length).cache := by rw [← h3']
  have ho3 : s3.objs = (revertTo (applyAll (snapshot s).1 ws) s.journal.length).objs := by rw [← h3']
  have hdrop : (applyAll (snapshot s).1 ws).journal.drop s.journal.length = es := by
    rw [hj]; show (s.journal ++ es).drop s.journal.length = es; simp
  have hes : ∀ e ∈ es.reverse, EntryOn A e := fun e he => hon e (List.mem_reverse.mp he)
  have hcache : s3.cache = none := by
    rw [hc3]
    show (revertEntries (applyAll (snapshot s).1 ws) ((applyAll (snapshot s).1 ws).journal.drop s.journal.length).reverse).cache = none
    rw [hdrop, revertEntries_cache2 es.reverse hes, applyAll_cache]
    exact h.cache
  have hout : ∀ b, b ∉ A → AList.find? s3.objs b = AList.find? s.objs b := by
    intro b hb
    rw [ho3]
    show AList.find? (revertEntries (applyAll (snapshot s).1 ws)
      ((applyAll (snapshot s).1 ws).journal.drop s.journal.length).reverse).objs b = _
    rw [hdrop, (revertEntries_other es.reverse hes _ b hb).2, (applyAll_other ws (snapshot s).1 hw b hb).2.2]
    rfl
  exact sim_of_eqv s s3 g h he hcache hout

/-- the relation only looks at the reference's persisted base and transaction state -/
theorem sim_congr_ref (s : S) (g g' : GethSpec.G) (hb : g'.base = g.base) (ht : g'.tx = g.tx) (h : Sim s g) : Sim s g' := by
  refine ⟨h.cache, h.storeOK, fun a => ?_, by rw [ht]; exact h.refund, by rw [ht]; exact h.logs, by rw [ht]; exact h.alA,
    by rw [ht]; exact h.alS⟩
  have e : GethSpec.obj? g' a = GethSpec.obj? g a := by unfold GethSpec.obj?; rw [ht, hb]
  rw [e]
  exact Rel_congr s s g g' rfl hb a _ _ (h.objs a)

theorem toSpec_plain (w : WOp) : (toSpec w).plain = true := by cases w <;> rfl

end Nibiru.SDB
