/-
  NibiruModel.Prelude — shared, core-only helpers for the executable models.
  No Mathlib import anywhere under NibiruModel/ or Driver/ (so the driver can be compiled).
-/
namespace Nibiru

/-- Association-list finite map with `String`/`Nat`/… keys kept in insertion-independent sorted order by the caller
    where order matters; the plain operations below do not assume sortedness. -/
abbrev AList (κ : Type) (ν : Type) := List (κ × ν)

namespace AList
variable {κ ν : Type} [DecidableEq κ]

def find? (m : AList κ ν) (k : κ) : Option ν :=
  match m with
  | [] => none
  | (k', v) :: t => if k' = k then some v else find? t k

def erase (m : AList κ ν) (k : κ) : AList κ ν :=
  m.filter (fun p => p.1 ≠ k)

/-- replace in place when present, else append at the end -/
def set (m : AList κ ν) (k : κ) (v : ν) : AList κ ν :=
  match m with
  | [] => [(k, v)]
  | (k', v') :: t => if k' = k then (k, v) :: t else (k', v') :: set t k v

def keys (m : AList κ ν) : List κ := m.map (·.1)

theorem find?_set_self (m : AList κ ν) (k : κ) (v : ν) : find? (set m k v) k = some v := by
  induction m with
  | nil => simp [set, find?]
  | cons p t ih =>
    obtain ⟨k', v'⟩ := p
    by_cases h : k' = k
    · simp [set, find?, h]
    · simp [set, find?, h, ih]

theorem find?_set_ne (m : AList κ ν) (k k₂ : κ) (v : ν) (h : k ≠ k₂) :
    find? (set m k v) k₂ = find? m k₂ := by
  induction m with
  | nil => simp [set, find?, h]
  | cons p t ih =>
    obtain ⟨k', v'⟩ := p
    by_cases h1 : k' = k
    · subst h1; simp [set, find?, h]
    · by_cases h2 : k' = k₂
      · subst h2; simp [set, find?, h1]
      · simp [set, find?, h1, h2, ih]

theorem erase_cons (k' : κ) (v : ν) (t : AList κ ν) (k : κ) :
    erase ((k', v) :: t) k = if k' = k then erase t k else (k', v) :: erase t k := by
  unfold erase
  by_cases h : k' = k <;> simp [h]

theorem find?_erase_self (m : AList κ ν) (k : κ) : find? (erase m k) k = none := by
  induction m with
  | nil => rfl
  | cons p t ih =>
    obtain ⟨k', v⟩ := p
    rw [erase_cons]
    by_cases h : k' = k
    · simp only [h, if_true]; exact ih
    · simp only [h, if_false, find?]; exact ih

theorem find?_erase_ne (m : AList κ ν) (k k₂ : κ) (h : k ≠ k₂) : find? (erase m k) k₂ = find? m k₂ := by
  induction m with
  | nil => rfl
  | cons p t ih =>
    obtain ⟨k', v⟩ := p
    rw [erase_cons]
    by_cases h1 : k' = k
    · subst h1; simp only [if_true, find?, h, if_false]; exact ih
    · simp only [h1, if_false, find?]
      by_cases h2 : k' = k₂
      · simp [h2]
      · simp [h2, ih]

end AList

/-- insertion into a list sorted by a key function on `String` keys (strict `<` on strings), replacing an equal key. -/
def insertSorted {ν : Type} (m : List (String × ν)) (k : String) (v : ν) : List (String × ν) :=
  match m with
  | [] => [(k, v)]
  | (k', v') :: t =>
    if k < k' then (k, v) :: (k', v') :: t
    else if k = k' then (k, v) :: t
    else (k', v') :: insertSorted t k v

/-- Go's truncating integer division (`big.Int.Quo`, `/` on signed ints). -/
def tquo (a b : Int) : Int := Int.tdiv a b

/-- Parsing helpers for the line protocol. -/
def parseInt? (s : String) : Option Int := s.toInt?
def parseNat? (s : String) : Option Nat := s.toNat?

def boolStr (b : Bool) : String := if b then "1" else "0"

def joinWith (sep : String) (l : List String) : String := sep.intercalate l

end Nibiru

namespace Nibiru
/-- protocol lists: "-" is the empty list, items separated by `sep` -/
def parseItems (sep : String) (s : String) : List String :=
  if s = "-" || s = "" then [] else s.splitOn sep

def renderItems (sep : String) (l : List String) : String :=
  if l.isEmpty then "-" else sep.intercalate l

/-- `KEY=value` section lookup among the arguments of an op line -/
def section? (args : List String) (key : String) : Option String :=
  match args with
  | [] => none
  | a :: as =>
    if a.startsWith (key ++ "=") then some ((a.drop (key.length + 1)).toString) else section? as key

/-- insertion sort by a key, stable -/
def insertBy {α : Type} (le : α → α → Bool) (x : α) : List α → List α
  | [] => [x]
  | y :: ys => if le x y then x :: y :: ys else y :: insertBy le x ys

def sortBy {α : Type} (le : α → α → Bool) : List α → List α
  | [] => []
  | x :: xs => insertBy le x (sortBy le xs)

def sumInts : List Int → Int
  | [] => 0
  | x :: xs => x + sumInts xs
end Nibiru

namespace Nibiru
def denomChar (c : Char) : Bool := c.isAlphanum || c = '/' || c = ':' || c = '.' || c = '_' || c = '-'

/-- `sdk.ValidateDenom` : `[a-zA-Z][a-zA-Z0-9/:._-]{2,127}` -/
def validDenom (d : String) : Bool :=
  match d.toList with
  | [] => false
  | c :: cs => c.isAlpha && cs.all denomChar && decide (2 ≤ cs.length) && decide (cs.length ≤ 127)

/-- split a character list on a separator (like `strings.Split` on a one-byte separator) -/
def splitChar (sep : Char) : List Char → List (List Char)
  | [] => [[]]
  | c :: cs =>
    if c = sep then [] :: splitChar sep cs
    else match splitChar sep cs with
      | [] => [[c]]
      | h :: t => (c :: h) :: t
end Nibiru
