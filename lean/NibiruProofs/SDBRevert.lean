/-
  SDBRevert — the journal of Nibiru's StateDB (NibiruModel.StateDB) undoes any sequence of writes.

  For a state whose accounts of interest are cached (the interpreter reads an account before it writes it) and that has no
  precompile cache context, take ANY sequence of write calls (balance, nonce, code, storage, self-destruct, logs, refund add/sub,
  access-list additions) on those accounts, then revert the journal to its length before the sequence: every observable of the
  StateDB (balance, nonce, code hash, self-destruct flag, current and committed value of every slot, refund counter, log count,
  access list) is what it was.  Proof: each entry's Revert is the inverse of its mutation up to observational equivalence, and
  Revert respects observational equivalence; induction over the sequence.
-/
import NibiruModel.StateDB

namespace Nibiru.SDB
open Nibiru

/-! ### write calls -/

inductive WOp where
  | addBalance (a : Nat) (d : Int) | setNonce (a n : Nat) | setCode (a h : Nat) | setState (a k v : Nat) | suicide (a : Nat)
  | addLog | addRefund (g : Nat) | subRefund (g : Nat) | addAddr (a : Nat) | addSlot (a k : Nat)
deriving Repr, DecidableEq

def applyW (s : S) : WOp → S
  | .addBalance a d => addBalance s a d
  | .setNonce a n => setNonce s a n
  | .setCode a h => setCode s a h
  | .setState a k v => setState s a k v
  | .suicide a => (suicide s a).1
  | .addLog => addLog s
  | .addRefund g => addRefund s g
  | .subRefund g => (subRefund s g).getD s
  | .addAddr a => addAddr s a
  | .addSlot a k => addSlot s a k

/-- the account a write call works on (none for the global counters) -/
def WOp.acct : WOp → Option Nat
  | .addBalance a _ | .setNonce a _ | .setCode a _ | .setState a _ _ | .suicide a => some a
  | _ => none

/-! ### observational equivalence on a set of cached accounts -/

def ObjEqv (st : Store) (a : Nat) (o o' : Obj) : Prop :=
  o.balance = o'.balance ∧ o.nonce = o'.nonce ∧ o.codeHash = o'.codeHash ∧ o.suicided = o'.suicided ∧
  (∀ k, (match AList.find? o.origin k with | some v => v | none => st.slot a k) =
        (match AList.find? o'.origin k with | some v => v | none => st.slot a k)) ∧
  (∀ k, (match AList.find? o.dirty k with
          | some v => v
          | none => (match AList.find? o.origin k with | some v => v | none => st.slot a k)) =
        (match AList.find? o'.dirty k with
          | some v => v
          | none => (match AList.find? o'.origin k with | some v => v | none => st.slot a k)))

structure Eqv (A : List Nat) (s s' : S) : Prop where
  store : s.txStore = s'.txStore
  refund : s.refund = s'.refund
  logs : s.logs = s'.logs
  alA : s.alAddrs = s'.alAddrs
  alS : s.alSlots = s'.alSlots
  objs : ∀ a ∈ A, ∃ o o', AList.find? s.objs a = some o ∧ AList.find? s'.objs a = some o' ∧ ObjEqv s.txStore a o o'

theorem ObjEqv.refl (st : Store) (a : Nat) (o : Obj) : ObjEqv st a o o := ⟨rfl, rfl, rfl, rfl, fun _ => rfl, fun _ => rfl⟩

theorem ObjEqv.trans {st : Store} {a : Nat} {o1 o2 o3 : Obj} (h1 : ObjEqv st a o1 o2) (h2 : ObjEqv st a o2 o3) : ObjEqv st a o1 o3 :=
  ⟨h1.1.trans h2.1, h1.2.1.trans h2.2.1, h1.2.2.1.trans h2.2.2.1, h1.2.2.2.1.trans h2.2.2.2.1,
   fun k => (h1.2.2.2.2.1 k).trans (h2.2.2.2.2.1 k), fun k => (h1.2.2.2.2.2 k).trans (h2.2.2.2.2.2 k)⟩

def Cached (A : List Nat) (s : S) : Prop := ∀ a ∈ A, ∃ o, AList.find? s.objs a = some o

theorem Eqv.refl (A : List Nat) (s : S) (h : Cached A s) : Eqv A s s :=
  ⟨rfl, rfl, rfl, rfl, rfl, fun a ha => by obtain ⟨o, ho⟩ := h a ha; exact ⟨o, o, ho, ho, ObjEqv.refl _ _ _⟩⟩

theorem Eqv.trans {A : List Nat} {s1 s2 s3 : S} (h1 : Eqv A s1 s2) (h2 : Eqv A s2 s3) : Eqv A s1 s3 := by
  refine ⟨h1.store.trans h2.store, h1.refund.trans h2.refund, h1.logs.trans h2.logs, h1.alA.trans h2.alA, h1.alS.trans h2.alS, ?_⟩
  intro a ha
  obtain ⟨o1, o2, f1, f2, e12⟩ := h1.objs a ha
  obtain ⟨o2', o3, f2', f3, e23⟩ := h2.objs a ha
  rw [f2] at f2'
  injection f2' with f2'
  subst f2'
  exact ⟨o1, o3, f1, f3, e12.trans (h1.store ▸ e23)⟩

/-! ### basic facts about cached objects -/

theorem getObj_cached' (s : S) (a : Nat) (o : Obj) (h : AList.find? s.objs a = some o) : getObj s a = (s, some o) := by
  simp [getObj, h]

theorem getOrNew_cached' (s : S) (a : Nat) (o : Obj) (h : AList.find? s.objs a = some o) : getOrNew s a = (s, o) := by
  simp [getOrNew, getObj_cached' s a o h]

theorem find_setObj_same (s : S) (a : Nat) (o : Obj) : AList.find? (setObj s a o).objs a = some o := by
  simp [setObj, AList.find?_set_self]

theorem find_setObj_other (s : S) (a b : Nat) (o : Obj) (h : a ≠ b) : AList.find? (setObj s a o).objs b = AList.find? s.objs b := by
  simp [setObj, AList.find?_set_ne _ _ _ _ h]

@[simp] theorem append_objs (s : S) (e : Entry) : (append s e).objs = s.objs := rfl
@[simp] theorem append_store (s : S) (e : Entry) : (append s e).txStore = s.txStore := rfl
@[simp] theorem append_refund (s : S) (e : Entry) : (append s e).refund = s.refund := rfl
@[simp] theorem append_logs (s : S) (e : Entry) : (append s e).logs = s.logs := rfl
@[simp] theorem append_alA (s : S) (e : Entry) : (append s e).alAddrs = s.alAddrs := rfl
@[simp] theorem append_alS (s : S) (e : Entry) : (append s e).alSlots = s.alSlots := rfl
@[simp] theorem append_journal (s : S) (e : Entry) : (append s e).journal = s.journal ++ [e] := rfl
@[simp] theorem setObj_store (s : S) (a : Nat) (o : Obj) : (setObj s a o).txStore = s.txStore := rfl
@[simp] theorem setObj_refund (s : S) (a : Nat) (o : Obj) : (setObj s a o).refund = s.refund := rfl
@[simp] theorem setObj_logs (s : S) (a : Nat) (o : Obj) : (setObj s a o).logs = s.logs := rfl
@[simp] theorem setObj_alA (s : S) (a : Nat) (o : Obj) : (setObj s a o).alAddrs = s.alAddrs := rfl
@[simp] theorem setObj_alS (s : S) (a : Nat) (o : Obj) : (setObj s a o).alSlots = s.alSlots := rfl
@[simp] theorem setObj_journal (s : S) (a : Nat) (o : Obj) : (setObj s a o).journal = s.journal := rfl

/-- replacing the cached object of `a` by an equivalent one gives an equivalent state -/
theorem eqv_setObj {A : List Nat} {s s' : S} (h : Eqv A s s') (a : Nat) (o o' : Obj) (ho : ObjEqv s.txStore a o o') :
    Eqv A (setObj s a o) (setObj s' a o') := by
  refine ⟨h.store, h.refund, h.logs, h.alA, h.alS, ?_⟩
  intro b hb
  by_cases hab : a = b
  · subst hab
    exact ⟨o, o', find_setObj_same _ _ _, find_setObj_same _ _ _, ho⟩
  · rw [find_setObj_other _ _ _ _ hab, find_setObj_other _ _ _ _ hab]
    exact h.objs b hb

/-- changing only one side's object to an equivalent one -/
theorem eqv_setObj_left {A : List Nat} {s s' : S} (h : Eqv A s s') (a : Nat) (ha : a ∈ A) (o : Obj)
    (ho : ∀ o', AList.find? s'.objs a = some o' → ObjEqv s.txStore a o o') : Eqv A (setObj s a o) s' := by
  refine ⟨h.store, h.refund, h.logs, h.alA, h.alS, ?_⟩
  intro b hb
  by_cases hab : a = b
  · subst hab
    obtain ⟨_, o', _, f', _⟩ := h.objs a ha
    exact ⟨o, o', find_setObj_same _ _ _, f', ho o' f'⟩
  · rw [find_setObj_other _ _ _ _ hab]
    exact h.objs b hb

/-! ### Revert respects equivalence -/

theorem revertEntry_congr {A : List Nat} {s s' : S} (h : Eqv A s s') (e : Entry)
    (he : match e with
          | .balance a _ | .nonce a _ | .code a _ | .storage a _ _ | .suicide a _ _ => a ∈ A
          | .refund _ | .addLog | .alAddr _ | .alSlot _ _ => True
          | _ => False) :
    Eqv A (revertEntry s e) (revertEntry s' e) := by
  cases e with
  | createObject a => exact absurd he id
  | resetObject a p => exact absurd he id
  | precompile st => exact absurd he id
  | refund p => exact ⟨h.store, rfl, h.logs, h.alA, h.alS, h.objs⟩
  | addLog => exact ⟨h.store, h.refund, by simp [revertEntry, h.logs], h.alA, h.alS, h.objs⟩
  | alAddr a => exact ⟨h.store, h.refund, h.logs, by simp [revertEntry, h.alA], h.alS, h.objs⟩
  | alSlot a k => exact ⟨h.store, h.refund, h.logs, h.alA, by simp [revertEntry, h.alS], h.objs⟩
  | balance a p =>
    obtain ⟨o, o', f, f', eo⟩ := h.objs a he
    simp only [revertEntry, getObj_cached' s a o f, getObj_cached' s' a o' f']
    exact eqv_setObj h a _ _ ⟨rfl, eo.2.1, eo.2.2.1, eo.2.2.2.1, eo.2.2.2.2.1, eo.2.2.2.2.2⟩
  | nonce a p =>
    obtain ⟨o, o', f, f', eo⟩ := h.objs a he
    simp only [revertEntry, getObj_cached' s a o f, getObj_cached' s' a o' f']
    exact eqv_setObj h a _ _ ⟨eo.1, rfl, eo.2.2.1, eo.2.2.2.1, eo.2.2.2.2.1, eo.2.2.2.2.2⟩
  | code a p =>
    obtain ⟨o, o', f, f', eo⟩ := h.objs a he
    simp only [revertEntry, getObj_cached' s a o f, getObj_cached' s' a o' f']
    exact eqv_setObj h a _ _ ⟨eo.1, eo.2.1, rfl, eo.2.2.2.1, eo.2.2.2.2.1, eo.2.2.2.2.2⟩
  | suicide a p pb =>
    obtain ⟨o, o', f, f', eo⟩ := h.objs a he
    simp only [revertEntry, getObj_cached' s a o f, getObj_cached' s' a o' f']
    exact eqv_setObj h a _ _ ⟨rfl, eo.2.1, eo.2.2.1, rfl, eo.2.2.2.2.1, eo.2.2.2.2.2⟩
  | storage a k p =>
    obtain ⟨o, o', f, f', eo⟩ := h.objs a he
    simp only [revertEntry, getObj_cached' s a o f, getObj_cached' s' a o' f']
    refine eqv_setObj h a _ _ ⟨eo.1, eo.2.1, eo.2.2.1, eo.2.2.2.1, eo.2.2.2.2.1, ?_⟩
    intro k'
    by_cases hk : k = k'
    · subst hk; simp [AList.find?_set_self]
    · simp only [AList.find?_set_ne _ _ _ _ hk]
      exact eo.2.2.2.2.2 k'

def EntryOn (A : List Nat) (e : Entry) : Prop :=
  match e with
  | .balance a _ | .nonce a _ | .code a _ | .storage a _ _ | .suicide a _ _ => a ∈ A
  | .refund _ | .addLog | .alAddr _ | .alSlot _ _ => True
  | _ => False

theorem revertEntries_congr {A : List Nat} (es : List Entry) (hes : ∀ e ∈ es, EntryOn A e) {s s' : S} (h : Eqv A s s') :
    Eqv A (revertEntries s es) (revertEntries s' es) := by
  induction es generalizing s s' with
  | nil => exact h
  | cons e t ih =>
    simp only [revertEntries, List.foldl_cons]
    exact ih (fun x hx => hes x (List.mem_cons_of_mem _ hx)) (revertEntry_congr h e (hes e (List.mem_cons_self ..)))

/-! ### each write call: shape of the journal, and Revert of its entries is the inverse (up to equivalence) -/

def Undo (A : List Nat) (s s1 : S) : Prop :=
  ∃ es : List Entry, s1.journal = s.journal ++ es ∧ (∀ e ∈ es, EntryOn A e) ∧ Cached A s1 ∧ Eqv A (revertEntries s1 es.reverse) s

theorem cached_setObj {A : List Nat} {s : S} (h : Cached A s) (a : Nat) (o : Obj) : Cached A (setObj s a o) := by
  intro b hb
  by_cases hab : a = b
  · subst hab; exact ⟨o, find_setObj_same _ _ _⟩
  · rw [find_setObj_other _ _ _ _ hab]; exact h b hb

theorem cached_of_objs {A : List Nat} {s s' : S} (h : Cached A s) (e : s'.objs = s.objs) : Cached A s' := by
  intro a ha; rw [e]; exact h a ha

theorem eqv_of_fields {A : List Nat} {s s' : S} (hc : Cached A s') (h1 : s.txStore = s'.txStore) (h2 : s.refund = s'.refund)
    (h3 : s.logs = s'.logs) (h4 : s.alAddrs = s'.alAddrs) (h5 : s.alSlots = s'.alSlots) (h6 : s.objs = s'.objs) : Eqv A s s' :=
  ⟨h1, h2, h3, h4, h5, fun a ha => by
    obtain ⟨o, ho⟩ := hc a ha
    exact ⟨o, o, by rw [h6]; exact ho, ho, ObjEqv.refl _ _ _⟩⟩

theorem filter_ne_append_self {α : Type} [DecidableEq α] (l : List α) (a : α) (h : a ∉ l) :
    (l ++ [a]).filter (fun x => decide (x ≠ a)) = l := by
  have h1 : l.filter (fun x => decide (x ≠ a)) = l := by
    apply List.filter_eq_self.mpr
    intro x hx
    simp only [ne_eq, decide_not, Bool.not_eq_true', decide_eq_false_iff_not]
    intro e; subst e; exact h hx
  rw [List.filter_append, h1]
  simp

/-- the state `t` differs from `s` only in the cached object of `a`, which is equivalent to the one `s` has -/
theorem eqv_after_set {A : List Nat} {s t : S} (hc : Cached A s) (h1 : t.txStore = s.txStore) (h2 : t.refund = s.refund)
    (h3 : t.logs = s.logs) (h4 : t.alAddrs = s.alAddrs) (h5 : t.alSlots = s.alSlots) (a : Nat) (o o2 : Obj)
    (ho : AList.find? s.objs a = some o) (hobjs : ∀ b, a ≠ b → AList.find? t.objs b = AList.find? s.objs b)
    (hfa : AList.find? t.objs a = some o2) (heq : ObjEqv s.txStore a o2 o) : Eqv A t s := by
  refine ⟨h1, h2, h3, h4, h5, ?_⟩
  intro b hb
  by_cases hab : a = b
  · subst hab; exact ⟨o2, o, hfa, ho, h1 ▸ heq⟩
  · obtain ⟨ob, hob⟩ := hc b hb
    exact ⟨ob, ob, by rw [hobjs b hab]; exact hob, hob, ObjEqv.refl _ _ _⟩

theorem touch_fields (s : S) (a : Nat) (o : Obj) (k : Nat) :
    (touchState s a o k).balance = o.balance ∧ (touchState s a o k).nonce = o.nonce ∧ (touchState s a o k).codeHash = o.codeHash ∧
    (touchState s a o k).suicided = o.suicided ∧ (touchState s a o k).dirty = o.dirty := by
  cases hd : AList.find? o.dirty k with
  | some v => simp [touchState, hd]
  | none =>
    cases ho : AList.find? o.origin k with
    | some v => simp [touchState, cacheOrigin, hd, ho]
    | none => simp [touchState, cacheOrigin, hd, ho]

theorem touch_committed (s : S) (a : Nat) (o : Obj) (k k' : Nat) :
    (match AList.find? (touchState s a o k).origin k' with | some v => v | none => s.txStore.slot a k') =
    (match AList.find? o.origin k' with | some v => v | none => s.txStore.slot a k') := by
  cases hd : AList.find? o.dirty k with
  | some v => simp only [touchState, hd]
  | none =>
    cases ho : AList.find? o.origin k with
    | some v => simp only [touchState, cacheOrigin, hd, ho]
    | none =>
      simp only [touchState, cacheOrigin, hd, ho]
      by_cases hk : k = k'
      · subst hk; simp [AList.find?_set_self, ho]
      · simp [AList.find?_set_ne _ _ _ _ hk]

theorem objEqv_touch (s : S) (a : Nat) (o : Obj) (k : Nat) : ObjEqv s.txStore a (touchState s a o k) o := by
  obtain ⟨f1, f2, f3, f4, f5⟩ := touch_fields s a o k
  refine ⟨f1, f2, f3, f4, fun k' => touch_committed s a o k k', ?_⟩
  intro k'
  rw [f5, touch_committed s a o k k']

theorem objState_eq (s : S) (a : Nat) (o : Obj) (k : Nat) :
    objState s a o k = (match AList.find? o.dirty k with
      | some v => v
      | none => (match AList.find? o.origin k with | some v => v | none => s.txStore.slot a k)) := by
  unfold objState committed; rfl

theorem undoW {A : List Nat} (s : S) (hc : Cached A s) (w : WOp) (hw : ∀ a, w.acct = some a → a ∈ A) : Undo A s (applyW s w) := by
  cases w with
  | addLog =>
    exact ⟨[.addLog], rfl, by simp [EntryOn], cached_of_objs hc rfl,
      eqv_of_fields hc rfl rfl (by simp [applyW, revertEntries, revertEntry, addLog, append]) rfl rfl rfl⟩
  | addRefund g =>
    exact ⟨[.refund s.refund], rfl, by simp [EntryOn], cached_of_objs hc rfl,
      eqv_of_fields hc rfl (by simp [revertEntries, revertEntry]) rfl rfl rfl rfl⟩
  | subRefund g =>
    by_cases hg : g > s.refund
    · have : applyW s (.subRefund g) = s := by simp [applyW, subRefund, hg]
      rw [this]
      exact ⟨[], by simp, by simp, hc, Eqv.refl A s hc⟩
    · have : applyW s (.subRefund g) = { (append s (.refund s.refund)) with refund := s.refund - g } := by
        simp [applyW, subRefund, hg]
      rw [this]
      exact ⟨[.refund s.refund], rfl, by simp [EntryOn], cached_of_objs hc rfl,
        eqv_of_fields hc rfl (by simp [revertEntries, revertEntry]) rfl rfl rfl rfl⟩
  | addAddr a =>
    by_cases hin : a ∈ s.alAddrs
    · have : applyW s (.addAddr a) = s := by simp [applyW, addAddr, hin]
      rw [this]
      exact ⟨[], by simp, by simp, hc, Eqv.refl A s hc⟩
    · have hnot : a ∉ s.alAddrs := hin
      have : applyW s (.addAddr a) = { (append s (.alAddr a)) with alAddrs := s.alAddrs ++ [a] } := by
        simp [applyW, addAddr, hin]
      rw [this]
      exact ⟨[.alAddr a], rfl, by simp [EntryOn], cached_of_objs hc rfl,
        eqv_of_fields hc rfl rfl rfl (by
          show (s.alAddrs ++ [a]).filter (fun x => decide (x ≠ a)) = s.alAddrs
          exact filter_ne_append_self _ _ hnot) rfl rfl⟩
  | addSlot a k =>
    have step1 : ∃ s1 es1, s1 = addAddr s a ∧ s1.journal = s.journal ++ es1 ∧ (∀ e ∈ es1, EntryOn A e) ∧ Cached A s1 ∧
        Eqv A (revertEntries s1 es1.reverse) s ∧ s1.alSlots = s.alSlots := by
      by_cases hin : a ∈ s.alAddrs
      · exact ⟨s, [], by simp [addAddr, hin], by simp, by simp, hc, Eqv.refl A s hc, rfl⟩
      · have hnot : a ∉ s.alAddrs := hin
        refine ⟨{ (append s (.alAddr a)) with alAddrs := s.alAddrs ++ [a] }, [.alAddr a], by simp [addAddr, hin], rfl,
          by simp [EntryOn], cached_of_objs hc rfl, ?_, rfl⟩
        exact eqv_of_fields hc rfl rfl rfl (by
          show (s.alAddrs ++ [a]).filter (fun x => decide (x ≠ a)) = s.alAddrs
          exact filter_ne_append_self _ _ hnot) rfl rfl
    obtain ⟨s1, es1, hs1, hj1, hon1, hc1, hinv1, hsl⟩ := step1
    by_cases hin2 : (a, k) ∈ s1.alSlots
    · have : applyW s (.addSlot a k) = s1 := by simp [applyW, addSlot, ← hs1, hin2]
      rw [this]
      exact ⟨es1, hj1, hon1, hc1, hinv1⟩
    · have hnot : (a, k) ∉ s1.alSlots := hin2
      have : applyW s (.addSlot a k) = { (append s1 (.alSlot a k)) with alSlots := s1.alSlots ++ [(a, k)] } := by
        simp [applyW, addSlot, ← hs1, hin2]
      rw [this]
      refine ⟨es1 ++ [.alSlot a k], by simp [hj1], ?_, cached_of_objs hc1 rfl, ?_⟩
      · intro e he
        rcases List.mem_append.mp he with h | h
        · exact hon1 e h
        · simp only [List.mem_singleton] at h; subst h; simp [EntryOn]
      · simp only [List.reverse_append, List.reverse_cons, List.reverse_nil, List.nil_append, List.singleton_append,
          revertEntries, List.foldl_cons]
        have e1 : Eqv A (revertEntry { (append s1 (.alSlot a k)) with alSlots := s1.alSlots ++ [(a, k)] } (.alSlot a k)) s1 :=
          eqv_of_fields hc1 rfl rfl rfl rfl (by
            show (s1.alSlots ++ [(a, k)]).filter (fun x => decide (x ≠ (a, k))) = s1.alSlots
            exact filter_ne_append_self _ _ hnot) rfl
        exact (revertEntries_congr es1.reverse (fun e he => hon1 e (List.mem_reverse.mp he)) e1).trans hinv1
  | addBalance a d =>
    have ha := hw a rfl
    obtain ⟨o, ho⟩ := hc a ha
    by_cases hd : d = 0
    · have : applyW s (.addBalance a d) = s := by simp [applyW, addBalance, getOrNew_cached' s a o ho, hd]
      rw [this]
      exact ⟨[], by simp, by simp, hc, Eqv.refl A s hc⟩
    · have : applyW s (.addBalance a d) = setObj (append s (.balance a o.balance)) a { o with balance := o.balance + d } := by
        simp [applyW, addBalance, getOrNew_cached' s a o ho, hd]
      rw [this]
      refine ⟨[.balance a o.balance], rfl, by simp [EntryOn, ha], cached_setObj (cached_of_objs hc rfl) _ _, ?_⟩
      simp only [List.reverse_cons, List.reverse_nil, List.nil_append, revertEntries, List.foldl_cons, List.foldl_nil, revertEntry]
      rw [getObj_cached' _ a _ (find_setObj_same _ _ _)]
      exact eqv_after_set hc rfl rfl rfl rfl rfl a o _ ho
        (fun b hab => by simp [setObj, AList.find?_set_ne _ _ _ _ hab]) (find_setObj_same _ _ _) (ObjEqv.refl _ _ _)
  | setNonce a n =>
    have ha := hw a rfl
    obtain ⟨o, ho⟩ := hc a ha
    have : applyW s (.setNonce a n) = setObj (append s (.nonce a o.nonce)) a { o with nonce := n } := by
      simp [applyW, setNonce, getOrNew_cached' s a o ho]
    rw [this]
    refine ⟨[.nonce a o.nonce], rfl, by simp [EntryOn, ha], cached_setObj (cached_of_objs hc rfl) _ _, ?_⟩
    simp only [List.reverse_cons, List.reverse_nil, List.nil_append, revertEntries, List.foldl_cons, List.foldl_nil, revertEntry]
    rw [getObj_cached' _ a _ (find_setObj_same _ _ _)]
    exact eqv_after_set hc rfl rfl rfl rfl rfl a o _ ho
      (fun b hab => by simp [setObj, AList.find?_set_ne _ _ _ _ hab]) (find_setObj_same _ _ _) (ObjEqv.refl _ _ _)
  | setCode a h =>
    have ha := hw a rfl
    obtain ⟨o, ho⟩ := hc a ha
    have : applyW s (.setCode a h) = setObj (append s (.code a o.codeHash)) a { o with codeHash := h, dirtyCode := true } := by
      simp [applyW, setCode, getOrNew_cached' s a o ho]
    rw [this]
    refine ⟨[.code a o.codeHash], rfl, by simp [EntryOn, ha], cached_setObj (cached_of_objs hc rfl) _ _, ?_⟩
    simp only [List.reverse_cons, List.reverse_nil, List.nil_append, revertEntries, List.foldl_cons, List.foldl_nil, revertEntry]
    rw [getObj_cached' _ a _ (find_setObj_same _ _ _)]
    exact eqv_after_set hc rfl rfl rfl rfl rfl a o _ ho
      (fun b hab => by simp [setObj, AList.find?_set_ne _ _ _ _ hab]) (find_setObj_same _ _ _)
      ⟨rfl, rfl, rfl, rfl, fun _ => rfl, fun _ => rfl⟩
  | suicide a =>
    have ha := hw a rfl
    obtain ⟨o, ho⟩ := hc a ha
    have : applyW s (.suicide a) = setObj (append s (.suicide a o.suicided o.balance)) a { o with suicided := true, balance := 0 } := by
      simp [applyW, suicide, getObj_cached' s a o ho]
    rw [this]
    refine ⟨[.suicide a o.suicided o.balance], rfl, by simp [EntryOn, ha], cached_setObj (cached_of_objs hc rfl) _ _, ?_⟩
    simp only [List.reverse_cons, List.reverse_nil, List.nil_append, revertEntries, List.foldl_cons, List.foldl_nil, revertEntry]
    rw [getObj_cached' _ a _ (find_setObj_same _ _ _)]
    exact eqv_after_set hc rfl rfl rfl rfl rfl a o _ ho
      (fun b hab => by simp [setObj, AList.find?_set_ne _ _ _ _ hab]) (find_setObj_same _ _ _) (ObjEqv.refl _ _ _)
  | setState a k v =>
    have ha := hw a rfl
    obtain ⟨o, ho⟩ := hc a ha
    by_cases hv : objState s a o k = v
    · have : applyW s (.setState a k v) = setObj s a (touchState s a o k) := by
        simp [applyW, setState, getOrNew_cached' s a o ho, hv]
      rw [this]
      refine ⟨[], by simp, by simp, cached_setObj hc _ _, ?_⟩
      simp only [List.reverse_nil, revertEntries, List.foldl_nil]
      exact eqv_after_set hc rfl rfl rfl rfl rfl a o _ ho
        (fun b hab => by simp [setObj, AList.find?_set_ne _ _ _ _ hab]) (find_setObj_same _ _ _) (objEqv_touch s a o k)
    · have : applyW s (.setState a k v) = setObj (append s (.storage a k (objState s a o k))) a
          { (touchState s a o k) with dirty := AList.set (touchState s a o k).dirty k v } := by
        simp [applyW, setState, getOrNew_cached' s a o ho, hv]
      rw [this]
      refine ⟨[.storage a k (objState s a o k)], rfl, by simp [EntryOn, ha], cached_setObj (cached_of_objs hc rfl) _ _, ?_⟩
      simp only [List.reverse_cons, List.reverse_nil, List.nil_append, revertEntries, List.foldl_cons, List.foldl_nil, revertEntry]
      rw [getObj_cached' _ a _ (find_setObj_same _ _ _)]
      obtain ⟨f1, f2, f3, f4, f5⟩ := touch_fields s a o k
      refine eqv_after_set hc rfl rfl rfl rfl rfl a o _ ho
        (fun b hab => by simp [setObj, AList.find?_set_ne _ _ _ _ hab]) (find_setObj_same _ _ _) ?_
      refine ⟨f1, f2, f3, f4, fun k' => touch_committed s a o k k', ?_⟩
      intro k'
      by_cases hk : k = k'
      · subst hk
        simp only [AList.find?_set_self]
        exact objState_eq s a o k
      · simp only [AList.find?_set_ne _ _ _ _ hk, f5]
        rw [touch_committed s a o k k']

/-! ### sequences -/

def applyAll (s : S) (ws : List WOp) : S := ws.foldl applyW s

theorem revertEntries_append (s : S) (l1 l2 : List Entry) : revertEntries s (l1 ++ l2) = revertEntries (revertEntries s l1) l2 := by
  simp [revertEntries, List.foldl_append]

/-- all entries appended by a sequence of write calls, and the equivalence after reverting them newest first -/
theorem undo_all {A : List Nat} (ws : List WOp) (s : S) (hc : Cached A s) (hw : ∀ w ∈ ws, ∀ a, w.acct = some a → a ∈ A) :
    ∃ es, (applyAll s ws).journal = s.journal ++ es ∧ (∀ e ∈ es, EntryOn A e) ∧ Eqv A (revertEntries (applyAll s ws) es.reverse) s := by
  induction ws generalizing s with
  | nil => exact ⟨[], by simp [applyAll], by simp, Eqv.refl A s hc⟩
  | cons w t ih =>
    obtain ⟨ues, uj, uon, ucached, uinv⟩ := undoW s hc w (hw w (List.mem_cons_self ..))
    obtain ⟨es2, hj2, hon2, hinv2⟩ := ih (applyW s w) ucached (fun x hx => hw x (List.mem_cons_of_mem _ hx))
    refine ⟨ues ++ es2, ?_, ?_, ?_⟩
    · simp only [applyAll, List.foldl_cons] at hj2 ⊢
      rw [hj2, uj, List.append_assoc]
    · intro e he
      rcases List.mem_append.mp he with h | h
      · exact uon e h
      · exact hon2 e h
    · simp only [applyAll, List.foldl_cons] at hinv2 ⊢
      rw [List.reverse_append, revertEntries_append]
      exact (revertEntries_congr ues.reverse (fun e he => uon e (List.mem_reverse.mp he)) hinv2).trans uinv

/-! ### the theorem about the model's `revertTo` -/

theorem eqv_of_same_core {A : List Nat} {x y : S} (h : Eqv A x y) (x' : S) (h1 : x'.txStore = x.txStore) (h2 : x'.refund = x.refund)
    (h3 : x'.logs = x.logs) (h4 : x'.alAddrs = x.alAddrs) (h5 : x'.alSlots = x.alSlots) (h6 : x'.objs = x.objs) : Eqv A x' y :=
  ⟨h1.trans h.store, h2.trans h.refund, h3.trans h.logs, h4.trans h.alA, h5.trans h.alS, fun a ha => by
    obtain ⟨o, o', f, f', e⟩ := h.objs a ha
    exact ⟨o, o', by rw [h6]; exact f, f', h1 ▸ e⟩⟩

/-- **the journal undoes any sequence of writes.** `A`: accounts cached in `s`; `ws`: any write calls on accounts of `A` (and on
    the global counters); reverting the journal to its length before the sequence gives a StateDB that is observationally equal
    to `s` on `A`: balances, nonces, code hashes, self-destruct flags, current and committed value of every slot, refund counter,
    number of logs, access list. -/
theorem revertTo_restores {A : List Nat} (s : S) (hc : Cached A s) (ws : List WOp)
    (hw : ∀ w ∈ ws, ∀ a, w.acct = some a → a ∈ A) :
    Eqv A (revertTo (applyAll s ws) s.journal.length) s := by
  obtain ⟨es, hj, _, hinv⟩ := undo_all ws s hc hw
  have hdrop : (applyAll s ws).journal.drop s.journal.length = es := by rw [hj]; simp
  have : Eqv A (revertEntries (applyAll s ws) ((applyAll s ws).journal.drop s.journal.length).reverse) s := by
    rw [hdrop]; exact hinv
  exact eqv_of_same_core this _ rfl rfl rfl rfl rfl rfl

end Nibiru.SDB

namespace Nibiru.SDB
open Nibiru

theorem getObj_revisions (s : S) (a : Nat) : (getObj s a).1.revisions = s.revisions ∧ (getObj s a).1.nextRev = s.nextRev ∧
    (getObj s a).1.journal = s.journal := by
  unfold getObj
  split
  · exact ⟨rfl, rfl, rfl⟩
  · split <;> exact ⟨rfl, rfl, rfl⟩

theorem getOrNew_revisions (s : S) (a : Nat) : (getOrNew s a).1.revisions = s.revisions ∧ (getOrNew s a).1.nextRev = s.nextRev := by
  unfold getOrNew
  obtain ⟨h1, h2, _⟩ := getObj_revisions s a
  cases hg : getObj s a with
  | mk s1 oo =>
    rw [hg] at h1 h2
    cases oo with
    | some o => exact ⟨h1, h2⟩
    | none => exact ⟨h1, h2⟩

theorem applyW_revisions (s : S) (w : WOp) : (applyW s w).revisions = s.revisions ∧ (applyW s w).nextRev = s.nextRev := by
  cases w with
  | addBalance a d =>
    obtain ⟨h1, h2⟩ := getOrNew_revisions s a
    simp only [applyW, addBalance]
    cases hg : getOrNew s a with
    | mk s1 o => rw [hg] at h1 h2; simp only; split <;> exact ⟨h1, h2⟩
  | setNonce a n =>
    obtain ⟨h1, h2⟩ := getOrNew_revisions s a
    simp only [applyW, setNonce]
    cases hg : getOrNew s a with
    | mk s1 o => rw [hg] at h1 h2; exact ⟨h1, h2⟩
  | setCode a h =>
    obtain ⟨h1, h2⟩ := getOrNew_revisions s a
    simp only [applyW, setCode]
    cases hg : getOrNew s a with
    | mk s1 o => rw [hg] at h1 h2; exact ⟨h1, h2⟩
  | setState a k v =>
    obtain ⟨h1, h2⟩ := getOrNew_revisions s a
    simp only [applyW, setState]
    cases hg : getOrNew s a with
    | mk s1 o => rw [hg] at h1 h2; simp only; split <;> exact ⟨h1, h2⟩
  | suicide a =>
    obtain ⟨h1, h2, _⟩ := getObj_revisions s a
    simp only [applyW, suicide]
    cases hg : getObj s a with
    | mk s1 oo =>
      rw [hg] at h1 h2
      cases oo with
      | some o => exact ⟨h1, h2⟩
      | none => exact ⟨h1, h2⟩
  | addLog => exact ⟨rfl, rfl⟩
  | addRefund g => exact ⟨rfl, rfl⟩
  | subRefund g => simp only [applyW, subRefund]; split <;> exact ⟨rfl, rfl⟩
  | addAddr a => simp only [applyW, addAddr]; split <;> exact ⟨rfl, rfl⟩
  | addSlot a k =>
    simp only [applyW, addSlot, addAddr]
    split <;> split <;> exact ⟨rfl, rfl⟩

theorem applyAll_revisions (s : S) (ws : List WOp) : (applyAll s ws).revisions = s.revisions ∧ (applyAll s ws).nextRev = s.nextRev := by
  induction ws generalizing s with
  | nil => exact ⟨rfl, rfl⟩
  | cons w t ih =>
    simp only [applyAll, List.foldl_cons]
    obtain ⟨a, b⟩ := ih (applyW s w)
    obtain ⟨c, d⟩ := applyW_revisions s w
    exact ⟨a.trans c, b.trans d⟩

theorem find_ge_appended (l : List (Nat × Nat)) (n j : Nat) (h : ∀ r ∈ l, r.1 < n) :
    (l ++ [(n, j)]).find? (fun r => decide (r.1 ≥ n)) = some (n, j) := by
  induction l with
  | nil => simp
  | cons x xs ih =>
    have hx : x.1 < n := h x (List.mem_cons_self ..)
    have : ¬ x.1 ≥ n := by omega
    simp only [List.cons_append, List.find?_cons, this, decide_false]
    exact ih (fun r hr => h r (List.mem_cons_of_mem _ hr))

/-- **Snapshot … RevertToSnapshot.** Take a snapshot, make any sequence of write calls on cached accounts, revert to the
    snapshot: the call succeeds (the id is valid) and the StateDB is observationally what it was when the snapshot was taken. -/
theorem snapshot_revert_restores {A : List Nat} (s : S) (hc : Cached A s) (hrev : ∀ r ∈ s.revisions, r.1 < s.nextRev)
    (ws : List WOp) (hw : ∀ w ∈ ws, ∀ a, w.acct = some a → a ∈ A) :
    ∃ s3, revertToSnapshot (applyAll (snapshot s).1 ws) (snapshot s).2 = some s3 ∧ Eqv A s3 s := by
  have hsnap : (snapshot s).1 = { s with revisions := s.revisions ++ [(s.nextRev, s.journal.length)], nextRev := s.nextRev + 1 } := rfl
  have hid : (snapshot s).2 = s.nextRev := rfl
  have hc1 : Cached A (snapshot s).1 := cached_of_objs hc rfl
  obtain ⟨hr, _⟩ := applyAll_revisions (snapshot s).1 ws
  have hr' : (applyAll (snapshot s).1 ws).revisions = s.revisions ++ [(s.nextRev, s.journal.length)] := by rw [hr, hsnap]
  have hfind := find_ge_appended s.revisions s.nextRev s.journal.length hrev
  have hmain := revertTo_restores (snapshot s).1 hc1 ws hw
  have hjl : (snapshot s).1.journal.length = s.journal.length := rfl
  rw [hjl] at hmain
  refine ⟨{ (revertTo (applyAll (snapshot s).1 ws) s.journal.length) with
            revisions := (applyAll (snapshot s).1 ws).revisions.filter (fun r => r.1 < s.nextRev) }, ?_, ?_⟩
  · unfold revertToSnapshot
    rw [hid, hr', hfind]
    simp
  · have e1 : Eqv A (revertTo (applyAll (snapshot s).1 ws) s.journal.length) s :=
      hmain.trans (eqv_of_fields hc rfl rfl rfl rfl rfl rfl)
    exact eqv_of_same_core e1 _ rfl rfl rfl rfl rfl rfl

end Nibiru.SDB
