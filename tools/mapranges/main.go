// mapranges: typed (go/packages + go/types) census of the incidental sources of non-determinism in the consensus packages of
// /repo: every `range` over a map-typed expression, every `go` statement, `select` statement and time.Now() call, and every
// consumer of set.Set.ToSlice (whose result carries Go's map order) with whether the consuming function sorts.
// Output: Lean source (lean/Generated/MapRanges.lean), regenerated on every run of the C01 check.
package main

import (
	"fmt"
	"go/ast"
	"go/types"
	"os"
	"sort"
	"strings"

	"golang.org/x/tools/go/packages"
)

func consensusPkg(p string) bool {
	for _, bad := range []string{"/cli", "testutil", "simulation", "eth/rpc", "/mock", "cmd/", "/gen-abi", "eth/eip712", "x/evm/evmtest", "x/evm/precompile/test", "app/server", "app/appconst", "eth/indexer", "eth/accounts", "x/common/ewma"} {
		if strings.Contains(p, bad) {
			return false
		}
	}
	return true
}

func q(s string) string { return "\"" + strings.ReplaceAll(strings.ReplaceAll(s, "\\", "\\\\"), "\"", "\\\"") + "\"" }

// outerWrites: what the body of a map-range loop does to anything that outlives one iteration — assignments / inc-dec whose
// left-hand side is rooted in a variable declared outside the loop (printed), and the control statements that end the loop early.
// These are the only ways the iteration ORDER can escape the loop besides calls; the classification of a site (keyed / sum /
// sorted / firstMatch / events) in NibiruModel.Determinism rests on this list, which is compared as a regenerated fact.
func outerWrites(p *packages.Package, v *ast.RangeStmt) []string {
	root := func(e ast.Expr) *ast.Ident {
		for {
			switch x := e.(type) {
			case *ast.Ident:
				return x
			case *ast.SelectorExpr:
				e = x.X
			case *ast.IndexExpr:
				e = x.X
			case *ast.StarExpr:
				e = x.X
			case *ast.ParenExpr:
				e = x.X
			default:
				return nil
			}
		}
	}
	outside := func(e ast.Expr) bool {
		id := root(e)
		if id == nil || id.Name == "_" {
			return false
		}
		obj := p.TypesInfo.ObjectOf(id)
		if obj == nil {
			return true
		}
		return obj.Pos() < v.Pos() || obj.Pos() > v.End()
	}
	set := map[string]bool{}
	ast.Inspect(v.Body, func(n ast.Node) bool {
		switch x := n.(type) {
		case *ast.FuncLit:
			return false
		case *ast.AssignStmt:
			for i, l := range x.Lhs {
				if outside(l) {
					rhs := "…"
					if len(x.Rhs) == len(x.Lhs) {
						rhs = types.ExprString(x.Rhs[i])
					} else if len(x.Rhs) == 1 {
						rhs = types.ExprString(x.Rhs[0])
					}
					set[types.ExprString(l)+" "+x.Tok.String()+" "+rhs] = true
				}
			}
		case *ast.IncDecStmt:
			if outside(x.X) {
				set[types.ExprString(x.X)+x.Tok.String()] = true
			}
		case *ast.ReturnStmt:
			var rs []string
			for _, r := range x.Results {
				rs = append(rs, types.ExprString(r))
			}
			set["return "+strings.Join(rs, ", ")] = true
		case *ast.BranchStmt:
			if x.Tok.String() == "break" || x.Tok.String() == "goto" {
				set[x.Tok.String()] = true
			}
		}
		return true
	})
	var out []string
	for k := range set {
		out = append(out, q(strings.Join(strings.Fields(k), " ")))
	}
	sort.Strings(out)
	return out
}

func main() {
	repo := os.Args[1]
	cfg := &packages.Config{Mode: packages.NeedName | packages.NeedFiles | packages.NeedSyntax | packages.NeedTypes | packages.NeedTypesInfo, Dir: repo}
	pkgs, err := packages.Load(cfg, "./x/...", "./app/...", "./eth/...")
	if err != nil {
		fmt.Fprintln(os.Stderr, "load:", err)
		os.Exit(1)
	}
	nerr := 0
	for _, p := range pkgs {
		nerr += len(p.Errors)
	}
	var ranges, gos, selects, nows, slices, writes []string
	for _, p := range pkgs {
		rel := strings.TrimPrefix(p.PkgPath, "github.com/NibiruChain/nibiru/v2/")
		if !consensusPkg(rel + "/") {
			continue
		}
		for _, f := range p.Syntax {
			fn := p.Fset.Position(f.Pos()).Filename
			if strings.HasSuffix(fn, "_test.go") || strings.HasSuffix(fn, ".pb.go") || strings.HasSuffix(fn, ".pb.gw.go") {
				continue
			}
			for _, d := range f.Decls {
				fd, ok := d.(*ast.FuncDecl)
				if !ok || fd.Body == nil {
					continue
				}
				name := fd.Name.Name
				if fd.Recv != nil && len(fd.Recv.List) > 0 {
					name = types.ExprString(fd.Recv.List[0].Type) + "." + name
				}
				site := rel + ":" + name
				sorts := false
				ast.Inspect(fd.Body, func(n ast.Node) bool {
					if call, ok := n.(*ast.CallExpr); ok {
						s := types.ExprString(call.Fun)
						if strings.HasPrefix(s, "sort.") || strings.HasPrefix(s, "slices.Sort") {
							sorts = true
						}
					}
					return true
				})
				ast.Inspect(fd.Body, func(n ast.Node) bool {
					switch v := n.(type) {
					case *ast.RangeStmt:
						if t := p.TypesInfo.TypeOf(v.X); t != nil {
							if _, ok := t.Underlying().(*types.Map); ok {
								ranges = append(ranges, site+":"+types.ExprString(v.X))
								writes = append(writes, fmt.Sprintf("(%s, [%s])", q(site+":"+types.ExprString(v.X)), strings.Join(outerWrites(p, v), ", ")))
							}
						}
					case *ast.GoStmt:
						gos = append(gos, site)
					case *ast.SelectStmt:
						selects = append(selects, site)
					case *ast.CallExpr:
						s := types.ExprString(v.Fun)
						if s == "time.Now" {
							nows = append(nows, site)
						}
						if se, ok := v.Fun.(*ast.SelectorExpr); ok && se.Sel.Name == "ToSlice" {
							if t := p.TypesInfo.TypeOf(se.X); t != nil && strings.Contains(t.String(), "x/common/set.Set") {
								slices = append(slices, fmt.Sprintf("(%s, %v)", q(site), sorts))
							}
						}
					}
					return true
				})
			}
		}
	}
	for _, l := range []*[]string{&ranges, &gos, &selects, &nows, &slices, &writes} {
		sort.Strings(*l)
	}
	qs := func(l []string) string {
		var o []string
		for _, s := range l {
			o = append(o, q(s))
		}
		return "[" + strings.Join(o, ",\n  ") + "]"
	}
	fmt.Println("/- GENERATED by tools/mapranges (go/packages, typed) from /repo on every run of the C01 check. Do not edit. -/")
	fmt.Println("namespace Generated")
	fmt.Printf("def mapRangeLoadErrors : Nat := %d\n", nerr)
	fmt.Printf("def mapRangeSites : List String := %s\n", qs(ranges))
	fmt.Printf("def mapRangeOuterWrites : List (String × List String) := [%s]\n", strings.Join(writes, ",\n  "))
	fmt.Printf("def goStmtSites : List String := %s\n", qs(gos))
	fmt.Printf("def selectStmtSites : List String := %s\n", qs(selects))
	fmt.Printf("def timeNowSites : List String := %s\n", qs(nows))
	fmt.Printf("def setToSliceConsumers : List (String × Bool) := [%s]\n", strings.Join(slices, ", "))
	fmt.Println("end Generated")
}
