/-
  C15 — Only a token-factory denom's current admin can change its supply or control.
  Theorems about NibiruModel.TokenFactory (x/tokenfactory/keeper/msg_server.go, store.go, types/state.go).
-/
import NibiruModel.TokenFactory
namespace Nibiru.TF
open Nibiru

/-! ### denom format -/

theorem splitChar_no_sep (sep : Char) (a : List Char) (h : sep ∉ a) : splitChar sep a = [a] := by
  induction a with
  | nil => rfl
  | cons c cs ih =>
    have hc : c ≠ sep := fun e => h (by rw [e]; exact List.mem_cons_self)
    have hcs : sep ∉ cs := fun e => h (List.mem_cons_of_mem _ e)
    simp [splitChar, hc, ih hcs]

theorem splitChar_append (sep : Char) (a b : List Char) (h : sep ∉ a) :
    splitChar sep (a ++ sep :: b) = a :: splitChar sep b := by
  induction a with
  | nil => simp [splitChar]
  | cons c cs ih =>
    have hc : c ≠ sep := fun e => h (by rw [e]; exact List.mem_cons_self)
    have hcs : sep ∉ cs := fun e => h (List.mem_cons_of_mem _ e)
    simp [splitChar, hc, ih hcs]

/-- **Format/parse round trip**: the denom built from a creator and a subdenom without '/' parses back to exactly them -/
theorem C15_parse_format_roundtrip (creator sub : List Char) (hc : '/' ∉ creator) (hs : '/' ∉ sub)
    (hc0 : creator ≠ []) (hs0 : sub ≠ []) : toStruct (denomOf creator sub) = some (creator, sub) := by
  unfold toStruct denomOf
  have h1 : splitChar '/' (['t', 'f', '/'] ++ creator ++ '/' :: sub) = [['t', 'f'], creator, sub] := by
    have : (['t', 'f', '/'] ++ creator ++ '/' :: sub) = ['t', 'f'] ++ '/' :: (creator ++ '/' :: sub) := by simp
    rw [this, splitChar_append '/' ['t', 'f'] _ (by decide), splitChar_append '/' creator sub hc, splitChar_no_sep '/' sub hs]
  rw [h1]
  cases creator with
  | nil => exact absurd rfl hc0
  | cons c cs =>
    cases sub with
    | nil => exact absurd rfl hs0
    | cons x xs => simp

/-- a denom embeds its creator: two creators (or two subdenoms) give different denoms -/
theorem C15_denom_embeds_creator (c₁ s₁ c₂ s₂ : List Char) (h1 : '/' ∉ c₁) (h2 : '/' ∉ s₁) (h3 : '/' ∉ c₂) (h4 : '/' ∉ s₂)
    (n1 : c₁ ≠ []) (n2 : s₁ ≠ []) (n3 : c₂ ≠ []) (n4 : s₂ ≠ []) (h : denomOf c₁ s₁ = denomOf c₂ s₂) : c₁ = c₂ ∧ s₁ = s₂ := by
  have r1 := C15_parse_format_roundtrip c₁ s₁ h1 h2 n1 n2
  have r2 := C15_parse_format_roundtrip c₂ s₂ h3 h4 n3 n4
  rw [h, r2] at r1
  injection r1 with e; injection e with e1 e2
  exact ⟨e1.symm, e2.symm⟩

/-! ### state lemmas -/

theorem getSupply_setSupply (s : State) (d d' : String) (v : Int) :
    getSupply (setSupply s d v) d' = if d = d' then v else getSupply s d' := by
  unfold getSupply setSupply
  by_cases h : d = d'
  · subst h; simp [AList.find?_set_self]
  · simp [AList.find?_set_ne _ _ _ _ h, h]

theorem getSupply_setBal (s : State) (a d d' : String) (v : Int) : getSupply (setBal s a d v) d' = getSupply s d' := rfl

theorem admins_setBal (s : State) (a d : String) (v : Int) : (setBal s a d v).admins = s.admins := rfl
theorem admins_setSupply (s : State) (d : String) (v : Int) : (setSupply s d v).admins = s.admins := rfl

theorem getBal_setBal (s : State) (a d a' d' : String) (v : Int) :
    getBal (setBal s a d v) a' d' = if canon a = canon a' ∧ d = d' then v else getBal s a' d' := by
  unfold getBal setBal
  by_cases h : canon a = canon a' ∧ d = d'
  · obtain ⟨h1, h2⟩ := h; subst h2; simp [h1, AList.find?_set_self]
  · have : (canon a, d) ≠ (canon a', d') := by
      intro e; injection e with e1 e2; exact h ⟨e1, e2⟩
    simp [AList.find?_set_ne _ _ _ _ this, h]

theorem getBal_setSupply (s : State) (d : String) (v : Int) (a' d' : String) : getBal (setSupply s d v) a' d' = getBal s a' d' := rfl

theorem getSupply_credit (s : State) (a denom : String) (amt : Int) (d : String) :
    getSupply (credit s a denom amt) d = if denom = d then getSupply s d + amt else getSupply s d := by
  unfold credit
  rw [getSupply_setBal, getSupply_setSupply]
  by_cases h : denom = d
  · subst h; simp
  · simp [h]

theorem getBal_credit (s : State) (a denom : String) (amt : Int) (x d : String) :
    getBal (credit s a denom amt) x d = if canon a = canon x ∧ denom = d then getBal s x d + amt else getBal s x d := by
  unfold credit
  rw [getBal_setBal]
  by_cases h : canon a = canon x ∧ denom = d
  · obtain ⟨h1, h2⟩ := h
    subst h2
    have : getBal s a denom = getBal s x denom := by unfold getBal; rw [h1]
    simp [h1, this]
  · simp only [h, if_false, getBal_setSupply]

theorem admins_credit (s : State) (a denom : String) (amt : Int) : (credit s a denom amt).admins = s.admins := rfl

theorem run_fst_of_err (s : State) (g : Option Err) (eff : State) (e : Err) (h : (run s g eff).2 = some e) : (run s g eff).1 = s := by
  unfold run at *; cases g <;> simp_all

theorem run_ok (s : State) (g : Option Err) (eff : State) (h : (run s g eff).2 = none) : g = none ∧ (run s g eff).1 = eff := by
  unfold run at *; cases g <;> simp_all

theorem run_changed (s : State) (g : Option Err) (eff : State) (h : (run s g eff).1 ≠ s) : g = none ∧ (run s g eff).1 = eff := by
  unfold run at *; cases g <;> simp_all

/-! ### rejected messages change nothing -/

theorem C15_rejected_no_change (s : State) (op : Op) (e : Err) (h : (apply s op).2 = some e) : (apply s op).1 = s := by
  cases op <;> exact run_fst_of_err _ _ _ e h

/-- unfolding `firstErr` on the guard lists -/
theorem firstErr_none_cons (b : Bool) (e : Err) (rest : List (Bool × Err)) :
    firstErr ((b, e) :: rest) = none ↔ b = false ∧ firstErr rest = none := by
  cases b <;> simp [firstErr]

theorem adminIs_iff (s : State) (d a : String) : adminIs s d a = true ↔ AList.find? s.admins d = some a := by
  unfold adminIs; simp

/-- what an accepted `Mint` guarantees -/
theorem mintGuard_none (s : State) (sender denom : String) (amt : Int) (to : String) (h : mintGuard s sender denom amt to = none) :
    0 < amt ∧ validShape denom = true ∧ AList.find? s.admins denom = some sender ∧ sender ∈ s.valid := by
  unfold mintGuard at h
  simp only [firstErr_none_cons, Bool.or_eq_false_iff, Bool.not_eq_false', Bool.not_eq_eq_eq_not, Bool.not_true] at h
  obtain ⟨⟨⟨⟨h1, h2⟩, h3⟩, _⟩, _, h5, _⟩ := h
  refine ⟨?_, h3, (adminIs_iff _ _ _).mp (by simpa using h5), by simpa using h1⟩
  simp [validCoin] at h2; exact h2.2

theorem burnGuard_none (s : State) (sender denom : String) (amt : Int) (fr : String) (h : burnGuard s sender denom amt fr = none) :
    0 < amt ∧ validShape denom = true ∧ AList.find? s.admins denom = some sender ∧ amt ≤ getBal s (target sender fr) denom := by
  unfold burnGuard at h
  simp only [firstErr_none_cons, Bool.or_eq_false_iff, Bool.not_eq_false', Bool.not_eq_eq_eq_not, Bool.not_true] at h
  obtain ⟨⟨⟨⟨_, h2⟩, h3⟩, _⟩, _, h5, _, h7, _⟩ := h
  refine ⟨?_, h3, (adminIs_iff _ _ _).mp (by simpa using h5), by simpa using h7⟩
  simp [validCoin] at h2; exact h2.2

theorem burnNativeGuard_none (s : State) (sender denom : String) (amt : Int) (h : burnNativeGuard s sender denom amt = none) :
    0 < amt ∧ amt ≤ getBal s sender denom := by
  unfold burnNativeGuard at h
  simp only [firstErr_none_cons, Bool.or_eq_false_iff, Bool.not_eq_false', Bool.not_eq_eq_eq_not, Bool.not_true] at h
  obtain ⟨⟨_, h2⟩, h3, _⟩ := h
  refine ⟨?_, by simpa using h3⟩
  simp [validCoin] at h2; exact h2.2

/-! ### supply -/

/-- **Supply changes, step level (partial: see the BurnNative finding below).** If a message changes the supply of a denom `d`,
    it is a `Mint` or `Burn` of exactly that denom signed by the denom's admin at that time, changing the supply by exactly the
    stated amount — or a `BurnNative` by which a holder destroys its own coins. -/
theorem C15_supply_changes_only_by_admin_mint_burn_partial (s : State) (op : Op) (d : String)
    (hch : getSupply (apply s op).1 d ≠ getSupply s d) :
    (∃ sender amt to, op = .mint sender d amt to ∧ AList.find? s.admins d = some sender ∧
        getSupply (apply s op).1 d = getSupply s d + amt ∧ 0 < amt) ∨
    (∃ sender amt fr, op = .burn sender d amt fr ∧ AList.find? s.admins d = some sender ∧
        getSupply (apply s op).1 d = getSupply s d - amt ∧ 0 < amt) ∨
    (∃ sender amt, op = .burnNative sender d amt ∧ amt ≤ getBal s sender d ∧
        getSupply (apply s op).1 d = getSupply s d - amt ∧ 0 < amt) := by
  have hne : (apply s op).1 ≠ s := fun e => hch (by rw [e])
  cases op with
  | create a b =>
    obtain ⟨_, he⟩ := run_changed _ _ _ hne
    simp only [apply, create] at hch; rw [he] at hch; exact absurd rfl hch
  | changeAdmin a b c =>
    obtain ⟨_, he⟩ := run_changed _ _ _ hne
    simp only [apply, changeAdmin] at hch; rw [he] at hch; exact absurd rfl hch
  | setMeta a b =>
    obtain ⟨_, he⟩ := run_changed _ _ _ hne
    simp only [apply, setMeta] at hch; rw [he] at hch; exact absurd rfl hch
  | mint sender denom amt to =>
    left
    obtain ⟨hg, he⟩ := run_changed _ _ _ hne
    simp only [apply, mint] at hch he ⊢
    rw [he, getSupply_credit] at hch
    obtain ⟨hamt, _, hadm, _⟩ := mintGuard_none _ _ _ _ _ hg
    by_cases hd : denom = d
    · subst hd
      exact ⟨sender, amt, to, rfl, hadm, by rw [he, getSupply_credit]; simp, hamt⟩
    · simp [hd] at hch
  | burn sender denom amt fr =>
    right; left
    obtain ⟨hg, he⟩ := run_changed _ _ _ hne
    simp only [apply, burn] at hch he ⊢
    rw [he, getSupply_credit] at hch
    obtain ⟨hamt, _, hadm, _⟩ := burnGuard_none _ _ _ _ _ hg
    by_cases hd : denom = d
    · subst hd
      exact ⟨sender, amt, fr, rfl, hadm, by rw [he, getSupply_credit]; simp; omega, hamt⟩
    · simp [hd] at hch
  | burnNative sender denom amt =>
    right; right
    obtain ⟨hg, he⟩ := run_changed _ _ _ hne
    simp only [apply, burnNative] at hch he ⊢
    rw [he, getSupply_credit] at hch
    obtain ⟨hamt, hbal⟩ := burnNativeGuard_none _ _ _ _ hg
    by_cases hd : denom = d
    · subst hd
      exact ⟨sender, amt, rfl, hbal, by rw [he, getSupply_credit]; simp; omega, hamt⟩
    · simp [hd] at hch

/-- **Supply over histories.** Over any sequence of messages, if no `BurnNative` of denom `d` is accepted, the supply of `d`
    changes exactly by the sum of the amounts of the accepted admin mints minus the accepted admin burns of `d`. -/
def adminDelta (s : State) (d : String) : Op → Int
  | .mint sender denom amt to => if denom = d ∧ (mint s sender denom amt to).2 = none then amt else 0
  | .burn sender denom amt fr => if denom = d ∧ (burn s sender denom amt fr).2 = none then -amt else 0
  | _ => 0

def nativeBurnOf (d : String) : Op → Bool
  | .burnNative _ denom _ => denom == d
  | _ => false

theorem supply_step (s : State) (op : Op) (d : String) (hnb : nativeBurnOf d op = false) :
    getSupply (apply s op).1 d = getSupply s d + adminDelta s d op := by
  by_cases hch : getSupply (apply s op).1 d = getSupply s d
  · -- unchanged: the delta is zero (a mint/burn of d that was accepted would have changed it by a non-zero amount)
    rw [hch]
    cases op with
    | mint sender denom amt to =>
      simp only [adminDelta]
      split
      · rename_i hc
        obtain ⟨hd, hok⟩ := hc
        subst hd
        obtain ⟨hg, he⟩ := run_ok _ _ _ hok
        obtain ⟨hamt, _⟩ := mintGuard_none _ _ _ _ _ hg
        simp only [apply, mint] at hch he; rw [he, getSupply_credit] at hch; simp at hch; omega
      · omega
    | burn sender denom amt fr =>
      simp only [adminDelta]
      split
      · rename_i hc
        obtain ⟨hd, hok⟩ := hc
        subst hd
        obtain ⟨hg, he⟩ := run_ok _ _ _ hok
        obtain ⟨hamt, _⟩ := burnGuard_none _ _ _ _ _ hg
        simp only [apply, burn] at hch he; rw [he, getSupply_credit] at hch; simp at hch; omega
      · omega
    | _ => simp [adminDelta]
  · rcases C15_supply_changes_only_by_admin_mint_burn_partial s op d hch with
      ⟨sender, amt, to, hop, _, hs, _⟩ | ⟨sender, amt, fr, hop, _, hs, _⟩ | ⟨sender, amt, hop, _⟩
    · subst hop
      have hok : (mint s sender d amt to).2 = none := by
        cases h : (mint s sender d amt to).2 with
        | none => rfl
        | some e => exact absurd (by rw [show apply s (.mint sender d amt to) = mint s sender d amt to from rfl, show mint s sender d amt to = run s (mintGuard s sender d amt to) (credit s (target sender to) d amt) from rfl, run_fst_of_err _ _ _ e h]) hch
      simp [adminDelta, hok, hs]
    · subst hop
      have hok : (burn s sender d amt fr).2 = none := by
        cases h : (burn s sender d amt fr).2 with
        | none => rfl
        | some e => exact absurd (by rw [show apply s (.burn sender d amt fr) = burn s sender d amt fr from rfl, show burn s sender d amt fr = run s (burnGuard s sender d amt fr) (credit s (target sender fr) d (-amt)) from rfl, run_fst_of_err _ _ _ e h]) hch
      simp [adminDelta, hok, hs]; omega
    · subst hop; simp [nativeBurnOf] at hnb

def runOps (s : State) : List Op → State
  | [] => s
  | op :: ops => runOps (apply s op).1 ops

def sumDelta (s : State) (d : String) : List Op → Int
  | [] => 0
  | op :: ops => adminDelta s d op + sumDelta (apply s op).1 d ops

theorem C15_supply_history_partial (s : State) (ops : List Op) (d : String) (hnb : ∀ op ∈ ops, nativeBurnOf d op = false) :
    getSupply (runOps s ops) d = getSupply s d + sumDelta s d ops := by
  induction ops generalizing s with
  | nil => simp [runOps, sumDelta]
  | cons op ops ih =>
    simp only [runOps, sumDelta]
    rw [ih _ (fun o ho => hnb o (List.mem_cons_of_mem _ ho)), supply_step s op d (hnb op List.mem_cons_self)]
    omega

/-! ### control -/

/-- **Admin chain.** The admin entry of a denom changes only by creation (the creator becomes the first admin of the denom that
    embeds its address, which had no bank metadata before) or by `ChangeAdmin` signed by the current admin, to the successor it names. -/
theorem C15_admin_chain (s : State) (op : Op) (d : String)
    (hch : AList.find? (apply s op).1.admins d ≠ AList.find? s.admins d) :
    (∃ sender sub, op = .create sender sub ∧ d = tfDenom sender sub ∧ d ∉ s.bmeta ∧ sender ∈ s.valid ∧ validShape d = true ∧
        AList.find? (apply s op).1.admins d = some sender) ∨
    (∃ sender new, op = .changeAdmin sender d new ∧ AList.find? s.admins d = some sender ∧
        AList.find? (apply s op).1.admins d = some new) := by
  have hne : (apply s op).1 ≠ s := fun e => hch (by rw [e])
  cases op with
  | mint a b c e =>
    obtain ⟨_, he⟩ := run_changed _ _ _ hne
    simp only [apply, mint] at hch he; rw [he, admins_credit] at hch; exact absurd rfl hch
  | burn a b c e =>
    obtain ⟨_, he⟩ := run_changed _ _ _ hne
    simp only [apply, burn] at hch he; rw [he, admins_credit] at hch; exact absurd rfl hch
  | burnNative a b c =>
    obtain ⟨_, he⟩ := run_changed _ _ _ hne
    simp only [apply, burnNative] at hch he; rw [he, admins_credit] at hch; exact absurd rfl hch
  | setMeta a b =>
    obtain ⟨_, he⟩ := run_changed _ _ _ hne
    simp only [apply, setMeta] at hch he; rw [he] at hch; exact absurd rfl hch
  | create sender sub =>
    left
    obtain ⟨hg, he⟩ := run_changed _ _ _ hne
    simp only [apply, create] at hch he ⊢
    rw [he] at hch ⊢
    unfold createGuard at hg
    simp only [firstErr_none_cons, Bool.not_eq_false'] at hg
    obtain ⟨h1, h2, h3, _⟩ := hg
    simp only [createEffect] at hch ⊢
    have hd : tfDenom sender sub = d := by
      by_cases h : tfDenom sender sub = d
      · exact h
      · rw [AList.find?_set_ne _ _ _ _ h] at hch; exact absurd rfl hch
    refine ⟨sender, sub, rfl, hd.symm, ?_, by simpa using h1, by rw [← hd]; simpa using h2, ?_⟩
    · rw [← hd]; intro hm; have := List.contains_iff_mem.mpr hm; rw [h3] at this; cases this
    · rw [← hd, AList.find?_set_self]
  | changeAdmin sender denom new =>
    right
    obtain ⟨hg, he⟩ := run_changed _ _ _ hne
    simp only [apply, changeAdmin] at hch he ⊢
    rw [he] at hch ⊢
    unfold changeAdminGuard at hg
    simp only [firstErr_none_cons, Bool.not_eq_false'] at hg
    obtain ⟨_, _, h3, _⟩ := hg
    simp only [changeAdminEffect] at hch ⊢
    have hd : denom = d := by
      by_cases h : denom = d
      · exact h
      · rw [AList.find?_set_ne _ _ _ _ h] at hch; exact absurd rfl hch
    subst hd
    exact ⟨sender, new, rfl, (adminIs_iff _ _ _).mp h3, AList.find?_set_self _ _ _⟩

/-- **Creation** succeeds only for a valid sender, builds the denom from the sender's own address, and only once. -/
theorem C15_create_only_by_embedded_creator_once (s : State) (sender sub : String) (h : (create s sender sub).2 = none) :
    sender ∈ s.valid ∧
    AList.find? (create s sender sub).1.admins (tfDenom sender sub) = some sender ∧
    (create (create s sender sub).1 sender sub).2 = some .exists := by
  obtain ⟨hg, he⟩ := run_ok _ _ _ h
  unfold createGuard at hg
  simp only [firstErr_none_cons, Bool.not_eq_false'] at hg
  obtain ⟨h1, h2, h3, _⟩ := hg
  simp only [create] at he ⊢
  rw [he]
  refine ⟨by simpa using h1, by simp [createEffect, AList.find?_set_self], ?_⟩
  unfold run createGuard
  have hm : sender ∈ s.valid := by simpa using h1
  simp [firstErr, createEffect, h2, hm]

/-! ### other coins -/

/-- every denom that has an admin has the tf/{creator}/{subdenom} shape -/
def AdminsWF (s : State) : Prop := ∀ d a, AList.find? s.admins d = some a → validShape d = true

theorem AdminsWF_step (s : State) (op : Op) (h : AdminsWF s) : AdminsWF (apply s op).1 := by
  intro d a hda
  by_cases hch : AList.find? (apply s op).1.admins d = AList.find? s.admins d
  · rw [hch] at hda; exact h d a hda
  · rcases C15_admin_chain s op d hch with ⟨sender, sub, _, _, _, _, hv, _⟩ | ⟨sender, new, _, hold, _⟩
    · exact hv
    · exact h d sender hold

theorem C15_admins_only_for_tf_denoms (s : State) (ops : List Op) (h : AdminsWF s) : AdminsWF (runOps s ops) := by
  induction ops generalizing s with
  | nil => exact h
  | cons op ops ih => exact ih _ (AdminsWF_step s op h)

/-- **Coins that are not token-factory denoms cannot be minted**: an accepted `Mint` is for a denom of the
    tf/{creator}/{subdenom} shape whose admin is the sender. -/
theorem C15_non_tf_denoms_never_minted (s : State) (sender denom : String) (amt : Int) (to : String)
    (h : (mint s sender denom amt to).2 = none) : validShape denom = true ∧ AList.find? s.admins denom = some sender := by
  obtain ⟨hg, _⟩ := run_ok _ _ _ h
  obtain ⟨_, h2, h3, _⟩ := mintGuard_none _ _ _ _ _ hg
  exact ⟨h2, h3⟩

/-- **Debits.** A message lowers the balance of account `x` in denom `d` only if it is the denom admin's `Burn` of that tf
    denom, or `x`'s own `BurnNative`: nothing can be taken from other accounts for coins that are not tf denoms. -/
theorem C15_debit_only_self_or_admin_burn (s : State) (op : Op) (x d : String)
    (hlt : getBal (apply s op).1 x d < getBal s x d) :
    (∃ sender amt fr, op = .burn sender d amt fr ∧ AList.find? s.admins d = some sender ∧ validShape d = true) ∨
    (∃ sender amt, op = .burnNative sender d amt ∧ canon sender = canon x) := by
  have hne : (apply s op).1 ≠ s := fun e => by rw [e] at hlt; omega
  cases op with
  | create a b =>
    obtain ⟨_, he⟩ := run_changed _ _ _ hne
    simp only [apply, create] at hlt he; rw [he] at hlt; simp [createEffect, getBal] at hlt
  | changeAdmin a b c =>
    obtain ⟨_, he⟩ := run_changed _ _ _ hne
    simp only [apply, changeAdmin] at hlt he; rw [he] at hlt; simp [changeAdminEffect, getBal] at hlt
  | setMeta a b =>
    obtain ⟨_, he⟩ := run_changed _ _ _ hne
    simp only [apply, setMeta] at hlt he; rw [he] at hlt; simp [setMetaEffect, getBal] at hlt
  | mint sender denom amt to =>
    exfalso
    obtain ⟨hg, he⟩ := run_changed _ _ _ hne
    obtain ⟨hamt, _⟩ := mintGuard_none _ _ _ _ _ hg
    simp only [apply, mint] at hlt he; rw [he, getBal_credit] at hlt
    split at hlt <;> omega
  | burn sender denom amt fr =>
    left
    obtain ⟨hg, he⟩ := run_changed _ _ _ hne
    obtain ⟨hamt, hv, hadm, _⟩ := burnGuard_none _ _ _ _ _ hg
    simp only [apply, burn] at hlt he; rw [he, getBal_credit] at hlt
    split at hlt
    · rename_i hc; obtain ⟨_, hc2⟩ := hc; subst hc2
      exact ⟨sender, amt, fr, rfl, hadm, hv⟩
    · omega
  | burnNative sender denom amt =>
    right
    obtain ⟨hg, he⟩ := run_changed _ _ _ hne
    simp only [apply, burnNative] at hlt he; rw [he, getBal_credit] at hlt
    split at hlt
    · rename_i hc; obtain ⟨hc1, hc2⟩ := hc; subst hc2
      exact ⟨sender, amt, rfl, hc1⟩
    · omega

end Nibiru.TF

namespace Nibiru.TF

/-- **The full statement is false for `BurnNative`** (known finding, replayed on the implementation by the correspondence run):
    any holder — admin or not — can lower the supply of any denom, tf denoms included, by burning its own coins. No admin
    condition appears among the hypotheses. -/
theorem C15_counterexample_burnNative_changes_supply_without_admin (s : State) (sender denom : String) (amt : Int)
    (hv : sender ∈ s.valid) (hc : validCoin denom amt = true) (hb : amt ≤ getBal s sender denom) :
    (burnNative s sender denom amt).2 = none ∧
    getSupply (burnNative s sender denom amt).1 denom = getSupply s denom - amt ∧ amt ≠ 0 := by
  have hg : burnNativeGuard s sender denom amt = none := by
    unfold burnNativeGuard
    have h2 : ¬ (getBal s sender denom < amt) := by omega
    simp [firstErr, hv, hc, h2]
  have hamt : 0 < amt := by simp [validCoin] at hc; exact hc.2
  unfold burnNative run
  rw [hg]
  refine ⟨rfl, ?_, by omega⟩
  simp only; rw [getSupply_credit]; simp; omega

end Nibiru.TF
