/-
  Lemmas about NibiruModel.EvmTx shared by C05 and C07.
-/
import NibiruModel.EvmTx
namespace Nibiru.EvmTx
open Nibiru

@[simp] theorem getSeq_setSeq (s : State) (a b : String) (n : Nat) :
    getSeq (setSeq s a n) b = if a = b then n else getSeq s b := by
  unfold getSeq setSeq
  by_cases h : a = b
  · subst h; simp [AList.find?_set_self]
  · simp [AList.find?_set_ne _ _ _ _ h, h]

@[simp] theorem getBal_setBal (s : State) (a b : String) (v : Int) :
    getBal (setBal s a v) b = if a = b then v else getBal s b := by
  unfold getBal setBal
  by_cases h : a = b
  · subst h; simp [AList.find?_set_self]
  · simp [AList.find?_set_ne _ _ _ _ h, h]

@[simp] theorem getSeq_setBal (s : State) (a b : String) (v : Int) : getSeq (setBal s a v) b = getSeq s b := rfl
@[simp] theorem getBal_setSeq (s : State) (a b : String) (n : Nat) : getBal (setSeq s a n) b = getBal s b := rfl
@[simp] theorem collector_setBal (s : State) (a : String) (v : Int) : (setBal s a v).collector = s.collector := rfl
@[simp] theorem collector_setSeq (s : State) (a : String) (n : Nat) : (setSeq s a n).collector = s.collector := rfl
@[simp] theorem executed_setBal (s : State) (a : String) (v : Int) : (setBal s a v).executed = s.executed := rfl
@[simp] theorem executed_setSeq (s : State) (a : String) (n : Nat) : (setSeq s a n).executed = s.executed := rfl

/-- number of messages of `a` in a tx -/
def countOf (a : String) (ms : List Msg) : Nat := (ms.filter (fun m => m.sender = a)).length

@[simp] theorem countOf_nil (a : String) : countOf a [] = 0 := rfl

theorem countOf_cons (a : String) (m : Msg) (ms : List Msg) :
    countOf a (m :: ms) = (if m.sender = a then 1 else 0) + countOf a ms := by
  unfold countOf
  by_cases h : m.sender = a <;> simp [List.filter, h] <;> omega

/-- the fee pass touches no sequence and no `executed` entry -/
theorem passGas_seq (s s' : State) (ms : List Msg) (h : passGas s ms = some s') :
    (∀ a, getSeq s' a = getSeq s a) ∧ s'.executed = s.executed := by
  induction ms generalizing s with
  | nil => simp [passGas] at h; subst h; exact ⟨fun _ => rfl, rfl⟩
  | cons m ms ih =>
    unfold passGas at h
    simp only at h
    split at h
    · exact ih s h
    · split at h
      · cases h
      · obtain ⟨i1, i2⟩ := ih _ h
        exact ⟨fun a => by rw [i1 a]; rfl, by rw [i2]; rfl⟩

/-- the sequence pass: every message's nonce equals the sender's sequence at its turn, and each sender ends `count` higher -/
theorem passSeq_spec (s s' : State) (ms : List Msg) (h : passSeq s ms = some s') :
    (∀ a, getSeq s' a = getSeq s a + countOf a ms) ∧ s'.executed = s.executed ∧ s'.bal = s.bal ∧ s'.collector = s.collector := by
  induction ms generalizing s with
  | nil => simp [passSeq] at h; subst h; exact ⟨fun _ => by simp, rfl, rfl, rfl⟩
  | cons m ms ih =>
    unfold passSeq at h
    split at h
    · rename_i hn
      obtain ⟨i1, i2, i3, i4⟩ := ih _ h
      refine ⟨fun a => ?_, by rw [i2]; rfl, by rw [i3]; rfl, by rw [i4]; rfl⟩
      rw [i1 a, countOf_cons, getSeq_setSeq]
      by_cases ha : m.sender = a
      · subst ha; simp; omega
      · simp [ha]
    · cases h

end Nibiru.EvmTx

namespace Nibiru.EvmTx

def bump (f : String → Nat) (a : String) : String → Nat := fun x => if x = a then f x + 1 else f x

/-- the nonces of the messages are the consecutive sequence numbers of their senders, starting from `f` -/
def NoncesFrom : (String → Nat) → List Msg → Prop
  | _, [] => True
  | f, m :: ms => m.nonce = f m.sender ∧ NoncesFrom (bump f m.sender) ms

theorem passSeq_nonces (s s' : State) (ms : List Msg) (h : passSeq s ms = some s') : NoncesFrom (getSeq s) ms := by
  induction ms generalizing s with
  | nil => trivial
  | cons m ms ih =>
    unfold passSeq at h
    split at h
    · rename_i hn
      refine ⟨hn, ?_⟩
      have := ih _ h
      have e : getSeq (setSeq s m.sender (m.nonce + 1)) = bump (getSeq s) m.sender := by
        funext x
        simp only [getSeq_setSeq, bump]
        by_cases hx : m.sender = x
        · subst hx; simp [hn]
        · have : ¬ x = m.sender := fun e => hx e.symm
          simp [hx, this]
      rw [e] at this; exact this
    · cases h

theorem bump_count (f : String → Nat) (m : Msg) (ms : List Msg) (a : String) :
    bump f m.sender a + countOf a ms = f a + countOf a (m :: ms) := by
  rw [countOf_cons]; unfold bump
  by_cases h : a = m.sender
  · subst h; simp; omega
  · have : ¬ m.sender = a := fun e => h e.symm
    simp [h, this]

def key (m : Msg) : String × Nat := (m.sender, m.nonce)

@[simp] theorem getSeq_moveValue (s : State) (m : Msg) (a : String) : getSeq (moveValue s m) a = getSeq s a := by
  unfold moveValue; split <;> rfl

@[simp] theorem executed_moveValue (s : State) (m : Msg) : (moveValue s m).executed = s.executed := by
  unfold moveValue; split <;> rfl

@[simp] theorem collector_moveValue (s : State) (m : Msg) : (moveValue s m).collector = s.collector := by
  unfold moveValue; split <;> rfl

@[simp] theorem getSeq_payRefund (s : State) (m : Msg) (a : String) : getSeq (payRefund s m) a = getSeq s a := rfl

theorem execMsg_some (s s' : State) (m : Msg) (h : execMsg s m = some s') :
    s' = payRefund (moveValue (setSeq s m.sender (m.nonce + 1)) m) m ∧ m.kind ≠ .fail ∧ 0 ≤ refund m ∧ refund m ≤ s.collector := by
  unfold execMsg at h
  split at h; · cases h
  split at h; · cases h
  split at h; · cases h
  rename_i h1 h2 h3
  injection h with e
  simp only [collector_moveValue, collector_setSeq] at h3
  exact ⟨e.symm, h1, by omega, by omega⟩

/-- one executed message: sequence of the sender becomes nonce + 1, nothing else changes in the sequences; the message is recorded -/
theorem execMsg_seq (s s' : State) (m : Msg) (h : execMsg s m = some s') :
    (∀ a, getSeq s' a = if m.sender = a then m.nonce + 1 else getSeq s a) ∧ s'.executed = s.executed ++ [key m] := by
  obtain ⟨e, _⟩ := execMsg_some s s' m h
  subst e
  refine ⟨fun a => by simp, ?_⟩
  simp [payRefund, key]

/-- executing the messages of a tx whose nonces are consecutive from `f`: whatever the ante handler left in the sequences
    (`f a + count`, or already rewound to `f a`), every sender ends at `f a + count` — and every message is recorded once -/
theorem execMsgs_seq (f : String → Nat) (s s' : State) (ms : List Msg) (hn : NoncesFrom f ms)
    (hs : ∀ a, getSeq s a = f a + countOf a ms ∨ getSeq s a = f a) (h : execMsgs s ms = some s') :
    (∀ a, getSeq s' a = f a + countOf a ms) ∧ s'.executed = s.executed ++ ms.map key := by
  induction ms generalizing s f with
  | nil =>
    simp [execMsgs] at h; subst h
    refine ⟨fun a => ?_, by simp⟩
    rcases hs a with e | e <;> simp [e]
  | cons m ms ih =>
    obtain ⟨hm, hrest⟩ := hn
    unfold execMsgs at h
    cases hx : execMsg s m with
    | none => simp [hx] at h
    | some s1 =>
      simp only [hx] at h
      obtain ⟨q1, q2⟩ := execMsg_seq s s1 m hx
      have hs1 : ∀ a, getSeq s1 a = bump f m.sender a + countOf a ms ∨ getSeq s1 a = bump f m.sender a := by
        intro a
        rw [q1 a]
        by_cases ha : m.sender = a
        · subst ha; right; simp [bump, hm]
        · have hna : ¬ a = m.sender := fun e => ha e.symm
          simp only [ha, if_false]
          rcases hs a with e | e
          · left; rw [e, bump_count]
          · right; rw [e]; simp [bump, hna]
      obtain ⟨r1, r2⟩ := ih (bump f m.sender) s1 hrest hs1 h
      refine ⟨fun a => by rw [r1 a, bump_count], ?_⟩
      rw [r2, q2]; simp

/-- the recorded messages of a tx with consecutive nonces are new and distinct -/
theorem nonces_fresh (f : String → Nat) (old : List (String × Nat)) (ms : List Msg) (hn : NoncesFrom f ms)
    (hold : ∀ p ∈ old, p.2 < f p.1) (hnd : old.Nodup) :
    (old ++ ms.map key).Nodup ∧ ∀ p ∈ old ++ ms.map key, p.2 < f p.1 + countOf p.1 ms := by
  induction ms generalizing old f with
  | nil => simp only [List.map_nil, List.append_nil, countOf_nil, Nat.add_zero]; exact ⟨hnd, hold⟩
  | cons m ms ih =>
    obtain ⟨hm, hrest⟩ := hn
    have hnew : key m ∉ old := by
      intro hmem
      have := hold _ hmem
      simp only [key] at this
      omega
    have hnd' : (old ++ [key m]).Nodup := by
      rw [List.nodup_append]
      refine ⟨hnd, by simp, ?_⟩
      intro a ha b hb
      simp at hb; subst hb
      intro e; subst e; exact hnew ha
    have hold' : ∀ p ∈ old ++ [key m], p.2 < bump f m.sender p.1 := by
      intro p hp
      rcases List.mem_append.mp hp with e | e
      · have := hold p e
        unfold bump; split <;> omega
      · simp at e; subst e
        simp [key, bump, hm]
    obtain ⟨r1, r2⟩ := ih (bump f m.sender) (old ++ [key m]) hrest hold' hnd'
    have e : old ++ (m :: ms).map key = (old ++ [key m]) ++ ms.map key := by simp
    rw [e]
    refine ⟨r1, fun p hp => ?_⟩
    have := r2 p hp
    rw [bump_count] at this
    exact this

/-- what an accepted ante pass guarantees -/
theorem ante_spec (s s1 : State) (ms : List Msg) (h : ante s ms = some s1) :
    NoncesFrom (getSeq s) ms ∧ (∀ a, getSeq s1 a = getSeq s a + countOf a ms) ∧ s1.executed = s.executed ∧
    (∀ m ∈ ms, m.sigOk = true) := by
  unfold ante at h
  split at h; · cases h
  rename_i hsig
  split at h; · cases h
  split at h; · cases h
  cases hg : passGas s ms with
  | none => simp [hg] at h
  | some sg =>
    simp only [hg] at h
    split at h; · cases h
    obtain ⟨g1, g2⟩ := passGas_seq s sg ms hg
    obtain ⟨p1, p2, _, _⟩ := passSeq_spec sg s1 ms h
    have hn := passSeq_nonces sg s1 ms h
    have ef : getSeq sg = getSeq s := funext g1
    rw [ef] at hn
    refine ⟨hn, fun a => by rw [p1 a, g1 a], by rw [p2, g2], ?_⟩
    intro m hm
    have hs : passSig ms = true := by
      cases hp : passSig ms
      · simp [hp] at hsig
      · rfl
    have := List.all_eq_true.mp hs m hm
    simp at this; exact this.2

theorem deliver_rejected (s : State) (ms : List Msg) (h : ante s ms = none) : deliver s ms = (s, .rejected) := by
  unfold deliver; rw [h]

theorem deliver_failed (s s1 : State) (ms : List Msg) (h : ante s ms = some s1) (hx : execMsgs s1 ms = none) :
    deliver s ms = (s1, .execFailed) := by
  unfold deliver; rw [h]; simp only; rw [hx]

theorem deliver_ok (s s1 s2 : State) (ms : List Msg) (h : ante s ms = some s1) (hx : execMsgs s1 ms = some s2) :
    deliver s ms = (s2, .ok) := by
  unfold deliver; rw [h]; simp only; rw [hx]

end Nibiru.EvmTx
