package main

// interleave: C09 — a query / simulation is run to completion at a chosen point of the block's execution, deterministically and
// without touching the repository: an extra precompile registered through the public Keeper.AddPrecompiles calls back into the
// harness from the middle of the block's Ethereum transaction (this is the schedule "Q runs between two steps of T").
// For every (yield point, query kind) the block's transaction is executed twice from the same state — with and without the
// query — and the resulting module stores and the tx response are compared.
//
//   yield points : between-txs (the query runs before the block's tx starts, while another simulation has published its StateDB
//                  or not), in-tx-before-bank-op, in-tx-after-bank-op
//   query kinds  : bank-balance (plain gRPC read), ethcall-view, estimate-gas, ethcall-bank-precompile (eth_call of a
//                  contract that makes the FunToken precompile move NIBI), simulate-ethtx (an Ethereum tx executed in simulation
//                  on a branch of the committed state), simulate-convert (MsgConvertCoinToEvm in simulation),
//                  ethcall-value-precompile-query (eth_call with value into a precompile query method)

import (
	"os"
	abci "github.com/cometbft/cometbft/abci/types"
	"bytes"
	"encoding/json"
	"fmt"
	"math/big"
	"strings"

	sdk "github.com/cosmos/cosmos-sdk/types"
	authtypes "github.com/cosmos/cosmos-sdk/x/auth/types"
	gethcommon "github.com/ethereum/go-ethereum/common"
	"github.com/ethereum/go-ethereum/common/hexutil"
	"github.com/ethereum/go-ethereum/core/vm"
	"github.com/ethereum/go-ethereum/crypto"

	"github.com/NibiruChain/nibiru/v2/eth"
	"github.com/NibiruChain/nibiru/v2/x/common/testutil/testapp"
	"github.com/NibiruChain/nibiru/v2/app/evmante"
	"github.com/NibiruChain/nibiru/v2/x/evm"
	"github.com/NibiruChain/nibiru/v2/x/evm/embeds"
	"github.com/NibiruChain/nibiru/v2/x/evm/evmtest"
	"github.com/NibiruChain/nibiru/v2/x/evm/precompile"

	"verif/harness/internal/easm"
	"verif/harness/internal/hx"
)

func init() { runners["interleave"] = runInterleave }

var yieldAddr = gethcommon.HexToAddress("0x0000000000000000000000000000000000000999")

type yieldPrecompile struct{ hook *func() }

func (y yieldPrecompile) Address() gethcommon.Address      { return yieldAddr }
func (y yieldPrecompile) RequiredGas(input []byte) uint64  { return 0 }
func (y yieldPrecompile) Run(evmObj *vm.EVM, contract *vm.Contract, readonly bool) ([]byte, error) {
	if y.hook != nil && *y.hook != nil {
		(*y.hook)()
	}
	return nil, nil
}

// blockContract: calldata = mode(1) | payload.  mode 0: CALL yield, then CALL 0x800 with the payload.  mode 1: the other order.
func blockContractRuntime() []byte {
	a := easm.New()
	a.Push(1).Op(easm.CALLDATASIZE, easm.SUB) // plen
	a.Op(easm.DUP1).Push(1).Push(0).Op(easm.CALLDATACOPY)
	a.Push(0x4000).Op(easm.MSTORE) // plen at 0x4000
	yield := func() {
		a.Push(0).Push(0).Push(0).Push(0).Push(0).PushBytes(yieldAddr.Bytes()).Op(easm.GAS, easm.CALL, easm.POP)
	}
	bank := func() {
		a.Push(0).Push(0).Push(0x4000).Op(easm.MLOAD).Push(0).Push(0).PushBytes(precompile.PrecompileAddr_FunToken.Bytes()).Op(easm.GAS, easm.CALL)
		a.Push(0).Op(easm.SSTORE)
	}
	a.Push(0).Op(easm.CALLDATALOAD).Push(0xf8).Op(easm.SHR).JumpiTo("after")
	yield()
	bank()
	a.Op(easm.STOP)
	a.Label("after")
	bank()
	yield()
	a.Op(easm.STOP)
	return a.Bytes()
}

func runInterleave(r *hx.R, n int, w *hx.W, _ []string) error {
	deps := evmtest.NewTestDeps()
	k := deps.EvmKeeper
	one18 := new(big.Int).Exp(big.NewInt(10), big.NewInt(18), nil)
	accs := evmtest.NewEthPrivAccs(2)
	fund := func(a sdk.AccAddress, amt *big.Int) {
		_ = testapp.FundAccount(deps.App.BankKeeper, deps.Ctx, a, sdk.NewCoins(sdk.NewCoin("unibi", sdk.NewIntFromBigInt(amt))))
	}
	_ = testapp.FundModuleAccount(deps.App.BankKeeper, deps.Ctx, authtypes.FeeCollectorName, sdk.NewCoins(sdk.NewCoin("unibi", sdk.NewIntFromBigInt(one18))))
	fund(deps.Sender.NibiruAddr, one18)
	fund(accs[0].NibiruAddr, one18)
	fund(accs[1].NibiruAddr, one18)
	var hook func()
	k.AddPrecompiles(map[gethcommon.Address]vm.PrecompiledContract{yieldAddr: yieldPrecompile{&hook}})
	gasPrice := big.NewInt(0)
	deployNonce := k.GetAccNonce(deps.Ctx, deps.Sender.EthAddr)
	dm, err := signedEthTx(&deps, deps.Sender, deployNonce, nil, big.NewInt(0), 2_000_000, gasPrice, easm.Deployer(blockContractRuntime()))
	if err != nil {
		return err
	}
	if resp, err := k.EthereumTx(sdk.WrapSDKContext(deps.Ctx), dm); err != nil || resp.VmError != "" {
		return fmt.Errorf("deploy block contract: %v %v", err, resp)
	}
	contractC := crypto.CreateAddress(deps.Sender.EthAddr, deployNonce)
	fund(eth.EthAddrToNibiruAddr(contractC), big.NewInt(1_000_000))
	// an ERC20 for the view call and a coin-born funtoken for the simulated conversion
	viewNonce := k.GetAccNonce(deps.Ctx, deps.Sender.EthAddr)
	args, _ := embeds.SmartContract_TestERC20.ABI.Pack("")
	vm2, err := signedEthTx(&deps, deps.Sender, viewNonce, nil, big.NewInt(0), 3_000_000, gasPrice, append(append([]byte{}, embeds.SmartContract_TestERC20.Bytecode...), args...))
	if err != nil {
		return err
	}
	if resp, err := k.EthereumTx(sdk.WrapSDKContext(deps.Ctx), vm2); err != nil || resp.VmError != "" {
		return fmt.Errorf("deploy erc20: %v %v", err, resp)
	}
	viewC := crypto.CreateAddress(deps.Sender.EthAddr, viewNonce)
	deps.App.BankKeeper.SetDenomMetaData(deps.Ctx, mkMetaPc("ulog"))
	_ = testapp.FundAccount(deps.App.BankKeeper, deps.Ctx, accs[1].NibiruAddr, sdk.NewCoins(sdk.NewInt64Coin("ulog", 1_000_000)))
	_ = testapp.FundAccount(deps.App.BankKeeper, deps.Ctx, deps.Sender.NibiruAddr, k.FeeForCreateFunToken(deps.Ctx))
	ftResp, err := k.CreateFunToken(sdk.WrapSDKContext(deps.Ctx), &evm.MsgCreateFunToken{FromBankDenom: "ulog", Sender: deps.Sender.NibiruAddr.String()})
	if err != nil {
		return fmt.Errorf("create funtoken: %w", err)
	}
	ulogErc20 := ftResp.FuntokenMapping.Erc20Addr.Address
	k.Bank.StateDB = nil
	// accs[0] holds some of the mapped ERC20, so that a query can run FunToken.sendToBank all the way to its bank operation
	if _, err := k.ConvertCoinToEvm(sdk.WrapSDKContext(deps.Ctx), &evm.MsgConvertCoinToEvm{Sender: accs[1].NibiruAddr.String(),
		BankCoin: sdk.NewInt64Coin("ulog", 50_000), ToEthAddr: eth.EIP55Addr{Address: accs[0].EthAddr}}); err != nil {
		return fmt.Errorf("convert ulog: %w", err)
	}
	k.Bank.StateDB = nil
	base := deps.Ctx
	ftABI := embeds.SmartContract_FunToken.ABI
	recipients := []sdk.AccAddress{sdk.AccAddress(edFresh[0].Bytes()), sdk.AccAddress(edFresh[1].Bytes())}
	digestNames := []string{"bank", "evm", "acc", "wasm", "oracle", "tokenfactory", "sudo", "devgas", "inflation", "epochs"}
	digestSkip = nil

	queryKinds := []string{"none", "bank-balance", "ethcall-view", "estimate-gas", "ethcall-bank-precompile", "simulate-ethtx", "simulate-convert",
		"simulate-convert-bad", "simulate-createft-bad", "simulate-createft-erc20", "simulate-ethtx-bad", "ethcall-value-precompile-query", "ethcall-funtoken-sendtobank", "trace-call"}
	yields := []string{"between-txs", "in-tx-before-bank-op", "in-tx-after-bank-op", "tx-starts-while-simulation-in-flight"}

	runQuery := func(kind string, amt int64) string {
		// queries and simulations run on their own branch of the last committed state
		qctx, _ := base.CacheContext()
		return hx.Recover(func() string {
			switch kind {
			case "bank-balance":
				_ = deps.App.BankKeeper.GetBalance(qctx, accs[0].NibiruAddr, "unibi")
				return "ok"
			case "ethcall-view", "estimate-gas", "ethcall-bank-precompile":
				var to gethcommon.Address
				var data []byte
				if kind == "ethcall-bank-precompile" {
					to = precompile.PrecompileAddr_FunToken
					data, _ = ftABI.Pack("bankMsgSend", recipients[1].String(), "unibi", big.NewInt(amt))
				} else {
					to = viewC
					data, _ = embeds.SmartContract_ERC20MinterWithMetadataUpdates.ABI.Pack("balanceOf", deps.Sender.EthAddr)
				}
				hd := hexutil.Bytes(data)
				from := accs[0].EthAddr
				jargs, _ := json.Marshal(evm.JsonTxArgs{From: &from, To: &to, Input: &hd})
				req := &evm.EthCallRequest{Args: jargs, GasCap: 5_000_000}
				if kind == "estimate-gas" {
					if _, err := k.EstimateGas(sdk.WrapSDKContext(qctx), req); err != nil {
						return "err"
					}
					return "ok"
				}
				res, err := k.EthCall(sdk.WrapSDKContext(qctx), req)
				if err != nil || res.VmError != "" {
					return "err"
				}
				return "ok"
			case "trace-call": // debug_traceCall of a view call: TraceEthTxMsg builds a StateDB of its own
				data, _ := embeds.SmartContract_ERC20MinterWithMetadataUpdates.ABI.Pack("balanceOf", deps.Sender.EthAddr)
				hd := hexutil.Bytes(data)
				from := accs[0].EthAddr
				gas := hexutil.Uint64(1_000_000)
				targs := evm.JsonTxArgs{From: &from, To: &viewC, Data: &hd, Gas: &gas}
				if _, err := k.TraceCall(sdk.WrapSDKContext(qctx), &evm.QueryTraceTxRequest{Msg: targs.ToMsgEthTx()}); err != nil {
					return "err"
				}
				return "ok"
			case "ethcall-funtoken-sendtobank":
				// an eth_call that runs FunToken.sendToBank of a coin-born mapping to completion (ERC20 burnt, bank coins released): no NIBI
				// moves, so nothing of it may reach the block's StateDB, and nothing may stay published when the query returns
				to := precompile.PrecompileAddr_FunToken
				data, _ := ftABI.Pack("sendToBank", ulogErc20, big.NewInt(amt), recipients[1].String())
				hd := hexutil.Bytes(data)
				from := accs[0].EthAddr
				jargs, _ := json.Marshal(evm.JsonTxArgs{From: &from, To: &to, Input: &hd})
				res, err := k.EthCall(sdk.WrapSDKContext(qctx), &evm.EthCallRequest{Args: jargs, GasCap: 5_000_000})
				if err != nil || res.VmError != "" {
					return "err"
				}
				return "ok"
			case "ethcall-value-precompile-query":
				// an eth_call that carries value into a precompile QUERY method: the value transfer dirties the caller in the query's
				// private StateDB, the precompile entry flushes that StateDB into the query's cache context (balance decrease = burn path of
				// SetAccBalance); whether the method then refuses the value does not matter
				to := precompile.PrecompileAddr_FunToken
				data, _ := ftABI.Pack("whoAmI", accs[0].EthAddr.Hex())
				hd := hexutil.Bytes(data)
				from := accs[0].EthAddr
				val := hexutil.Big(*new(big.Int).Mul(big.NewInt(amt), big.NewInt(1_000_000_000_000)))
				jargs, _ := json.Marshal(evm.JsonTxArgs{From: &from, To: &to, Input: &hd, Value: &val})
				res, err := k.EthCall(sdk.WrapSDKContext(qctx), &evm.EthCallRequest{Args: jargs, GasCap: 5_000_000})
				if err != nil || res.VmError != "" {
					return "err"
				}
				return "ok"
			case "simulate-ethtx":
				to := edFresh[1]
				m, err := signedEthTx(&deps, accs[0], k.GetAccNonce(qctx, accs[0].EthAddr), &to, new(big.Int).Mul(big.NewInt(amt), big.NewInt(1_000_000_000_000)), 100_000, gasPrice, nil)
				if err != nil {
					return "err"
				}
				if _, err := k.EthereumTx(sdk.WrapSDKContext(qctx), m); err != nil {
					return "err"
				}
				return "ok"
			case "simulate-ethtx-bad": // a simulated Ethereum tx whose run fails (more value than the sender owns)
				to := edFresh[1]
				m, err := signedEthTx(&deps, accs[0], k.GetAccNonce(qctx, accs[0].EthAddr), &to, new(big.Int).Exp(big.NewInt(10), big.NewInt(40), nil), 100_000, gasPrice, nil)
				if err != nil {
					return "err"
				}
				if _, err := k.EthereumTx(sdk.WrapSDKContext(qctx), m); err != nil {
					return "err"
				}
				return "ok"
			case "simulate-convert-bad": // fails: no FunToken mapping for the denom
				if _, err := k.ConvertCoinToEvm(sdk.WrapSDKContext(qctx), &evm.MsgConvertCoinToEvm{Sender: accs[1].NibiruAddr.String(),
					BankCoin: sdk.NewInt64Coin("unibi", amt), ToEthAddr: eth.EIP55Addr{Address: edFresh[0]}}); err != nil {
					return "err"
				}
				return "ok"
			case "simulate-createft-bad": // fails inside the handler, after its StateDB exists: the address is not an ERC20
				if _, err := k.CreateFunToken(sdk.WrapSDKContext(qctx), &evm.MsgCreateFunToken{FromErc20: &eth.EIP55Addr{Address: edFresh[1]},
					Sender: accs[1].NibiruAddr.String()}); err != nil {
					return "err"
				}
				return "ok"
			case "simulate-createft-erc20": // succeeds (on the simulation's branch): the view contract is an unmapped ERC20
				if _, err := k.CreateFunToken(sdk.WrapSDKContext(qctx), &evm.MsgCreateFunToken{FromErc20: &eth.EIP55Addr{Address: viewC},
					Sender: accs[1].NibiruAddr.String()}); err != nil {
					return "err"
				}
				return "ok"
			case "simulate-convert":
				if _, err := k.ConvertCoinToEvm(sdk.WrapSDKContext(qctx), &evm.MsgConvertCoinToEvm{Sender: accs[1].NibiruAddr.String(),
					BankCoin: sdk.NewInt64Coin("ulog", amt), ToEthAddr: eth.EIP55Addr{Address: edFresh[0]}}); err != nil {
					return "err"
				}
				return "ok"
			}
			return "ok"
		})
	}

	// every (query kind, yield point) combination comes up at least once per pass through `combos` (the in-flight yield fixes its own
	// query kind); the rest of the cases is drawn at random
	type combo struct{ y, q string }
	var combos []combo
	for _, y := range yields[:3] {
		for _, q := range queryKinds[1:] {
			combos = append(combos, combo{y, q})
		}
	}
	combos = append(combos, combo{yields[3], "simulate-ethtx"})
	for i := len(combos) - 1; i > 0; i-- { // shuffled by the run's seed
		j := r.Pick(i + 1)
		combos[i], combos[j] = combos[j], combos[i]
	}
	// probe: the deploy input of a from-coin CreateFunToken is `append(<embedded bytecode>, constructorArgs...)`. Two executions
	// (the block's tx and a simulation on another goroutine) build theirs from the same package-level slice: if that slice has spare
	// capacity both write their arguments into ONE backing array, and whichever appends second changes what the other deploys.
	{
		bc := embeds.SmartContract_ERC20MinterWithMetadataUpdates.Bytecode
		argsBlock := bytes.Repeat([]byte{0xB1}, 96)
		argsSim := bytes.Repeat([]byte{0x51}, 96)
		inBlock := append(bc, argsBlock...)
		_ = append(bc, argsSim...)
		obs := "same private-deploy-input"
		if !bytes.Equal(inBlock[len(bc):], argsBlock) {
			obs = "DIFFERS deploy-input-of-the-block-tx-rewritten-by-another-execution"
		}
		w.Step("interleave probe yield=between-input-and-create q=simulate-createft-coin", obs)
	}
	// probe: a simulated / mempool-checked Ethereum tx with a gas price of exactly zero (legal: it is charged the base fee) runs the
	// whole EVM ante chain on a discarded branch; the fee parameters the block's txs are charged with afterwards — the base fee the
	// keeper reports — must be what they were
	{
		obs := hx.Recover(func() string {
			before := k.BaseFeeMicronibiPerGas(base).String() + "/" + k.BaseFeeWeiPerGas(base).String()
			to := accs[1].EthAddr
			m, err := signedEthTx(&deps, deps.Sender, k.GetAccNonce(base, deps.Sender.EthAddr), &to, big.NewInt(0), 21000, big.NewInt(0), nil)
			if err != nil {
				return "same (probe not built)"
			}
			tx, err := m.BuildTx(deps.App.GetTxConfig().NewTxBuilder(), "unibi")
			if err != nil {
				return "same (probe not built)"
			}
			bz, err := deps.App.GetTxConfig().TxEncoder()(tx)
			if err != nil {
				return "same (probe not built)"
			}
			_, _, serr := deps.App.Simulate(bz)
			cres := deps.App.CheckTx(abci.RequestCheckTx{Tx: bz, Type: abci.CheckTxType_New})
			// (the application's check state may not hold the sender's funds: the decorator that prices the tx is also run directly,
			// in simulation mode, on a discarded branch of the state the block executes on)
			for _, mm := range tx.GetMsgs() { // what the signature-verification decorator does before this one
				if em, ok := mm.(*evm.MsgEthereumTx); ok {
					em.From = deps.Sender.EthAddr.Hex()
				}
			}
			qctx, _ := base.CacheContext()
			dec := evmante.NewAnteDecEthGasConsume(deps.App.EvmKeeper, 10_000_000)
			_, aerr := dec.AnteHandle(qctx.WithIsCheckTx(true), tx, true, func(c sdk.Context, _ sdk.Tx, _ bool) (sdk.Context, error) { return c, nil })
			if os.Getenv("VERIF_DEBUG_DIFF") != "" {
				fmt.Fprintf(os.Stderr, "PROBE simulate err=%v checktx code=%d ante err=%v\n", serr, cres.Code, aerr)
			}
			after := k.BaseFeeMicronibiPerGas(base).String() + "/" + k.BaseFeeWeiPerGas(base).String()
			if after != before {
				return fmt.Sprintf("DIFFERS base-fee-of-the-node-changed-by-a-simulation before=%s after=%s", before, after)
			}
			return "same base-fee=" + before
		})
		k.Bank.StateDB = nil
		w.Step("interleave probe yield=between-txs q=simulate-zero-price-ethtx", obs)
	}
	for c := 0; c < n; c++ {
		y := yields[r.Pick(len(yields))]
		q := queryKinds[1+r.Pick(len(queryKinds)-1)]
		if c < 2*len(combos) {
			y, q = combos[c%len(combos)].y, combos[c%len(combos)].q
		}
		bankAmt := r.Range(1, 50)
		qAmt := r.Range(1, 50)
		payload, _ := ftABI.Pack("bankMsgSend", recipients[0].String(), "unibi", big.NewInt(bankAmt))
		mode := byte(0)
		if y == "in-tx-after-bank-op" {
			mode = 1
		}
		nonce := k.GetAccNonce(base, deps.Sender.EthAddr)
		msg, err := signedEthTx(&deps, deps.Sender, nonce, &contractC, big.NewInt(0), 3_000_000, gasPrice, append([]byte{mode}, payload...))
		if err != nil {
			return err
		}
		if y == "tx-starts-while-simulation-in-flight" {
			q = "simulate-ethtx"
		}
		exec := func(withQuery bool) (string, map[string]string, string) {
			tctx, _ := base.CacheContext()
			k.Bank.StateDB = nil
			qres := "-"
			hook = nil
			if withQuery && y == "tx-starts-while-simulation-in-flight" {
				// the simulation (an Ethereum tx calling the same contract) reaches the yield point; the block's tx runs there
				out := "not-run"
				hook = func() {
					hook = nil
					out = hx.Recover(func() string {
						resp, err := k.EthereumTx(sdk.WrapSDKContext(tctx), msg)
						if err != nil {
							return "txerr"
						}
						return fmt.Sprintf("vmerr=%s/gas=%d/slot0=%s", strings.ReplaceAll(resp.VmError, " ", "_"), resp.GasUsed, hashInt(k.GetState(tctx, contractC, gethcommon.Hash{})))
					})
				}
				qctx, _ := base.CacheContext()
				qres = hx.Recover(func() string {
					m, err := signedEthTx(&deps, accs[0], k.GetAccNonce(qctx, accs[0].EthAddr), &contractC, big.NewInt(0), 3_000_000, gasPrice, append([]byte{0}, payload...))
					if err != nil {
						return "err"
					}
					if _, err := k.EthereumTx(sdk.WrapSDKContext(qctx), m); err != nil {
						return "err"
					}
					return "ok"
				})
				hook = nil
				k.Bank.StateDB = nil
				return out, storeDigests(deps.App, tctx, digestNames), qres
			}
			if withQuery {
				if y == "between-txs" {
					qres = runQuery(q, qAmt)
				} else {
					hook = func() { qres = runQuery(q, qAmt) }
				}
			}
			out := hx.Recover(func() string {
				resp, err := k.EthereumTx(sdk.WrapSDKContext(tctx), msg)
				if err != nil {
					return "txerr"
				}
				return fmt.Sprintf("vmerr=%s/gas=%d/slot0=%s", strings.ReplaceAll(resp.VmError, " ", "_"), resp.GasUsed, hashInt(k.GetState(tctx, contractC, gethcommon.Hash{})))
			})
			hook = nil
			k.Bank.StateDB = nil
			return out, storeDigests(deps.App, tctx, digestNames), qres
		}
		r0, d0, _ := exec(false)
		r1, d1, qres := exec(true)
		w.Count("q:" + q + ":" + qres)
		obs := "same"
		if r0 != r1 || len(changedStores(d0, d1)) > 0 {
			obs = fmt.Sprintf("DIFFERS resp=%v stores=%s", r0 != r1, items(changedStores(d0, d1)))
		}
		if strings.HasPrefix(r0, "txerr") || strings.Contains(r0, "slot0=0") {
			obs += " baseline-tx-did-not-move-funds"
		}
		w.Step(fmt.Sprintf("interleave case yield=%s q=%s bank=%d qamt=%d", y, q, bankAmt, qAmt), obs+" q="+qres)
	}
	return nil
}
