package main

import (
	"fmt"
	"go/ast"
	"go/token"
	"sort"
	"strings"
)

// Facts about x/evm/precompile consumed by NibiruModel/Precompile.lean (C08):
//   precompileIsMutation       the isMutation map literal, keys resolved to the method-name strings
//   precompileRunCases         (precompile, method name, handler, first guard of the handler) per `case` of each Run switch
//   precompileRunDefersOOG     whether each Run defers HandleOutOfGasPanic
//   precompileRequiredGasLenCheck  whether requiredGas checks len(input) < 4 before slicing the input
//   precompileRawStringUses    (function, callee, argument identifier, validated-before?) for sdk.NewCoin / ExactMatch calls
//                              whose first data argument is a plain identifier
func init() {
	extractors["precompile"] = func(repo string, out *leanFile, js map[string]any) error {
		dir := "x/evm/precompile"
		files := loadDir(repo, dir)
		if len(files) == 0 {
			return fmt.Errorf("no files in %s", dir)
		}
		// const X PrecompileMethod = "name"
		consts := map[string]string{}
		for _, sf := range files {
			for _, d := range sf.file.Decls {
				gd, ok := d.(*ast.GenDecl)
				if !ok || gd.Tok != token.CONST {
					continue
				}
				for _, sp := range gd.Specs {
					vs := sp.(*ast.ValueSpec)
					for i, n := range vs.Names {
						if i < len(vs.Values) {
							if bl, ok := vs.Values[i].(*ast.BasicLit); ok && bl.Kind == token.STRING {
								consts[n.Name] = strings.Trim(bl.Value, "\"")
							}
						}
					}
				}
			}
		}
		// isMutation
		var mut []string
		for _, sf := range files {
			for _, d := range sf.file.Decls {
				gd, ok := d.(*ast.GenDecl)
				if !ok || gd.Tok != token.VAR {
					continue
				}
				for _, sp := range gd.Specs {
					vs := sp.(*ast.ValueSpec)
					for i, n := range vs.Names {
						if n.Name != "isMutation" || i >= len(vs.Values) {
							continue
						}
						cl, ok := vs.Values[i].(*ast.CompositeLit)
						if !ok {
							continue
						}
						for _, el := range cl.Elts {
							kv, ok := el.(*ast.KeyValueExpr)
							if !ok {
								continue
							}
							k := exprString(kv.Key)
							if v, ok := consts[k]; ok {
								k = v
							}
							mut = append(mut, "("+leanStr(k)+", "+exprString(kv.Value)+")")
						}
					}
				}
			}
		}
		sort.Strings(mut)
		if len(mut) == 0 {
			return fmt.Errorf("isMutation literal not found")
		}
		out.f("def precompileIsMutation : List (String × Bool) := [%s]\n", strings.Join(mut, ", "))

		// Run switches
		recvs := map[string]string{"precompileFunToken": "funtoken", "precompileWasm": "wasm", "precompileOracle": "oracle"}
		var cases, defers []string
		rnames := make([]string, 0, len(recvs))
		for r := range recvs {
			rnames = append(rnames, r)
		}
		sort.Strings(rnames)
		for _, r := range rnames {
			run := findFunc(repo, dir, r+".Run")
			if run == nil {
				return fmt.Errorf("%s.Run not found", r)
			}
			hasDefer := false
			ast.Inspect(run.Body, func(n ast.Node) bool {
				if ds, ok := n.(*ast.DeferStmt); ok {
					if strings.Contains(exprString(ds.Call), "HandleOutOfGasPanic(") {
						hasDefer = true
					}
				}
				return true
			})
			defers = append(defers, fmt.Sprintf("(%s, %v)", leanStr(recvs[r]), hasDefer))
			ast.Inspect(run.Body, func(n ast.Node) bool {
				cc, ok := n.(*ast.CaseClause)
				if !ok || len(cc.List) == 0 {
					return true
				}
				for _, ce := range cc.List {
					name := exprString(ce)
					if v, ok := consts[name]; ok {
						name = v
					}
					handler := "?"
					for _, st := range cc.Body {
						ast.Inspect(st, func(m ast.Node) bool {
							if call, ok := m.(*ast.CallExpr); ok && handler == "?" {
								if se, ok := call.Fun.(*ast.SelectorExpr); ok {
									if id, ok := se.X.(*ast.Ident); ok && id.Name == "p" {
										handler = se.Sel.Name
									}
								}
							}
							return true
						})
					}
					guard := "none"
					if fd := findFunc(repo, dir, r+"."+handler); fd != nil {
						guard = firstGuard(fd)
					}
					cases = append(cases, fmt.Sprintf("(%s, %s, %s, %s)", leanStr(recvs[r]), leanStr(name), leanStr(handler), leanStr(guard)))
				}
				return true
			})
		}
		sort.Strings(cases)
		out.f("def precompileRunCases : List (String × String × String × String) := [%s]\n", strings.Join(cases, ", "))
		out.f("def precompileRunDefersOOG : List (String × Bool) := [%s]\n", strings.Join(defers, ", "))

		// requiredGas: a length check precedes the first slice expression on the input
		rg := findFunc(repo, dir, "requiredGas")
		if rg == nil {
			return fmt.Errorf("requiredGas not found")
		}
		checkPos, slicePos := token.NoPos, token.NoPos
		ast.Inspect(rg.Body, func(n ast.Node) bool {
			switch v := n.(type) {
			case *ast.IfStmt:
				c := exprString(v.Cond)
				if (c == "len(input) < 4" || c == "len(input) < 4 ") && checkPos == token.NoPos && returnsDirectly(v.Body) {
					checkPos = v.Pos()
				}
			case *ast.SliceExpr:
				if id, ok := v.X.(*ast.Ident); ok && id.Name == "input" && slicePos == token.NoPos {
					slicePos = v.Pos()
				}
			}
			return true
		})
		lenCheck := checkPos != token.NoPos && (slicePos == token.NoPos || checkPos < slicePos)
		out.f("def precompileRequiredGasLenCheck : Bool := %v\n", lenCheck)

		// OnRunStart: the calls on the StateDB, in source order, each with the conditions it sits under ("-" = unconditional; the
		// Init of an `if err = f(); err != nil` is not under that condition). C04/C08: every precompile call, whatever the method,
		// must journal the multistore snapshot and flush the dirty StateDB.
		var steps []string
		for _, sf := range files {
			for _, d := range sf.file.Decls {
				fd, ok := d.(*ast.FuncDecl)
				if !ok || fd.Name.Name != "OnRunStart" || fd.Body == nil {
					continue
				}
				var walk func(n ast.Node, conds []string)
				record := func(n ast.Node, conds []string) {
					ast.Inspect(n, func(m ast.Node) bool {
						if _, ok := m.(*ast.FuncLit); ok {
							return false
						}
						if call, ok := m.(*ast.CallExpr); ok {
							if se, ok := call.Fun.(*ast.SelectorExpr); ok {
								if id, ok := se.X.(*ast.Ident); ok && id.Name == "stateDB" {
									c := "-"
									if len(conds) > 0 {
										c = strings.Join(conds, " && ")
									}
									steps = append(steps, fmt.Sprintf("(%s, %s)", leanStr(se.Sel.Name), leanStr(c)))
								}
							}
						}
						return true
					})
				}
				walk = func(n ast.Node, conds []string) {
					switch v := n.(type) {
					case *ast.BlockStmt:
						for _, st := range v.List {
							walk(st, conds)
						}
					case *ast.IfStmt:
						if v.Init != nil {
							record(v.Init, conds)
						}
						record(v.Cond, conds)
						c := exprString(v.Cond)
						walk(v.Body, append(append([]string{}, conds...), c))
						if v.Else != nil {
							walk(v.Else, append(append([]string{}, conds...), "!("+c+")"))
						}
					case *ast.ForStmt, *ast.RangeStmt, *ast.SwitchStmt, *ast.TypeSwitchStmt:
						record(n, append(append([]string{}, conds...), "<loop-or-switch>"))
					default:
						record(n, conds)
					}
				}
				walk(fd.Body, nil)
			}
		}
		out.f("def onRunStartStateDBCalls : List (String × String) := [%s]\n", strings.Join(steps, ", "))

		// raw identifiers reaching panicking constructors / string-key encoders
		var uses []string
		for _, sf := range files {
			for _, d := range sf.file.Decls {
				fd, ok := d.(*ast.FuncDecl)
				if !ok || fd.Body == nil {
					continue
				}
				validated := map[string]token.Pos{}
				ast.Inspect(fd.Body, func(n ast.Node) bool {
					if call, ok := n.(*ast.CallExpr); ok {
						if exprString(call.Fun) == "sdk.ValidateDenom" && len(call.Args) == 1 {
							if id, ok := call.Args[0].(*ast.Ident); ok {
								if _, seen := validated[id.Name]; !seen {
									validated[id.Name] = call.Pos()
								}
							}
						}
					}
					return true
				})
				ast.Inspect(fd.Body, func(n ast.Node) bool {
					call, ok := n.(*ast.CallExpr)
					if !ok {
						return true
					}
					fn := exprString(call.Fun)
					var arg ast.Expr
					callee := ""
					switch {
					case fn == "sdk.NewCoin" && len(call.Args) == 2:
						arg, callee = call.Args[0], "sdk.NewCoin"
					case strings.HasSuffix(fn, ".ExactMatch") && len(call.Args) == 2:
						arg, callee = call.Args[1], fn[strings.LastIndex(fn[:len(fn)-len(".ExactMatch")], ".")+1:]
					default:
						return true
					}
					id, ok := arg.(*ast.Ident)
					if !ok {
						return true
					}
					vp, isVal := validated[id.Name]
					ok2 := isVal && vp < call.Pos()
					uses = append(uses, fmt.Sprintf("(%s, %s, %s, %v)", leanStr(fd.Name.Name), leanStr(callee), leanStr(id.Name), ok2))
					return true
				})
			}
		}
		sort.Strings(uses)
		// argument parsers that validate a denom themselves
		var pv []string
		for _, sf := range files {
			for _, d := range sf.file.Decls {
				fd, ok := d.(*ast.FuncDecl)
				if !ok || fd.Body == nil || !strings.HasPrefix(fd.Name.Name, "parseArgs") {
					continue
				}
				found := false
				ast.Inspect(fd.Body, func(n ast.Node) bool {
					if call, ok := n.(*ast.CallExpr); ok && exprString(call.Fun) == "sdk.ValidateDenom" {
						found = true
					}
					return true
				})
				if found {
					pv = append(pv, fd.Name.Name)
				}
			}
		}
		sort.Strings(pv)
		out.f("def precompileParsersValidatingDenom : List String := %s\n", leanStrList(pv))
		out.f("def precompileRawStringUses : List (String × String × String × Bool) := [%s]\n", strings.Join(uses, ", "))
		return nil
	}
}

func returnsDirectly(b *ast.BlockStmt) bool {
	for _, st := range b.List {
		if _, ok := st.(*ast.ReturnStmt); ok {
			return true
		}
	}
	return false
}

// firstGuard: the first statement of the handler that is neither a call-free assignment nor a defer must be
// `if err := assertNotReadonlyTx(...)` / `if err := assertContractQuery(...)`; anything else yields "none".
func firstGuard(fd *ast.FuncDecl) string {
	for _, st := range fd.Body.List {
		switch v := st.(type) {
		case *ast.DeferStmt:
			continue
		case *ast.AssignStmt:
			hasCall := false
			for _, r := range v.Rhs {
				ast.Inspect(r, func(n ast.Node) bool {
					if _, ok := n.(*ast.CallExpr); ok {
						hasCall = true
					}
					return true
				})
			}
			if !hasCall {
				continue
			}
			return "none"
		case *ast.IfStmt:
			if as, ok := v.Init.(*ast.AssignStmt); ok && len(as.Rhs) == 1 {
				if call, ok := as.Rhs[0].(*ast.CallExpr); ok {
					fn := exprString(call.Fun)
					if (fn == "assertNotReadonlyTx" || fn == "assertContractQuery") && returnsDirectly(v.Body) {
						return fn
					}
				}
			}
			return "none"
		default:
			return "none"
		}
	}
	return "none"
}
