/-
  SDBFlush — a positive fact about the intermediate flush at a precompile entry (`OnRunStart`: cache context, journal entry,
  `CommitCacheCtx`): when the precompile itself has no side effect (a query method) and nothing is reverted afterwards, the flush does
  not change what the transaction commits.  The final `Commit` writes the cache context back and flushes AGAIN over objects whose
  `OriginStorage` the first flush advanced: every dirty slot now equals its origin, so the second flush writes nothing new.
  (What goes wrong when a frame around such a call IS reverted is the subject of the C04 counterexamples.)
-/
import NibiruProofs.SDBOrder
import NibiruProofs.SDBTx

namespace Nibiru.SDB
open Nibiru

/-- two stores hold the same EVM accounts and slots -/
def StoreExt (st st' : Store) : Prop := (∀ a, st.acct a = st'.acct a) ∧ (∀ a k, st.slot a k = st'.slot a k)

theorem StoreExt.refl (st : Store) : StoreExt st st := ⟨fun _ => rfl, fun _ _ => rfl⟩
theorem StoreExt.trans {a b c : Store} (h1 : StoreExt a b) (h2 : StoreExt b c) : StoreExt a c :=
  ⟨fun x => (h1.1 x).trans (h2.1 x), fun x k => (h1.2 x k).trans (h2.2 x k)⟩
theorem StoreExt.symm {a b : Store} (h : StoreExt a b) : StoreExt b a := ⟨fun x => (h.1 x).symm, fun x k => (h.2 x k).symm⟩

/-! ### the flushed object -/

theorem flushStep_fields (a : Nat) (acc : Store × Obj) (k : Nat) :
    (flushStep a acc k).2.balance = acc.2.balance ∧ (flushStep a acc k).2.nonce = acc.2.nonce ∧
    (flushStep a acc k).2.codeHash = acc.2.codeHash ∧ (flushStep a acc k).2.suicided = acc.2.suicided := by
  unfold flushStep; simp only; split <;> exact ⟨rfl, rfl, rfl, rfl⟩

theorem flushObj_fields (st : Store) (a : Nat) (o : Obj) :
    (flushObj st a o).2.balance = o.balance ∧ (flushObj st a o).2.nonce = o.nonce ∧ (flushObj st a o).2.codeHash = o.codeHash ∧
    (flushObj st a o).2.suicided = o.suicided ∧ (flushObj st a o).2.dirty = o.dirty := by
  rw [flushObj_eq]
  have h := foldl_const (flushStep a) (fun acc => (acc.2.balance, acc.2.nonce, acc.2.codeHash, acc.2.suicided, acc.2.dirty))
    (fun acc k => by
      obtain ⟨f1, f2, f3, f4⟩ := flushStep_fields a acc k
      simp only [f1, f2, f3, f4, flushStep_dirty])
    (sortNat (o.dirty.map (·.1)))
    (st.setAcct a { nonce := o.nonce, codeHash := o.codeHash, balance := Int.tdiv o.balance weiPerUnibi }, o)
  simp only [Prod.mk.injEq] at h
  exact h

/-- after the flush every dirty slot's value IS its cached origin (read with the code's default 0) -/
theorem flushObj_origin_of_dirty (st : Store) (a : Nat) (o : Obj) (k v : Nat) (hd : AList.find? o.dirty k = some v) :
    (AList.find? (flushObj st a o).2.origin k).getD 0 = v := by
  rw [flushObj_eq]
  let P : Store × Obj → List (Nat × Nat) × Option Nat := fun acc => (acc.2.dirty, AList.find? acc.2.origin k)
  have hframe : ∀ acc k', k' ≠ k → P (flushStep a acc k') = P acc := by
    intro acc k' hk
    simp only [P]
    rw [flushStep_dirty, flushStep_origin_ne a acc k' k hk]
  have hin : k ∈ sortNat (o.dirty.map (·.1)) := by
    rw [mem_sortNat]
    apply Classical.byContradiction
    intro hm
    rw [(find?_none_iff _ _).mpr hm] at hd; cases hd
  obtain ⟨acc', h1, h2⟩ := foldl_at (flushStep a) P k hframe _
    (st.setAcct a { nonce := o.nonce, codeHash := o.codeHash, balance := Int.tdiv o.balance weiPerUnibi }, o) (sortNat_nodup _) hin
  simp only [P] at h1 h2
  have e1 : acc'.2.dirty = o.dirty := congrArg (fun t => t.1) h1
  have h3 := congrArg (fun t => t.2) h2
  simp only at h3
  rw [h3]
  unfold flushStep
  simp only [e1, hd, Option.getD_some]
  split
  · rename_i heq; exact heq.symm
  · simp [AList.find?_set_self]

/-- flushing an object whose dirty slots all equal their origins writes the account record and nothing else -/
theorem flushObj_noop (st : Store) (a : Nat) (o : Obj)
    (h : ∀ k v, AList.find? o.dirty k = some v → (AList.find? o.origin k).getD 0 = v) :
    flushObj st a o = (st.setAcct a { nonce := o.nonce, codeHash := o.codeHash, balance := Int.tdiv o.balance weiPerUnibi }, o) := by
  rw [flushObj_eq]
  have key : ∀ (L : List Nat) (x : Store), (∀ k ∈ L, ∃ v, AList.find? o.dirty k = some v) →
      L.foldl (flushStep a) (x, o) = (x, o) := by
    intro L
    induction L with
    | nil => intro x _; rfl
    | cons k t ih =>
      intro x hL
      obtain ⟨v, hv⟩ := hL k (List.mem_cons_self ..)
      have hstep : flushStep a (x, o) k = (x, o) := by
        unfold flushStep
        simp only [hv, Option.getD_some, h k v hv, if_true]
      simp only [List.foldl_cons, hstep]
      exact ih x (fun k' hk' => hL k' (List.mem_cons_of_mem _ hk'))
  apply key
  intro k hk
  rw [mem_sortNat] at hk
  cases hd : AList.find? o.dirty k with
  | some v => exact ⟨v, rfl⟩
  | none => exact absurd hk ((find?_none_iff _ _).mp hd)

/-! ### what one flush leaves in the state objects and in the dirty map -/

theorem stepC_curStore (acc : S × Store) (b : Nat) : curStore (stepC acc b).1 = curStore acc.1 := by
  have h := getObj_frame acc.1 b
  unfold stepC
  rcases hg : getObj acc.1 b with ⟨s1, _ | o⟩
  · rw [hg] at h; simp only; unfold curStore; simp only; rw [h.2.2.2.2.2, h.2.2.2.2.1]
  · rw [hg] at h
    simp only
    split
    · unfold curStore; simp only; rw [h.2.2.2.2.2, h.2.2.2.2.1]
    · unfold curStore; simp only [setObj]; rw [h.2.2.2.2.2, h.2.2.2.2.1]

theorem foldl_stepC_curStore (L : List Nat) (acc : S × Store) : curStore (L.foldl stepC acc).1 = curStore acc.1 := by
  induction L generalizing acc with
  | nil => rfl
  | cons b t ih => simp only [List.foldl_cons]; rw [ih, stepC_curStore]

theorem stepC_objs_live (a : Nat) (acc : S × Store) (o : Obj) (ho : AList.find? acc.1.objs a = some o) (hs : o.suicided = false) :
    AList.find? (stepC acc a).1.objs a = some (flushObj acc.2 a o).2 := by
  unfold stepC
  rw [getObj_cached' acc.1 a o ho]
  simp only [hs, Bool.false_eq_true, if_false]
  exact find_setObj_same _ _ _

theorem stepC_objs_dead (a : Nat) (acc : S × Store) (o : Obj) (ho : AList.find? acc.1.objs a = some o) (hs : o.suicided = true) :
    AList.find? (stepC acc a).1.objs a = none := by
  unfold stepC
  rw [getObj_cached' acc.1 a o ho]
  simp only [hs, if_true]
  exact AList.find?_erase_self _ _

/-- the object part of a flush does not depend on the store it writes into -/
theorem flushObj_snd_indep (st st' : Store) (a : Nat) (o : Obj) : (flushObj st a o).2 = (flushObj st' a o).2 := by
  rw [flushObj_eq, flushObj_eq]
  have key : ∀ (L : List Nat) (x x' : Store) (o1 : Obj), (L.foldl (flushStep a) (x, o1)).2 = (L.foldl (flushStep a) (x', o1)).2 := by
    intro L
    induction L with
    | nil => intro _ _ _; rfl
    | cons k t ih =>
      intro x x' o1
      simp only [List.foldl_cons]
      have h1 : (flushStep a (x, o1) k).2 = (flushStep a (x', o1) k).2 := by unfold flushStep; simp only; split <;> rfl
      have e1 : flushStep a (x, o1) k = ((flushStep a (x, o1) k).1, (flushStep a (x, o1) k).2) := rfl
      have e2 : flushStep a (x', o1) k = ((flushStep a (x', o1) k).1, (flushStep a (x', o1) k).2) := rfl
      rw [e1, e2, h1]
      exact ih _ _ _
  exact key _ _ _ _

theorem commitInto_obj_live (s : S) (st : Store) (a : Nat) (o : Obj) (ho : AList.find? s.objs a = some o)
    (hd : a ∈ s.dirties.map (·.1)) (hs : o.suicided = false) :
    AList.find? (commitInto s st).1.objs a = some (flushObj st a o).2 := by
  obtain ⟨acc', h1, h2⟩ := foldl_at stepC (atAddr a) a (stepC_frame a) (sortNat (s.dirties.map (·.1))) (s, st)
    (sortNat_nodup _) (by rw [mem_sortNat]; exact hd)
  rw [← commitInto_eq] at h2
  unfold atAddr at h1 h2
  have e1 : AList.find? acc'.1.objs a = some o := (congrArg (fun t => t.1) h1).trans ho
  have h3 := congrArg (fun t => t.1) h2
  simp only at h3
  rw [h3, stepC_objs_live a acc' o e1 hs, flushObj_snd_indep acc'.2 st a o]

theorem commitInto_obj_dead (s : S) (st : Store) (a : Nat) (o : Obj) (ho : AList.find? s.objs a = some o)
    (hd : a ∈ s.dirties.map (·.1)) (hs : o.suicided = true) :
    AList.find? (commitInto s st).1.objs a = none := by
  obtain ⟨acc', h1, h2⟩ := foldl_at stepC (atAddr a) a (stepC_frame a) (sortNat (s.dirties.map (·.1))) (s, st)
    (sortNat_nodup _) (by rw [mem_sortNat]; exact hd)
  rw [← commitInto_eq] at h2
  unfold atAddr at h1 h2
  have e1 : AList.find? acc'.1.objs a = some o := (congrArg (fun t => t.1) h1).trans ho
  have h3 := congrArg (fun t => t.1) h2
  simp only at h3
  rw [h3, stepC_objs_dead a acc' o e1 hs]

theorem mem_keys_set (d : List (Nat × Int)) (a : Nat) (v : Int) (x : Nat) :
    x ∈ (AList.set d a v).map (·.1) ↔ x = a ∨ x ∈ d.map (·.1) := by
  induction d with
  | nil => simp [AList.set]
  | cons p t ih =>
    obtain ⟨k', v'⟩ := p
    by_cases h : k' = a
    · subst h; simp [AList.set]
    · simp only [AList.set, h, if_false, List.map_cons, List.mem_cons, ih]
      constructor
      · rintro (e | e | e)
        · exact Or.inr (Or.inl e)
        · exact Or.inl e
        · exact Or.inr (Or.inr e)
      · rintro (e | e | e)
        · exact Or.inr (Or.inl e)
        · exact Or.inl e
        · exact Or.inr (Or.inr e)

theorem stepC_keys (acc : S × Store) (b : Nat) (hb : b ∈ acc.1.dirties.map (·.1)) (x : Nat) :
    x ∈ (stepC acc b).1.dirties.map (·.1) ↔ x ∈ acc.1.dirties.map (·.1) := by
  have hdj := (getObj_frame acc.1 b).2.1
  have key : ∀ d : List (Nat × Int), d = acc.1.dirties → (x ∈ (AList.set d b 0).map (·.1) ↔ x ∈ acc.1.dirties.map (·.1)) := by
    intro d hd
    rw [mem_keys_set, hd]
    constructor
    · rintro (e | e)
      · rw [e]; exact hb
      · exact e
    · exact fun e => Or.inr e
  unfold stepC
  rcases hg : getObj acc.1 b with ⟨s1, _ | o⟩
  · rw [hg] at hdj; simp only; exact key _ hdj
  · rw [hg] at hdj
    simp only
    split
    · exact key _ hdj
    · simp only [setObj]; exact key _ hdj

theorem foldl_stepC_keys (L : List Nat) (acc : S × Store) (hL : ∀ b ∈ L, b ∈ acc.1.dirties.map (·.1)) (x : Nat) :
    x ∈ (L.foldl stepC acc).1.dirties.map (·.1) ↔ x ∈ acc.1.dirties.map (·.1) := by
  induction L generalizing acc with
  | nil => exact Iff.rfl
  | cons b t ih =>
    simp only [List.foldl_cons]
    have hb := hL b (List.mem_cons_self ..)
    rw [ih (stepC acc b) (fun c hc => (stepC_keys acc b hb c).mpr (hL c (List.mem_cons_of_mem _ hc)))]
    exact stepC_keys acc b hb x

theorem commitInto_keys (s : S) (st : Store) (x : Nat) :
    x ∈ (commitInto s st).1.dirties.map (·.1) ↔ x ∈ s.dirties.map (·.1) := by
  rw [commitInto_eq]
  exact foldl_stepC_keys _ (s, st) (fun b hb => by rw [mem_sortNat] at hb; exact hb) x

/-- an address whose object is gone and which the current store does not hold is left alone by a flush -/
theorem commitInto_at_absent (s : S) (st : Store) (a : Nat) (hd : a ∈ s.dirties.map (·.1))
    (ho : AList.find? s.objs a = none) (hl : (curStore s).acct a = none) :
    (commitInto s st).2.acct a = st.acct a ∧ ∀ k, (commitInto s st).2.slot a k = st.slot a k := by
  -- carry the current store along: it never changes during the fold
  let P : S × Store → (Option Obj × Option StoreAcc × (Nat → Nat)) × Store := fun acc => (atAddr a acc, curStore acc.1)
  have hframe : ∀ acc b, b ≠ a → P (stepC acc b) = P acc := by
    intro acc b hb
    simp only [P]
    rw [stepC_frame a acc b hb, stepC_curStore]
  obtain ⟨acc', h1, h2⟩ := foldl_at stepC P a hframe (sortNat (s.dirties.map (·.1))) (s, st)
    (sortNat_nodup _) (by rw [mem_sortNat]; exact hd)
  rw [← commitInto_eq] at h2
  simp only [P, Prod.mk.injEq] at h1 h2
  obtain ⟨h1a, h1c⟩ := h1
  unfold atAddr at h1a h2
  have e1 : AList.find? acc'.1.objs a = none := (congrArg (fun t => t.1) h1a).trans ho
  have e2 : acc'.2.acct a = st.acct a := congrArg (fun t => t.2.1) h1a
  have e3 : ∀ k, acc'.2.slot a k = st.slot a k := fun k => congrFun (congrArg (fun t => t.2.2) h1a) k
  have hload : loadObj (curStore acc'.1) a = none := by
    rw [h1c]; unfold loadObj; rw [hl]; rfl
  have hstep : (stepC acc' a).2 = acc'.2 := by
    unfold stepC getObj
    rw [e1]
    simp only [hload]
  obtain ⟨h2a, _⟩ := h2
  refine ⟨?_, fun k => ?_⟩
  · have := congrArg (fun t => t.2.1) h2a
    simp only at this
    rw [this, hstep]; exact e2
  · have := congrFun (congrArg (fun t => t.2.2) h2a) k
    simp only at this
    rw [this, hstep]; exact e3 k

/-! ### the write-back reads the state only through the objects and the CURRENT store -/

def piC' (acc : S × Store) : List (Nat × Obj) × Store × Store := (acc.1.objs, curStore acc.1, acc.2)

theorem stepC_pi' (acc acc' : S × Store) (a : Nat) (h : piC' acc = piC' acc') : piC' (stepC acc a) = piC' (stepC acc' a) := by
  obtain ⟨s, st⟩ := acc
  obtain ⟨s', st'⟩ := acc'
  cases s with
  | mk txStore cache objs journal dirties revisions nextRev refund logs alAddrs alSlots cacheCount =>
  cases s' with
  | mk txStore' cache' objs' journal' dirties' revisions' nextRev' refund' logs' alAddrs' alSlots' cacheCount' =>
    simp only [piC', curStore, Prod.mk.injEq] at h
    obtain ⟨h1, h2, h3⟩ := h
    subst h1 h3
    unfold stepC getObj piC' curStore
    simp only
    rw [h2]
    cases AList.find? objs a with
    | some o =>
      simp only
      cases o.suicided <;> simp [setObj, h2]
    | none =>
      simp only
      cases loadObj (cache'.getD txStore') a with
      | none => simp [h2]
      | some o =>
        simp only
        cases o.suicided <;> simp [setObj, h2]

theorem foldl_stepC_pi' (L : List Nat) (acc acc' : S × Store) (h : piC' acc = piC' acc') :
    piC' (L.foldl stepC acc) = piC' (L.foldl stepC acc') := by
  induction L generalizing acc acc' with
  | nil => exact h
  | cons a t ih => simp only [List.foldl_cons]; exact ih _ _ (stepC_pi' acc acc' a h)

theorem commitInto_congr (s s' : S) (st : Store) (ho : s'.objs = s.objs) (hc : curStore s' = curStore s) (hd : s'.dirties = s.dirties) :
    (commitInto s' st).2 = (commitInto s st).2 ∧ (commitInto s' st).1.objs = (commitInto s st).1.objs := by
  rw [commitInto_eq, commitInto_eq, hd]
  have := foldl_stepC_pi' (sortNat (s.dirties.map (·.1))) (s', st) (s, st) (by unfold piC'; simp only [ho, hc])
  unfold piC' at this
  exact ⟨congrArg (fun t => t.2.2) this, congrArg (fun t => t.1) this⟩

/-! ### flushing twice -/

/-- **the second flush writes nothing new.** `s` is a state whose current store is `c`; it is flushed into `c`, giving `(sa, sta)`;
    any state that holds `sa`'s objects and dirty map and reads from `sta` — what `commitCache` followed by `Commit` sets up —
    flushes into `sta` without changing an account or a slot. -/
theorem second_flush_writes_nothing (s : S) (c : Store) (sb : S)
    (hcached : ∀ a ∈ s.dirties.map (·.1), ∃ o, AList.find? s.objs a = some o)
    (hobjs : sb.objs = (commitInto s c).1.objs) (hdirt : sb.dirties = (commitInto s c).1.dirties)
    (hcur : curStore sb = (commitInto s c).2) :
    StoreExt (commitInto sb (commitInto s c).2).2 (commitInto s c).2 := by
  have hkeys : ∀ a, a ∈ sb.dirties.map (·.1) ↔ a ∈ s.dirties.map (·.1) := by
    intro a; rw [hdirt]; exact commitInto_keys s c a
  have main : ∀ a, (commitInto sb (commitInto s c).2).2.acct a = (commitInto s c).2.acct a ∧
      ∀ k, (commitInto sb (commitInto s c).2).2.slot a k = (commitInto s c).2.slot a k := by
    intro a
    by_cases hd : a ∈ s.dirties.map (·.1)
    · obtain ⟨o, ho⟩ := hcached a hd
      have hd' := (hkeys a).mpr hd
      cases hs : o.suicided with
      | false =>
        have ho' : AList.find? sb.objs a = some (flushObj c a o).2 := by rw [hobjs]; exact commitInto_obj_live s c a o ho hd hs
        obtain ⟨f1, f2, f3, f4, f5⟩ := flushObj_fields c a o
        have hs' : (flushObj c a o).2.suicided = false := f4.trans hs
        refine ⟨?_, fun k => ?_⟩
        · rw [commitInto_acct sb _ a _ ho' hd' hs', commitInto_acct s c a o ho hd hs, f1, f2, f3]
        · rw [commitInto_slot sb _ a k _ ho' hd' hs', f5]
          cases hk : AList.find? o.dirty k with
          | none => rfl
          | some v => simp only [flushObj_origin_of_dirty c a o k v hk, if_true]
      | true =>
        have ho' : AList.find? sb.objs a = none := by rw [hobjs]; exact commitInto_obj_dead s c a o ho hd hs
        have hl : (curStore sb).acct a = none := by rw [hcur]; exact (commitInto_suicided s c a o ho hd hs).1
        exact commitInto_at_absent sb _ a hd' ho' hl
    · exact commitInto_frame sb _ a (fun h => hd ((hkeys a).mp h))
  exact ⟨fun a => (main a).1, fun a k => (main a).2 k⟩

/-- **C04 (partial, positive) — a query precompile that nothing reverts does not change what the transaction commits.**
    `precompile s .none` is a precompile call without side effect (`OnRunStart` only: cache context, journal entry,
    `CommitCacheCtx`); if `Commit` follows without a revert in between, the committed store holds the same accounts and slots as if
    the call had not been there.  The side conditions are that it is the first precompile entry of the transaction, that the
    per-transaction limit is not exceeded, and that every dirtied address has a state object (every journal entry that dirties an
    address is appended next to a write of its object — `SDBTx.NInv`).  What the theorem does NOT say is the subject of the
    counterexamples of this property: a frame around the call that is reverted does not restore what the flush wrote. -/
theorem C04_unreverted_query_precompile_commits_the_same_partial (s : S) (hc : s.cache = none)
    (hlimit : s.cacheCount + 1 ≤ maxCacheCount)
    (hcached : ∀ a ∈ s.dirties.map (·.1), ∃ o, AList.find? s.objs a = some o) :
    (precompile s .none).2 = "ok" ∧ StoreExt (commit (precompile s .none).1).txStore (commit s).txStore := by
  -- the state handed to the first flush
  let s1 : S := { (append { s with cache := some s.txStore } (.precompile s.txStore)) with cacheCount := s.cacheCount + 1 }
  have hs1o : s1.objs = s.objs := rfl
  have hs1d : s1.dirties = s.dirties := rfl
  have hs1c : curStore s1 = curStore s := by simp only [curStore, s1, append, hc]; rfl
  have hcur : curStore s = s.txStore := by unfold curStore; rw [hc]; rfl
  have hA := commitInto_congr s s1 s.txStore hs1o hs1c hs1d
  have hpre : precompile s .none = ({ (commitInto s1 s.txStore).1 with cache := some (commitInto s1 s.txStore).2 }, "ok") := by
    unfold precompile
    simp only [hc, Option.getD_none]
    have : ¬ (s.cacheCount + 1 > maxCacheCount) := by omega
    simp only [this, if_false, commitCache, append, Entry.dirtied]
    rfl
  rw [hpre]
  refine ⟨rfl, ?_⟩
  rw [commit_txStore s hc, ← hA.1]
  unfold commit
  simp only
  apply second_flush_writes_nothing s1 s.txStore
  · intro a ha; rw [hs1o]; exact hcached a (by rw [← hs1d]; exact ha)
  · rfl
  · rfl
  · rfl

/-- the side conditions are met by a state in the middle of a transaction: one slot written, one balance changed -/
def demoFlush : S :=
  applyW (applyW { txStore := Store.setAcct {} 7 { nonce := 1, codeHash := 0, balance := 5 } } (.setState 7 1 9)) (.addBalance 7 3)

example : demoFlush.cache = none ∧ demoFlush.cacheCount + 1 ≤ maxCacheCount ∧
    (∀ a ∈ demoFlush.dirties.map (·.1), ∃ o, AList.find? demoFlush.objs a = some o) ∧
    (commit (precompile demoFlush .none).1).txStore.slot 7 1 = 9 := by
  refine ⟨by decide, by decide, ?_, by decide⟩
  have h : ∀ a ∈ demoFlush.dirties.map (·.1), (AList.find? demoFlush.objs a).isSome = true := by decide
  exact fun a ha => Option.isSome_iff_exists.mp (h a ha)

end Nibiru.SDB
