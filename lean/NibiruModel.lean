import NibiruModel.Prelude
import NibiruModel.Epochs
import NibiruModel.SdkDec
import NibiruModel.Inflation
import NibiruModel.Oracle
import NibiruModel.OracleVotes
import NibiruModel.TokenFactory
import NibiruModel.Sudo
