/-
  C09 — queries and simulations never influence block execution.   PARTIAL.

  Over NibiruModel.Concurrency (the pointer-sharing protocol of Keeper.Bank.StateDB, two threads, every interleaving):
    * proved: a query whose steps are `isolated` (EthCall / EstimateGas without a bank-moving precompile, plain gRPC reads) cannot
      change what the block commits, whatever the schedule;
    * proved false (closed witnesses, replayed on the real code at deterministic yield points): an eth_call that reaches a
      bank-moving precompile, and a Simulate of an Ethereum tx, change what the block commits under some schedule.
  What no model can show: the Go scheduler, the memory model and data races proper.
-/
import NibiruModel.Concurrency
import Generated.Facts

namespace Nibiru.Concurrency
open Nibiru

/-- what the block thread can observe, and an invariant: neither the pointer nor T's handle designates Q's StateDB, and Q works on
    its own StateDB only -/
structure Rel (w w' : W) : Prop where
  store : w.storeT = w'.storeT
  db : w.dbT = w'.dbT
  ptr : w.ptr = w'.ptr
  hT : w.hT = w'.hT
  ptrNotQ : w.ptr ≠ some .Q
  hTNotQ : w.hT ≠ some .Q
  hQNotT : w.hQ ≠ some .T

theorem isolated_preserves (w w' : W) (s : Step) (hs : s.isolated = true) (r : Rel w w') : Rel (exec .Q w s) w' := by
  obtain ⟨h1, h2, h3, h4, h5, h6, h7⟩ := r
  cases s <;> simp [Step.isolated] at hs
  · -- privateNew
    exact ⟨h1, h2, h3, h4, h5, h6, by simp [exec, setHandle, setDb]⟩
  · -- evmAdd
    rename_i a d
    simp only [exec, handle]
    cases hq : w.hQ with
    | none => simp [hq]; exact ⟨h1, h2, h3, h4, h5, h6, by simp [hq]⟩
    | some p =>
      cases p with
      | T => exact absurd hq h7
      | Q => simp only [hq, setDb]; exact ⟨h1, h2, h3, h4, h5, h6, by simp [hq]⟩
  · -- bankOther: nothing the block can see moves
    exact ⟨h1, h2, h3, h4, h5, h6, h7⟩
  · -- flush: the query's handle never designates the block's StateDB, so only the query's own branch is written
    simp only [exec, handle]
    cases hq : w.hQ with
    | none => simp [hq]; exact ⟨h1, h2, h3, h4, h5, h6, by simp [hq]⟩
    | some p =>
      cases p with
      | T => exact absurd hq h7
      | Q => simp only [hq, setStore]; exact ⟨h1, h2, h3, h4, h5, h6, by simp [hq]⟩

theorem block_step_congr (w w' : W) (s : Step) (r : Rel w w') : Rel (exec .T w s) (exec .T w' s) := by
  obtain ⟨h1, h2, h3, h4, h5, h6, h7⟩ := r
  have h5' : w'.ptr ≠ some .Q := h3 ▸ h5
  have h6' : w'.hT ≠ some .Q := h4 ▸ h6
  cases s with
  | useOrPublish =>
    simp only [exec]
    cases hp : w.ptr with
    | none =>
      have hp' : w'.ptr = none := by rw [← h3, hp]
      simp only [hp', setHandle, setDb, store]
      exact ⟨h1, by simp [h1], rfl, rfl, by simp, by simp, h7⟩
    | some p =>
      cases p with
      | Q => exact absurd hp h5
      | T =>
        have hp' : w'.ptr = some .T := by rw [← h3, hp]
        simp only [hp', setHandle]
        exact ⟨h1, h2, by simp [hp, hp'], rfl, by simp [hp], by simp, h7⟩
  | privateNew =>
    simp only [exec, setHandle, setDb, store]
    exact ⟨h1, by simp [h1], h3, rfl, h5, by simp, h7⟩
  | evmAdd a d =>
    simp only [exec, handle]
    cases hh : w.hT with
    | none =>
      have hh' : w'.hT = none := by rw [← h4, hh]
      simp only [hh']
      exact ⟨h1, h2, h3, by simp [hh, hh'], h5, by simp [hh], h7⟩
    | some p =>
      cases p with
      | Q => exact absurd hh h6
      | T =>
        have hh' : w'.hT = some .T := by rw [← h4, hh]
        simp only [hh', setDb, db]
        exact ⟨h1, by simp [h2], h3, by simp [hh, hh'], h5, by simp [hh], h7⟩
  | bankAdd a d =>
    simp only [exec, setStore, store]
    cases hp : w.ptr with
    | none =>
      have hp' : w'.ptr = none := by rw [← h3, hp]
      simp only [hp, hp']
      exact ⟨by simp [h1], h2, by simp [hp, hp'], h4, by simp [hp], h6, h7⟩
    | some p =>
      cases p with
      | Q => exact absurd hp h5
      | T =>
        have hp' : w'.ptr = some .T := by rw [← h3, hp]
        simp only [hp, hp', setDb, db, store]
        exact ⟨by simp [h1], by simp [h1, h2], by simp [hp, hp'], h4, by simp [hp], h6, h7⟩
  | bankOther a d => exact ⟨h1, h2, h3, h4, h5, h6, h7⟩
  | commit =>
    simp only [exec, handle]
    cases hh : w.hT with
    | none =>
      have hh' : w'.hT = none := by rw [← h4, hh]
      simp only [hh']
      exact ⟨h1, h2, h3, by simp [hh, hh'], h5, by simp [hh], h7⟩
    | some p =>
      cases p with
      | Q => exact absurd hh h6
      | T =>
        have hh' : w'.hT = some .T := by rw [← h4, hh]
        simp only [hh', setStore, db]
        exact ⟨by simp [h2], h2, h3, by simp [hh, hh'], h5, by simp [hh], h7⟩
  | flush =>
    simp only [exec, handle]
    cases hh : w.hT with
    | none =>
      have hh' : w'.hT = none := by rw [← h4, hh]
      simp only [hh']
      exact ⟨h1, h2, h3, by simp [hh, hh'], h5, by simp [hh], h7⟩
    | some p =>
      cases p with
      | Q => exact absurd hh h6
      | T =>
        have hh' : w'.hT = some .T := by rw [← h4, hh]
        simp only [hh', setStore, db]
        exact ⟨by simp [h2], h2, h3, by simp [hh, hh'], h5, by simp [hh], h7⟩
  | clear =>
    simp only [exec]
    exact ⟨h1, h2, rfl, h4, by simp, h6, h7⟩

theorem foldQ_preserves (qs : List Step) (hq : ∀ s ∈ qs, s.isolated = true) (w w' : W) (r : Rel w w') :
    Rel (qs.foldl (exec .Q) w) w' := by
  induction qs generalizing w with
  | nil => exact r
  | cons s t ih =>
    simp only [List.foldl_cons]
    exact ih (fun x hx => hq x (List.mem_cons_of_mem _ hx)) _ (isolated_preserves w w' s (hq s (List.mem_cons_self ..)) r)

theorem foldT_congr (ts : List Step) (w w' : W) (r : Rel w w') : Rel (ts.foldl (exec .T) w) (ts.foldl (exec .T) w') := by
  induction ts generalizing w w' with
  | nil => exact r
  | cons s t ih => simp only [List.foldl_cons]; exact ih _ _ (block_step_congr w w' s r)

theorem run_rel (ts qs : List Step) (hq : ∀ s ∈ qs, s.isolated = true) (sched : List Bool) (w w' : W) (r : Rel w w') :
    Rel (run w ts qs sched) (runAlone w' ts) := by
  induction sched generalizing w w' ts qs with
  | nil =>
    induction ts generalizing w w' qs with
    | nil => simp only [run, runAlone, List.foldl_nil]; exact foldQ_preserves qs hq w w' r
    | cons t ts iht =>
      cases qs with
      | nil => simp only [run, runAlone]; exact foldT_congr _ w w' r
      | cons q qs' =>
        simp only [run, runAlone, List.foldl_cons]
        exact iht (q :: qs') hq _ _ (block_step_congr w w' t r)
  | cons b bs ih =>
    cases ts with
    | nil => simp only [run, runAlone, List.foldl_nil]; exact foldQ_preserves qs hq w w' r
    | cons t ts' =>
      cases qs with
      | nil => simp only [run, runAlone]; exact foldT_congr _ w w' r
      | cons q qs' =>
        simp only [run]
        cases b with
        | true =>
          simp only [if_true, runAlone, List.foldl_cons]
          exact ih ts' (q :: qs') hq _ _ (block_step_congr w w' t r)
        | false =>
          simp only [Bool.false_eq_true, if_false]
          exact ih (t :: ts') qs' (fun x hx => hq x (List.mem_cons_of_mem _ hx)) _ _
            (isolated_preserves w w' q (hq q (List.mem_cons_self ..)) r)

/-- **C09 (isolated queries).** From a state in which no StateDB is published, for every block-thread program, every query whose
    steps are isolated (private StateDB, interpreter steps; plain reads) and EVERY interleaving of the two, the block commits
    exactly what it commits when it runs alone. -/
theorem C09_noninterference_partial (w : W) (h0 : w.ptr = none) (hT0 : w.hT = none) (hQ0 : w.hQ = none)
    (ts qs : List Step) (hq : ∀ s ∈ qs, s.isolated = true) (sched : List Bool) :
    (run w ts qs sched).storeT = (runAlone w ts).storeT :=
  (run_rel ts qs hq sched w w ⟨rfl, rfl, rfl, rfl, by simp [h0], by simp [hT0], by simp [hQ0]⟩).store

/-- **counterexample (eth_call reaching a bank-moving precompile).** Scheduled inside the block's transaction, the query's bank
    operation mirrors the balance it sees in ITS OWN branch into the block's StateDB, and the block commits it. -/
theorem C09_counterexample_ethcall_bank_precompile :
    (run genesis blockTx ethCallBank [true, true, false, false, false]).storeT 4 ≠ (runAlone genesis blockTx).storeT 4 := by
  simp [run, runAlone, blockTx, ethCallBank, simulateEthTx, genesis, exec, setHandle, setDb, setStore, store, db, handle, upd]

/-- **counterexample (Simulate of an Ethereum tx).** Scheduled inside the block's transaction, the simulation adopts the block's
    StateDB, commits it into the block's context and clears the pointer: the precompile's later bank operations are no longer
    mirrored and the final commit overwrites them. -/
theorem C09_counterexample_simulate_ethtx :
    (run genesis blockTx simulateEthTx [true, true, false, false, false, false]).storeT 5 ≠ (runAlone genesis blockTx).storeT 5 := by
  simp [run, runAlone, blockTx, ethCallBank, simulateEthTx, genesis, exec, setHandle, setDb, setStore, store, db, handle, upd]

/-- **counterexample (between transactions).** A simulation that starts while no transaction is running publishes ITS StateDB; a
    block transaction that starts before the simulation returns adopts it and commits into the query's branch: the block's own
    context never sees the transaction. -/
theorem C09_counterexample_simulation_published_first :
    (run genesis blockTx simulateEthTx [false, true, true, true, true, true]).storeT 1 ≠ (runAlone genesis blockTx).storeT 1 := by
  simp [run, runAlone, blockTx, ethCallBank, simulateEthTx, genesis, exec, setHandle, setDb, setStore, store, db, handle, upd]

/-- non-vacuity: an isolated query in the middle of the block's transaction -/
example : (run genesis blockTx [.privateNew, .evmAdd 2 50] [true, true, false, false]).storeT 2 = (runAlone genesis blockTx).storeT 2 :=
  congrFun (C09_noninterference_partial genesis rfl rfl rfl blockTx _ (by decide) _) 2

/-- **C09 (value-carrying eth_call into a precompile query).** The query moves value inside its private StateDB and the precompile
    entry flushes that StateDB into the query's own branch: under every interleaving the block commits what it commits alone. -/
theorem C09_value_carrying_precompile_query_isolated (sched : List Bool) :
    (run genesis blockTx ethCallValuePrecompileQuery sched).storeT = (runAlone genesis blockTx).storeT :=
  C09_noninterference_partial genesis rfl rfl rfl blockTx _ (by decide) sched

/-- **C09 (eth_call that runs `FunToken.sendToBank` of a coin-born mapping).** ERC20 burn in the private StateDB, the flush at the
    precompile entry, a bank operation on another denom: under every interleaving the block commits what it commits alone. -/
theorem C09_sendToBank_of_other_denom_query_isolated (sched : List Bool) :
    (run genesis blockTx ethCallSendToBankOther sched).storeT = (runAlone genesis blockTx).storeT :=
  C09_noninterference_partial genesis rfl rfl rfl blockTx _ (by decide) sched

/-! ### T1 (regenerated from x/evm/keeper/statedb.go and bank_extension.go on every run) -/

/-- every override of the `NibiruBankKeeper` mirrors a balance into the designated StateDB only under
    `findEtherBalanceChangeFromCoins(<the operation's coins>)`: bank operations on other denoms are not mirrored (`bankOther`) -/
theorem fact_C09_bank_sync_only_for_the_gas_token :
    Generated.bankSyncGuards =
      ["NibiruBankKeeper.BurnCoins: findEtherBalanceChangeFromCoins(coins)",
       "NibiruBankKeeper.DelegateCoins: findEtherBalanceChangeFromCoins(coins)",
       "NibiruBankKeeper.DelegateCoinsFromAccountToModule: findEtherBalanceChangeFromCoins(amt)",
       "NibiruBankKeeper.InputOutputCoins: findEtherBalanceChangeFromCoins(input.Coins)",
       "NibiruBankKeeper.InputOutputCoins: findEtherBalanceChangeFromCoins(output.Coins)",
       "NibiruBankKeeper.MintCoins: findEtherBalanceChangeFromCoins(coins)",
       "NibiruBankKeeper.SendCoins: findEtherBalanceChangeFromCoins(coins)",
       "NibiruBankKeeper.SendCoinsFromAccountToModule: findEtherBalanceChangeFromCoins(coins)",
       "NibiruBankKeeper.SendCoinsFromModuleToAccount: findEtherBalanceChangeFromCoins(coins)",
       "NibiruBankKeeper.SendCoinsFromModuleToModule: findEtherBalanceChangeFromCoins(coins)",
       "NibiruBankKeeper.UndelegateCoins: findEtherBalanceChangeFromCoins(coins)",
       "NibiruBankKeeper.UndelegateCoinsFromModuleToAccount: findEtherBalanceChangeFromCoins(amt)"] := by decide +kernel


/-- who publishes a StateDB in the process-wide pointer (`Keeper.NewStateDB`) and who builds a private one (`statedb.New`): the
    five state-machine entry points the programs of the model publish for — every one of them adopts a designated StateDB first and
    clears the pointer when it returns — and the query handlers, which never publish. A query handler or code running inside an
    execution (a precompile method, say) that called the publishing constructor would hand its StateDB to the next state-machine
    execution of the process (seeds C01-11, C06-15). -/
theorem fact_C09_who_publishes_a_statedb :
    Generated.publishingConstructorCallers =
      ["x/evm/keeper:Keeper.EthereumTx", "x/evm/keeper:Keeper.convertCoinToEvmBornCoin", "x/evm/keeper:Keeper.convertCoinToEvmBornERC20",
       "x/evm/keeper:Keeper.createFunTokenFromERC20", "x/evm/keeper:Keeper.deployERC20ForBankCoin"] ∧
    Generated.privateConstructorCallers =
      ["x/evm/keeper:Keeper.EstimateGasForEvmCallType", "x/evm/keeper:Keeper.EthCall", "x/evm/keeper:Keeper.NewStateDB",
       "x/evm/keeper:Keeper.TraceEthTxMsg", "x/evm/keeper:Keeper.TraceTx"] := by
  constructor <;> decide +kernel

/-- `Keeper.SetAccBalance` — the write-back of a StateDB into its context, reached from `Commit` and from the intermediate flush at
    every precompile entry, in DeliverTx and in queries alike — reads the balance through the wrapper and performs every coin
    movement through the embedded `BaseKeeper` (`bk := k.Bank.BaseKeeper`): no write-back is mirrored into the StateDB that
    `Keeper.Bank.StateDB` designates.  This is what makes `flush` and `commit` of the model steps without a `bankAdd`. -/
theorem fact_C09_writeback_bypasses_the_wrapper :
    Generated.setAccBalanceBankCalls =
      ["k.Bank.GetBalance", "bk.MintCoins", "bk.SendCoinsFromModuleToAccount", "bk.SendCoinsFromAccountToModule", "bk.BurnCoins"] ∧
    Generated.setAccBalanceKeeperBindings = ["bk := k.Bank.BaseKeeper"] := by decide

end Nibiru.Concurrency
