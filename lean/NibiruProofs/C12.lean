/-
  C12 — Oracle penalties and rewards follow actual voting behaviour.
  Theorems about NibiruModel.Oracle: Tally classification / miss counting, SlashAndResetMissCounters, rewardWinners,
  GatherRewardsForVotePeriod, AllocateRewards.
-/
import NibiruProofs.OracleMedian
import Generated.Facts
import NibiruProofs.DecLemmas
namespace Nibiru.Oracle
open Nibiru.Dec

/-! ### misses -/

def getMiss (perfs : List Perf) (a : String) : Int :=
  match findPerf perfs a with
  | some p => p.miss
  | none => 0

/-- a vote is classified as a miss exactly when it is a positive rate outside the reward band -/
theorem C12_classify_miss_iff (median spread : Int) (v : BVote) :
    classify median spread v = .miss ↔ (0 < v.rate ∧ ¬ (median - spread ≤ v.rate ∧ v.rate ≤ median + spread)) := by
  unfold classify
  by_cases h1 : median - spread ≤ v.rate <;> by_cases h2 : v.rate ≤ median + spread <;> by_cases h3 : 0 < v.rate <;>
    simp [h1, h2, h3] <;> omega

theorem findPerf_updPerf (perfs : List Perf) (a b : String) (f : Perf → Perf) (hf : ∀ p, (f p).addr = p.addr) :
    findPerf (updPerf perfs b f) a = (findPerf perfs a).map (fun p => if p.addr = b then f p else p) := by
  unfold findPerf updPerf
  rw [List.find?_map]
  have : ((fun x : Perf => decide (x.addr = a)) ∘ fun p => if p.addr = b then f p else p) = (fun x => decide (x.addr = a)) := by
    funext x
    simp only [Function.comp]
    split <;> simp [hf]
  rw [this]

theorem getMiss_updPerf_other (perfs : List Perf) (a b : String) (f : Perf → Perf) (hf : ∀ p, (f p).addr = p.addr)
    (hm : ∀ p, (f p).miss = p.miss) : getMiss (updPerf perfs b f) a = getMiss perfs a := by
  unfold getMiss
  rw [findPerf_updPerf _ _ _ _ hf]
  cases findPerf perfs a with
  | none => rfl
  | some p => by_cases h : p.addr = b <;> simp [h, hm]

theorem getMiss_updPerf_ne (perfs : List Perf) (a b : String) (f : Perf → Perf) (hf : ∀ p, (f p).addr = p.addr)
    (hab : a ≠ b) : getMiss (updPerf perfs b f) a = getMiss perfs a := by
  unfold getMiss
  rw [findPerf_updPerf _ _ _ _ hf]
  cases hfp : findPerf perfs a with
  | none => rfl
  | some p =>
    have hpa : p.addr = a := by
      have := List.find?_some hfp; simpa using this
    have : ¬ p.addr = b := by rw [hpa]; exact hab
    simp [this]

/-- **Misses come only from out-of-band positive votes.** Over one ballot, a validator's miss count changes only if that
    validator has, in this ballot, a positive rate outside the band; abstaining or not voting never does. It grows by at most 1
    per ballot (pair). -/
theorem tallyLoop_miss (median spread : Int) (vs : List BVote) (missed : List String) (perfs : List Perf) (a : String) :
    let r := getMiss (tallyLoop median spread vs missed perfs) a
    (r ≠ getMiss perfs a → ∃ v ∈ vs, v.voter = a ∧ classify median spread v = .miss) ∧
    getMiss perfs a ≤ r := by
  induction vs generalizing missed perfs with
  | nil => simp [tallyLoop]
  | cons v vs ih =>
    unfold tallyLoop
    cases hc : classify median spread v
    · -- win
      simp only
      have hg := getMiss_updPerf_other perfs a v.voter (fun p => { p with weight := p.weight + v.power, win := p.win + 1 }) (fun _ => rfl) (fun _ => rfl)
      obtain ⟨i1, i2⟩ := ih missed (updPerf perfs v.voter (fun p => { p with weight := p.weight + v.power, win := p.win + 1 }))
      rw [hg] at i1 i2
      exact ⟨fun h => by obtain ⟨w, hw, h1, h2⟩ := i1 h; exact ⟨w, List.mem_cons_of_mem _ hw, h1, h2⟩, i2⟩
    · -- miss
      simp only
      by_cases hm : missed.contains v.voter = true
      · simp only [hm, if_true]
        obtain ⟨i1, i2⟩ := ih missed perfs
        exact ⟨fun h => by obtain ⟨w, hw, h1, h2⟩ := i1 h; exact ⟨w, List.mem_cons_of_mem _ hw, h1, h2⟩, i2⟩
      · simp only [hm, Bool.false_eq_true, if_false]
        obtain ⟨i1, i2⟩ := ih (v.voter :: missed) (updPerf perfs v.voter (fun p => { p with miss := p.miss + 1 }))
        by_cases hav : a = v.voter
        · refine ⟨fun _ => ⟨v, List.mem_cons_self, hav.symm, hc⟩, ?_⟩
          have : getMiss perfs a ≤ getMiss (updPerf perfs v.voter (fun p => { p with miss := p.miss + 1 })) a := by
            unfold getMiss
            rw [findPerf_updPerf perfs a v.voter (fun p => { p with miss := p.miss + 1 }) (fun _ => rfl)]
            cases findPerf perfs a with
            | none => simp
            | some p => by_cases h : p.addr = v.voter <;> simp [h] <;> omega
          omega
        · have hg := getMiss_updPerf_ne perfs a v.voter (fun p => { p with miss := p.miss + 1 }) (fun _ => rfl) hav
          rw [hg] at i1 i2
          exact ⟨fun h => by obtain ⟨w, hw, h1, h2⟩ := i1 h; exact ⟨w, List.mem_cons_of_mem _ hw, h1, h2⟩, i2⟩
    · -- abstain
      simp only
      have hg := getMiss_updPerf_other perfs a v.voter (fun p => { p with abstain := p.abstain + 1 }) (fun _ => rfl) (fun _ => rfl)
      obtain ⟨i1, i2⟩ := ih missed (updPerf perfs v.voter (fun p => { p with abstain := p.abstain + 1 }))
      rw [hg] at i1 i2
      exact ⟨fun h => by obtain ⟨w, hw, h1, h2⟩ := i1 h; exact ⟨w, List.mem_cons_of_mem _ hw, h1, h2⟩, i2⟩

/-- **C12 misses, over the whole period end.** If a validator's miss count after tallying all surviving (whitelisted, quorum)
    ballots differs from before, then for some such pair the validator submitted a positive rate outside that pair's reward
    band (median ± max(band/2·median, σ)). Votes for pairs without quorum, abstentions and omissions never count. -/
theorem C12_miss_only_out_of_band_positive_vote_on_quorum_pair (band : Int) (height : Nat)
    (bs : List (String × List BVote)) (perfs : List Perf) (rates : List Rate) (a : String) :
    getMiss (tallyAll band height bs perfs rates).1 a ≠ getMiss perfs a →
    ∃ pb ∈ bs, ∃ v ∈ pb.2, v.voter = a ∧ 0 < v.rate ∧
      ¬ (weightedMedian pb.2 - rewardSpread (sortBallot pb.2) band (weightedMedian pb.2) ≤ v.rate ∧
         v.rate ≤ weightedMedian pb.2 + rewardSpread (sortBallot pb.2) band (weightedMedian pb.2)) := by
  induction bs generalizing perfs rates with
  | nil => intro h; simp [tallyAll] at h
  | cons x xs ih =>
    obtain ⟨pair, b⟩ := x
    intro h
    simp only [tallyAll] at h
    by_cases h1 : getMiss (tally b band perfs).2 a = getMiss perfs a
    · rw [← h1] at h
      obtain ⟨pb, hpb, rest⟩ := ih _ _ h
      exact ⟨pb, List.mem_cons_of_mem _ hpb, rest⟩
    · have := (tallyLoop_miss (weightedMedianSorted (sortBallot b)) (rewardSpread (sortBallot b) band (weightedMedianSorted (sortBallot b)))
        (sortBallot b) [] perfs a).1 h1
      obtain ⟨v, hv, hva, hvc⟩ := this
      have hc := (C12_classify_miss_iff _ _ v).mp hvc
      exact ⟨(pair, b), List.mem_cons_self, v, (sortBallot_perm b).subset hv, hva, hc.1, hc.2⟩

/-- the persistent counters grow exactly by the period's miss count -/
theorem C12_counter_unchanged_without_miss (mc : List (String × Nat)) (perfs : List Perf) (a : String)
    (h : ∀ p ∈ perfs, p.addr = a → p.miss ≤ 0) :
    (incMiss mc perfs).find? (fun x => x.1 = a) = mc.find? (fun x => x.1 = a) := by
  unfold incMiss
  induction perfs generalizing mc with
  | nil => rfl
  | cons p ps ih =>
    simp only [List.foldl_cons]
    rw [ih _ (fun q hq => h q (List.mem_cons_of_mem _ hq))]
    by_cases hm : p.miss > 0
    · simp only [hm, if_true]
      have hpa : p.addr ≠ a := fun e => by have := h p List.mem_cons_self e; omega
      -- addMiss for another key does not change the lookup of `a`
      clear ih h hm
      induction mc with
      | nil => simp [addMiss, List.find?, hpa]
      | cons y ys ih2 =>
        obtain ⟨k, n⟩ := y
        unfold addMiss
        split
        · simp [List.find?, hpa]
        · split
          · rename_i e; simp [List.find?]
            by_cases hk : k = a
            · exact absurd (e ▸ hk) hpa
            · simp [hk]
          · by_cases hk : k = a <;> simp [List.find?, hk, ih2]
    · simp [hm]

/-! ### slashing -/

/-- **Slash rule.** Exactly the validators with a miss counter whose valid-vote rate `(ppw − misses)/ppw` is below
    MinValidPerWindow and that are bonded and not jailed are slashed and jailed; every counter is deleted (the model returns
    the empty counter store). -/
theorem C12_slash_exactly (sp : SlashParams) (mc : List (String × Nat)) (vals : List Validator) (a : String) :
    a ∈ slashSet sp mc vals ↔
      ∃ n, (a, n) ∈ mc ∧ validVoteRate (periodsPerWindow sp) n < sp.minValid ∧
        ∃ v, vals.find? (·.addr = a) = some v ∧ v.bonded = true ∧ v.jailed = false := by
  unfold slashSet
  simp only [List.mem_map, List.mem_filter, Bool.and_eq_true, decide_eq_true_eq]
  constructor
  · rintro ⟨⟨k, n⟩, ⟨hmem, hrate, hval⟩, hk⟩
    simp only at hk; subst hk
    refine ⟨n, hmem, hrate, ?_⟩
    simp only at hval
    split at hval
    · rename_i v hv; exact ⟨v, hv, by simpa using hval⟩
    · cases hval
  · rintro ⟨n, hmem, hrate, v, hv, hb, hj⟩
    exact ⟨(a, n), ⟨hmem, hrate, by simp [hv, hb, hj]⟩, rfl⟩

/-! ### rewards -/

theorem portion_eq (pot w total : Int) (hp : 0 ≤ pot) (hw : 0 ≤ w) (ht : 0 < total) :
    portion pot w total = (pot * ((w * prec) / total)) / prec := by
  unfold portion
  rw [mul_ofInt]
  unfold quoInt ofInt truncateInt
  have h1 : (0 : Int) ≤ w * prec := Int.mul_nonneg hw (by unfold prec; omega)
  rw [Int.tdiv_eq_ediv_of_nonneg h1]
  rw [Int.tdiv_eq_ediv_of_nonneg (Int.mul_nonneg hp (Int.ediv_nonneg h1 (by omega)))]

/-- **Pro rata.** A larger reward weight never gets a smaller portion. -/
theorem C12_reward_pro_rata (pot w₁ w₂ total : Int) (hp : 0 ≤ pot) (h1 : 0 ≤ w₁) (h12 : w₁ ≤ w₂) (ht : 0 < total) :
    portion pot w₁ total ≤ portion pot w₂ total := by
  rw [portion_eq _ _ _ hp h1 ht, portion_eq _ _ _ hp (by omega) ht]
  apply Int.ediv_le_ediv (by unfold prec; omega)
  apply Int.mul_le_mul_of_nonneg_left _ hp
  apply Int.ediv_le_ediv ht
  exact Int.mul_le_mul_of_nonneg_right h12 (by unfold prec; omega)

def sumW (ws : List Int) : Int := sumInts ws

theorem ratios_le (ws : List Int) (total : Int) (ht : 0 < total) (hw : ∀ w ∈ ws, 0 ≤ w) :
    sumInts (ws.map (fun w => (w * prec) / total)) * total ≤ sumInts ws * prec := by
  induction ws with
  | nil => simp [sumInts]
  | cons w ws ih =>
    simp only [List.map_cons, sumInts]
    have ih' := ih (fun x hx => hw x (List.mem_cons_of_mem _ hx))
    have : (w * prec) / total * total ≤ w * prec := Int.ediv_mul_le _ (by omega)
    rw [Int.add_mul, Int.add_mul]
    omega

theorem portions_le (pot : Int) (rs : List Int) (hp : 0 ≤ pot) (hr : ∀ r ∈ rs, 0 ≤ r) :
    sumInts (rs.map (fun r => (pot * r) / prec)) ≤ (pot * sumInts rs) / prec := by
  induction rs with
  | nil => simp [sumInts]
  | cons r rs ih =>
    simp only [List.map_cons, sumInts]
    have ih' := ih (fun x hx => hr x (List.mem_cons_of_mem _ hx))
    rw [Int.mul_add]
    generalize pot * r = x at *
    generalize pot * sumInts rs = y at *
    unfold prec at *
    omega

/-- **The sum paid never exceeds the pot.** -/
theorem C12_sum_paid_le_pot (pot : Int) (ws : List Int) (hp : 0 ≤ pot) (hw : ∀ w ∈ ws, 0 ≤ w) (ht : 0 < sumInts ws) :
    sumInts (ws.map (fun w => portion pot w (sumInts ws))) ≤ pot := by
  have e : ws.map (fun w => portion pot w (sumInts ws)) = (ws.map (fun w => (w * prec) / sumInts ws)).map (fun r => (pot * r) / prec) := by
    rw [List.map_map]
    apply List.map_congr_left
    intro w hwm
    exact portion_eq pot w _ hp (hw w hwm) ht
  rw [e]
  have hr : ∀ r ∈ ws.map (fun w => (w * prec) / sumInts ws), 0 ≤ r := by
    intro r hr
    obtain ⟨w, hwm, e⟩ := List.mem_map.mp hr
    rw [← e]; exact Int.ediv_nonneg (Int.mul_nonneg (hw w hwm) (by unfold prec; omega)) (by omega)
  have h1 := portions_le pot _ hp hr
  have h2 := ratios_le ws (sumInts ws) ht hw
  -- Σ ratios ≤ prec
  have h3 : sumInts (ws.map (fun w => (w * prec) / sumInts ws)) ≤ prec := by
    have : sumInts (ws.map (fun w => (w * prec) / sumInts ws)) * sumInts ws ≤ prec * sumInts ws := by
      rw [Int.mul_comm prec]; exact h2
    exact Int.le_of_mul_le_mul_right this ht
  have h4 : pot * sumInts (ws.map (fun w => (w * prec) / sumInts ws)) ≤ pot * prec := Int.mul_le_mul_of_nonneg_left h3 hp
  have h5 : (pot * sumInts (ws.map (fun w => (w * prec) / sumInts ws))) / prec ≤ (pot * prec) / prec :=
    Int.ediv_le_ediv (by unfold prec; omega) h4
  rw [Int.mul_ediv_cancel _ (by unfold prec; omega)] at h5
  omega

/-! ### solvency of the oracle module account -/

/-- what remains owed to future periods -/
def owed (rw : List Reward) : Int := sumInts (rw.map (fun r => r.amount * r.periods))

def Solvent (s : State) : Prop := owed s.rewards ≤ s.balance ∧ ∀ r ∈ s.rewards, 0 ≤ r.amount ∧ 0 < r.periods

theorem owed_append (a b : List Reward) : owed (a ++ b) = owed a + owed b := by
  unfold owed; rw [List.map_append, sumInts_append]

/-- `AllocateRewards` keeps the account solvent: it receives `total` and owes `⌊total/periods⌋ · periods ≤ total` more -/
theorem C12_allocate_keeps_solvent (s : State) (id : Nat) (total : Int) (periods : Nat) (h : Solvent s)
    (ht : 0 ≤ total) (hp : 0 < periods) : Solvent (allocateRewards s id total periods) := by
  obtain ⟨h1, h2⟩ := h
  unfold allocateRewards Solvent
  simp only
  rw [owed_append]
  have hq : Int.tdiv total periods = total / (periods : Int) := Int.tdiv_eq_ediv_of_nonneg ht
  have hle : total / (periods : Int) * (periods : Int) ≤ total := Int.ediv_mul_le _ (by omega)
  constructor
  · have : owed [{ id := id, periods := periods, amount := Int.tdiv total periods }] = total / (periods : Int) * (periods : Int) := by
      simp [owed, sumInts, hq]
    rw [this]; omega
  · intro r hr
    rcases List.mem_append.mp hr with e | e
    · exact h2 r e
    · simp at e; subst e; simp only; rw [hq]
      exact ⟨Int.ediv_nonneg ht (by omega), hp⟩

theorem gather_cons (r : Reward) (rs : List Reward) :
    gather (r :: rs) = (r.amount + (gather rs).1,
      (if r.periods - 1 ≠ 0 then [{ r with periods := r.periods - 1 }] else []) ++ (gather rs).2) := by
  simp only [gather, List.map_cons, sumInts, List.filter_cons]
  by_cases h : r.periods - 1 ≠ 0 <;> simp [h]

theorem gather_owed (rw : List Reward) (h : ∀ r ∈ rw, 0 ≤ r.amount ∧ 0 < r.periods) :
    owed (gather rw).2 + (gather rw).1 = owed rw ∧ 0 ≤ (gather rw).1 ∧
    ∀ r ∈ (gather rw).2, 0 ≤ r.amount ∧ 0 < r.periods := by
  induction rw with
  | nil => simp [gather, owed, sumInts]
  | cons r rs ih =>
    obtain ⟨i1, i2, i3⟩ := ih (fun x hx => h x (List.mem_cons_of_mem _ hx))
    obtain ⟨ha, hp⟩ := h r List.mem_cons_self
    rw [gather_cons]
    simp only
    rw [owed_append]
    have hcons : owed (r :: rs) = r.amount * (r.periods : Int) + owed rs := by simp [owed, sumInts]
    rw [hcons]
    by_cases h1 : r.periods - 1 ≠ 0
    · rw [if_pos h1]
      have e : owed [{ r with periods := r.periods - 1 }] = r.amount * (r.periods : Int) - r.amount := by
        simp only [owed, List.map_cons, List.map_nil, sumInts]
        have : ((r.periods - 1 : Nat) : Int) = (r.periods : Int) - 1 := by omega
        rw [this, Int.mul_sub, Int.mul_one]; omega
      rw [e]
      refine ⟨by omega, by omega, ?_⟩
      intro x hx
      rcases List.mem_append.mp hx with e | e
      · simp at e; subst e; exact ⟨ha, by show 0 < r.periods - 1; omega⟩
      · exact i3 x e
    · rw [if_neg h1]
      have h1' : r.periods = 1 := by omega
      have e : owed ([] : List Reward) = 0 := by simp [owed, sumInts]
      rw [e, h1']
      refine ⟨by simp; omega, by omega, ?_⟩
      intro x hx
      exact i3 x (by simpa using hx)

/-- **The oracle module account always covers what remains owed**: paying a period out of a solvent account leaves it solvent
    (the pot leaves the allocations; at most the pot leaves the account — `C12_sum_paid_le_pot`). -/
theorem C12_reward_keeps_solvent (s : State) (perfs : List Perf) (h : Solvent s) (hw : ∀ p ∈ perfs, 0 ≤ p.weight) :
    let r := rewardWinners perfs s.rewards s.balance
    owed r.2.1 ≤ r.2.2 ∧ (∀ x ∈ r.2.1, 0 ≤ x.amount ∧ 0 < x.periods) := by
  obtain ⟨h1, h2⟩ := h
  unfold rewardWinners
  by_cases ht : sumInts (perfs.map (·.weight)) = 0
  · simp only [ht, if_true]; exact ⟨h1, h2⟩
  · simp only [ht, if_false]
    obtain ⟨g1, g2, g3⟩ := gather_owed s.rewards h2
    have hpos : 0 < sumInts (perfs.map (·.weight)) := by
      have : 0 ≤ sumInts (perfs.map (·.weight)) := by
        clear ht g1 g2 g3 h1 h2
        induction perfs with
        | nil => simp [sumInts]
        | cons p ps ih =>
          simp only [List.map_cons, sumInts]
          have := hw p List.mem_cons_self
          have := ih (fun x hx => hw x (List.mem_cons_of_mem _ hx))
          omega
      omega
    have hsum := C12_sum_paid_le_pot (gather s.rewards).1 (perfs.map (·.weight)) g2
      (by intro w hwm; obtain ⟨p, hp, e⟩ := List.mem_map.mp hwm; rw [← e]; exact hw p hp) hpos
    rw [List.map_map] at hsum
    have hpay : (perfs.map (fun p => (p.addr, portion (gather s.rewards).1 p.weight (sumInts (perfs.map (·.weight)))))).map (·.2)
        = perfs.map ((fun w => portion (gather s.rewards).1 w (sumInts (perfs.map (·.weight)))) ∘ (·.weight)) := by
      rw [List.map_map]; rfl
    simp only [hpay]
    refine ⟨?_, g3⟩
    split <;> omega

/-! ### T1 (regenerated from x/oracle/abci.go and x/oracle/types/core.go on every run) -/

/-- slashing and the miss-counter reset run exactly at the last block of a slash window: the end blocker calls `UpdateExchangeRates` under `IsPeriodLastBlock(VotePeriod)` and
    `SlashAndResetMissCounters` under `IsPeriodLastBlock(SlashWindow)`, nothing else, and a period's last block is the one whose
    height + 1 is a multiple of the period (the correspondence run calls the two keeper functions directly) -/
theorem fact_C12_end_blocker_gates :
    Generated.oracleEndBlockerCalls =
      [("types.IsPeriodLastBlock(ctx, params.VotePeriod)", "UpdateExchangeRates"),
       ("types.IsPeriodLastBlock(ctx, params.SlashWindow)", "SlashAndResetMissCounters")] ∧
    Generated.oraclePeriodLastBlockExpr = "((uint64)(ctx.BlockHeight())+1)%blocksPerPeriod == 0" := by decide

/-- **A period's pot leaves the schedule exactly when it is paid.** In a vote period in which no validator earned reward weight
    nothing is paid and the reward schedule — and the module balance — stay as they were: the period's pot is still owed (seed
    C12-15 had the schedule advance regardless). -/
theorem C12_period_without_winners_consumes_nothing (perfs : List Perf) (rw : List Reward) (bal : Int)
    (h : sumInts (perfs.map (·.weight)) = 0) : rewardWinners perfs rw bal = ([], rw, bal) := by
  unfold rewardWinners
  simp [h]

/-- … and with winners the schedule is the gathered one: every allocation has lost exactly the period that was paid -/
theorem C12_period_with_winners_advances_the_schedule (perfs : List Perf) (rw : List Reward) (bal : Int)
    (h : sumInts (perfs.map (·.weight)) ≠ 0) : (rewardWinners perfs rw bal).2.1 = (gather rw).2 := by
  unfold rewardWinners
  simp [h]

end Nibiru.Oracle
