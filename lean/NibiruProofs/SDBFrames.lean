/-
  SDBFrames — sequences of writes and reverted call frames: Nibiru's journaled StateDB stays related to the go-ethereum reference.

  A transaction body is modelled as a list of items: a write call, or a call frame that fails — Snapshot, any writes, RevertToSnapshot.
  From related states with the touched accounts cached (the interpreter reads an account before it writes it), the whole list runs
  on both sides without an invalid snapshot id and ends in related states.  Induction over the list; each step restores the
  hypotheses of the next (cached accounts, well-formed revision ids on both sides).
-/
import NibiruProofs.C03

namespace Nibiru.SDB
open Nibiru

inductive Item where
  | w (op : WOp)
  | failedFrame (ws : List WOp)

def Item.accts : Item → List (Option Nat)
  | .w op => [op.acct]
  | .failedFrame ws => ws.map (·.acct)

def runS (s : S) : List Item → Option S
  | [] => some s
  | .w op :: t => runS (applyW s op) t
  | .failedFrame ws :: t =>
    match revertToSnapshot (applyAll (snapshot s).1 ws) (snapshot s).2 with
    | some s3 => runS s3 t
    | none => none

def runG (g : GethSpec.G) : List Item → GethSpec.G
  | [] => g
  | .w op :: t => runG (GethSpec.apply g (toSpec op)).1 t
  | .failedFrame ws :: t =>
    runG (GethSpec.apply (GethSpec.runOps (GethSpec.apply g .snapshot).1 (ws.map toSpec)) (.revert g.next)).1 t

def RevOK (s : S) : Prop := ∀ r ∈ s.revisions, r.1 < s.nextRev

/-! ### what a reverted frame leaves behind, beyond the observables -/

theorem revertEntry_revs (s : S) (e : Entry) : (revertEntry s e).nextRev = s.nextRev := by
  have key : ∀ (a : Nat) (f : Obj → Obj),
      (match getObj s a with | (s1, some o) => setObj s1 a (f o) | (s1, none) => s1).nextRev = s.nextRev := by
    intro a f
    have h := (getObj_revisions s a).2.1
    rcases hg : getObj s a with ⟨s1, _ | o⟩
    · rw [hg] at h; exact h
    · rw [hg] at h; exact h
  cases e with
  | balance a p => exact key a (fun o => { o with balance := p })
  | nonce a p => exact key a (fun o => { o with nonce := p })
  | code a p => exact key a (fun o => { o with codeHash := p, dirtyCode := true })
  | storage a k p => exact key a (fun o => { o with dirty := AList.set o.dirty k p })
  | suicide a p pb => exact key a (fun o => { o with suicided := p, balance := pb })
  | refund p => rfl
  | addLog => rfl
  | alAddr a => rfl
  | alSlot a k => rfl
  | createObject a => rfl
  | resetObject a p => rfl
  | precompile c => rfl

theorem revertEntries_revs (es : List Entry) (s : S) : (revertEntries s es).nextRev = s.nextRev := by
  induction es generalizing s with
  | nil => rfl
  | cons e t ih => simp only [revertEntries, List.foldl_cons]; exact (ih (revertEntry s e)).trans (revertEntry_revs s e)

/-- after `Snapshot … RevertToSnapshot` the revision ids are well-formed again -/
theorem revOK_after_frame (s s3 : S) (hrev : RevOK s) (ws : List WOp)
    (h3 : revertToSnapshot (applyAll (snapshot s).1 ws) (snapshot s).2 = some s3) : RevOK s3 := by
  have hid : (snapshot s).2 = s.nextRev := rfl
  obtain ⟨hr, hn⟩ := applyAll_revisions (snapshot s).1 ws
  have hr' : (applyAll (snapshot s).1 ws).revisions = s.revisions ++ [(s.nextRev, s.journal.length)] := hr
  have hn' : (applyAll (snapshot s).1 ws).nextRev = s.nextRev + 1 := hn
  have hfind := find_ge_appended s.revisions s.nextRev s.journal.length hrev
  unfold revertToSnapshot at h3
  rw [hid, hr', hfind] at h3
  simp at h3
  have e1 : s3.revisions = List.filter (fun r => decide (r.fst < s.nextRev)) s.revisions := by rw [← h3]
  have e2 : s3.nextRev = (revertTo (applyAll (snapshot s).1 ws) s.journal.length).nextRev := by rw [← h3]
  have e3 : (revertTo (applyAll (snapshot s).1 ws) s.journal.length).nextRev = s.nextRev + 1 := by
    show (revertEntries (applyAll (snapshot s).1 ws) _).nextRev = _
    rw [revertEntries_revs, hn']
  intro r hr3
  rw [e1] at hr3
  have := (List.mem_filter.mp hr3).2
  rw [e2, e3]
  have : r.1 < s.nextRev := by simpa using this
  omega

theorem cached_of_eqv {A : List Nat} {s3 s : S} (he : Eqv A s3 s) : Cached A s3 := by
  intro a ha
  obtain ⟨o3, _, f3, _, _⟩ := he.objs a ha
  exact ⟨o3, f3⟩

/-! ### the reference side keeps its snapshot ids well-formed -/

theorem idsBelow_plain (g : GethSpec.G) (o : GethSpec.Op) (h : o.plain = true) (hg : GethSpec.IdsBelow g) :
    GethSpec.IdsBelow (GethSpec.apply g o).1 := by
  obtain ⟨_, hs, hn⟩ := GethSpec.apply_plain_frame g o h
  intro r hr
  rw [hs] at hr
  rw [hn]
  exact hg r hr

theorem idsBelow_after_frame (g : GethSpec.G) (hg : GethSpec.IdsBelow g) (ops : List GethSpec.Op) (h : ∀ o ∈ ops, o.plain = true) :
    GethSpec.IdsBelow (GethSpec.apply (GethSpec.runOps (GethSpec.apply g .snapshot).1 ops) (.revert g.next)).1 := by
  obtain ⟨_, _, _, hs⟩ := GethSpec.C03_spec_revert_restores g hg ops h
  have hn : (GethSpec.apply (GethSpec.runOps (GethSpec.apply g .snapshot).1 ops) (.revert g.next)).1.next = g.next + 1 := by
    have h1 : (GethSpec.runOps (GethSpec.apply g .snapshot).1 ops).next = g.next + 1 :=
      (GethSpec.runOps_plain_frame (GethSpec.apply g .snapshot).1 ops h).2.2
    simp only [GethSpec.apply]
    split <;> exact h1
  intro r hr
  rw [hs] at hr
  rw [hn]
  have := hg r hr
  omega

/-! ### the theorem -/

/-- **C03 (partial) — transaction bodies made of writes and failed call frames.** From related states, with every touched account
    cached and well-formed revision ids on both sides: any list of write calls and failed frames (Snapshot, any writes,
    RevertToSnapshot) runs to the end on Nibiru's journaled StateDB — no invalid snapshot id — and ends related to the reference
    run of the same list: every account read, `GetState`, `GetCommittedState`, refund counter, log count and access list agree. -/
theorem C03_writes_and_failed_frames_simulate_reference_partial {A : List Nat} (items : List Item) (s : S) (g : GethSpec.G)
    (h : Sim s g) (hc : Cached A s) (hrev : RevOK s) (hg : GethSpec.IdsBelow g)
    (hw : ∀ it ∈ items, ∀ a, some a ∈ it.accts → a ∈ A) :
    ∃ s', runS s items = some s' ∧ Sim s' (runG g items) := by
  induction items generalizing s g with
  | nil => exact ⟨s, rfl, h⟩
  | cons it t ih =>
    have hwt : ∀ it' ∈ t, ∀ a, some a ∈ it'.accts → a ∈ A := fun x hx => hw x (List.mem_cons_of_mem _ hx)
    cases it with
    | w op =>
      have hop : ∀ a, op.acct = some a → a ∈ A := fun a e => hw (.w op) (List.mem_cons_self ..) a (by simp [Item.accts, e])
      obtain ⟨_, _, _, hc1, _⟩ := undoW s hc op hop
      have hrev1 : RevOK (applyW s op) := by
        obtain ⟨r1, r2⟩ := applyW_revisions s op
        intro r hr; rw [r1] at hr; rw [r2]; exact hrev r hr
      exact ih (applyW s op) (GethSpec.apply g (toSpec op)).1 (sim_applyW s g h op) hc1 hrev1
        (idsBelow_plain g (toSpec op) (toSpec_plain op) hg) hwt
    | failedFrame ws =>
      have hws : ∀ w ∈ ws, ∀ a, w.acct = some a → a ∈ A := by
        intro w hwm a e
        exact hw (.failedFrame ws) (List.mem_cons_self ..) a (by simp only [Item.accts, List.mem_map]; exact ⟨w, hwm, e⟩)
      obtain ⟨s3, h3, _, hs3⟩ := C03_reverted_frame_simulates_reference_partial s g h hc hrev hg ws hws
      obtain ⟨s3', h3', he⟩ := snapshot_revert_restores s hc hrev ws hws
      have e : s3' = s3 := by rw [h3] at h3'; exact (Option.some.inj h3').symm
      subst e
      have hp : ∀ o ∈ ws.map toSpec, o.plain = true := by
        intro o ho
        obtain ⟨w, _, e⟩ := List.mem_map.mp ho
        rw [← e]; exact toSpec_plain w
      obtain ⟨s', hr, hsim⟩ := ih s3' _ hs3 (cached_of_eqv he) (revOK_after_frame s s3' hrev ws h3)
        (idsBelow_after_frame g hg (ws.map toSpec) hp) hwt
      refine ⟨s', ?_, hsim⟩
      simp only [runS, h3]
      exact hr

/-! ### non-vacuity -/

def demoStore : Store := { accts := [(1, { nonce := 1, codeHash := 7, balance := 5 })], storage := [((1, 0), 9)] }
def demoBase : GethSpec.Base := { accts := [(1, (1, 7, 5000000000000))], storage := [((1, 0), 9)] }

theorem demo_sim : Sim { txStore := demoStore } { base := demoBase } := by
  apply sim_init
  · intro a ha k
    by_cases h1 : a = 1
    · subst h1; simp [demoStore, Store.acct, AList.find?] at ha
    · have : ((1, 0) : Nat × Nat) ≠ (a, k) := fun e => h1 (congrArg Prod.fst e).symm
      simp [demoStore, Store.slot, AList.find?, this]
  · intro a
    by_cases h1 : a = 1
    · subst h1; simp [demoStore, demoBase, Store.acct, AList.find?, weiPerUnibi]
    · have : (1 : Nat) ≠ a := fun e => h1 e.symm
      simp [demoStore, demoBase, Store.acct, AList.find?, this]
  · intro a k
    rfl

/-- the hypotheses of the theorem are met by a concrete body over a store with one contract: the account is read (cached), a slot
    is written, a frame adds balance / rewrites the slot / self-destructs and fails, then the nonce is set — the run completes and
    ends related to the reference -/
example : ∃ s', runS (applyW { txStore := demoStore } (.addBalance 1 0))
      [.w (.setState 1 0 5), .failedFrame [.addBalance 1 3000000000000, .setState 1 0 9, .suicide 1], .w (.setNonce 1 4)] = some s' ∧
    Sim s' (runG (GethSpec.apply { base := demoBase } (.addBalance 1 0)).1
      [.w (.setState 1 0 5), .failedFrame [.addBalance 1 3000000000000, .setState 1 0 9, .suicide 1], .w (.setNonce 1 4)]) := by
  apply C03_writes_and_failed_frames_simulate_reference_partial (A := [1]) _ _ _ (sim_applyW _ _ demo_sim (.addBalance 1 0))
  · intro a ha
    simp only [List.mem_singleton] at ha
    subst ha
    exact ⟨{ balance := 5000000000000, nonce := 1, codeHash := 7 }, by decide⟩
  · intro r hr; cases hr
  · intro r hr; cases hr
  · intro it hit a ha
    simp only [List.mem_cons, List.mem_nil_iff, or_false] at hit
    rcases hit with rfl | rfl | rfl <;> simp [Item.accts, WOp.acct] at ha <;> simp [ha]

end Nibiru.SDB
