/-
  Mutual-induction lemmas over the message tree (shared by C02 and C17).
-/
import NibiruModel.MsgTree
namespace Nibiru.MsgTree

/-- `E a` = the address `a` is "Ethereum-only": it is the address recovered from an Ethereum signature; it cannot sign a Cosmos
    tx (eth_secp256k1 keys are refused), is not a contract and not a module account. -/
abbrev EthOnly := Nat → Bool

/-- no grant has an Ethereum-only granter (a MsgGrant needs the granter's Cosmos signature or an authorisation chain ending in one) -/
def Inv (E : EthOnly) (s : State) : Prop := ∀ g ∈ s.grants, E g.1 = false

mutual
/-- well-formedness of a tree w.r.t. `E`: the sender of every MsgEthereumTx is Ethereum-only; contracts and the gov account are not -/
def WF (E : EthOnly) : Msg → Prop
  | .eth s => E s = true
  | .exec _ inner => WFs E inner
  | .proposal _ inner => WFs E inner
  | .wasm _ c emitted => E c = false ∧ WFs E emitted
  | _ => True
def WFs (E : EthOnly) : List Msg → Prop
  | [] => True
  | m :: ms => WF E m ∧ WFs E ms
end

theorem hasGrant_inv (E : EthOnly) (s : State) (g e : Nat) (k : Kind) (hinv : Inv E s) (h : hasGrant s g e k = true) : E g = false := by
  unfold hasGrant at h
  obtain ⟨x, hx, hc⟩ := List.any_eq_true.mp h
  simp only [Bool.and_eq_true, decide_eq_true_eq] at hc
  have := hinv x hx
  rw [hc.1.1] at this; exact this

mutual
/-- running a message whose signer is not Ethereum-only never reaches the EthereumTx handler, and keeps the grant invariant -/
theorem run_noEth (E : EthOnly) (m : Msg) (s s' : State) (hinv : Inv E s) (hsig : E m.signer = false) (hwf : WF E m)
    (h : run s m = some s') : s'.ethRuns = s.ethRuns ∧ Inv E s' := by
  cases m with
  | eth sender =>
    simp only [WF] at hwf; simp only [Msg.signer] at hsig; rw [hwf] at hsig; cases hsig
  | comm o r => simp only [run] at h; injection h with e; subst e; exact ⟨rfl, hinv⟩
  | send a => simp only [run] at h; injection h with e; subst e; exact ⟨rfl, hinv⟩
  | grant g e k =>
    simp only [run] at h
    split at h
    · cases h
    · injection h with e'; subst e'
      refine ⟨rfl, ?_⟩
      intro x hx
      rcases List.mem_cons.mp hx with e1 | e1
      · subst e1; exact hsig
      · exact hinv x e1
  | exec grantee inner =>
    simp only [run] at h
    simp only [WF] at hwf
    exact dispatch_noEth E inner s s' grantee hinv hsig hwf h
  | proposal p inner =>
    simp only [run] at h
    split at h
    · injection h with e; subst e; exact ⟨rfl, hinv⟩
    · cases h
  | wasm a c emitted =>
    simp only [run] at h
    simp only [WF] at hwf
    exact wasm_noEth E emitted s s' c hinv hwf.1 hwf.2 h
theorem dispatch_noEth (E : EthOnly) (ms : List Msg) (s s' : State) (grantee : Nat) (hinv : Inv E s) (hg : E grantee = false)
    (hwf : WFs E ms) (h : dispatch s grantee ms = some s') : s'.ethRuns = s.ethRuns ∧ Inv E s' := by
  cases ms with
  | nil => simp only [dispatch] at h; injection h with e; subst e; exact ⟨rfl, hinv⟩
  | cons m rest =>
    simp only [WFs] at hwf
    simp only [dispatch] at h
    split at h
    · rename_i hauth
      have hsig : E m.signer = false := by
        simp only [Bool.or_eq_true, decide_eq_true_eq] at hauth
        rcases hauth with e | e
        · rw [e]; exact hg
        · exact hasGrant_inv E s _ _ _ hinv e
      cases hr : run s m with
      | none => simp [hr] at h
      | some s1 =>
        simp only [hr] at h
        obtain ⟨i1, i2⟩ := run_noEth E m s s1 hinv hsig hwf.1 hr
        obtain ⟨j1, j2⟩ := dispatch_noEth E rest s1 s' grantee i2 hg hwf.2 h
        exact ⟨by rw [j1, i1], j2⟩
    · cases h
theorem wasm_noEth (E : EthOnly) (ms : List Msg) (s s' : State) (c : Nat) (hinv : Inv E s) (hc : E c = false)
    (hwf : WFs E ms) (h : wasmDispatch s c ms = some s') : s'.ethRuns = s.ethRuns ∧ Inv E s' := by
  cases ms with
  | nil => simp only [wasmDispatch] at h; injection h with e; subst e; exact ⟨rfl, hinv⟩
  | cons m rest =>
    simp only [WFs] at hwf
    simp only [wasmDispatch] at h
    split at h
    · rename_i hauth
      have hsig : E m.signer = false := by
        simp only [Bool.and_eq_true, decide_eq_true_eq] at hauth
        rw [hauth.1]; exact hc
      cases hr : run s m with
      | none => simp [hr] at h
      | some s1 =>
        simp only [hr] at h
        obtain ⟨i1, i2⟩ := run_noEth E m s s1 hinv hsig hwf.1 hr
        obtain ⟨j1, j2⟩ := wasm_noEth E rest s1 s' c i2 hc hwf.2 h
        exact ⟨by rw [j1, i1], j2⟩
    · cases h
end

end Nibiru.MsgTree

namespace Nibiru.MsgTree
mutual
theorem legit_run (m : Msg) (a b : State) (h : run a m = some b) : b.ethLegit = a.ethLegit := by
  cases m with
  | eth s => simp only [run] at h; injection h with e; subst e; rfl
  | comm o r => simp only [run] at h; injection h with e; subst e; rfl
  | send x => simp only [run] at h; injection h with e; subst e; rfl
  | grant g e k => simp only [run] at h; split at h; · cases h
                   · injection h with e'; subst e'; rfl
  | exec g inner => simp only [run] at h; exact legit_dispatch inner a b g h
  | proposal p inner => simp only [run] at h; split at h
                        · injection h with e; subst e; rfl
                        · cases h
  | wasm x c em => simp only [run] at h; exact legit_wasm em a b c h
theorem legit_dispatch (ms : List Msg) (a b : State) (g : Nat) (h : dispatch a g ms = some b) : b.ethLegit = a.ethLegit := by
  cases ms with
  | nil => simp only [dispatch] at h; injection h with e; subst e; rfl
  | cons m rest =>
    simp only [dispatch] at h
    split at h
    · cases hr : run a m with
      | none => simp [hr] at h
      | some a1 => simp only [hr] at h; rw [legit_dispatch rest a1 b g h, legit_run m a a1 hr]
    · cases h
theorem legit_wasm (ms : List Msg) (a b : State) (c : Nat) (h : wasmDispatch a c ms = some b) : b.ethLegit = a.ethLegit := by
  cases ms with
  | nil => simp only [wasmDispatch] at h; injection h with e; subst e; rfl
  | cons m rest =>
    simp only [wasmDispatch] at h
    split at h
    · cases hr : run a m with
      | none => simp [hr] at h
      | some a1 => simp only [hr] at h; rw [legit_wasm rest a1 b c h, legit_run m a a1 hr]
    · cases h
end
end Nibiru.MsgTree
