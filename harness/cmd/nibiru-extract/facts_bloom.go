package main

import (
	"sort"
	"strings"
)

func init() {
	extractors["bloom"] = func(repo string, out *leanFile, js map[string]any) error {
		// third argument (the log index the transient BlockLogSize is advanced from) of every updateBlockBloom call
		var sites []string
		for _, cs := range callSites(repo, []string{"x/evm"}, "updateBlockBloom") {
			arg := "?"
			if len(cs.call.Args) == 3 {
				arg = exprString(cs.call.Args[2])
			}
			sites = append(sites, cs.where+"="+arg)
		}
		sort.Strings(sites)
		out.f("def bloomSites : List String := %s\n", leanStrList(sites))
		// the same as (function, argument expression) pairs
		var pairs []string
		for _, s := range sites {
			i := strings.Index(s, "=")
			pairs = append(pairs, "("+leanStr(s[:i])+", "+leanStr(s[i+1:])+")")
		}
		out.f("def bloomSiteArgs : List (String × String) := [%s]\n", strings.Join(pairs, ", "))
		// how a StateDB log gets its index, and where the tx index is advanced
		var setters []string
		for _, name := range []string{"BlockLogSize", "BlockTxIndex"} {
			for _, cs := range callSites(repo, []string{"x/evm"}, "Set") {
				if se := exprString(cs.call.Fun); se == "k.EvmState."+name+".Set" {
					setters = append(setters, name+"@"+cs.where+"="+exprString(cs.call.Args[1]))
				}
			}
		}
		sort.Strings(setters)
		out.f("def blockCounterWrites : List String := %s\n", leanStrList(setters))
		return nil
	}
}
