"""Per-property configuration: proof modules, correspondence runs, oracles (the property evaluated directly on the
implementation's own observations — used to search for a concrete failing input and to recognise known findings)."""
import re

PROPS = {}


def V(sig, detail, **kw):
    d = {"signature": sig, "detail": detail}
    d.update(kw)
    return d


# ------------------------------------------------------------------------------------------------ C14 epochs
def parse_epochs(s):
    res = {}
    s = s.strip()
    if not s:
        return res
    for part in s.split(";"):
        f = part.split(",")
        res[f[0]] = dict(id=f[0], start=int(f[1]), dur=int(f[2]), cur=int(f[3]), curStart=int(f[4]), started=f[5] == "1",
                         h=int(f[6]))
    return res


def oracle_c14(run, ops, impl):
    out = []
    prev = {}
    for i, (op, ob) in enumerate(zip(ops, impl)):
        a = op.split()
        if a[1] == "reset":
            prev = {}
            continue
        if "|" not in ob:
            out.append(V("C14:malformed-observation", {"line": i + 1, "op": op, "obs": ob}))
            continue
        head, st = ob.split("|", 1)
        cur = parse_epochs(st)
        if a[1] == "block":
            t, h = int(a[2]), int(a[3])
            calls = head.split()
            exp_calls = []
            for id_ in sorted(prev):
                e = prev[id_]
                n = cur.get(id_)
                if n is None:
                    out.append(V("C14:epoch-vanished", {"line": i + 1, "id": id_}))
                    continue
                wf = e["started"] or e["cur"] == 0
                adv = t >= e["start"] and ((not e["started"]) or e["curStart"] + e["dur"] <= t)
                if n["cur"] < e["cur"] and wf:
                    out.append(V("C14:epoch-number-decreased", {"line": i + 1, "op": op, "before": e, "after": n}))
                if wf:
                    if adv and n["cur"] != e["cur"] + 1:
                        out.append(V("C14:advance-expected", {"line": i + 1, "op": op, "before": e, "after": n}))
                    if (not adv) and n["cur"] != e["cur"]:
                        out.append(V("C14:unexpected-advance", {"line": i + 1, "op": op, "before": e, "after": n}))
                if adv:
                    if n["curStart"] != t or n["h"] != h:
                        out.append(V("C14:start-not-recorded", {"line": i + 1, "op": op, "before": e, "after": n}))
                    if e["started"]:
                        exp_calls += ["A:%s:%d" % (id_, e["cur"]), "B:%s:%d" % (id_, e["cur"] + 1)]
                    else:
                        exp_calls += ["B:%s:%d" % (id_, 1)]
            if calls != exp_calls:
                out.append(V("C14:hook-trace", {"line": i + 1, "op": op, "got": calls, "want": exp_calls}))
        prev = cur
    return out


PROPS["C14"] = {
    "modules": ["NibiruProofs.C14"],
    "runs": [{"model": "epochs", "n_quick": 300, "n_thorough": 5000, "nontrivial": r"^A:"}],
    "oracle": oracle_c14,
    "rule": "each case is one generated history (AddEpochInfo calls, valid and malformed, interleaved with BeginBlocker calls at "
            "generated block times: equal timestamps, sub-second steps, exact boundary hits, multi-duration gaps, future start "
            "times) on the real x/epochs keeper with a recording EpochHooks; distinct = distinct op sequence; non-trivial = at "
            "least one AfterEpochEnd hook fired (an epoch was finished, not just started)",
    "assumptions": ["time.Time arithmetic is exact for the generated range (nanoseconds since 2020, < 2^62)",
                    "collections.Map iterates in key order (string keys)"],
}
