/-
  C05 — EVM transactions conserve NIBI and charge exactly the gas used.
  Theorems about NibiruModel.EvmTx: fee deduction (VerifyFee/deductFee), RefundGas, value transfer, and the totals over all
  accounts and the fee collector.
-/
import NibiruProofs.EvmTxLemmas
import Generated.Facts
namespace Nibiru.EvmTx

theorem effPrice_ge_base (m : Msg) : baseFeeWei ≤ effPrice m := by
  unfold effPrice; cases m.tip <;> simp <;> omega

/-- **Net gas payment.** With `F = ⌊L·p/10^12⌋` charged up front and `R = ⌊(L−U)·p/10^12⌋` refunded (p = effective price in wei,
    U ≤ L the gas used), the signer's net payment `F − R` satisfies
    `U·p − 10^12 < (F − R)·10^12 < U·p + 10^12`, `0 ≤ R ≤ F` and `F·10^12 ≤ L·p`: within one unibi of gasUsed × price, never
    more than gasLimit × price. -/
theorem C05_net_fee_bounds (m : Msg) (hU : m.gasUsed ≤ m.gasLimit) :
    let p := effPrice m
    let F := anteFee m
    let R := refund m
    (m.gasUsed : Int) * p - weiPerUnibi < (F - R) * weiPerUnibi ∧ (F - R) * weiPerUnibi < (m.gasUsed : Int) * p + weiPerUnibi ∧
    0 ≤ R ∧ R ≤ F ∧ F * weiPerUnibi ≤ p * (m.gasLimit : Int) := by
  intro p F R
  have hp : 0 ≤ p := by have := effPrice_ge_base m; unfold baseFeeWei at this; omega
  have hL : (0 : Int) ≤ p * (m.gasLimit : Int) := Int.mul_nonneg hp (by omega)
  have hD : (0 : Int) ≤ p * ((m.gasLimit : Int) - m.gasUsed) := Int.mul_nonneg hp (by omega)
  have hF : F = (p * (m.gasLimit : Int)) / weiPerUnibi := by
    show anteFee m = _; unfold anteFee weiToNative; exact Int.tdiv_eq_ediv_of_nonneg hL
  have hR : R = (p * ((m.gasLimit : Int) - m.gasUsed)) / weiPerUnibi := by
    show refund m = _; unfold refund weiToNative; exact Int.tdiv_eq_ediv_of_nonneg hD
  have hsplit : p * (m.gasLimit : Int) = p * ((m.gasLimit : Int) - m.gasUsed) + (m.gasUsed : Int) * p := by
    rw [Int.mul_sub, Int.mul_comm (m.gasUsed : Int) p]; omega
  have hUp : (0 : Int) ≤ (m.gasUsed : Int) * p := Int.mul_nonneg (by omega) hp
  generalize p * (m.gasLimit : Int) = x at *
  generalize p * ((m.gasLimit : Int) - m.gasUsed) = y at *
  generalize (m.gasUsed : Int) * p = z at *
  rw [hF, hR]
  unfold weiPerUnibi at *
  refine ⟨by omega, by omega, by omega, by omega, by omega⟩

/-! ### conservation -/

/-- total unibi held by the accounts `accts` and the fee collector -/
def total (s : State) (accts : List String) : Int := sumInts (accts.map (getBal s)) + s.collector

theorem sum_setBal_notin (s : State) (a : String) (v : Int) (accts : List String) (h : a ∉ accts) :
    sumInts (accts.map (getBal (setBal s a v))) = sumInts (accts.map (getBal s)) := by
  induction accts with
  | nil => rfl
  | cons x xs ih =>
    have hx : a ≠ x := fun e => h (by rw [e]; exact List.mem_cons_self)
    simp only [List.map_cons, sumInts, getBal_setBal, hx, if_false]
    rw [ih (fun hm => h (List.mem_cons_of_mem _ hm))]

theorem sum_setBal (s : State) (a : String) (v : Int) (accts : List String) (hnd : accts.Nodup) (h : a ∈ accts) :
    sumInts (accts.map (getBal (setBal s a v))) = sumInts (accts.map (getBal s)) - getBal s a + v := by
  induction accts with
  | nil => cases h
  | cons x xs ih =>
    have hx := List.nodup_cons.mp hnd
    simp only [List.map_cons, sumInts, getBal_setBal]
    by_cases hax : a = x
    · subst hax
      simp only [if_true]
      rw [sum_setBal_notin s a v xs hx.1]; omega
    · simp only [hax, if_false]
      rcases List.mem_cons.mp h with e | e
      · exact absurd e hax
      · rw [ih hx.2 e]; omega

/-- a movement of `v` from `a` to `b` keeps the sum -/
theorem sum_move (s : State) (a b : String) (v : Int) (accts : List String) (hnd : accts.Nodup) (ha : a ∈ accts) (hb : b ∈ accts) :
    sumInts (accts.map (getBal (setBal (setBal s a (getBal s a - v)) b (getBal (setBal s a (getBal s a - v)) b + v)))) =
      sumInts (accts.map (getBal s)) := by
  rw [sum_setBal _ b _ accts hnd hb, sum_setBal s a _ accts hnd ha]
  omega

theorem total_moveValue (s : State) (m : Msg) (accts : List String) (hnd : accts.Nodup) (ha : m.sender ∈ accts) (hb : m.to ∈ accts) :
    total (moveValue s m) accts = total s accts := by
  unfold moveValue total
  split
  · simp only [collector_setBal]; rw [sum_move s m.sender m.to _ accts hnd ha hb]
  · rfl

theorem total_payRefund (s : State) (m : Msg) (accts : List String) (hnd : accts.Nodup) (ha : m.sender ∈ accts) :
    total (payRefund s m) accts = total s accts := by
  unfold total payRefund
  simp only
  have : sumInts (accts.map (getBal { (setBal s m.sender (getBal s m.sender + refund m)) with
      collector := s.collector - refund m, executed := s.executed ++ [(m.sender, m.nonce)] })) =
      sumInts (accts.map (getBal (setBal s m.sender (getBal s m.sender + refund m)))) := rfl
  rw [this, sum_setBal s m.sender _ accts hnd ha]; omega

theorem total_setSeq (s : State) (a : String) (n : Nat) (accts : List String) : total (setSeq s a n) accts = total s accts := rfl

theorem total_execMsgs (s s' : State) (ms : List Msg) (accts : List String) (hnd : accts.Nodup)
    (hm : ∀ m ∈ ms, m.sender ∈ accts ∧ m.to ∈ accts) (h : execMsgs s ms = some s') : total s' accts = total s accts := by
  induction ms generalizing s with
  | nil => simp [execMsgs] at h; subst h; rfl
  | cons m ms ih =>
    unfold execMsgs at h
    cases hx : execMsg s m with
    | none => simp [hx] at h
    | some s1 =>
      simp only [hx] at h
      obtain ⟨e, _⟩ := execMsg_some s s1 m hx
      obtain ⟨h1, h2⟩ := hm m List.mem_cons_self
      rw [ih s1 (fun x hx' => hm x (List.mem_cons_of_mem _ hx')) h, e, total_payRefund _ m accts hnd h1,
        total_moveValue _ m accts hnd h1 h2, total_setSeq]

theorem total_passGas (s s' : State) (ms : List Msg) (accts : List String) (hnd : accts.Nodup)
    (hm : ∀ m ∈ ms, m.sender ∈ accts) (h : passGas s ms = some s') : total s' accts = total s accts := by
  induction ms generalizing s with
  | nil => simp [passGas] at h; subst h; rfl
  | cons m ms ih =>
    unfold passGas at h
    simp only at h
    have hrest := fun x hx => hm x (List.mem_cons_of_mem _ hx)
    split at h
    · exact ih s hrest h
    · split at h
      · cases h
      · rw [ih _ hrest h]
        unfold total
        simp only
        have : sumInts (accts.map (getBal { (setBal s m.sender (getBal s m.sender - anteFee m)) with collector := s.collector + anteFee m })) =
            sumInts (accts.map (getBal (setBal s m.sender (getBal s m.sender - anteFee m)))) := rfl
        rw [this, sum_setBal s m.sender _ accts hnd (hm m List.mem_cons_self)]; omega

/-- **Conservation.** Whatever the tx does — accepted, rejected, failing, reverting, several messages, any prices and values —
    the unibi held by the involved accounts plus the fee collector is unchanged: fees move from signer to collector, refunds back,
    values from sender to recipient; nothing is created. (The supply itself is observed on the implementation by the
    correspondence run; mint/burn in `SetAccBalance` net to zero.) -/
theorem C05_conservation (s : State) (ms : List Msg) (accts : List String) (hnd : accts.Nodup)
    (hm : ∀ m ∈ ms, m.sender ∈ accts ∧ m.to ∈ accts) : total (deliver s ms).1 accts = total s accts := by
  cases ha : ante s ms with
  | none => rw [deliver_rejected s ms ha]
  | some s1 =>
    have h1 : total s1 accts = total s accts := by
      unfold ante at ha
      split at ha; · cases ha
      split at ha; · cases ha
      split at ha; · cases ha
      cases hg : passGas s ms with
      | none => simp [hg] at ha
      | some sg =>
        simp only [hg] at ha
        split at ha; · cases ha
        obtain ⟨_, _, pb, pc⟩ := passSeq_spec sg s1 ms ha
        have : total s1 accts = total sg accts := by unfold total getBal; rw [pb, pc]
        rw [this, total_passGas s sg ms accts hnd (fun m hmm => (hm m hmm).1) hg]
    cases hx : execMsgs s1 ms with
    | none => rw [deliver_failed s s1 ms ha hx]; exact h1
    | some s2 => rw [deliver_ok s s1 s2 ms ha hx]; simp only; rw [total_execMsgs s1 s2 ms accts hnd hm hx, h1]

/-! ### single-message transactions: who pays what -/

theorem ante_single (s s1 : State) (m : Msg) (h : ante s [m] = some s1) :
    (∀ a, getBal s1 a = if m.sender = a then getBal s a - anteFee m else getBal s a) ∧
    s1.collector = s.collector + anteFee m ∧ anteFee m ≤ getBal s m.sender := by
  unfold ante at h
  split at h; · cases h
  split at h; · cases h
  rename_i hva
  split at h; · cases h
  have hbal0 : 0 ≤ getBal s m.sender := by
    simp only [passVerifyAcc, List.all_cons, List.all_nil, Bool.and_true, Bool.not_eq_true', Bool.not_eq_false,
      Bool.and_eq_true, decide_eq_true_eq] at hva
    unfold nativeToWei weiPerUnibi at hva; omega
  cases hg : passGas s [m] with
  | none => simp [hg] at h
  | some sg =>
    simp only [hg] at h
    split at h; · cases h
    obtain ⟨_, _, pb, pc⟩ := passSeq_spec sg s1 [m] h
    have hb : ∀ a, getBal s1 a = getBal sg a := fun a => by unfold getBal; rw [pb]
    simp only [passGas] at hg
    split at hg
    · rename_i hz
      injection hg with e; subst e
      refine ⟨fun a => ?_, ?_, ?_⟩
      · rw [hb a, hz]; split <;> omega
      · rw [pc, hz]; omega
      · rw [hz]; exact hbal0
    · split at hg
      · cases hg
      · rename_i hnz hlt
        injection hg with e; subst e
        refine ⟨fun a => ?_, ?_, by omega⟩
        · rw [hb a]
          show getBal (setBal s m.sender (getBal s m.sender - anteFee m)) a = _
          simp only [getBal_setBal]
          split
          · rename_i e; subst e; rfl
          · rfl
        · rw [pc]

/-- **A failing tx changes nothing except the fee payment and the signer's nonce.** When the message returns an error after the
    tx was admitted, the committed state is the ante state: the signer paid `F` to the fee collector, its sequence advanced, and
    no other balance moved. -/
theorem C05_failed_tx_only_fee_and_nonce (s : State) (m : Msg) (h : (deliver s [m]).2 = .execFailed) :
    (∀ a, getBal (deliver s [m]).1 a = if m.sender = a then getBal s a - anteFee m else getBal s a) ∧
    (deliver s [m]).1.collector = s.collector + anteFee m ∧
    (∀ a, getSeq (deliver s [m]).1 a = getSeq s a + countOf a [m]) := by
  cases ha : ante s [m] with
  | none => rw [deliver_rejected s [m] ha] at h; cases h
  | some s1 =>
    cases hx : execMsgs s1 [m] with
    | some s2 => rw [deliver_ok s s1 s2 [m] ha hx] at h; cases h
    | none =>
      rw [deliver_failed s s1 [m] ha hx]
      obtain ⟨b1, b2, _⟩ := ante_single s s1 m ha
      obtain ⟨_, hseq, _, _⟩ := ante_spec s s1 [m] ha
      exact ⟨b1, b2, hseq⟩

/-- **A reverted (VM error) tx, and any tx without value: the fee collector's gain equals the signer's net payment `F − R`,** and
    no other account changes. -/
theorem C05_collector_gain_eq_signer_payment (s : State) (m : Msg) (h : (deliver s [m]).2 = .ok)
    (hnv : m.kind = .revert ∨ weiToNative m.value ≤ 0) :
    (deliver s [m]).1.collector - s.collector = anteFee m - refund m ∧
    getBal s m.sender - getBal (deliver s [m]).1 m.sender = anteFee m - refund m ∧
    ∀ a, a ≠ m.sender → getBal (deliver s [m]).1 a = getBal s a := by
  cases ha : ante s [m] with
  | none => rw [deliver_rejected s [m] ha] at h; cases h
  | some s1 =>
    cases hx : execMsgs s1 [m] with
    | none => rw [deliver_failed s s1 [m] ha hx] at h; cases h
    | some s2 =>
      rw [deliver_ok s s1 s2 [m] ha hx]
      obtain ⟨b1, b2, _⟩ := ante_single s s1 m ha
      simp only [execMsgs] at hx
      cases hm : execMsg s1 m with
      | none => simp [hm] at hx
      | some s3 =>
        simp only [hm] at hx
        injection hx with e; subst e
        obtain ⟨e3, _⟩ := execMsg_some s1 s3 m hm
        have hmv : moveValue (setSeq s1 m.sender (m.nonce + 1)) m = setSeq s1 m.sender (m.nonce + 1) := by
          unfold moveValue
          rcases hnv with hk | hv
          · simp [hk]
          · have : ¬ (weiToNative m.value > 0) := by omega
            simp [this]
        rw [hmv] at e3
        subst e3
        simp only [payRefund]
        refine ⟨by simp [b2]; omega, ?_, ?_⟩
        · show getBal s m.sender - getBal (setBal (setSeq s1 m.sender (m.nonce + 1)) m.sender _) m.sender = _
          simp [b1]; omega
        · intro a hne
          show getBal (setBal (setSeq s1 m.sender (m.nonce + 1)) m.sender _) a = _
          have : ¬ m.sender = a := fun e => hne e.symm
          simp [this, b1]

/-! ### T1: the mirror only exists for accounts that have an EVM counterpart -/

/-- `SyncStateDBWithAccount` writes the bank balance of `acc` into the StateDB under `NibiruAddrToEthAddr(acc)`, which keeps the LAST
    20 bytes of the address. The model's accounts are the 20-byte ones (one name on both sides); for any other address — a Wasm
    contract's is 32 bytes long — the function has to leave the StateDB alone, or the balance is mirrored into, and at `Commit` minted
    to, an unrelated 20-byte account (fix: commit in /repo; found by the `evmsupply` run: Wasm `execute` with unibi funds to a
    contract that keeps them raised the supply by the funds). -/
theorem fact_C05_sync_only_for_addresses_with_an_evm_counterpart :
    Generated.syncStateDBEarlyReturns = ["bk.StateDB == nil", "len(acc) != gethcommon.AddressLength"] := by decide +kernel

end Nibiru.EvmTx
