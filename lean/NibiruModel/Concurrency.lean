/-
  NibiruModel.Concurrency — the one piece of mutable state that block execution and queries share in x/evm: the process-wide
  pointer `Keeper.Bank.StateDB` (x/evm/keeper/bank_extension.go).
    NewStateDB publishes the StateDB it creates                                   (bank_extension.go: NewStateDB)
    EthereumTx / ConvertCoinToEvm / CreateFunToken use `k.Bank.StateDB` if it is non-nil, else create and publish one, and
      clear the pointer when they return — in DeliverTx and in Simulate alike      (msg_server.go, funtoken_from_*.go)
    EthCall / EstimateGas create a private `statedb.New` that is not published     (grpc_query.go)
    every bank operation of the NibiruBankKeeper that moves the gas token mirrors the balance it sees IN ITS OWN CONTEXT into
      whatever StateDB the pointer designates                                      (SyncStateDBWithAccount)
  Two threads: T (the block: DeliverTx on the deliver-state context) and Q (one query / simulation on its own branch of the last
  committed state).  Balances are integers per account; a StateDB is a balance view bound to the context it was created on.
-/
import NibiruModel.Prelude
namespace Nibiru.Concurrency

inductive Who where | T | Q
deriving Repr, DecidableEq

structure W where
  storeT : Nat → Int := fun _ => 0      -- bank balances in the block's context
  storeQ : Nat → Int := fun _ => 0      -- … in the query's branch
  dbT : Nat → Int := fun _ => 0         -- the StateDB created by T (bound to T's context)
  dbQ : Nat → Int := fun _ => 0         -- the StateDB created by Q (bound to Q's branch)
  ptr : Option Who := none              -- Keeper.Bank.StateDB: whose StateDB it designates
  hT : Option Who := none               -- the StateDB thread T works on
  hQ : Option Who := none               -- the StateDB thread Q works on

inductive Step where
  | useOrPublish                 -- stateDB := k.Bank.StateDB; if nil { stateDB = k.NewStateDB(ctx) }
  | privateNew                   -- statedb.New(ctx, …), not published
  | evmAdd (a : Nat) (d : Int)   -- a balance change made by the interpreter in the thread's StateDB
  | bankAdd (a : Nat) (d : Int)  -- a bank operation on the thread's own context, then SyncStateDBWithAccount
  | bankOther (a : Nat) (d : Int) -- a bank operation that moves another denom than the gas token: every override guards the sync with
                                 -- findEtherBalanceChangeFromCoins (T1 fact), so nothing is mirrored; the tracked balances do not move
  | commit                       -- StateDB.Commit: the view is written into the context the StateDB is bound to
  | flush                        -- CommitCacheCtx at a precompile entry (OnRunStart): the same write-back, in the middle of a call;
                                 -- Keeper.SetAccBalance writes through the embedded BaseKeeper, so nothing is mirrored (T1 fact)
  | clear                        -- defer func() { k.Bank.StateDB = nil }()
deriving Repr, DecidableEq

def upd (f : Nat → Int) (a : Nat) (v : Int) : Nat → Int := fun x => if x = a then v else f x

def store (w : W) : Who → Nat → Int | .T => w.storeT | .Q => w.storeQ
def db (w : W) : Who → Nat → Int | .T => w.dbT | .Q => w.dbQ
def setStore (w : W) (p : Who) (f : Nat → Int) : W := match p with | .T => { w with storeT := f } | .Q => { w with storeQ := f }
def setDb (w : W) (p : Who) (f : Nat → Int) : W := match p with | .T => { w with dbT := f } | .Q => { w with dbQ := f }
def handle (w : W) : Who → Option Who | .T => w.hT | .Q => w.hQ
def setHandle (w : W) (me : Who) (h : Option Who) : W := match me with | .T => { w with hT := h } | .Q => { w with hQ := h }

def exec (me : Who) (w : W) : Step → W
  | .useOrPublish =>
    match w.ptr with
    | some p => setHandle w me (some p)
    | none => setHandle { (setDb w me (store w me)) with ptr := some me } me (some me)
  | .privateNew => setHandle (setDb w me (store w me)) me (some me)
  | .evmAdd a d =>
    match handle w me with
    | some p => setDb w p (upd (db w p) a (db w p a + d))
    | none => w
  | .bankAdd a d =>
    let w1 := setStore w me (upd (store w me) a (store w me a + d))
    match w1.ptr with
    | some p => setDb w1 p (upd (db w1 p) a (store w1 me a))
    | none => w1
  | .bankOther _ _ => w
  | .commit =>
    match handle w me with
    | some p => setStore w p (db w p)
    | none => w
  | .flush =>
    match handle w me with
    | some p => setStore w p (db w p)
    | none => w
  | .clear => { w with ptr := none }

/-- an interleaving: `true` = the block thread takes the next step -/
def run (w : W) : List Step → List Step → List Bool → W
  | [], qs, _ => qs.foldl (exec .Q) w
  | ts, [], _ => ts.foldl (exec .T) w
  | t :: ts, q :: qs, [] => run (exec .T w t) ts (q :: qs) []
  | t :: ts, q :: qs, b :: bs => if b then run (exec .T w t) ts (q :: qs) bs else run (exec .Q w q) (t :: ts) qs bs

def runAlone (w : W) (ts : List Step) : W := ts.foldl (exec .T) w

/-- steps of query kinds that neither read nor write the shared pointer: EthCall / EstimateGas without a bank-moving
    precompile (private StateDB, interpreter steps, the flush of that private StateDB when a precompile is entered), and plain
    reads (no steps at all) -/
def Step.isolated : Step → Bool
  | .privateNew | .evmAdd _ _ | .flush | .bankOther _ _ => true
  | _ => false

/-! concrete programs -/
/-- one Ethereum tx in DeliverTx: value moves inside the EVM, a precompile moves 5 from account 2 to account 3 through the bank -/
def blockTx : List Step := [.useOrPublish, .evmAdd 1 (-3), .bankAdd 2 (-5), .bankAdd 3 5, .commit, .clear]
/-- eth_call of a contract that makes the FunToken precompile move 7 from account 2 to account 4 -/
def ethCallBank : List Step := [.privateNew, .bankAdd 2 (-7), .bankAdd 4 7]
/-- Simulate of an Ethereum tx (gas estimation through the tx service) -/
def simulateEthTx : List Step := [.useOrPublish, .evmAdd 5 9, .commit, .clear]
/-- eth_call that carries value into a precompile query method: the value transfer dirties the caller in the private StateDB, the
    precompile entry flushes it into the query's own branch -/
def ethCallValuePrecompileQuery : List Step := [.privateNew, .evmAdd 2 (-7), .evmAdd 8 7, .flush]
/-- eth_call that runs FunToken.sendToBank of a coin-born mapping: interpreter steps in the private StateDB (the ERC20 burn), the
    precompile entry's flush, and a bank operation on another denom -/
def ethCallSendToBankOther : List Step := [.privateNew, .evmAdd 6 (-4), .flush, .bankOther 6 4]
def genesis : W := { storeT := fun a => if a ≤ 5 then 100 else 0, storeQ := fun a => if a ≤ 5 then 100 else 0 }

end Nibiru.Concurrency
