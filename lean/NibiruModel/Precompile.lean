/-
  NibiruModel.Precompile — how a call to a Nibiru precompile (FunToken 0x800, Oracle 0x801, Wasm 0x802) is admitted:
    go-ethereum fork core/vm/contracts.go  runPrecompiledContract : RequiredGas(input) → UseGas → Run
    x/evm/precompile/precompile.go         requiredGas, decomposeInput, OnRunStart, isMutation, HandleOutOfGasPanic
    x/evm/precompile/{funtoken,wasm,oracle}.go   Run switch, per-method first guard (assertNotReadonlyTx / assertContractQuery)
    x/evm/precompile/funtoken.go           bankMsgSend (sdk.NewCoin on the caller's denom), sendToEvm (string-key index lookup)
  Go's partial operations (slice expressions, panicking constructors, an out-of-gas panic with no handler) are modelled with an
  explicit `panic` stage.  What the source does at each of those places is a parameter (`Cfg`) read from the regenerated facts.
  The ABI decoder and the business logic behind the guards are parameters of a call (`unpackOk`, and the stage `run`).
-/
import NibiruModel.Prelude
namespace Nibiru.Precompile

structure MethodInfo where
  pc : String
  name : String
  guard : String          -- "assertNotReadonlyTx" | "assertContractQuery" | "none"
deriving Repr, DecidableEq

structure Cfg where
  requiredGasLenCheck : Bool                   -- requiredGas returns the default when len(input) < 4
  isMutation : List (String × Bool)            -- the isMutation map literal
  methods : List MethodInfo                    -- one per `case` of the three Run switches
  defersOOG : List (String × Bool)             -- Run defers HandleOutOfGasPanic
  bankMsgSendValidatesDenom : Bool             -- sdk.ValidateDenom(denom) precedes sdk.NewCoin(denom, …)
  sendToEvmValidatesDenom : Bool               -- sdk.ValidateDenom(bankDenom) precedes the BankDenom index lookup
  getErc20AddressRejectsNul : Bool := true     -- parseArgsGetErc20Address: a denom that only passes the tokenfactory format check
                                               -- is refused when it holds a null character (it would be a key of the same index)
deriving Repr

/-- Go map lookup: a missing key yields the zero value -/
def Cfg.mutation (c : Cfg) (m : String) : Bool := (AList.find? c.isMutation m).getD false
def Cfg.defers (c : Cfg) (pc : String) : Bool := (AList.find? c.defersOOG pc).getD false
def Cfg.method? (c : Cfg) (pc name : String) : Option MethodInfo := c.methods.find? (fun m => m.pc = pc ∧ m.name = name)

def cfgOfFacts (lenCheck : Bool) (isMut : List (String × Bool)) (cases : List (String × String × String × String))
    (defers : List (String × Bool)) (raw : List (String × String × String × Bool)) (erc20AddrGuards : List String := []) : Cfg :=
  { requiredGasLenCheck := lenCheck
    isMutation := isMut
    methods := cases.map (fun (pc, name, _, g) => { pc := pc, name := name, guard := g })
    defersOOG := defers
    bankMsgSendValidatesDenom := raw.any (fun (f, callee, _, v) => f = "bankMsgSend" ∧ callee = "sdk.NewCoin" ∧ v) ||
                                   !(raw.any (fun (f, callee, _, _) => f = "bankMsgSend" ∧ callee = "sdk.NewCoin"))
    sendToEvmValidatesDenom := raw.any (fun (f, callee, _, v) => f = "sendToEvm" ∧ callee = "BankDenom.ExactMatch" ∧ v) ||
                                 !(raw.any (fun (f, callee, _, _) => f = "sendToEvm" ∧ callee = "BankDenom.ExactMatch"))
    -- the guards of parseArgsGetErc20Address as the source has them (regenerated): the null-character refusal
    getErc20AddressRejectsNul := erc20AddrGuards.contains "strings.ContainsRune(bankDenom, 0)" }

/-- one call as the fork's runPrecompiledContract sees it -/
structure Call where
  pc : String
  len : Nat                   -- len(input)
  cap : Nat                   -- cap(input): the interpreter passes a window into EVM memory, so cap may exceed len
  selCap : Option String      -- the ABI method whose id equals the first four bytes *within capacity* (requiredGas reads input[:4])
  selLen : Option String      -- the ABI method whose id equals input[:4] when len ≥ 4 (decomposeInput works on a copy of length len)
  unpackOk : Bool             -- method.Inputs.Unpack(input[4:]) succeeded (parameter: geth's ABI decoder)
  readOnly : Bool             -- the flag the fork passes to Run
  valueNonZero : Bool
  gas : Nat                   -- gas supplied to the call
  toOk : Bool := true         -- bankMsgSend: parseToAddr(to) succeeds
  denom : String := ""        -- bankMsgSend / sendToEvm: the denom argument
  pairOk : Bool := true       -- oracle: asset.TryNewPair(pair) succeeds
deriving Repr

inductive Stage where
  | panic          -- a Go panic leaves the precompile (the whole transaction aborts)
  | oog            -- RequiredGas exceeds the supplied gas: vm.ErrOutOfGas, Run is not entered
  | short          -- decomposeInput: fewer than four bytes
  | noMethod       -- decomposeInput: unknown selector
  | unpack         -- decomposeInput: ABI decoding failed
  | readonly       -- assertNotReadonlyTx refused
  | value          -- assertContractQuery refused
  | run            -- the guards passed; the outcome is the business logic's (success or an ordinary error)
deriving Repr, DecidableEq

def Stage.str : Stage → String
  | .panic => "panic" | .oog => "oog" | .short => "short" | .noMethod => "nomethod" | .unpack => "unpack"
  | .readonly => "readonly" | .value => "value" | .run => "run"

def txGas : Nat := 21000
def readFlat : Nat := 1000
def readPerByte : Nat := 3
def writeFlat : Nat := 2000
def writePerByte : Nat := 30

/-- `requiredGas(input, abi)`; `none` is a Go panic (slice bounds) -/
def requiredGas (c : Cfg) (x : Call) : Option Nat :=
  if c.requiredGasLenCheck && decide (x.len < 4) then some txGas
  else if x.cap < 4 then none                       -- input[:4] beyond the capacity
  else match x.selCap with
    | none => some txGas
    | some m =>
      if x.len < 4 then none                          -- input[4:] with len(input) < 4
      else if c.mutation m then some (writePerByte * (x.len - 4) + writeFlat)
      else some (readPerByte * (x.len - 4) + readFlat)

def hasNul (s : String) : Bool := s.toList.any (· = Char.ofNat 0)

/-- `tftypes.DenomStr.Validate`: three "/"-separated sections, the first one "tf", the other two not empty — nothing else -/
def splitSlash : List Char → List (List Char)
  | [] => [[]]
  | c :: cs =>
    match splitSlash cs with
    | [] => [[c]]
    | s :: ss => if c = '/' then [] :: s :: ss else (c :: s) :: ss

def tfShaped (s : String) : Bool :=
  match splitSlash s.toList with
  | [a, b, c] => a = ['t', 'f'] && !b.isEmpty && !c.isEmpty
  | _ => false

/-- the body behind the guards: only the places where a panic can start are modelled -/
def body (c : Cfg) (x : Call) (m : String) (gasLeft : Nat) : Stage :=
  if x.pc = "funtoken" ∧ m = "bankMsgSend" then
    if x.toOk && !validDenom x.denom && !c.bankMsgSendValidatesDenom then .panic else .run
  else if x.pc = "funtoken" ∧ m = "sendToEvm" then
    if hasNul x.denom && !c.sendToEvmValidatesDenom then .panic else .run
  else if x.pc = "funtoken" ∧ m = "getErc20Address" then
    -- sdk.ValidateDenom refuses a null character; the tokenfactory fallback lets it through when the string is tf-shaped
    if hasNul x.denom && tfShaped x.denom && !c.getErc20AddressRejectsNul then .panic else .run
  else if x.pc = "oracle" then
    -- the first store read charges ReadCostFlat on the local gas meter; an out-of-gas panic needs a handler
    if x.pairOk && decide (gasLeft < readFlat) && !c.defers "oracle" then .panic else .run
  else .run

def stage (c : Cfg) (x : Call) : Stage :=
  match requiredGas c x with
  | none => .panic
  | some g =>
    if x.gas < g then .oog
    else if x.len < 4 then .short
    else match x.selLen with
      | none => .noMethod
      | some m =>
        if !x.unpackOk then .unpack
        else match c.method? x.pc m with
          | none => .run                               -- a method without a `case`: Run returns "invalid method" (an error)
          | some mi =>
            if mi.guard = "assertNotReadonlyTx" ∧ x.readOnly then .readonly
            else if mi.guard = "assertContractQuery" ∧ x.valueNonZero then .value
            else body c x m (x.gas - g)

/-- gas handed back by runPrecompiledContract: `contract.Gas` after RequiredGas and the local meter's consumption
    (`UseGas` refuses to go below zero) -/
def gasLeft (c : Cfg) (x : Call) (consumedLocal : Nat) : Nat :=
  match requiredGas c x with
  | none => 0
  | some g =>
    if x.gas < g then x.gas
    else if consumedLocal ≤ x.gas - g then x.gas - g - consumedLocal else x.gas - g

/-- the flag each EVM call kind passes (fork core/vm/evm.go): CALL ↦ false, CALLCODE/DELEGATECALL/STATICCALL ↦ true -/
inductive CallKind where | call | callcode | delegatecall | staticcall
deriving Repr, DecidableEq
def readOnlyOf : CallKind → Bool
  | .call => false
  | _ => true

/-- which methods change state, by the property's reading of the interfaces (independent of the isMutation literal) -/
def stateChanging : List String := ["sendToBank", "sendToEvm", "bankMsgSend", "execute", "instantiate", "executeMulti"]

def expectedIsMutation : List (String × Bool) :=
  [("balance", false), ("bankBalance", false), ("bankMsgSend", true), ("execute", true), ("executeMulti", true),
   ("getErc20Address", false), ("instantiate", true), ("query", false), ("queryExchangeRate", false), ("queryRaw", false),
   ("sendToBank", true), ("sendToEvm", true), ("whoAmI", false)]

/-- the source as this repository should have it -/
def Cfg.Good (c : Cfg) : Prop :=
  c.requiredGasLenCheck = true ∧ c.bankMsgSendValidatesDenom = true ∧ c.sendToEvmValidatesDenom = true ∧ c.defers "oracle" = true ∧
  c.getErc20AddressRejectsNul = true

/-! ### line protocol -/

def optStr (s : String) : Option String := if s = "-" then none else some s

def hexVal (c : Char) : Nat :=
  if c.isDigit then c.toNat - '0'.toNat
  else if 'a' ≤ c ∧ c ≤ 'f' then c.toNat - 'a'.toNat + 10
  else if 'A' ≤ c ∧ c ≤ 'F' then c.toNat - 'A'.toNat + 10 else 0

def hexToString : List Char → List Char
  | a :: b :: t => Char.ofNat (hexVal a * 16 + hexVal b) :: hexToString t
  | _ => []

def decodeHexStr (s : String) : String := if s = "-" then "" else String.ofList (hexToString s.toList)

def step (c : Cfg) (args : List String) : String :=
  match args with
  | "run" :: rest =>
    let get := fun k => (section? rest k).getD "-"
    let nat := fun k => (get k).toNat?.getD 0
    let x : Call := { pc := get "pc", len := nat "len", cap := nat "cap", selCap := optStr (get "selCap"), selLen := optStr (get "selLen"),
                      unpackOk := get "unpack" = "1", readOnly := get "ro" = "1", valueNonZero := get "val" = "1", gas := nat "gas",
                      toOk := get "toOk" = "1", denom := decodeHexStr (get "denom"), pairOk := get "pairOk" = "1" }
    (stage c x).str
  | _ => "bad-op"

end Nibiru.Precompile
