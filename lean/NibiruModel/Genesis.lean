/-
  NibiruModel.Genesis — export / import of the custom modules' state (app/export.go, x/*/genesis.go).
  A module's state is a list of named stores (one per `collections` field of its keeper), each a list of key/value entries in key
  order.  Every field has a class that says what ExportGenesis / InitGenesis do with it; the classes are the hand-written
  expectation that the regenerated `Generated.storeFields` table must match.
-/
import NibiruModel.Prelude
namespace Nibiru.Genesis

inductive Class where
  | exported        -- written by ExportGenesis, restored entry by entry by InitGenesis
  | normalised      -- exported and restored, but InitGenesis re-bases part of each value to the import context
  | transient       -- lives in the transient store: empty at every block boundary, never part of the state between blocks
  | derived         -- not exported; InitGenesis rebuilds it from exported data
  | dropped         -- neither exported nor rebuilt (documented loss)
deriving Repr, DecidableEq

/-- (module, field, class) -/
def expected : List (String × String × Class) := [
  ("evm", "AccState", .exported),            -- contract storage (of accounts whose code is stored)
  ("evm", "BlockBloom", .transient), ("evm", "BlockLogSize", .transient), ("evm", "BlockTxIndex", .transient),
  ("evm", "ContractBytecode", .exported), ("evm", "FunTokens", .exported), ("evm", "ModuleParams", .exported),
  ("oracle", "ExchangeRates", .normalised),  -- (pair, rate) exported; SetPrice re-stamps creation block and time
  ("oracle", "FeederDelegations", .exported), ("oracle", "MissCounters", .exported), ("oracle", "Params", .exported),
  ("oracle", "Prevotes", .exported),
  ("oracle", "PriceSnapshots", .dropped),    -- TWAP history: not exported; SetPrice starts a new history at import
  ("oracle", "Rewards", .exported),
  ("oracle", "RewardsID", .derived),         -- rebuilt from the exported rewards
  ("oracle", "Votes", .exported), ("oracle", "WhitelistedPairs", .exported),
  ("tokenfactory", "Denoms", .exported), ("tokenfactory", "ModuleParams", .exported),
  ("tokenfactory", "creator", .derived),     -- rebuilt by unsafeGenesisInsertDenom
  ("tokenfactory", "denomAdmins", .exported),
  ("sudo", "Sudoers", .exported),
  ("inflation", "CurrentPeriod", .exported), ("inflation", "NumSkippedEpochs", .exported), ("inflation", "Params", .exported),
  ("epochs", "Epochs", .normalised),         -- AddEpochInfo re-bases current_epoch_start_height to the import height
  ("devgas", "DevGasStore", .exported), ("devgas", "ModuleParams", .exported)]

/-- what the source must show for a class: (mentioned by ExportGenesis, mentioned by InitGenesis) -/
def Class.ok : Class → Bool → Bool → Bool
  | .exported, e, i => e && i
  | .normalised, e, i => e && i
  | .transient, e, i => !e && !i
  | .derived, e, i => !e && i
  | .dropped, e, _ => !e

def classOf (m f : String) : Option Class := (expected.find? (fun x => x.1 = m ∧ x.2.1 = f)).map (·.2.2)

/-- every field of the regenerated table is classified and the source treats it as its class says -/
def tableOk (t : List (String × String × String × Bool × Bool)) : Bool :=
  t.all (fun (m, f, ty, e, i) =>
    match classOf m f with
    | some c => c.ok e i && (decide (c = .transient) == (ty = "collections.ItemTransient"))
    | none => false) &&
  expected.all (fun (m, f, _) => t.any (fun x => x.1 = m ∧ x.2.1 = f))

/-! ### a module as named stores -/

abbrev Entries := List (String × String)
abbrev ModState := List (String × Entries)       -- field ↦ entries (in key order)

def fieldsOf (m : String) (c : Class) : List String := (expected.filter (fun x => x.1 = m ∧ x.2.2 = c)).map (·.2.1)

def get (s : ModState) (f : String) : Entries := (AList.find? s f).getD []

/-- ExportGenesis: the exported and normalised fields; `norm` is the projection that the export keeps of a normalised entry
    (the pair and rate of an exchange rate; an epoch without its start height) -/
def exportG (m : String) (norm : String → String) (s : ModState) : ModState :=
  (fieldsOf m .exported).map (fun f => (f, get s f)) ++
  (fieldsOf m .normalised).map (fun f => (f, (get s f).map (fun kv => (kv.1, norm kv.2))))

/-- InitGenesis on a fresh store: exported fields are restored entry by entry; normalised ones are re-stamped for the import
    context (`stamp`); derived ones are rebuilt (`derive`); transient and dropped ones start empty -/
def initG (m : String) (stamp : String → String) (derive : String → ModState → Entries) (g : ModState) : ModState :=
  (fieldsOf m .exported).map (fun f => (f, get g f)) ++
  (fieldsOf m .normalised).map (fun f => (f, (get g f).map (fun kv => (kv.1, stamp kv.2)))) ++
  (fieldsOf m .derived).map (fun f => (f, derive f g))

/-! ### the oracle's reward sequence -/

/-- `collections.Sequence`: `Next` hands out the stored value and stores value + 1 -/
def seqNext (stored : Nat) : Nat × Nat := (stored, stored + 1)

/-- what InitGenesis stores for RewardsID, by the expression found in the source -/
def rewardsIdInit (expr : String) (ids : List Nat) : Option Nat :=
  match ids.getLast? with
  | none => none                       -- no rewards: the sequence keeps its default
  | some last =>
    if expr = "data.Rewards[len(data.Rewards)-1].Id + 1" ∨ expr = "data.Rewards[len(data.Rewards)-1].Id+1" then some (last + 1)
    else if expr = "data.Rewards[len(data.Rewards)-1].Id" then some last
    else none

end Nibiru.Genesis
