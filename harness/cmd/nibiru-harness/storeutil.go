package main

import (
	"strings"
	"crypto/sha256"
	"encoding/hex"
	"sort"

	storetypes "github.com/cosmos/cosmos-sdk/store/types"
	sdk "github.com/cosmos/cosmos-sdk/types"
	banktypes "github.com/cosmos/cosmos-sdk/x/bank/types"

	"github.com/NibiruChain/nibiru/v2/app"
)

// customStores: the KV stores of Nibiru's own modules plus the SDK stores they write into.
var allStoreNames = []string{
	"acc", "bank", "staking", "distribution", "slashing", "gov", "authz", "feegrant", "params", "upgrade", "evidence",
	"wasm", "evm", "oracle", "epochs", "inflation", "sudo", "devgas", "tokenfactory", "mint", "crisis",
}

// digestSkip, when set, excludes individual keys from storeDigest (e.g. the fee payer's gas-token balance).
var digestSkip func(store string, key []byte) bool

// storeDigest hashes every key/value pair of one store as seen through ctx (no gas is charged: the raw multistore is read).
func storeKeyByName(nibiru *app.NibiruApp, name string) storetypes.StoreKey {
	if k := nibiru.GetKey(name); k != nil {
		return k
	}
	for _, k := range nibiru.GetStoreKeys() {
		if kv, ok := k.(*storetypes.KVStoreKey); ok && kv.Name() == name {
			return kv
		}
	}
	return nil
}

func storeDigest(nibiru *app.NibiruApp, ctx sdk.Context, name string) string {
	key := storeKeyByName(nibiru, name)
	if key == nil {
		return "-"
	}
	st := ctx.MultiStore().GetKVStore(key)
	it := st.Iterator(nil, nil)
	defer it.Close()
	h := sha256.New()
	n := 0
	for ; it.Valid(); it.Next() {
		k, v := it.Key(), it.Value()
		if digestSkip != nil && digestSkip(name, k) {
			continue
		}
		var l [8]byte
		l[0], l[1], l[2], l[3] = byte(len(k)>>24), byte(len(k)>>16), byte(len(k)>>8), byte(len(k))
		l[4], l[5], l[6], l[7] = byte(len(v)>>24), byte(len(v)>>16), byte(len(v)>>8), byte(len(v))
		h.Write(l[:])
		h.Write(k)
		h.Write(v)
		n++
	}
	return hex.EncodeToString(h.Sum(nil))[:16]
}

// storeDigests returns name -> digest for the given stores (all known stores when names is nil).
func storeDigests(nibiru *app.NibiruApp, ctx sdk.Context, names []string) map[string]string {
	if names == nil {
		names = allStoreNames
	}
	out := map[string]string{}
	for _, n := range names {
		out[n] = storeDigest(nibiru, ctx, n)
	}
	return out
}

// changedStores lists (sorted) the stores whose digest differs.
func changedStores(a, b map[string]string) []string {
	var out []string
	for k, v := range a {
		if b[k] != v {
			out = append(out, k)
		}
	}
	sort.Strings(out)
	return out
}

// dumpStore returns the raw pairs of a store (hex), for localisation and byte-for-byte comparisons.
func dumpStore(nibiru *app.NibiruApp, ctx sdk.Context, name string) [][2]string {
	key := storeKeyByName(nibiru, name)
	if key == nil {
		return nil
	}
	st := ctx.MultiStore().GetKVStore(key)
	it := st.Iterator(nil, nil)
	defer it.Close()
	var out [][2]string
	for ; it.Valid(); it.Next() {
		out = append(out, [2]string{hex.EncodeToString(it.Key()), hex.EncodeToString(it.Value())})
	}
	return out
}

// mkMetaDec: metadata with a display unit of `exp` decimals and a symbol that is itself a valid denom — the ERC20 deployed for such
// a coin reports decimals/symbol from which createFunTokenFromERC20 could build valid bank metadata again
func mkMetaDec(d, display string, exp uint32) banktypes.Metadata {
	return banktypes.Metadata{DenomUnits: []*banktypes.DenomUnit{{Denom: d, Exponent: 0}, {Denom: display, Exponent: exp}}, Base: d, Display: display,
		Name: display, Symbol: strings.ToUpper(display)}
}

func mkMetaPc(d string) banktypes.Metadata {
	return banktypes.Metadata{DenomUnits: []*banktypes.DenomUnit{{Denom: d, Exponent: 0}}, Base: d, Display: d, Name: d, Symbol: d}
}
