package main

import (
	"fmt"
	"go/ast"
	"sort"
	"strings"
)

func init() {
	extractors["commission"] = func(repo string, out *leanFile, js map[string]any) error {
		// which message types the staking-commission ante decorator inspects, and whether it looks into authz.MsgExec
		var cases []string
		found := false
		for _, sf := range loadDir(repo, "app/ante") {
			if !strings.HasSuffix(sf.rel, "commission.go") {
				continue
			}
			ast.Inspect(sf.file, func(n ast.Node) bool {
				cc, ok := n.(*ast.CaseClause)
				if !ok {
					return true
				}
				for _, e := range cc.List {
					cases = append(cases, exprString(e))
				}
				found = true
				return true
			})
			// does the file mention MsgExec unpacking at all (GetMessages)?
			ast.Inspect(sf.file, func(n ast.Node) bool {
				if se, ok := n.(*ast.SelectorExpr); ok && se.Sel.Name == "GetMessages" {
					cases = append(cases, "calls:GetMessages")
				}
				return true
			})
		}
		if !found {
			return fmt.Errorf("app/ante/commission.go: no type switch found")
		}
		sort.Strings(cases)
		uniq := cases[:0]
		for i, c := range cases {
			if i == 0 || c != cases[i-1] {
				uniq = append(uniq, c)
			}
		}
		out.f("def commissionDecoratorCases : List String := %s\n", leanStrList(uniq))
		// control flow: every return statement of checkMaxCommission with the chain of enclosing statements (a return inside the
		// loop that is not an error return would end the scan of a message list early)
		var rets []string
		for _, sf := range loadDir(repo, "app/ante") {
			if !strings.HasSuffix(sf.rel, "commission.go") {
				continue
			}
			for _, d := range sf.file.Decls {
				fd, ok := d.(*ast.FuncDecl)
				if !ok || fd.Name.Name != "checkMaxCommission" || fd.Body == nil {
					continue
				}
				rets = append(rets, returnPaths(fd.Body, "")...)
			}
		}
		out.f("def commissionDecoratorReturns : List String := %s\n", leanStrList(rets))
		return nil
	}
}

// returnPaths lists every return statement below n as "<enclosing statements>: return <exprs>", in source order; `continue` and
// `break` are listed the same way.
func returnPaths(n ast.Node, path string) []string {
	var out []string
	add := func(p, seg string) string {
		if p == "" {
			return seg
		}
		return p + " / " + seg
	}
	var walk func(n ast.Node, path string)
	walk = func(n ast.Node, path string) {
		switch x := n.(type) {
		case nil:
		case *ast.BlockStmt:
			for _, st := range x.List {
				walk(st, path)
			}
		case *ast.ReturnStmt:
			var rs []string
			for _, e := range x.Results {
				rs = append(rs, exprString(e))
			}
			out = append(out, add(path, "return "+strings.Join(rs, ", ")))
		case *ast.BranchStmt:
			out = append(out, add(path, x.Tok.String()))
		case *ast.IfStmt:
			walk(x.Body, add(path, "if "+exprString(x.Cond)))
			if x.Else != nil {
				walk(x.Else, add(path, "else"))
			}
		case *ast.ForStmt:
			walk(x.Body, add(path, "for"))
		case *ast.RangeStmt:
			walk(x.Body, add(path, "range "+exprString(x.X)))
		case *ast.TypeSwitchStmt:
			for _, c := range x.Body.List {
				walk(c, path)
			}
		case *ast.SwitchStmt:
			for _, c := range x.Body.List {
				walk(c, path)
			}
		case *ast.CaseClause:
			var cs []string
			for _, e := range x.List {
				cs = append(cs, exprString(e))
			}
			lbl := "default"
			if len(cs) > 0 {
				lbl = "case " + strings.Join(cs, ", ")
			}
			for _, st := range x.Body {
				walk(st, add(path, lbl))
			}
		case *ast.LabeledStmt:
			walk(x.Stmt, path)
		}
	}
	walk(n, path)
	return out
}
