import Generated.Facts
