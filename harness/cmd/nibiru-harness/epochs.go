package main

import (
	"fmt"
	"strings"
	"time"

	sdk "github.com/cosmos/cosmos-sdk/types"

	"github.com/NibiruChain/nibiru/v2/x/common/testutil/testapp"
	"github.com/NibiruChain/nibiru/v2/x/epochs"
	epochstypes "github.com/NibiruChain/nibiru/v2/x/epochs/types"

	"verif/harness/internal/hx"
)

func init() { runners["epochs"] = runEpochs }

// recHooks records every hook call, then forwards nothing (the model is of x/epochs alone).
type recHooks struct{ log []string }

func (h *recHooks) AfterEpochEnd(_ sdk.Context, id string, n uint64) {
	h.log = append(h.log, fmt.Sprintf("A:%s:%d", encID(id), n))
}
func (h *recHooks) BeforeEpochStart(_ sdk.Context, id string, n uint64) {
	h.log = append(h.log, fmt.Sprintf("B:%s:%d", encID(id), n))
}

// time encoding: nanoseconds since base; the zero time.Time is encoded as 0, so real times are kept ≥ 1.
var epochBase = time.Date(2020, 1, 1, 0, 0, 0, 0, time.UTC)

func encT(t time.Time) int64 {
	if t.Equal(time.Time{}) {
		return 0
	}
	return int64(t.Sub(epochBase))
}
func decT(n int64) time.Time {
	if n == 0 {
		return time.Time{}
	}
	return epochBase.Add(time.Duration(n))
}

func renderEpochs(infos []epochstypes.EpochInfo) string {
	parts := make([]string, 0, len(infos))
	for _, e := range infos {
		st := "0"
		if e.EpochCountingStarted {
			st = "1"
		}
		parts = append(parts, fmt.Sprintf("%s,%d,%d,%d,%d,%s,%d", encID(e.Identifier), encT(e.StartTime), int64(e.Duration),
			e.CurrentEpoch, encT(e.CurrentEpochStartTime), st, e.CurrentEpochStartHeight))
	}
	return strings.Join(parts, ";")
}

// encID: identifiers travel as one token of the line protocol
func encID(id string) string { return strings.ReplaceAll(id, " ", "!") } // "!" sorts where the space does: below every letter and digit

func runEpochs(r *hx.R, n int, w *hx.W, _ []string) error {
	nibiru, ctx0 := testapp.NewNibiruTestAppAndContext()
	k := nibiru.EpochsKeeper
	// identifiers with surrounding or inner whitespace are legal (only a blank one is refused) and are keys of their own
	ids := []string{"a", "b", "day", "week", "c15", "z", " day", "week ", " a ", "30 min"}
	durs := []int64{1, 5, 10, 60, 1000, 86400, -3, 7}
	for seq := 0; seq < n; seq++ {
		ctx, _ := ctx0.CacheContext()
		// clear genesis epochs so the model starts from the empty store
		for _, e := range k.AllEpochInfos(ctx) {
			_ = k.DeleteEpochInfo(ctx, e.Identifier)
		}
		w.Step("epochs reset", "ok")
		hooks := &recHooks{}
		k.SetHooks(hooks)
		now := r.Range(1, 1000)
		height := int64(1)
		steps := 5 + r.Pick(40)
		sameHeight := false
		for i := 0; i < steps; i++ {
			ctx = ctx.WithBlockHeight(height).WithBlockTime(decT(now))
			if i == 0 || r.Chance(1, 6) {
				// AddEpochInfo with a mostly valid, sometimes malformed, epoch
				id := ids[r.Pick(len(ids))]
				if r.Chance(1, 15) {
					id = ""
				} else if r.Chance(1, 30) {
					id = "  " // blank but not empty: AddEpochInfo accepts it (EpochInfo.Validate refuses only the empty string)
				}
				dur := durs[r.Pick(len(durs))] * 1_000_000_000
				if r.Chance(1, 15) {
					dur = 0
				}
				var start int64
				switch r.Pick(4) {
				case 0:
					start = 0 // zero time => block time
				case 1:
					start = now + r.Range(0, 50)*1_000_000_000 // future
				default:
					start = r.Range(1, now)
				}
				cur := uint64(0)
				started := false
				curStart := int64(0)
				if r.Chance(1, 5) { // an already-counting epoch, as an imported genesis would have
					started = true
					cur = uint64(r.Range(0, 9)) // (0: an epoch that counts from zero, as a hand-written genesis may have it)
					curStart = r.Range(1, now)
				}
				ch := r.Range(0, 5)
				if r.Chance(1, 20) {
					ch = -1
				}
				info := epochstypes.EpochInfo{Identifier: id, StartTime: decT(start), Duration: time.Duration(dur),
					CurrentEpoch: cur, CurrentEpochStartTime: decT(curStart), EpochCountingStarted: started,
					CurrentEpochStartHeight: ch}
				idTok := encID(id)
				if id == "" {
					idTok = "_"
				}
				st := "0"
				if started {
					st = "1"
				}
				op := fmt.Sprintf("epochs add %d %d %s %d %d %d %d %s %d", now, height, idTok, start, dur, cur, curStart, st, ch)
				res := hx.Recover(func() string {
					err := k.AddEpochInfo(ctx, info)
					switch {
					case err == nil:
						return "ok"
					case strings.Contains(err.Error(), "already exists"):
						return "exists"
					default:
						return "invalid"
					}
				})
				w.Count("add:" + res)
				w.Step(op, res+" | "+renderEpochs(k.AllEpochInfos(ctx)))
				// the begin blocker can run at the very height at which an epoch was added (InitGenesis at the initial height of a
				// restarted chain, an upgrade handler that adds an epoch): the recorded start height then says nothing about a tick
				sameHeight = r.Chance(1, 2)
				continue
			}
			// a block: advance time by one of several step shapes
			switch r.Pick(6) {
			case 0: // equal consecutive timestamps
			case 1:
				now += r.Range(1, 999_999_999) // sub-second
			case 2:
				now += r.Range(1, 12) * 1_000_000_000
			case 3:
				now += 5 * 1_000_000_000 // exact multiples: boundary hits
			case 4:
				now += r.Range(1, 100) * 60 * 1_000_000_000
			case 5:
				now += r.Range(1, 5) * 86400 * 1_000_000_000
			}
			if sameHeight {
				sameHeight = false
			} else {
				height++
			}
			ctx = ctx.WithBlockHeight(height).WithBlockTime(decT(now))
			hooks.log = nil
			res := hx.Recover(func() string {
				epochs.BeginBlocker(ctx, *k)
				return strings.Join(hooks.log, " ")
			})
			if len(hooks.log) > 0 {
				w.Count("block:advance")
			} else {
				w.Count("block:idle")
			}
			w.Step(fmt.Sprintf("epochs block %d %d", now, height), res+" | "+renderEpochs(k.AllEpochInfos(ctx)))
		}
	}
	return nil
}
