/-
  NibiruModel.SdkDec — cosmossdk.io/math v1.4.0 LegacyDec (18-digit fixed point) on raw integers.
  A decimal `d` is represented by its raw `big.Int` (value × 10^18).  `big.Int.Quo` truncates toward zero = `Int.tdiv`.
  The range assertion (|raw| ≤ 2^256·10^18, panic otherwise) is exposed as `inRange`; the operations themselves are total.
-/
import NibiruModel.Prelude
namespace Nibiru.Dec

def prec : Int := 1000000000000000000
def half : Int := 500000000000000000

/-- chopPrecisionAndRound on a non-negative raw value (banker's rounding of x / 10^18) -/
def chopRoundNat (x : Int) : Int :=
  let q := x / prec
  let r := x % prec
  if r = 0 then q
  else if r < half then q
  else if r > half then q + 1
  else if q % 2 = 0 then q else q + 1

/-- chopPrecisionAndRound -/
def chopRound (x : Int) : Int :=
  if x < 0 then - chopRoundNat (-x) else chopRoundNat x

def ofInt (i : Int) : Int := i * prec
def mul (a b : Int) : Int := chopRound (a * b)
def mulTruncate (a b : Int) : Int := Int.tdiv (a * b) prec
/-- `Quo`; the caller guarantees `b ≠ 0` (Go panics on division by zero) -/
def quo (a b : Int) : Int := chopRound (Int.tdiv (a * prec * prec) b)
def quoTruncate (a b : Int) : Int := Int.tdiv (a * prec) b
def mulInt (a i : Int) : Int := a * i
def quoInt (a i : Int) : Int := Int.tdiv a i
def truncateInt (a : Int) : Int := Int.tdiv a prec
def roundInt (a : Int) : Int := chopRound a

def upperLimit : Int := 2 ^ 256 * prec
def inRange (a : Int) : Bool := decide (-upperLimit ≤ a) && decide (a ≤ upperLimit)

/-- the `for i := power; i > 1;` loop of `PowerMut` -/
def powerLoop : Nat → Nat → Int → Int → Int × Int
  | 0, _, d, tmp => (d, tmp)
  | fuel + 1, i, d, tmp =>
    if i ≤ 1 then (d, tmp)
    else
      let tmp' := if i % 2 ≠ 0 then mul tmp d else tmp
      powerLoop fuel (i / 2) (mul d d) tmp'

def power (d : Int) (n : Nat) : Int :=
  if n = 0 then prec
  else
    let (d', tmp) := powerLoop n n d prec
    mul d' tmp

/-! line protocol for the arithmetic correspondence:  `dec <op> a b` -/
def step (args : List String) : String :=
  match args with
  | [op, a, b] =>
    match parseInt? a, parseInt? b with
    | some a, some b =>
      let r : Option Int :=
        match op with
        | "mul" => some (mul a b)
        | "mulTruncate" => some (mulTruncate a b)
        | "quo" => if b = 0 then none else some (quo a b)
        | "quoTruncate" => if b = 0 then none else some (quoTruncate a b)
        | "mulInt" => some (mulInt a b)
        | "quoInt" => if b = 0 then none else some (quoInt a b)
        | "truncateInt" => some (truncateInt a)
        | "roundInt" => some (roundInt a)
        | "power" => some (power a b.toNat)
        | _ => none
      match r with
      | some r => if inRange r || op = "quoInt" || op = "truncateInt" || op = "roundInt" then toString r else "panic"
      | none => "bad-op"
    | _, _ => "bad-op"
  | _ => "bad-op"

end Nibiru.Dec
