/-
  SDBSpecCommit — what the reference's end-of-transaction write-back (`GethSpec.commit`) persists, per address:
  an address that is not materialised in the transaction is untouched; a materialised one that self-destructed or ended empty is
  removed (its storage wiped if it self-destructed or was created in the transaction); any other gets its nonce, code and balance
  and, for every slot, the value the transaction state shows for it (`stateOf`).
-/
import NibiruModel.GethSpec
import NibiruProofs.SDBCommit

namespace Nibiru.GethSpec
open Nibiru

theorem insertSortedNat_eq (l : List Nat) (x : Nat) : GethSpec.insertSortedNat l x = SDB.insertSortedNat l x := by
  induction l with
  | nil => rfl
  | cons y ys ih => simp only [GethSpec.insertSortedNat, SDB.insertSortedNat, ih]

theorem sortNat_eq (l : List Nat) : GethSpec.sortNat l = SDB.sortNat l := by
  have : GethSpec.insertSortedNat = SDB.insertSortedNat := funext fun l => funext fun x => insertSortedNat_eq l x
  unfold GethSpec.sortNat SDB.sortNat
  rw [this]

def writeSlots (a : Nat) (kvs : List (Nat × Nat)) (b : Base) : Base :=
  kvs.foldl (fun (acc : Base) kv => { acc with storage := AList.set acc.storage (a, kv.1) kv.2 }) b

def dead (o : Acc) : Bool := o.suicided || (o.nonce = 0 && o.balance = 0 && o.code = 0)

/-- one address of the write-back -/
def commitStep (objs : List (Nat × Acc)) (b : Base) (a : Nat) : Base :=
  match AList.find? objs a with
  | none => b
  | some o =>
    let wiped : Base := if o.suicided || o.fresh then { b with storage := b.storage.filter (fun e => e.1.1 ≠ a) } else b
    if o.suicided || (o.nonce = 0 && o.balance = 0 && o.code = 0) then { wiped with accts := AList.erase wiped.accts a }
    else writeSlots a o.storage.reverse { wiped with accts := AList.set wiped.accts a (o.nonce, o.code, o.balance) }

theorem commit_base (g : G) : (commit g).base = (sortNat (g.tx.objs.map (·.1))).foldl (commitStep g.tx.objs) g.base := rfl

/-! ### slots -/

theorem writeSlots_accts (a : Nat) (kvs : List (Nat × Nat)) (b : Base) : (writeSlots a kvs b).accts = b.accts := by
  unfold writeSlots
  exact SDB.foldl_const (fun (acc : Base) (kv : Nat × Nat) => { acc with storage := AList.set acc.storage (a, kv.1) kv.2 })
    (fun (acc : Base) => acc.accts) (fun _ _ => rfl) kvs b

theorem writeSlots_slot_ne (a a' k : Nat) (kvs : List (Nat × Nat)) (b : Base) (h : a ≠ a') :
    (writeSlots a kvs b).slot a' k = b.slot a' k := by
  unfold writeSlots
  refine SDB.foldl_const (fun (acc : Base) (kv : Nat × Nat) => { acc with storage := AList.set acc.storage (a, kv.1) kv.2 })
    (fun (acc : Base) => acc.slot a' k) (fun acc kv => ?_) kvs b
  unfold Base.slot
  have : ((a, kv.1) : Nat × Nat) ≠ (a', k) := fun e => h (congrArg Prod.fst e)
  simp only
  rw [AList.find?_set_ne _ _ _ _ this]

theorem writeSlots_append (a : Nat) (l1 l2 : List (Nat × Nat)) (b : Base) :
    writeSlots a (l1 ++ l2) b = writeSlots a l2 (writeSlots a l1 b) := by
  unfold writeSlots; rw [List.foldl_append]

/-- writing the pairs in reverse order makes the FIRST pair of a key win — what `AList.find?` returns -/
theorem writeSlots_slot_rev (a k : Nat) (kvs : List (Nat × Nat)) (b : Base) :
    (writeSlots a kvs.reverse b).slot a k = (match AList.find? kvs k with | some v => v | none => b.slot a k) := by
  induction kvs with
  | nil => rfl
  | cons kv t ih =>
    obtain ⟨k0, v0⟩ := kv
    rw [List.reverse_cons, writeSlots_append]
    show (Base.slot { (writeSlots a t.reverse b) with storage := AList.set (writeSlots a t.reverse b).storage (a, k0) v0 } a k) = _
    unfold Base.slot
    by_cases hk : k0 = k
    · subst hk
      simp only [AList.find?_set_self, Option.getD_some, AList.find?, if_true]
    · have hne : ((a, k0) : Nat × Nat) ≠ (a, k) := fun e => hk (congrArg Prod.snd e)
      simp only [AList.find?, hk, if_false]
      rw [AList.find?_set_ne _ _ _ _ hne]
      exact ih

theorem find?_filter_out {κ ν : Type} [DecidableEq κ] (m : AList κ ν) (p : κ → Bool) (k : κ) (hp : p k = false) :
    AList.find? (m.filter (fun e => p e.1)) k = none := by
  induction m with
  | nil => rfl
  | cons e t ih =>
    obtain ⟨k', v⟩ := e
    by_cases h2 : p k' = true
    · have hne : k' ≠ k := fun e => by rw [e, hp] at h2; cases h2
      simp [List.filter, h2, AList.find?, hne, ih]
    · simp [List.filter, h2, ih]

theorem slot_wiped_self (b : Base) (a k : Nat) : Base.slot { b with storage := b.storage.filter (fun e => e.1.1 ≠ a) } a k = 0 := by
  unfold Base.slot
  have := find?_filter_out b.storage (fun key => decide (key.1 ≠ a)) (a, k) (by simp)
  simp only at this ⊢
  rw [this]; rfl

theorem slot_wiped_ne (b : Base) (a a' k : Nat) (h : a ≠ a') :
    Base.slot { b with storage := b.storage.filter (fun e => e.1.1 ≠ a) } a' k = b.slot a' k := by
  unfold Base.slot
  have := SDB.find?_filter_key b.storage (fun key => decide (key.1 ≠ a)) (a', k) (by simp; exact fun e => h e.symm)
  simp only at this ⊢
  rw [this]

/-! ### one step, seen from an address -/

def view (a : Nat) (b : Base) : Option (Nat × Nat × Int) × (Nat → Nat) := (AList.find? b.accts a, fun k => b.slot a k)

theorem commitStep_frame (objs : List (Nat × Acc)) (a : Nat) (b : Base) (a' : Nat) (h : a' ≠ a) :
    view a (commitStep objs b a') = view a b := by
  unfold commitStep
  cases hf : AList.find? objs a' with
  | none => rfl
  | some o =>
    simp only
    have hw : ∀ (w : Base), w = (if (o.suicided || o.fresh) = true then { b with storage := b.storage.filter (fun e => e.1.1 ≠ a') } else b) →
        AList.find? w.accts a = AList.find? b.accts a ∧ ∀ k, w.slot a k = b.slot a k := by
      intro w hw
      subst hw
      split
      · exact ⟨rfl, fun k => slot_wiped_ne b a' a k h⟩
      · exact ⟨rfl, fun _ => rfl⟩
    obtain ⟨w1, w2⟩ := hw _ rfl
    unfold view
    split
    · simp only
      rw [AList.find?_erase_ne _ _ _ h, w1]
      congr 1
      funext k
      exact w2 k
    · rw [writeSlots_accts]
      simp only
      rw [AList.find?_set_ne _ _ _ _ h, w1]
      congr 1
      funext k
      rw [writeSlots_slot_ne _ _ _ _ _ h]
      exact w2 k

/-- the committed value of a slot as the transaction state defines it, over an arbitrary persisted base -/
def committedIn (b : Base) (a : Nat) (o : Acc) (k : Nat) : Nat := if o.fresh then 0 else b.slot a k
def stateIn (b : Base) (a : Nat) (o : Acc) (k : Nat) : Nat :=
  match AList.find? o.storage k with
  | some v => v
  | none => committedIn b a o k

theorem commitStep_at (objs : List (Nat × Acc)) (a : Nat) (b : Base) (o : Acc) (ho : AList.find? objs a = some o) :
    view a (commitStep objs b a) =
      (if dead o then none else some (o.nonce, o.code, o.balance),
       fun k => if dead o then (if o.suicided || o.fresh then 0 else b.slot a k) else stateIn b a o k) := by
  unfold commitStep
  rw [ho]
  simp only
  unfold view dead
  cases hd : (o.suicided || (o.nonce = 0 && o.balance = 0 && o.code = 0)) with
  | true =>
    simp only [if_true]
    rw [AList.find?_erase_self]
    congr 1
    funext k
    cases hw : (o.suicided || o.fresh) with
    | true => simp only [if_true]; exact slot_wiped_self b a k
    | false => simp only [Bool.false_eq_true, if_false]; rfl
  | false =>
    simp only [Bool.false_eq_true, if_false]
    rw [writeSlots_accts]
    simp only
    rw [AList.find?_set_self]
    congr 1
    funext k
    rw [writeSlots_slot_rev]
    unfold stateIn committedIn
    have hs : o.suicided = false := by
      cases h : o.suicided with
      | false => rfl
      | true => rw [h] at hd; simp at hd
    cases AList.find? o.storage k with
    | some v => rfl
    | none =>
      simp only [hs, Bool.false_or]
      cases hf : o.fresh with
      | true => simp only [if_true]; exact slot_wiped_self b a k
      | false => simp only [Bool.false_eq_true, if_false]; rfl

/-! ### the whole write-back -/

theorem commit_untouched (g : G) (a : Nat) (h : AList.find? g.tx.objs a = none) : view a (commit g).base = view a g.base := by
  rw [commit_base, sortNat_eq]
  apply SDB.foldl_notin (commitStep g.tx.objs) (view a) a (fun acc b hb => commitStep_frame g.tx.objs a acc b hb)
  rw [SDB.mem_sortNat]
  exact (SDB.find?_none_iff g.tx.objs a).mp h

theorem commit_at (g : G) (a : Nat) (o : Acc) (h : AList.find? g.tx.objs a = some o) :
    view a (commit g).base =
      (if dead o then none else some (o.nonce, o.code, o.balance),
       fun k => if dead o then (if o.suicided || o.fresh then 0 else g.base.slot a k) else stateOf g a o k) := by
  have hin : a ∈ g.tx.objs.map (·.1) := by
    apply Classical.byContradiction
    intro hn
    rw [(SDB.find?_none_iff g.tx.objs a).mpr hn] at h
    cases h
  obtain ⟨acc', h1, h2⟩ := SDB.foldl_at (commitStep g.tx.objs) (view a) a (fun acc b hb => commitStep_frame g.tx.objs a acc b hb)
    (SDB.sortNat (g.tx.objs.map (·.1))) g.base (SDB.sortNat_nodup _) (by rw [SDB.mem_sortNat]; exact hin)
  rw [commit_base, sortNat_eq, h2, commitStep_at g.tx.objs a acc' o h]
  have hslot : ∀ k, acc'.slot a k = g.base.slot a k := fun k => congrFun (congrArg Prod.snd h1) k
  congr 1
  funext k
  cases hd : dead o with
  | true => simp only [if_true]; rw [hslot k]
  | false =>
    simp only [Bool.false_eq_true, if_false]
    unfold stateIn committedIn stateOf committedOf
    cases AList.find? o.storage k with
    | some v => rfl
    | none => simp only; rw [hslot k]

end Nibiru.GethSpec
