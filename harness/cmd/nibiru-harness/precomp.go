package main

// precomp: C08 — Nibiru precompiles (FunToken 0x800, Wasm 0x802, Oracle 0x801) under arbitrary calldata and call contexts.
//
//   L1  "pc run …"  : evm.RunPrecompiledContract on the real precompile object with an input slice whose len and cap are
//                     controlled; the stage at which the call is rejected (or a recovered panic) is the observation that the
//                     Lean model (NibiruModel/Precompile.lean) must predict.
//   L2  "pc tx …"   : a signed Ethereum tx through the real msg server; the call reaches the precompile directly (top level) or
//                     through a generic proxy contract (CALL / STATICCALL / DELEGATECALL / CALLCODE, optionally nested under a
//                     STATICCALL frame); observations: recovered panic, outcome of the tx, success flag of the sub-call, gas the
//                     sub-call consumed vs forwarded, and which module stores changed.  Judged by the C08 oracle.

import (
	"fmt"
	"math/big"
	"os"
	"strings"

	sdk "github.com/cosmos/cosmos-sdk/types"
	authtypes "github.com/cosmos/cosmos-sdk/x/auth/types"
	gethabi "github.com/ethereum/go-ethereum/accounts/abi"
	gethcommon "github.com/ethereum/go-ethereum/common"
	"github.com/ethereum/go-ethereum/core/vm"
	"github.com/ethereum/go-ethereum/crypto"

	"github.com/NibiruChain/nibiru/v2/eth"
	"github.com/NibiruChain/nibiru/v2/x/common/asset"
	"github.com/NibiruChain/nibiru/v2/x/common/testutil/testapp"
	"github.com/NibiruChain/nibiru/v2/x/evm"
	"github.com/NibiruChain/nibiru/v2/x/evm/embeds"
	"github.com/NibiruChain/nibiru/v2/x/evm/evmtest"
	"github.com/NibiruChain/nibiru/v2/x/evm/precompile"
	"github.com/NibiruChain/nibiru/v2/x/evm/statedb"

	"verif/harness/internal/easm"
	"verif/harness/internal/hx"
)

func init() {
	runners["precomp"] = func(r *hx.R, n int, w *hx.W, a []string) error { return runPrecomp(r, n, w, "l1") }
	runners["precomptx"] = func(r *hx.R, n int, w *hx.W, a []string) error { return runPrecomp(r, n, w, "l2") }
}

// proxyRuntime: calldata = kind(1) | target(20) | value(32) | gas(32; 0 = all) | callSize(32; 2^256-1 = payload length) | payload.
// Copies the payload to memory offset 0, performs the call of the given kind with input mem[0:callSize], never reverts, and
// returns success(32) | gas consumed around the call(32) | returndata.  With the high bit of `kind` set the frame REVERTs
// (with the same data) after the call, so that everything done inside it is undone.
// calldata of FunToken.whoAmI("nibi1qqq…") used by the proxy's optional preceding query call
var proxyWhoAmI = func() []byte {
	in, err := embeds.SmartContract_FunToken.ABI.Pack("whoAmI", "0x1111111111111111111111111111111111111111")
	if err != nil {
		panic(err)
	}
	return in
}()

func proxyRuntime() []byte {
	a := easm.New()
	a.Push(117).Op(easm.CALLDATASIZE, easm.SUB) // plen
	a.Op(easm.DUP1).Push(117).Push(0).Op(easm.CALLDATACOPY)
	a.Push(85).Op(easm.CALLDATALOAD).Op(easm.DUP1, easm.NOT, easm.ISZERO).JumpiTo("useplen")
	a.Op(easm.SWAP1, easm.POP).JumpTo("go")
	a.Label("useplen").Op(easm.POP)
	a.Label("go").Push(0x8000).Op(easm.MSTORE)
	a.Push(53).Op(easm.CALLDATALOAD).Op(easm.DUP1).JumpiTo("g")
	a.Op(easm.POP, easm.GAS)
	a.Label("g").Push(0x8020).Op(easm.MSTORE)
	a.Push(0).Op(easm.CALLDATALOAD).Push(0xf8).Op(easm.SHR)
	a.Op(easm.DUP1).Push(0x80).Op(easm.AND).Push(0x8060).Op(easm.MSTORE) // revert flag
	a.Push(0x7f).Op(easm.AND)
	// flag 0x40: first a successful, log-free query call to the FunToken precompile (whoAmI) by plain CALL with zero value, so that
	// the call under test follows another precompile call with nothing journaled in between
	a.Op(easm.DUP1).Push(0x40).Op(easm.AND, easm.ISZERO).JumpiTo("noq")
	for off := 0; off < len(proxyWhoAmI); off += 32 {
		chunk := make([]byte, 32)
		copy(chunk, proxyWhoAmI[off:])
		a.PushBytes(chunk).Push(int64(0xA000 + off)).Op(easm.MSTORE)
	}
	a.Push(0).Push(0).Push(int64(len(proxyWhoAmI))).Push(0xA000).Push(0).PushBytes(precompile.PrecompileAddr_FunToken.Bytes()).Op(easm.GAS, easm.CALL, easm.POP)
	a.Label("noq").Push(0x3f).Op(easm.AND)
	a.Op(easm.DUP1).Push(1).Op(easm.EQ).JumpiTo("static")
	a.Op(easm.DUP1).Push(2).Op(easm.EQ).JumpiTo("deleg")
	a.Op(easm.DUP1).Push(3).Op(easm.EQ).JumpiTo("callcode")
	addr := func() { a.Push(1).Op(easm.CALLDATALOAD).Push(96).Op(easm.SHR) }
	pre := func() { a.Op(easm.POP); a.Op(easm.GAS).Push(0x8040).Op(easm.MSTORE); a.Push(0).Push(0).Push(0x8000).Op(easm.MLOAD).Push(0) }
	// CALL
	pre()
	a.Push(21).Op(easm.CALLDATALOAD)
	addr()
	a.Push(0x8020).Op(easm.MLOAD).Op(easm.CALL).JumpTo("done")
	a.Label("static")
	pre()
	addr()
	a.Push(0x8020).Op(easm.MLOAD).Op(easm.STATICCALL).JumpTo("done")
	a.Label("deleg")
	pre()
	addr()
	a.Push(0x8020).Op(easm.MLOAD).Op(easm.DELEGATECALL).JumpTo("done")
	a.Label("callcode")
	pre()
	a.Push(21).Op(easm.CALLDATALOAD)
	addr()
	a.Push(0x8020).Op(easm.MLOAD).Op(easm.CALLCODE)
	a.Label("done")
	a.Op(easm.GAS).Push(0x8040).Op(easm.MLOAD).Op(easm.SUB).Push(0x9020).Op(easm.MSTORE)
	a.Push(0x9000).Op(easm.MSTORE)
	a.Op(easm.RETURNDATASIZE).Push(0).Push(0x9040).Op(easm.RETURNDATACOPY)
	a.Push(0x8060).Op(easm.MLOAD).JumpiTo("rev")
	a.Op(easm.RETURNDATASIZE).Push(0x40).Op(easm.ADD).Push(0x9000).Op(easm.RETURN)
	a.Label("rev").Op(easm.RETURNDATASIZE).Push(0x40).Op(easm.ADD).Push(0x9000).Op(easm.REVERT)
	return a.Bytes()
}

var maxU256 = new(big.Int).Sub(new(big.Int).Lsh(big.NewInt(1), 256), big.NewInt(1))

func u256(b *big.Int) []byte { return gethcommon.LeftPadBytes(b.Bytes(), 32) }

func proxyCalldata(kind byte, target gethcommon.Address, value *big.Int, gas uint64, callSize *big.Int, payload []byte) []byte {
	out := []byte{kind}
	out = append(out, target.Bytes()...)
	out = append(out, u256(value)...)
	out = append(out, u256(new(big.Int).SetUint64(gas))...)
	out = append(out, u256(callSize)...)
	return append(out, payload...)
}

type pcInfo struct {
	name string
	addr gethcommon.Address
	abi  *gethabi.ABI
}

type pcGen struct {
	r       *hx.R
	pcs     []pcInfo
	sender  evmtest.EthPrivKeyAcc
	proxy   gethcommon.Address
	erc20   gethcommon.Address
	wasmC   string
	strs    []string // address-like strings
	denoms  []string
	pairs   []string
}

type funds = []struct {
	Denom  string   `json:"denom"`
	Amount *big.Int `json:"amount"`
}

func (g *pcGen) amount() *big.Int {
	switch g.r.Pick(7) {
	case 0:
		return big.NewInt(0)
	case 1:
		return big.NewInt(g.r.Range(1, 50))
	case 2:
		return new(big.Int).Set(maxU256)
	case 3:
		return new(big.Int).Lsh(big.NewInt(1), 255)
	case 4:
		return new(big.Int).Add(new(big.Int).Lsh(big.NewInt(1), 63), big.NewInt(g.r.Range(-1, 1)))
	default:
		return big.NewInt(g.r.Range(1, 1000))
	}
}
func (g *pcGen) str() string   { return g.strs[g.r.Pick(len(g.strs))] }
func (g *pcGen) denom() string { return g.denoms[g.r.Pick(len(g.denoms))] }
func (g *pcGen) addrArg() gethcommon.Address {
	switch g.r.Pick(4) {
	case 0:
		return g.sender.EthAddr
	case 1:
		return g.proxy
	case 2:
		return g.erc20
	default:
		var a gethcommon.Address
		g.r.Read(a[:])
		return a
	}
}
func (g *pcGen) fundsArg() funds {
	n := g.r.Pick(3)
	f := funds{}
	if g.r.Chance(1, 5) { // repeated denom, amounts whose sum leaves 256 bits
		d := g.denom()
		if g.r.Chance(2, 3) {
			d = "unibi"
		}
		for i := 0; i < 2+g.r.Pick(2); i++ {
			amt := new(big.Int).Set(maxU256)
			if g.r.Chance(1, 3) {
				amt = new(big.Int).Lsh(big.NewInt(1), 255)
			}
			f = append(f, struct {
				Denom  string   `json:"denom"`
				Amount *big.Int `json:"amount"`
			}{d, amt})
		}
		return f
	}
	for i := 0; i < n; i++ {
		f = append(f, struct {
			Denom  string   `json:"denom"`
			Amount *big.Int `json:"amount"`
		}{g.denom(), g.amount()})
	}
	return f
}
func (g *pcGen) bytesArg() []byte {
	switch g.r.Pick(4) {
	case 0:
		return []byte(`{}`)
	case 1:
		return []byte(`{"change_owner":{"owner":"` + g.sender.NibiruAddr.String() + `"}}`)
	case 2:
		return []byte{}
	default:
		b := make([]byte, g.r.Pick(40))
		g.r.Read(b)
		return b
	}
}

// validArgs builds well-typed arguments for a method (values may still be semantically invalid).
func (g *pcGen) validArgs(pc string, m gethabi.Method) []any {
	if g.r.Chance(1, 3) {
		// canonical, semantically valid arguments: the call is expected to do its job when the context allows it
		small := big.NewInt(g.r.Range(1, 20))
		switch pc + "." + m.Name {
		case "funtoken.sendToBank":
			return []any{g.erc20, small, g.sender.NibiruAddr.String()}
		case "funtoken.sendToEvm":
			return []any{"ulog", small, g.sender.EthAddr.Hex()}
		case "funtoken.bankMsgSend":
			d := "ulog"
			if g.r.Chance(1, 2) {
				d = "unibi"
			}
			return []any{g.sender.NibiruAddr.String(), d, small}
		case "funtoken.balance":
			return []any{g.sender.EthAddr, g.erc20}
		case "funtoken.bankBalance":
			return []any{g.sender.EthAddr, "ulog"}
		case "funtoken.whoAmI":
			return []any{g.sender.NibiruAddr.String()}
		case "funtoken.getErc20Address":
			return []any{"ulog"}
		case "wasm.execute":
			return []any{g.wasmC, []byte(`{"change_owner":{"owner":"` + g.sender.NibiruAddr.String() + `"}}`), funds{}}
		case "wasm.query":
			return []any{g.wasmC, []byte(`{"owner":{}}`)}
		case "wasm.queryRaw":
			return []any{g.wasmC, []byte("config")}
		case "wasm.instantiate":
			return []any{"", uint64(1), []byte(`{}`), "label", funds{}}
		case "oracle.queryExchangeRate", "oracle.chainLinkLatestRoundData":
			return []any{"unibi:uusd"}
		}
	}
	switch pc + "." + m.Name {
	case "funtoken.sendToBank":
		e := g.erc20
		if g.r.Chance(1, 4) {
			e = g.addrArg()
		}
		return []any{e, g.amount(), g.str()}
	case "funtoken.balance":
		return []any{g.addrArg(), g.addrArg()}
	case "funtoken.bankBalance":
		return []any{g.addrArg(), g.denom()}
	case "funtoken.whoAmI":
		return []any{g.str()}
	case "funtoken.sendToEvm":
		return []any{g.denom(), g.amount(), g.str()}
	case "funtoken.bankMsgSend":
		return []any{g.str(), g.denom(), g.amount()}
	case "funtoken.getErc20Address":
		return []any{g.denom()}
	case "wasm.execute":
		return []any{g.wasmOrStr(), g.bytesArg(), g.fundsArg()}
	case "wasm.query":
		return []any{g.wasmOrStr(), g.bytesArg()}
	case "wasm.queryRaw":
		return []any{g.wasmOrStr(), g.bytesArg()}
	case "wasm.instantiate":
		return []any{g.str(), uint64(g.r.Pick(3)), g.bytesArg(), "label", g.fundsArg()}
	case "wasm.executeMulti":
		type em = struct {
			ContractAddr string `json:"contractAddr"`
			MsgArgs      []byte `json:"msgArgs"`
			Funds        funds  `json:"funds"`
		}
		var l []em
		for i := 0; i < g.r.Pick(3); i++ {
			l = append(l, em{g.wasmOrStr(), g.bytesArg(), g.fundsArg()})
		}
		return []any{l}
	case "oracle.queryExchangeRate", "oracle.chainLinkLatestRoundData":
		return []any{g.pairs[g.r.Pick(len(g.pairs))]}
	}
	return nil
}

func (g *pcGen) wasmOrStr() string {
	if g.r.Chance(2, 3) {
		return g.wasmC
	}
	return g.str()
}

// calldata returns (precompile, input bytes, origin label).
func (g *pcGen) calldata() (pcInfo, []byte, string) {
	pc := g.pcs[g.r.Pick(len(g.pcs))]
	names := make([]string, 0, len(pc.abi.Methods))
	for n := range pc.abi.Methods {
		names = append(names, n)
	}
	sortStrings(names)
	switch g.r.Pick(12) {
	case 0: // raw short
		b := make([]byte, g.r.Pick(4))
		g.r.Read(b)
		return pc, b, "short"
	case 1: // unknown selector + junk
		b := make([]byte, 4+g.r.Pick(70))
		g.r.Read(b)
		return pc, b, "junk"
	}
	m := pc.abi.Methods[names[g.r.Pick(len(names))]]
	args := g.validArgs(pc.name, m)
	packed, err := m.Inputs.Pack(args...)
	if err != nil {
		// cannot happen for well-typed args; fall back to selector only
		return pc, append([]byte{}, m.ID...), "sel-only"
	}
	in := append(append([]byte{}, m.ID...), packed...)
	switch g.r.Pick(10) {
	case 0: // truncate
		if len(in) > 4 {
			in = in[:4+g.r.Pick(len(in)-4)]
		}
		return pc, in, "trunc:" + m.Name
	case 1: // extend
		extra := make([]byte, 1+g.r.Pick(40))
		g.r.Read(extra)
		return pc, append(in, extra...), "ext:" + m.Name
	case 2: // corrupt a head word (offsets / lengths)
		if len(in) >= 36 {
			w := 4 + 32*g.r.Pick((len(in)-4)/32)
			switch g.r.Pick(3) {
			case 0:
				copy(in[w:w+32], u256(maxU256))
			case 1:
				copy(in[w:w+32], u256(new(big.Int).Lsh(big.NewInt(1), 64)))
			default:
				in[w+31] ^= byte(1 + g.r.Pick(255))
			}
		}
		return pc, in, "corrupt:" + m.Name
	case 3: // selector only
		return pc, in[:4], "sel-only:" + m.Name
	}
	return pc, in, "typed:" + m.Name
}

func sortStrings(s []string) {
	for i := 1; i < len(s); i++ {
		for j := i; j > 0 && s[j] < s[j-1]; j-- {
			s[j], s[j-1] = s[j-1], s[j]
		}
	}
}

func methodBySel(abi *gethabi.ABI, sel []byte) string {
	if len(sel) < 4 {
		return "-"
	}
	for _, m := range abi.Methods {
		if string(m.ID) == string(sel[:4]) {
			return m.Name
		}
	}
	return "-"
}

// argInfo: what the model needs about the decoded arguments (computed with geth's own decoder, a trusted parameter).
func argInfo(pc pcInfo, in []byte) (unpack string, extra string) {
	if len(in) < 4 {
		return "-", ""
	}
	name := methodBySel(pc.abi, in)
	if name == "-" {
		return "-", ""
	}
	m := pc.abi.Methods[name]
	args, err := m.Inputs.Unpack(in[4:])
	if err != nil {
		return "0", ""
	}
	switch pc.name + "." + name {
	case "funtoken.bankMsgSend":
		to, _ := args[0].(string)
		denom, _ := args[1].(string)
		toOk := 0
		if eth.ValidateAddress(to) == nil {
			toOk = 1
		} else if _, e := sdk.AccAddressFromBech32(to); e == nil {
			toOk = 1
		}
		return "1", fmt.Sprintf(" toOk=%d denom=%s", toOk, hexOrDash(denom))
	case "funtoken.sendToEvm", "funtoken.getErc20Address":
		denom, _ := args[0].(string)
		return "1", fmt.Sprintf(" denom=%s", hexOrDash(denom))
	case "oracle.queryExchangeRate", "oracle.chainLinkLatestRoundData":
		p, _ := args[0].(string)
		ok := 0
		if _, e := asset.TryNewPair(p); e == nil {
			ok = 1
		}
		return "1", fmt.Sprintf(" pairOk=%d", ok)
	}
	return "1", ""
}

func classifyPcErr(err error) string {
	if err == nil {
		return "run"
	}
	if err == vm.ErrOutOfGas {
		return "oog"
	}
	s := err.Error()
	switch {
	case strings.Contains(s, "too short to extract method ID"):
		return "short"
	case strings.Contains(s, "unable to parse ABI method"):
		return "nomethod"
	case strings.Contains(s, "unable to unpack input args"):
		return "unpack"
	case strings.Contains(s, "cannot be called in a read-only context"):
		return "readonly"
	case strings.Contains(s, "funds (wei value) must not be expended"):
		return "value"
	}
	return "run"
}

func runPrecomp(r *hx.R, n int, w *hx.W, mode string) error {
	deps := evmtest.NewTestDeps()
	k := deps.EvmKeeper
	one18 := new(big.Int).Exp(big.NewInt(10), big.NewInt(18), nil)
	fund := func(a sdk.AccAddress, denom string, amt *big.Int) {
		if err := testapp.FundAccount(deps.App.BankKeeper, deps.Ctx, a, sdk.NewCoins(sdk.NewCoin(denom, sdk.NewIntFromBigInt(amt)))); err != nil {
			panic(err)
		}
	}
	fund(deps.Sender.NibiruAddr, "unibi", one18)
	_ = testapp.FundModuleAccount(deps.App.BankKeeper, deps.Ctx, authtypes.FeeCollectorName, sdk.NewCoins(sdk.NewCoin("unibi", sdk.NewIntFromBigInt(one18))))
	gasPrice := big.NewInt(0)
	nonce := k.GetAccNonce(deps.Ctx, deps.Sender.EthAddr)
	dmsg, err := signedEthTx(&deps, deps.Sender, nonce, nil, big.NewInt(0), 2_000_000, gasPrice, easm.Deployer(proxyRuntime()))
	if err != nil {
		return err
	}
	if resp, err := k.EthereumTx(sdk.WrapSDKContext(deps.Ctx), dmsg); err != nil || resp.VmError != "" {
		return fmt.Errorf("deploy proxy: %v %v", err, resp)
	}
	proxy := crypto.CreateAddress(deps.Sender.EthAddr, nonce)
	nonce++
	// coin-born FunToken "ulog"
	deps.App.BankKeeper.SetDenomMetaData(deps.Ctx, mkMetaPc("ulog"))
	_ = testapp.FundAccount(deps.App.BankKeeper, deps.Ctx, deps.Sender.NibiruAddr, k.FeeForCreateFunToken(deps.Ctx).MulInt(sdk.NewInt(10)))
	if _, err := k.CreateFunToken(sdk.WrapSDKContext(deps.Ctx), &evm.MsgCreateFunToken{FromBankDenom: "ulog", Sender: deps.Sender.NibiruAddr.String()}); err != nil {
		return fmt.Errorf("create funtoken: %w", err)
	}
	fts := k.FunTokens.Collect(deps.Ctx, k.FunTokens.Indexes.BankDenom.ExactMatch(deps.Ctx, "ulog"))
	if len(fts) != 1 {
		return fmt.Errorf("funtoken mapping missing")
	}
	erc20 := fts[0].Erc20Addr.Address
	proxyNibi := eth.EthAddrToNibiruAddr(proxy)
	fund(deps.Sender.NibiruAddr, "ulog", big.NewInt(1_000_000))
	fund(proxyNibi, "ulog", big.NewInt(1_000_000))
	fund(proxyNibi, "unibi", big.NewInt(1_000_000))
	// give the sender and the proxy some ERC20 "ulog" too
	if _, err := k.ConvertCoinToEvm(sdk.WrapSDKContext(deps.Ctx), &evm.MsgConvertCoinToEvm{
		Sender: deps.Sender.NibiruAddr.String(), BankCoin: sdk.NewInt64Coin("ulog", 5000), ToEthAddr: eth.EIP55Addr{Address: proxy}}); err != nil {
		return fmt.Errorf("convert: %w", err)
	}
	if _, err := k.ConvertCoinToEvm(sdk.WrapSDKContext(deps.Ctx), &evm.MsgConvertCoinToEvm{
		Sender: deps.Sender.NibiruAddr.String(), BankCoin: sdk.NewInt64Coin("ulog", 5000), ToEthAddr: eth.EIP55Addr{Address: deps.Sender.EthAddr}}); err != nil {
		return fmt.Errorf("convert: %w", err)
	}
	deps.App.OracleKeeper.SetPrice(deps.Ctx, asset.MustNewPair("unibi:uusd"), sdk.MustNewDecFromStr("1.25"))
	// a wasm contract
	wasmCode, err := os.ReadFile(os.Getenv("VERIF_REPO_DIR") + "/x/devgas/v1/keeper/testdata/reflect.wasm")
	if err != nil {
		wasmCode, err = os.ReadFile("/repo/x/devgas/v1/keeper/testdata/reflect.wasm")
		if err != nil {
			return err
		}
	}
	fund(deps.Sender.NibiruAddr, "stake", big.NewInt(1000))
	wasmC := mustInstantiate(deps.App, deps.Ctx, wasmCode, deps.Sender.NibiruAddr.String(), "")
	nonce = k.GetAccNonce(deps.Ctx, deps.Sender.EthAddr)

	g := &pcGen{r: r, sender: deps.Sender, proxy: proxy, erc20: erc20, wasmC: wasmC,
		pcs: []pcInfo{
			{"funtoken", precompile.PrecompileAddr_FunToken, embeds.SmartContract_FunToken.ABI},
			{"wasm", precompile.PrecompileAddr_Wasm, embeds.SmartContract_Wasm.ABI},
			{"oracle", precompile.PrecompileAddr_Oracle, embeds.SmartContract_Oracle.ABI},
		},
		strs: []string{deps.Sender.NibiruAddr.String(), proxyNibi.String(), deps.Sender.EthAddr.Hex(), proxy.Hex(), "", "nibi1invalid", "0x123",
			strings.ToUpper(deps.Sender.NibiruAddr.String()), "cosmos1qqqqqqqqqqqqqqqqqqqqqqqqqqqqqqqqnrql8a", wasmC},
		denoms: []string{"unibi", "ulog", "", "x", "ab\x00cd", "1abc", "UPPER!!", "tf/" + deps.Sender.NibiruAddr.String() + "/sub", "a b", strings.Repeat("d", 129), "erc20/" + erc20.Hex(),
			// shaped like a tokenfactory denom ("tf/<creator>/<subdenom>") but not a valid bank denom: a null character, a blank, a
			// control character, an over-long subdenom — what only a per-section format check lets through
			"tf/a/b\x00c", "tf/" + deps.Sender.NibiruAddr.String() + "/s\x00b", "tf/\x00/x", "tf/a/b c", "tf/a/\x07", "tf/a/" + strings.Repeat("s", 200), "tf/a/b/c", "tf//x"},
		pairs:  []string{"unibi:uusd", "ubtc:uusd", "", "nopair", "a:b:c", "unibi:"},
	}
	base := deps.Ctx
	digestNames := []string{"bank", "evm", "wasm", "oracle", "tokenfactory", "staking", "distribution", "sudo", "devgas", "inflation", "epochs", "authz", "gov"}
	// the fee bookkeeping of the tx itself (signer and fee collector, gas token) is not an effect of the precompile call
	feeKeys := map[string]bool{}
	for _, a := range []sdk.AccAddress{deps.Sender.NibiruAddr, deps.App.AccountKeeper.GetModuleAddress(authtypes.FeeCollectorName)} {
		feeKeys[string(append(append([]byte{0x02, byte(len(a))}, a...), []byte("unibi")...))] = true
	}
	digestSkip = func(store string, key []byte) bool { return store == "bank" && feeKeys[string(key)] }
	for _, nm := range digestNames {
		if storeKeyByName(deps.App, nm) == nil {
			return fmt.Errorf("store %s not found", nm)
		}
	}

	for i := 0; i < n; i++ {
		pc, in, origin := g.calldata()
		// aimed (L2): a mutation that fails LATE — wasm.execute moves the caller's funds to the contract and only then runs the
		// contract, which rejects the message; everything it wrote must be undone with the failed sub-call
		lateFail := mode != "l1" && r.Chance(1, 12)
		if lateFail {
			var err error
			if r.Chance(1, 2) {
				pc = g.pcs[1]
				in, err = pc.abi.Pack("execute", g.wasmC, []byte(`{"no_such_message":{}}`), funds{{Denom: []string{"ulog", "unibi"}[r.Pick(2)], Amount: big.NewInt(r.Range(1, 9))}})
				origin = "aimed:late-failing-execute"
			} else {
				// FunToken.sendToEvm escrows the caller's coins in the bank first and mints the ERC20 afterwards; minting to the zero
				// address reverts
				pc = g.pcs[0]
				in, err = pc.abi.Pack("sendToEvm", "ulog", big.NewInt(r.Range(1, 9)), "0x0000000000000000000000000000000000000000")
				origin = "aimed:late-failing-sendToEvm"
			}
			if err != nil {
				return err
			}
		}
		w.Count("in:" + strings.SplitN(origin, ":", 2)[0])
		if mode == "l1" {
			// ---------------- L1: direct RunPrecompiledContract with controlled len/cap
			lenN := len(in)
			capN := lenN
			buf := in
			if lenN < 4 && r.Chance(1, 2) {
				// a short slice of a larger buffer (what the interpreter passes: a window into EVM memory)
				full := make([]byte, 32)
				copy(full, in)
				if r.Chance(1, 2) { // the bytes beyond the window spell a real selector
					names := []string{}
					for nm := range pc.abi.Methods {
						names = append(names, nm)
					}
					sortStrings(names)
					m := pc.abi.Methods[names[r.Pick(len(names))]]
					copy(full, m.ID)
				}
				buf = full
				capN = 32
			} else {
				buf = make([]byte, lenN)
				copy(buf, in)
			}
			input := buf[:lenN]
			readOnly := r.Chance(1, 3)
			value := big.NewInt(0)
			if r.Chance(1, 4) {
				value = big.NewInt(r.Range(1, 5) * 1_000_000_000_000)
			}
			var gas uint64
			switch r.Pick(5) {
			case 0:
				gas = uint64(r.Range(0, 3000))
			case 1:
				gas = uint64(r.Range(20_000, 24_000))
			default:
				gas = 5_000_000
			}
			selCap, selLen := "-", "-"
			if capN >= 4 {
				selCap = methodBySel(pc.abi, buf[:4])
			}
			if lenN >= 4 {
				selLen = methodBySel(pc.abi, input[:4])
			}
			unpack, extra := argInfo(pc, input)
			op := fmt.Sprintf("pc run pc=%s len=%d cap=%d selCap=%s selLen=%s unpack=%s ro=%d val=%d gas=%d%s", pc.name, lenN, capN, selCap, selLen,
				unpack, b2i(readOnly), b2i(value.Sign() != 0), gas, extra)
			cctx, _ := base.CacheContext()
			var left uint64
			obs := hx.Recover(func() string {
				sdb := k.NewStateDB(cctx, statedb.NewEmptyTxConfig(gethcommon.BytesToHash(cctx.HeaderHash())))
				evmObj := k.NewEVM(cctx, evmtest.MOCK_GETH_MESSAGE, k.GetEVMConfig(cctx), evm.NewNoOpTracer(), sdb)
				p, ok := evmObj.Precompile(pc.addr)
				if !ok {
					return "noprecompile"
				}
				_, l, err := evmObj.RunPrecompiledContract(p, vm.AccountRef(deps.Sender.EthAddr), input, gas, value, readOnly)
				left = l
				if l > gas {
					return "gas-left-exceeds-supplied"
				}
				return classifyPcErr(err)
			})
			k.Bank.StateDB = nil
			_ = left
			w.Count("L1:" + obs)
			if obs == "panic" {
				pm := strings.ReplaceAll(hx.LastPanic, " ", "_")
				if len(pm) > 60 {
					pm = pm[:60]
				}
				w.Count("L1panic:" + pm)
			}
			w.Step(op, obs)
			continue
		}
		// ---------------- L2: through the real msg server
		shape := r.Pick(7) // 0 top, 1 call, 2 static, 3 delegate, 4 callcode, 5 static>call (nested), 6 call>static
		if lateFail {
			shape = 1
		}
		var fwd uint64
		switch r.Pick(4) {
		case 0:
			fwd = uint64(r.Range(0, 4000))
		case 1:
			fwd = uint64(r.Range(20_000, 60_000))
		case 2:
			fwd = 0 // all available
		default:
			// exactly what the precompile's RequiredGas asks for this input (the flat cost the fork deducts before Run), or one
			// next to it: Run then starts with (next to) nothing left
			_ = hx.Recover(func() string {
				qctx, _ := base.CacheContext()
				sdb := k.NewStateDB(qctx, statedb.NewEmptyTxConfig(gethcommon.BytesToHash(qctx.HeaderHash())))
				evmObj := k.NewEVM(qctx, evmtest.MOCK_GETH_MESSAGE, k.GetEVMConfig(qctx), evm.NewNoOpTracer(), sdb)
				if p, ok := evmObj.Precompile(pc.addr); ok {
					fwd = uint64(int64(p.RequiredGas(in)) + r.Range(-1, 1))
				}
				return "ok"
			})
			k.Bank.StateDB = nil
		}
		value := big.NewInt(0)
		if r.Chance(1, 5) {
			value = big.NewInt(r.Range(1, 3) * 1_000_000_000_000)
		}
		if lateFail && r.Chance(3, 4) { // let the aimed call get far enough to fail late: all gas, no value
			fwd, value = 0, big.NewInt(0)
		}
		callSize := new(big.Int).Set(maxU256)
		sizeLabel := "full"
		if len(in) >= 4 && r.Chance(1, 8) {
			// the memory window is shorter than a selector while the bytes behind it spell one
			callSize = big.NewInt(int64(r.Pick(4)))
			sizeLabel = callSize.String()
		}
		var to gethcommon.Address
		var data []byte
		kinds := []byte{0, 0, 1, 2, 3}
		shapeName := []string{"top", "call", "static", "delegate", "callcode", "static>call", "call>static"}[shape]
		switch shape {
		case 0:
			to, data = pc.addr, in
			sizeLabel = "full"
		case 1, 2, 3, 4:
			if shape != 1 && shape != 4 {
				value = big.NewInt(0)
			}
			kind := kinds[shape]
			if r.Chance(1, 4) || (lateFail && r.Chance(2, 3)) { // preceded by a query call to a precompile (see proxyRuntime)
				kind |= 0x40
				shapeName = "query+" + shapeName
			}
			to, data = proxy, proxyCalldata(kind, pc.addr, value, fwd, callSize, in)
		case 5:
			inner := proxyCalldata(0, pc.addr, big.NewInt(0), fwd, callSize, in)
			to, data = proxy, proxyCalldata(1, proxy, big.NewInt(0), 0, maxU256, inner)
			value = big.NewInt(0)
		case 6:
			inner := proxyCalldata(1, pc.addr, big.NewInt(0), fwd, callSize, in)
			to, data = proxy, proxyCalldata(0, proxy, big.NewInt(0), 0, maxU256, inner)
			value = big.NewInt(0)
		}
		txValue := big.NewInt(0)
		if shape == 0 {
			txValue = value
		}
		sel := methodBySel(pc.abi, in)
		unpack, _ := argInfo(pc, in)
		op := fmt.Sprintf("pc tx shape=%s pc=%s sel=%s unpack=%s origin=%s size=%s val=%d fwd=%d len=%d", shapeName, pc.name, sel, unpack,
			strings.ReplaceAll(origin, " ", "_"), sizeLabel, b2i(value.Sign() != 0), fwd, len(in))
		msg, err := signedEthTx(&deps, deps.Sender, nonce, &to, txValue, 3_000_000, gasPrice, data)
		if err != nil {
			return err
		}
		// reference: the same call with all the gas forwarded, on a branch of its own — how much the sub-call really costs
		need := "-"
		if fwd > 0 && shape >= 1 && shape <= 4 {
			kindRef := kinds[shape]
			refMsg, err := signedEthTx(&deps, deps.Sender, nonce, &to, txValue, 3_000_000, gasPrice, proxyCalldata(kindRef, pc.addr, value, 0, callSize, in))
			if err == nil {
				rctx, _ := base.CacheContext()
				_ = hx.Recover(func() string {
					resp, err := k.EthereumTx(sdk.WrapSDKContext(rctx), refMsg)
					if err == nil && resp.VmError == "" && len(resp.Ret) >= 64 {
						need = fmt.Sprintf("%d:%d", new(big.Int).SetBytes(resp.Ret[:32]).Uint64(), new(big.Int).SetBytes(resp.Ret[32:64]).Uint64())
					}
					return "ok"
				})
				k.Bank.StateDB = nil
			}
		}
		cctx, _ := base.CacheContext()
		before := storeDigests(deps.App, cctx, digestNames)
		var detail string
		res := hx.Recover(func() string {
			resp, err := k.EthereumTx(sdk.WrapSDKContext(cctx), msg)
			if err != nil {
				detail = "sub=- used=0"
				return "txerr"
			}
			if shape == 0 {
				if resp.VmError != "" {
					detail = fmt.Sprintf("sub=0 used=%d", resp.GasUsed)
					return "vmerr"
				}
				detail = fmt.Sprintf("sub=1 used=%d", resp.GasUsed)
				return "ok"
			}
			if resp.VmError != "" {
				detail = "sub=- used=0"
				return "vmerr" // the proxy itself failed: it never should
			}
			ret := resp.Ret
			if len(ret) < 64 {
				detail = "sub=- used=0"
				return "badret"
			}
			sub := new(big.Int).SetBytes(ret[:32]).Uint64()
			used := new(big.Int).SetBytes(ret[32:64]).Uint64()
			if shape >= 5 {
				// outer result wraps the inner proxy's return
				inner := ret[64:]
				if sub == 1 && len(inner) >= 64 {
					sub = new(big.Int).SetBytes(inner[:32]).Uint64()
					used = new(big.Int).SetBytes(inner[32:64]).Uint64()
				} else {
					detail = "sub=- used=0"
					return "innerfail"
				}
			}
			detail = fmt.Sprintf("sub=%d used=%d", sub, used)
			return "ok"
		})
		k.Bank.StateDB = nil
		if res == "panic" {
			detail = "sub=- used=0 msg=" + strings.ReplaceAll(hx.LastPanic, " ", "_")
		}
		after := storeDigests(deps.App, cctx, digestNames)
		if os.Getenv("VERIF_DEBUG_DIFF") != "" {
			bctx, _ := base.CacheContext()
			a, b := dumpStore(deps.App, bctx, "bank"), dumpStore(deps.App, cctx, "bank")
			am := map[string]string{}
			for _, kv := range a {
				am[kv[0]] = kv[1]
			}
			for _, kv := range b {
				if am[kv[0]] != kv[1] {
					fmt.Fprintf(os.Stderr, "DIFF %s: %s -> %s\n", kv[0], am[kv[0]], kv[1])
				}
			}
		}
		ch := changedStores(before, after)
		w.Count("L2:" + shapeName)
		w.Count("L2res:" + res)
		w.Step(op, fmt.Sprintf("%s %s changed=%s need=%s", res, detail, items(ch), need))
	}
	return nil
}

func b2i(b bool) int {
	if b {
		return 1
	}
	return 0
}
