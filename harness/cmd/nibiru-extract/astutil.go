package main

import (
	"go/ast"
	"go/parser"
	"go/printer"
	"go/token"
	"os"
	"path/filepath"
	"sort"
	"strings"
)

type srcFile struct {
	rel  string // path relative to the repo root
	file *ast.File
}

var (
	fset      = token.NewFileSet()
	fileCache = map[string][]srcFile{}
)

// loadDir parses every non-test, non-generated Go file below dir (relative to the repo root).
func loadDir(repo, dir string) []srcFile {
	key := repo + "|" + dir
	if v, ok := fileCache[key]; ok {
		return v
	}
	var out []srcFile
	root := filepath.Join(repo, dir)
	_ = filepath.Walk(root, func(p string, info os.FileInfo, err error) error {
		if err != nil || info.IsDir() {
			return nil
		}
		if !strings.HasSuffix(p, ".go") || strings.HasSuffix(p, "_test.go") || strings.HasSuffix(p, ".pb.go") || strings.HasSuffix(p, ".pb.gw.go") {
			return nil
		}
		f, err := parser.ParseFile(fset, p, nil, parser.SkipObjectResolution)
		if err != nil {
			return nil
		}
		rel, _ := filepath.Rel(repo, p)
		out = append(out, srcFile{rel, f})
		return nil
	})
	sort.Slice(out, func(i, j int) bool { return out[i].rel < out[j].rel })
	fileCache[key] = out
	return out
}

func printerFprint(sb *strings.Builder, n any) error { return printer.Fprint(sb, fset, n) }

func exprString(e ast.Expr) string {
	var sb strings.Builder
	_ = printer.Fprint(&sb, fset, e)
	return strings.Join(strings.Fields(sb.String()), " ")
}

func funcName(fd *ast.FuncDecl) string {
	if fd.Recv != nil && len(fd.Recv.List) > 0 {
		t := exprString(fd.Recv.List[0].Type)
		t = strings.TrimPrefix(t, "*")
		return t + "." + fd.Name.Name
	}
	return fd.Name.Name
}

// callSites returns "dir:Func" for every call of a method/function named `name` in the given dirs, in source order per file.
type callSite struct {
	where string
	call  *ast.CallExpr
	fn    *ast.FuncDecl
}

func callSites(repo string, dirs []string, name string) []callSite {
	var out []callSite
	for _, d := range dirs {
		for _, sf := range loadDir(repo, d) {
			for _, decl := range sf.file.Decls {
				fd, ok := decl.(*ast.FuncDecl)
				if !ok || fd.Body == nil {
					continue
				}
				ast.Inspect(fd.Body, func(n ast.Node) bool {
					ce, ok := n.(*ast.CallExpr)
					if !ok {
						return true
					}
					var callee string
					switch f := ce.Fun.(type) {
					case *ast.SelectorExpr:
						callee = f.Sel.Name
					case *ast.Ident:
						callee = f.Name
					}
					if callee == name {
						out = append(out, callSite{filepath.Dir(sf.rel) + ":" + funcName(fd), ce, fd})
					}
					return true
				})
			}
		}
	}
	return out
}

func findFunc(repo, dir, name string) *ast.FuncDecl {
	for _, sf := range loadDir(repo, dir) {
		for _, decl := range sf.file.Decls {
			if fd, ok := decl.(*ast.FuncDecl); ok && funcName(fd) == name {
				return fd
			}
		}
	}
	return nil
}
