/-
  C18 — Dev-gas payouts are bounded by the paying tx's fee and go to registered owners.
  Theorems about NibiruModel.DevGas (x/devgas/v1/ante/ante.go, x/devgas/v1/keeper/msg_server.go).
-/
import NibiruModel.DevGas
import NibiruProofs.DecLemmas
import Generated.Facts
namespace Nibiru.DevGas
open Nibiru.Dec

/-! ### rounding -/

theorem chopRoundNat_bounds (q : Int) (hq : 0 ≤ q) :
    2 * (chopRoundNat q * prec) ≤ 2 * q + prec ∧ 2 * q ≤ 2 * (chopRoundNat q * prec) + prec := by
  unfold chopRoundNat prec half
  simp only
  split
  · omega
  · split
    · omega
    · split
      · omega
      · split <;> omega

/-- **Payout bound per denom.** With `n` recipients, a fee coin of amount `c` and DeveloperShares `share` (raw, 10^18-scaled),
    each recipient gets `r = round(⌊share·c / n⌋)` and `n · r ≤ share·c/10^18 + n/2`: the total never exceeds the share of the fee by
    more than half a base unit per recipient. -/
theorem C18_payout_bound (share c : Int) (n : Nat) (hs : 0 ≤ share) (hc : 0 ≤ c) (hn : 0 < n) :
    let r := roundInt (quoInt (mulInt share c) n)
    2 * ((n : Int) * r * prec) ≤ 2 * (share * c) + n * prec ∧ 0 ≤ r := by
  intro r
  have hx : 0 ≤ share * c := Int.mul_nonneg hs hc
  have hq : quoInt (mulInt share c) n = (share * c) / (n : Int) := by
    unfold quoInt mulInt; exact Int.tdiv_eq_ediv_of_nonneg hx
  have hq0 : 0 ≤ (share * c) / (n : Int) := Int.ediv_nonneg hx (by omega)
  have hr : r = chopRoundNat ((share * c) / (n : Int)) := by
    show roundInt _ = _
    unfold roundInt chopRound
    rw [hq]
    have : ¬ ((share * c) / (n : Int) < 0) := by omega
    simp [this]
  obtain ⟨b1, b2⟩ := chopRoundNat_bounds _ hq0
  rw [← hr] at b1 b2
  have hnq : (n : Int) * ((share * c) / (n : Int)) ≤ share * c := Int.mul_ediv_self_le (by omega)
  constructor
  · -- multiply b1 by n
    have hmul : (n : Int) * (2 * (r * prec)) ≤ (n : Int) * (2 * ((share * c) / (n : Int)) + prec) :=
      Int.mul_le_mul_of_nonneg_left b1 (by omega)
    have e1 : (n : Int) * (2 * (r * prec)) = 2 * ((n : Int) * r * prec) := by
      rw [Int.mul_left_comm, Int.mul_assoc]
    have e2 : (n : Int) * (2 * ((share * c) / (n : Int)) + prec) = 2 * ((n : Int) * ((share * c) / (n : Int))) + n * prec := by
      rw [Int.mul_add, Int.mul_left_comm]
    rw [e1, e2] at hmul
    omega
  · -- r ≥ 0
    unfold prec at b2
    have : 0 ≤ r * 1000000000000000000 := by omega
    omega

/-- the fees on which the payout is computed are the transaction's own fee coins, restricted to the allowed denoms -/
theorem C18_allowed_fees_subset (p : Params) (fees : Coins) (c : String × Int) (h : c ∈ allowedFees p fees) :
    c ∈ fees ∧ (p.allowed = [] ∨ c.1 ∈ p.allowed) := by
  unfold allowedFees at h
  split at h
  · rename_i he; exact ⟨h, Or.inl (by simpa using he)⟩
  · obtain ⟨h1, h2⟩ := List.mem_filter.mp h
    exact ⟨h1, Or.inr (List.contains_iff_mem.mp h2)⟩

/-- every coin paid to a recipient comes from one allowed fee coin of the tx and obeys the bound -/
theorem C18_feePay_bound (fees : Coins) (share : Int) (n : Nat) (hs : 0 ≤ share) (hn : 0 < n)
    (hpos : ∀ c ∈ fees, 0 ≤ c.2) (x : String × Int) (hx : x ∈ feePay fees share n) :
    ∃ c ∈ fees, c.1 = x.1 ∧ 2 * ((n : Int) * x.2 * prec) ≤ 2 * (share * c.2) + n * prec ∧ 0 < x.2 := by
  unfold feePay at hx
  obtain ⟨c, hc, hcx⟩ := List.mem_filterMap.mp hx
  simp only at hcx
  split at hcx
  · cases hcx
  · rename_i hr
    injection hcx with e
    subst e
    obtain ⟨b, b0⟩ := C18_payout_bound share c.2 n hs (hpos c hc) hn
    refine ⟨c, hc, rfl, b, ?_⟩
    simp only at b0 hr ⊢
    omega

/-- **Nothing is paid when fee sharing is disabled or no executed contract is registered.** -/
theorem C18_nothing_when_disabled_or_unregistered (s : State) (fees : Coins) (targets : List String) (collector : Coins) :
    (s.params.enabled = false → ∀ each to, payout s fees targets collector ≠ .paid each to) ∧
    (recipients s targets = some [] → ∀ each to, payout s fees targets collector ≠ .paid each to) := by
  constructor
  · intro h each to; unfold payout; simp [h]
  · intro h each to; unfold payout; rw [h]; split <;> simp

/-- **Equal split among the registered contracts executed.** Whenever something is paid, the recipients are exactly the
    withdrawers of the registered top-level contract executions (in order, once per execution) and each gets the same coins. -/
theorem C18_equal_split (s : State) (fees : Coins) (targets : List String) (collector : Coins) (each : Coins) (to : List String)
    (h : payout s fees targets collector = .paid each to) :
    recipients s targets = some to ∧ to ≠ [] ∧ each = feePay (allowedFees s.params fees) s.params.share to.length := by
  unfold payout at h
  split at h; · cases h
  split at h
  · cases h
  · cases h
  · rename_i to' hne hrec
    simp only at h
    split at h
    · injection h with e1 e2
      subst e2
      exact ⟨hrec, by intro e; subst e; exact hne rfl, e1.symm⟩
    · cases h

/-- only registered contracts with a decodable withdrawer are paid -/
theorem recipients_registered (s : State) (targets to : List String) (h : recipients s targets = some to) :
    ∀ w ∈ to, ∃ c ∈ targets, ∃ fs, AList.find? s.registry c = some fs ∧ fs.withdrawer = w := by
  induction targets generalizing to with
  | nil => simp [recipients] at h; subst h; intro w hw; cases hw
  | cons c cs ih =>
    unfold recipients at h
    split at h; · cases h
    cases hr : recipients s cs with
    | none => simp [hr] at h
    | some rest =>
      simp only [hr] at h
      cases hf : AList.find? s.registry c with
      | none =>
        simp only [hf] at h; injection h with e; subst e
        intro w hw
        obtain ⟨c', hc', rest'⟩ := ih rest hr w hw
        exact ⟨c', List.mem_cons_of_mem _ hc', rest'⟩
      | some fs =>
        simp only [hf] at h
        split at h
        · injection h with e; subst e
          intro w hw
          rcases List.mem_cons.mp hw with e | e
          · exact ⟨c, List.mem_cons_self, fs, hf, e.symm⟩
          · obtain ⟨c', hc', rest'⟩ := ih rest hr w e
            exact ⟨c', List.mem_cons_of_mem _ hc', rest'⟩
        · injection h with e; subst e
          intro w hw
          obtain ⟨c', hc', rest'⟩ := ih rest hr w hw
          exact ⟨c', List.mem_cons_of_mem _ hc', rest'⟩

/-! ### registry authorisation -/

theorem run_fst_of_err (s : State) (g : Option Err) (eff : State) (e : Err) (h : (run s g eff).2 = some e) : (run s g eff).1 = s := by
  unfold run at *; cases g <;> simp_all

theorem run_ok_iff (s : State) (g : Option Err) (eff : State) : (run s g eff).2 = none ↔ g = none := by
  unfold run; cases g <;> simp

theorem orElse_none {α : Type} (a b : Option α) : (a <|> b) = none ↔ a = none ∧ b = none := by
  cases a <;> simp

/-- **Rejected registry messages change nothing.** -/
theorem C18_rejected_no_change (s : State) (c snd w : String) (e : Err) :
    ((register s c snd w).2 = some e → (register s c snd w).1 = s) ∧
    ((update s c snd w).2 = some e → (update s c snd w).1 = s) ∧
    ((cancel s c snd).2 = some e → (cancel s c snd).1 = s) :=
  ⟨run_fst_of_err _ _ _ e, run_fst_of_err _ _ _ e, run_fst_of_err _ _ _ e⟩

/-- **Who may register.** An accepted registration is made by the contract's admin (or its creator when it has no admin), or the
    contract is factory-created and names itself as withdrawer. -/
theorem C18_register_auth (s : State) (c snd w : String) (h : (register s c snd w).2 = none) :
    ∃ info, AList.find? s.contracts c = some info ∧
      ((isFactory s info snd = true ∧ w = c) ∨ (isFactory s info snd = false ∧ isAdminOrCreator info snd = true)) := by
  unfold register at h
  rw [run_ok_iff] at h
  unfold registerGuard at h
  rw [orElse_none] at h
  obtain ⟨_, h2⟩ := h
  cases hf : AList.find? s.contracts c with
  | none => simp [hf] at h2
  | some info =>
    simp only [hf] at h2
    refine ⟨info, rfl, ?_⟩
    cases hfac : isFactory s info snd
    · right
      simp only [hfac, Bool.false_eq_true, if_false] at h2
      refine ⟨rfl, ?_⟩
      cases ha : isAdminOrCreator info snd
      · simp [ha] at h2
      · rfl
    · left
      simp only [hfac, if_true] at h2
      refine ⟨rfl, ?_⟩
      by_cases hw : w = c
      · exact hw
      · simp [hw] at h2

/-- **Who may redirect or cancel.** Only the contract's admin, or its creator when it has no admin. -/
theorem C18_update_cancel_auth (s : State) (c snd w : String) :
    ((update s c snd w).2 = none → ∃ info, AList.find? s.contracts c = some info ∧ isAdminOrCreator info snd = true) ∧
    ((cancel s c snd).2 = none → ∃ info, AList.find? s.contracts c = some info ∧ isAdminOrCreator info snd = true) := by
  have key : authGuard s c snd = none → ∃ info, AList.find? s.contracts c = some info ∧ isAdminOrCreator info snd = true := by
    intro h
    unfold authGuard at h
    cases hf : AList.find? s.contracts c with
    | none => simp [hf] at h
    | some info =>
      simp only [hf] at h
      refine ⟨info, rfl, ?_⟩
      cases ha : isAdminOrCreator info snd
      · simp [ha] at h
      · rfl
  constructor
  · intro h
    unfold update at h; rw [run_ok_iff] at h; unfold updateGuard at h; rw [orElse_none] at h
    exact key h.2
  · intro h
    unfold cancel at h; rw [run_ok_iff] at h; unfold cancelGuard at h; rw [orElse_none] at h
    exact key h.2

/-- `isAdminOrCreator` in the words of the property -/
theorem isAdminOrCreator_iff (info : ContractInfo) (snd : String) :
    isAdminOrCreator info snd = true ↔ (info.admin ≠ "" ∧ info.admin = snd) ∨ (info.admin = "" ∧ info.creator = snd) := by
  unfold isAdminOrCreator
  by_cases h : info.admin = "" <;> simp [h]

end Nibiru.DevGas

/-! ### T1: position of the payout decorator (regenerated from app/ante.go on every run) -/
section Facts

/-- the fee-share payout decorator is in the non-EVM chain exactly once and directly after the fee deduction: what it pays out was
    just collected from this transaction -/
theorem fact_C18_payout_after_fee_deduction :
    Generated.anteChainNonEVM.idxOf "authante.NewDeductFeeDecorator" + 1 = Generated.anteChainNonEVM.idxOf "devgasante.NewDevGasPayoutDecorator" ∧
    Generated.anteChainNonEVM.count "devgasante.NewDevGasPayoutDecorator" = 1 ∧
    Generated.anteChainEVM.count "devgasante.NewDevGasPayoutDecorator" = 0 := by decide

end Facts
