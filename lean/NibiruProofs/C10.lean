/-
  C10 — Oracle prices are the power-weighted median of a sufficient quorum.
  Theorems about NibiruModel.Oracle (x/oracle/keeper/ballot.go, update_exchange_rates.go, types/ballot.go).
-/
import NibiruProofs.OracleMedian
import Generated.Facts
namespace Nibiru.Oracle
open Nibiru.Dec

/-! ### the weighted median -/

theorem half_le_total (T : Int) (h : 0 ≤ T) : Int.tdiv T 2 ≤ T := by
  rw [Int.tdiv_eq_ediv_of_nonneg h]; omega

theorem ballotPower_nonneg (b : List BVote) (h : NonnegPowers b) : 0 ≤ ballotPower b := by
  induction b with
  | nil => simp [ballotPower, sumInts]
  | cons v vs ih =>
    rw [ballotPower_cons]
    have := h v List.mem_cons_self
    have := ih (fun x hx => h x (List.mem_cons_of_mem _ hx))
    omega

/-- **Median specification.** For a ballot with non-negative powers totalling `T ≥ 2`, the published rate is the rate of a
    vote with positive power; the votes strictly below it carry less than ⌊T/2⌋ (hence at most half), and the votes strictly
    above it carry at most T − ⌊T/2⌋ = ⌈T/2⌉. -/
theorem C10_median_spec (b : List BVote) (hnn : NonnegPowers b) (hT : 2 ≤ ballotPower b) :
    (∃ v ∈ b, v.rate = weightedMedian b ∧ 0 < v.power) ∧
    powerWhere (fun r => decide (r < weightedMedian b)) b < Int.tdiv (ballotPower b) 2 ∧
    2 * powerWhere (fun r => decide (r < weightedMedian b)) b ≤ ballotPower b ∧
    powerWhere (fun r => decide (weightedMedian b < r)) b ≤ ballotPower b - Int.tdiv (ballotPower b) 2 := by
  have hp := sortBallot_perm b
  have hs := sortBallot_sorted b
  have hnn' : NonnegPowers (sortBallot b) := NonnegPowers_perm hp hnn
  have hT' : ballotPower (sortBallot b) = ballotPower b := ballotPower_perm hp
  have hhalf : (0 : Int) < Int.tdiv (ballotPower b) 2 := by
    rw [Int.tdiv_eq_ediv_of_nonneg (by omega)]; omega
  have hreach : Int.tdiv (ballotPower (sortBallot b)) 2 ≤ 0 + ballotPower (sortBallot b) := by
    rw [hT']; have := half_le_total (ballotPower b) (by omega); omega
  have hne : sortBallot b ≠ [] := by
    intro h
    have : ballotPower b = 0 := by rw [← hT', h]; rfl
    omega
  obtain ⟨hb, v, hv, hvm, hvp⟩ := medianScan_below _ (sortBallot b) 0 hs hnn' hreach (by rw [hT']; exact hhalf)
  have hspec := medianScan_spec _ (sortBallot b) 0 hs hnn' hreach hne
  have hm : weightedMedian b = medianScan (Int.tdiv (ballotPower (sortBallot b)) 2) 0 (sortBallot b) := rfl
  rw [← hm] at hb hvm hspec
  have hbelow : powerWhere (fun r => decide (r < weightedMedian b)) b < Int.tdiv (ballotPower b) 2 := by
    rw [← powerWhere_perm _ hp, ← hT']; omega
  refine ⟨⟨v, hp.subset hv, hvm, hvp⟩, hbelow, ?_, ?_⟩
  · have := half_le_total (ballotPower b) (by omega)
    rw [Int.tdiv_eq_ediv_of_nonneg (by omega)] at hbelow; omega
  · have hsplit := powerWhere_split b (weightedMedian b)
    have hr := hspec.reach
    rw [powerWhere_perm _ hp, hT'] at hr
    omega

/-- **Order independence.** Any two rate-sorted arrangements of the same votes (Go's `sort.Sort` is unstable, and the vote store
    order is arbitrary) give the same published rate. -/
theorem C10_median_any_sort (s₁ s₂ : List BVote) (hp : s₁.Perm s₂) (h1 : Sorted s₁) (h2 : Sorted s₂)
    (hnn : NonnegPowers s₂) (hne : s₂ ≠ []) :
    weightedMedianSorted s₁ = weightedMedianSorted s₂ := by
  have hnn1 : NonnegPowers s₁ := NonnegPowers_perm hp hnn
  have hT : ballotPower s₁ = ballotPower s₂ := ballotPower_perm hp
  have hne1 : s₁ ≠ [] := by intro h; rw [h] at hp; exact hne (List.Perm.eq_nil hp.symm)
  have hr2 : Int.tdiv (ballotPower s₂) 2 ≤ 0 + ballotPower s₂ := by
    have := half_le_total _ (ballotPower_nonneg s₂ hnn); omega
  have hr1 : Int.tdiv (ballotPower s₂) 2 ≤ 0 + ballotPower s₁ := by rw [hT]; exact hr2
  have sp1 := medianScan_spec (Int.tdiv (ballotPower s₂) 2) s₁ 0 h1 hnn1 hr1 hne1
  have sp2 := medianScan_spec (Int.tdiv (ballotPower s₂) 2) s₂ 0 h2 hnn hr2 hne
  unfold weightedMedianSorted
  rw [hT]
  exact ScanSpec_unique _ s₁ s₂ hp _ _ sp1 sp2

theorem C10_median_perm_invariant (a b : List BVote) (hp : a.Perm b) (hnn : NonnegPowers b) (hne : b ≠ []) :
    weightedMedian a = weightedMedian b := by
  unfold weightedMedian
  apply C10_median_any_sort _ _ (((sortBallot_perm a).trans hp).trans (sortBallot_perm b).symm)
    (sortBallot_sorted a) (sortBallot_sorted b) (NonnegPowers_perm (sortBallot_perm b) hnn)
  intro h; have := (sortBallot_perm b).symm; rw [h] at this; exact hne (List.Perm.eq_nil this)

/-- why the property excludes ballots with less than two units of power: ⌊T/2⌋ = 0 makes the scan stop at the first (lowest)
    vote, which can be an abstention -/
theorem C10_T_lt_2_witness :
    weightedMedian [{ rate := 5, voter := "a", power := 1 }, { rate := -1, voter := "b", power := 0 }] = -1 := by decide

/-! ### which votes count -/

theorem foldl_ignore {α β : Type} (f : β → α → β) (p : α → Bool) (h : ∀ b a, p a = false → f b a = b) (l : List α) (b : β) :
    l.foldl f b = (l.filter p).foldl f b := by
  induction l generalizing b with
  | nil => rfl
  | cons a as ih =>
    cases hp : p a
    · simp [List.filter, hp, h b a hp, ih]
    · simp [List.filter, hp, ih]

/-- **Votes of validators that are not bonded have no influence**: the ballots are those of the votes whose voter is in the
    performance map (bonded validators), whatever else is in the vote store. -/
theorem C10_unbonded_votes_ignored (perfs : List Perf) (votes : List AggVote) :
    groupVotes perfs votes = groupVotes perfs (votes.filter (fun av => (findPerf perfs av.voter).isSome)) := by
  unfold groupVotes
  apply foldl_ignore
  intro m av h
  cases hf : findPerf perfs av.voter
  · rfl
  · simp [hf] at h

theorem newPerfs_bonded (vals : List Validator) (p : Perf) (h : p ∈ newPerfs vals) :
    ∃ v ∈ vals, v.bonded = true ∧ v.addr = p.addr ∧ v.power = p.power := by
  unfold newPerfs at h
  obtain ⟨v, hv, hvp⟩ := List.mem_map.mp h
  obtain ⟨hv1, hv2⟩ := List.mem_filter.mp hv
  exact ⟨v, hv1, hv2, by rw [← hvp], by rw [← hvp]⟩

/-- **Quorum rule.** A ballot survives `removeInvalidVotes` iff its pair is whitelisted and its non-abstaining votes total a
    non-zero power of at least round(VoteThreshold × bonded power) and come from at least MinVoters validators. -/
theorem C10_quorum_rule (ballots : List (String × List BVote)) (wl : List String) (tp : Int) (mv : Nat) (pb : String × List BVote) :
    pb ∈ (removeInvalid ballots wl tp mv).1 ↔
      pb ∈ ballots ∧ pb.1 ∈ wl ∧ ballotPower pb.2 ≠ 0 ∧ tp ≤ ballotPower pb.2 ∧ mv ≤ numValidVoters pb.2 := by
  unfold removeInvalid
  simp only [List.mem_filter, Bool.and_eq_true, List.contains_iff_mem]
  unfold passing
  constructor
  · rintro ⟨h1, h2, h3⟩
    refine ⟨h1, h2, ?_⟩
    simp only at h3
    split at h3; · cases h3
    split at h3; · cases h3
    split at h3; · cases h3
    refine ⟨by assumption, by omega, by omega⟩
  · rintro ⟨h1, h2, h3, h4, h5⟩
    refine ⟨h1, h2, ?_⟩
    simp only [h3, if_false]
    have : ¬ (ballotPower pb.2 < tp) := by omega
    have h6 : ¬ (numValidVoters pb.2 < mv) := by omega
    simp [this, h6]

/-! ### what is published -/

def lookupRate (rs : List Rate) (p : String) : Option Rate := rs.find? (fun r => r.pair = p)
def lookupBallot (bs : List (String × List BVote)) (p : String) : Option (List BVote) := (bs.find? (fun x => x.1 = p)).map (·.2)

theorem lookup_setRate (rs : List Rate) (r : Rate) (p : String) :
    lookupRate (setRate rs r) p = if r.pair = p then some r else lookupRate rs p := by
  induction rs with
  | nil => by_cases h : r.pair = p <;> simp [setRate, lookupRate, List.find?, h]
  | cons x xs ih =>
    unfold setRate
    by_cases h1 : r.pair < x.pair
    · simp only [h1, if_true]
      by_cases h : r.pair = p <;> simp [lookupRate, List.find?, h]
    · simp only [h1, if_false]
      by_cases h2 : r.pair = x.pair
      · simp only [h2, if_true]
        by_cases h : x.pair = p
        · have hr : r.pair = p := by rw [h2]; exact h
          simp [lookupRate, List.find?, h, hr]
        · simp [lookupRate, List.find?, h, h2]
      · simp only [h2, if_false]
        by_cases h : r.pair = p
        · have hx : ¬ x.pair = p := by rw [← h]; exact fun e => h2 e.symm
          have := ih
          simp only [lookupRate, h, if_true] at this ⊢
          simp [List.find?, hx, this]
        · have := ih
          simp only [lookupRate, h, if_false] at this ⊢
          by_cases hx : x.pair = p <;> simp [List.find?, hx, this]

def DistinctKeys (bs : List (String × List BVote)) : Prop := (bs.map (·.1)).Pairwise (· ≠ ·)

/-- the per-pair loop publishes, for every surviving ballot, its weighted median stamped with the current height, and leaves
    every other stored rate alone -/
theorem lookup_tallyAll (band : Int) (height : Nat) (bs : List (String × List BVote)) (perfs : List Perf) (rates : List Rate)
    (hd : DistinctKeys bs) (p : String) :
    lookupRate (tallyAll band height bs perfs rates).2 p =
      match lookupBallot bs p with
      | some b => some { pair := p, rate := weightedMedian b, created := height }
      | none => lookupRate rates p := by
  induction bs generalizing perfs rates with
  | nil => simp [tallyAll, lookupBallot]
  | cons x xs ih =>
    obtain ⟨pair, b⟩ := x
    have hd' := List.pairwise_cons.mp hd
    simp only [tallyAll]
    rw [ih _ _ hd'.2]
    by_cases hp : pair = p
    · subst hp
      have hnone : lookupBallot xs pair = none := by
        unfold lookupBallot
        have : xs.find? (fun x => x.1 = pair) = none := by
          apply List.find?_eq_none.mpr
          intro y hy
          have := hd'.1 y.1 (List.mem_map.mpr ⟨y, hy, rfl⟩)
          simp; exact fun e => this e.symm
        simp [this]
      have hsome : lookupBallot ((pair, b) :: xs) pair = some b := by simp [lookupBallot, List.find?]
      rw [hnone, hsome]
      simp only
      rw [lookup_setRate]; simp [tally, weightedMedian]
    · have : lookupBallot ((pair, b) :: xs) p = lookupBallot xs p := by
        simp [lookupBallot, List.find?, hp]
      rw [this]
      cases hl : lookupBallot xs p
      · simp only; rw [lookup_setRate]; simp [hp]
      · rfl

theorem mem_setRate_other (rs : List Rate) (r x : Rate) (h : x.pair ≠ r.pair) : x ∈ setRate rs r ↔ x ∈ rs := by
  induction rs with
  | nil =>
    simp only [setRate, List.mem_singleton, List.not_mem_nil, iff_false]
    intro e; exact h (by rw [e])
  | cons y ys ih =>
    unfold setRate
    have hxr : x ≠ r := fun e => h (by rw [e])
    split
    · simp [hxr]
    · split
      · rename_i h2
        simp only [List.mem_cons]
        constructor
        · rintro (e | e)
          · exact absurd e hxr
          · exact Or.inr e
        · rintro (e | e)
          · exact absurd (by rw [e]; exact h2.symm) h
          · exact Or.inr e
      · simp only [List.mem_cons, ih]

/-- rates of pairs that were not refreshed in this period are untouched by the tally loop -/
theorem mem_tallyAll_other (band : Int) (height : Nat) (bs : List (String × List BVote)) (perfs : List Perf) (rates : List Rate)
    (x : Rate) (h : x.pair ∉ bs.map (·.1)) : x ∈ (tallyAll band height bs perfs rates).2 ↔ x ∈ rates := by
  induction bs generalizing perfs rates with
  | nil => simp [tallyAll]
  | cons y ys ih =>
    obtain ⟨pair, b⟩ := y
    simp only [List.map_cons, List.mem_cons, not_or] at h
    simp only [tallyAll]
    rw [ih _ _ h.2]
    exact mem_setRate_other _ _ _ h.1

/-- **The vote targets of the next period.** The period end leaves the stored whitelist alone or replaces it by exactly the
    whitelist parameter (sorted, duplicates removed): a de-listed pair is a target of the next period only if the store was not
    rewritten at all, and no pair outside the parameter ever enters it. -/
theorem C10_next_targets_are_old_or_the_parameter (store next cur : List String) :
    refreshWhitelist store next cur = store ∨
    refreshWhitelist store next cur = sortBy (fun a b => decide (a ≤ b)) next.eraseDups := by
  unfold refreshWhitelist
  simp only
  cases (decide (cur.length ≠ next.length) || next.any fun p => !cur.contains p) with
  | true => exact Or.inr (by simp)
  | false => exact Or.inl (by simp)

/-- … and it IS rewritten whenever the parameter names a pair that the surviving set lacks or the two differ in size — in
    particular when one pair was swapped for another -/
theorem C10_refresh_when_a_new_pair_is_listed (store next cur : List String) (p : String) (hp : p ∈ next) (hn : p ∉ cur) :
    refreshWhitelist store next cur = sortBy (fun a b => decide (a ≤ b)) next.eraseDups := by
  unfold refreshWhitelist
  have h : (decide (cur.length ≠ next.length) || next.any (fun q => !cur.contains q)) = true := by
    rw [Bool.or_eq_true]
    right
    rw [List.any_eq_true]
    exact ⟨p, hp, by simp [hn]⟩
  simp only [h, if_true]

/-- **Expiry.** A stored rate whose pair is not refreshed at this period end is kept iff it is younger than
    ExpirationBlocks: it is dropped at the first period end with `created + ExpirationBlocks ≤ height`. A refreshed pair's old
    rate is always removed (and replaced by `lookup_tallyAll`). -/
theorem C10_expiry (rs : List Rate) (valid : List String) (exp height : Nat) (x : Rate) :
    x ∈ clearRates rs valid exp height ↔ x ∈ rs ∧ x.pair ∉ valid ∧ height < x.created + exp := by
  unfold clearRates
  simp only [List.mem_filter, Bool.not_eq_true', Bool.or_eq_false_iff, decide_eq_false_iff_not, List.contains_iff_mem]
  constructor
  · rintro ⟨h1, h2, h3⟩; exact ⟨h1, by simpa using h2, by omega⟩
  · rintro ⟨h1, h2, h3⟩; exact ⟨h1, by simpa using h2, by omega⟩

end Nibiru.Oracle

namespace Nibiru.Oracle

/-! ### the ballots built from the vote store -/

def KeysSorted (m : List (String × List BVote)) : Prop := (m.map (·.1)).Pairwise (· < ·)

theorem str_lt_of_not (a b : String) (h1 : ¬ a < b) (h2 : a ≠ b) : b < a := by
  by_cases h : b < a
  · exact h
  · exact absurd (String.le_antisymm (String.not_lt.mp h) (String.not_lt.mp h1)) h2

theorem addToBallot_keys (m : List (String × List BVote)) (pair : String) (v : BVote) (k : String)
    (hk : k ∈ (addToBallot m pair v).map (·.1)) : k = pair ∨ k ∈ m.map (·.1) := by
  induction m with
  | nil => simp [addToBallot] at hk; exact Or.inl hk
  | cons x xs ih =>
    obtain ⟨p, l⟩ := x
    unfold addToBallot at hk
    split at hk
    · simp only [List.map_cons, List.mem_cons] at hk ⊢
      rcases hk with h | h | h
      · exact Or.inl h
      · exact Or.inr (Or.inl h)
      · exact Or.inr (Or.inr h)
    · split at hk
      · simp only [List.map_cons, List.mem_cons] at hk ⊢; exact Or.inr hk
      · simp only [List.map_cons, List.mem_cons] at hk ⊢
        rcases hk with h | h
        · exact Or.inr (Or.inl h)
        · rcases ih h with h' | h'
          · exact Or.inl h'
          · exact Or.inr (Or.inr h')

theorem addToBallot_sorted (m : List (String × List BVote)) (pair : String) (v : BVote) (h : KeysSorted m) :
    KeysSorted (addToBallot m pair v) := by
  induction m with
  | nil => simp [addToBallot, KeysSorted]
  | cons x xs ih =>
    obtain ⟨p, l⟩ := x
    have hx := List.pairwise_cons.mp h
    unfold addToBallot
    by_cases h1 : pair < p
    · simp only [h1, if_true]
      apply List.pairwise_cons.mpr
      refine ⟨?_, h⟩
      intro a ha
      simp only [List.map_cons, List.mem_cons] at ha
      rcases ha with e | e
      · rw [e]; exact h1
      · exact String.lt_trans h1 (hx.1 a e)
    · simp only [h1, if_false]
      by_cases h2 : pair = p
      · simp only [h2, if_true]; exact h
      · simp only [h2, if_false]
        have hlt : p < pair := str_lt_of_not _ _ h1 h2
        apply List.pairwise_cons.mpr
        refine ⟨?_, ih hx.2⟩
        intro a ha
        rcases addToBallot_keys xs pair v a ha with e | e
        · rw [e]; exact hlt
        · exact hx.1 a e

theorem groupVotes_sorted (perfs : List Perf) (votes : List AggVote) : KeysSorted (groupVotes perfs votes) := by
  unfold groupVotes
  have inner : ∀ (ts : List (String × Int)) (f : (String × Int) → BVote) (m : List (String × List BVote)), KeysSorted m →
      KeysSorted (ts.foldl (fun m t => addToBallot m t.1 (f t)) m) := by
    intro ts f
    induction ts with
    | nil => intro m h; exact h
    | cons t ts ih => intro m h; exact ih _ (addToBallot_sorted m _ _ h)
  have outer : ∀ (vs : List AggVote) (m : List (String × List BVote)), KeysSorted m →
      KeysSorted (vs.foldl (fun m av =>
        match findPerf perfs av.voter with
        | none => m
        | some p => av.tuples.foldl (fun m t =>
            addToBallot m t.1 { rate := t.2, voter := av.voter, power := if t.2 > (0:Int) then p.power else 0 }) m) m) := by
    intro vs
    induction vs with
    | nil => intro m h; exact h
    | cons av vs ih =>
      intro m h
      simp only [List.foldl_cons]
      apply ih
      cases findPerf perfs av.voter with
      | none => exact h
      | some p => exact inner av.tuples _ m h
  exact outer votes [] (by simp [KeysSorted])

theorem sorted_distinct (m : List (String × List BVote)) (h : KeysSorted m) : DistinctKeys m := by
  unfold DistinctKeys KeysSorted at *
  exact h.imp (fun hlt e => by rw [e] at hlt; exact String.lt_irrefl _ hlt)

theorem removeInvalid_distinct (bs : List (String × List BVote)) (wl : List String) (tp : Int) (mv : Nat)
    (h : KeysSorted bs) : DistinctKeys (removeInvalid bs wl tp mv).1 := by
  apply sorted_distinct
  unfold removeInvalid KeysSorted at *
  simp only
  exact List.Pairwise.sublist (List.Sublist.map _ (List.filter_sublist)) h

/-- **End-to-end statement for one period end.**  With `ballots` the per-pair votes of bonded validators that pass the whitelist
    and quorum rule (`C10_quorum_rule`), after `UpdateExchangeRates` every pair `p` reads:
    the power-weighted median of its ballot, stamped with the current height, if it has a surviving ballot; otherwise its previous
    rate, provided that rate has not expired (`C10_expiry`); nothing else. -/
theorem C10_published_rates (s : State) (p : Params) (vals : List Validator) (tb : Int) (height : Nat) (pair : String) :
    let ballots := (removeInvalid (groupVotes (newPerfs vals) s.votes) s.whitelist (thresholdPower p tb) p.minVoters).1
    lookupRate (updateExchangeRates s p vals tb height).1.rates pair =
      match lookupBallot ballots pair with
      | some b => some { pair := pair, rate := weightedMedian b, created := height }
      | none => lookupRate (clearRates s.rates (ballots.map (·.1)) p.expiration height) pair := by
  intro ballots
  have hd : DistinctKeys ballots := removeInvalid_distinct _ _ _ _ (groupVotes_sorted _ _)
  have := lookup_tallyAll p.band height ballots (newPerfs vals) (clearRates s.rates (ballots.map (·.1)) p.expiration height) hd pair
  simpa [updateExchangeRates, ballots] using this

/-- ballots carry non-negative powers, and only positive rates carry power (abstentions count for nothing) -/
def WFBallot (b : List BVote) : Prop := ∀ v ∈ b, 0 ≤ v.power ∧ (0 < v.power → 0 < v.rate)

theorem addToBallot_wf (m : List (String × List BVote)) (pair : String) (v : BVote)
    (hv : 0 ≤ v.power ∧ (0 < v.power → 0 < v.rate)) (hm : ∀ pb ∈ m, WFBallot pb.2) :
    ∀ pb ∈ addToBallot m pair v, WFBallot pb.2 := by
  induction m with
  | nil =>
    intro pb hpb; simp [addToBallot] at hpb; subst hpb
    intro x hx; simp at hx; subst hx; exact hv
  | cons y ys ih =>
    obtain ⟨p, l⟩ := y
    intro pb hpb
    unfold addToBallot at hpb
    split at hpb
    · rcases List.mem_cons.mp hpb with e | e
      · subst e; intro x hx; simp at hx; subst hx; exact hv
      · exact hm pb e
    · split at hpb
      · rcases List.mem_cons.mp hpb with e | e
        · subst e
          intro x hx
          rcases List.mem_append.mp hx with h | h
          · exact hm (p, l) List.mem_cons_self x h
          · simp at h; subst h; exact hv
        · exact hm pb (List.mem_cons_of_mem _ e)
      · rcases List.mem_cons.mp hpb with e | e
        · subst e; exact hm (p, l) List.mem_cons_self
        · exact ih (fun q hq => hm q (List.mem_cons_of_mem _ hq)) pb e

theorem groupVotes_wf (perfs : List Perf) (votes : List AggVote) (hp : ∀ p ∈ perfs, 0 ≤ p.power) :
    ∀ pb ∈ groupVotes perfs votes, WFBallot pb.2 := by
  unfold groupVotes
  have inner : ∀ (ts : List (String × Int)) (voter : String) (pw : Int) (_ : 0 ≤ pw) (m : List (String × List BVote)),
      (∀ pb ∈ m, WFBallot pb.2) →
      ∀ pb ∈ ts.foldl (fun m t => addToBallot m t.1 { rate := t.2, voter := voter, power := if t.2 > (0:Int) then pw else 0 }) m,
        WFBallot pb.2 := by
    intro ts voter pw hpw
    induction ts with
    | nil => intro m h; exact h
    | cons t ts ih =>
      intro m h
      apply ih
      apply addToBallot_wf _ _ _ _ h
      by_cases ht : t.2 > 0
      · simp only [ht, if_true]; exact ⟨hpw, fun _ => trivial⟩
      · simp only [ht, if_false]; exact ⟨Int.le_refl 0, fun h => absurd h (by omega)⟩
  have outer : ∀ (vs : List AggVote) (m : List (String × List BVote)), (∀ pb ∈ m, WFBallot pb.2) →
      ∀ pb ∈ (vs.foldl (fun m av =>
        match findPerf perfs av.voter with
        | none => m
        | some p => av.tuples.foldl (fun m t =>
            addToBallot m t.1 { rate := t.2, voter := av.voter, power := if t.2 > (0:Int) then p.power else 0 }) m) m), WFBallot pb.2 := by
    intro vs
    induction vs with
    | nil => intro m h; exact h
    | cons av vs ih =>
      intro m h
      simp only [List.foldl_cons]
      apply ih
      cases hf : findPerf perfs av.voter with
      | none => exact h
      | some p =>
        have hpm : p ∈ perfs := List.mem_of_find?_eq_some hf
        exact inner av.tuples av.voter p.power (hp p hpm) m h
  exact outer votes [] (by simp)

/-- the published rate of a quorum ballot with at least two units of power is a submitted **positive** rate -/
theorem C10_median_is_positive_vote (b : List BVote) (hwf : WFBallot b) (hT : 2 ≤ ballotPower b) :
    ∃ v ∈ b, v.rate = weightedMedian b ∧ 0 < v.rate := by
  obtain ⟨⟨v, hv, hvm, hvp⟩, _⟩ := C10_median_spec b (fun x hx => (hwf x hx).1) hT
  exact ⟨v, hv, hvm, (hwf v hv).2 hvp⟩

/-- **Abstentions have no influence on the median** of a ballot with at least two units of power: adding a zero-power,
    non-positive vote (what `groupVotesByPair` makes of an abstention) leaves the published rate unchanged. -/
theorem C10_abstain_no_influence (b : List BVote) (a : BVote) (hwf : WFBallot b) (hT : 2 ≤ ballotPower b)
    (ha0 : a.power = 0) (har : a.rate ≤ 0) : weightedMedian (a :: b) = weightedMedian b := by
  have hnn : NonnegPowers b := fun x hx => (hwf x hx).1
  have hnn' : NonnegPowers (a :: b) := by
    intro x hx; rcases List.mem_cons.mp hx with e | e
    · subst e; omega
    · exact hnn x e
  have hTa : ballotPower (a :: b) = ballotPower b := by rw [ballotPower_cons, ha0]; omega
  have hhalf : (0 : Int) < Int.tdiv (ballotPower b) 2 := by
    rw [Int.tdiv_eq_ediv_of_nonneg (by omega)]; omega
  -- spec of the median of b, transported to sorted (a :: b)
  have hp := sortBallot_perm b
  have hpa := sortBallot_perm (a :: b)
  have hr : Int.tdiv (ballotPower b) 2 ≤ 0 + ballotPower (sortBallot b) := by
    rw [ballotPower_perm hp]; have := half_le_total (ballotPower b) (by omega); omega
  have hne : sortBallot b ≠ [] := by
    intro h
    have : ballotPower b = 0 := by rw [← ballotPower_perm hp, h]; rfl
    omega
  have spb := medianScan_spec (Int.tdiv (ballotPower b) 2) (sortBallot b) 0 (sortBallot_sorted b) (NonnegPowers_perm hp hnn) hr hne
  obtain ⟨v, hv, hvm, hvr⟩ := C10_median_is_positive_vote b hwf hT
  have hmb : weightedMedian b = medianScan (Int.tdiv (ballotPower b) 2) 0 (sortBallot b) := by
    unfold weightedMedian weightedMedianSorted; rw [ballotPower_perm hp]
  rw [← hmb] at spb
  have hra : Int.tdiv (ballotPower b) 2 ≤ 0 + ballotPower (sortBallot (a :: b)) := by
    rw [ballotPower_perm hpa, hTa]; have := half_le_total (ballotPower b) (by omega); omega
  have hnea : sortBallot (a :: b) ≠ [] := by
    intro h; have := hpa.symm; rw [h] at this; exact absurd (List.Perm.eq_nil this) (by simp)
  have spa := medianScan_spec (Int.tdiv (ballotPower b) 2) (sortBallot (a :: b)) 0 (sortBallot_sorted _) (NonnegPowers_perm hpa hnn') hra hnea
  have hma : weightedMedian (a :: b) = medianScan (Int.tdiv (ballotPower b) 2) 0 (sortBallot (a :: b)) := by
    unfold weightedMedian weightedMedianSorted; rw [ballotPower_perm hpa, hTa]
  rw [← hma] at spa
  -- the median of b also satisfies the spec on (a :: b); conclude by uniqueness
  have spb' : ScanSpec (Int.tdiv (ballotPower b) 2) 0 (a :: b) (weightedMedian b) := by
    have ham : a.rate ≤ weightedMedian b := by rw [← hvm]; omega
    refine ⟨⟨v, List.mem_cons_of_mem _ hv, hvm⟩, ?_, ?_⟩
    · rw [powerWhere_cons, ha0]
      have := spb.reach
      rw [powerWhere_perm _ hp] at this
      split <;> omega
    · intro x hx hlt
      rw [powerWhere_cons, ha0]
      have hz : (if (decide (a.rate ≤ x.rate)) = true then (0 : Int) else 0) = 0 := by split <;> rfl
      rw [hz]
      rcases List.mem_cons.mp hx with e | e
      · -- x is the abstention: the votes of b at or below its (non-positive) rate carry no power
        subst e
        have hzero : powerWhere (fun r => decide (r ≤ x.rate)) b = 0 := by
          have : ∀ l : List BVote, WFBallot l → powerWhere (fun r => decide (r ≤ x.rate)) l = 0 := by
            intro l hl
            induction l with
            | nil => simp [powerWhere, sumInts]
            | cons y ys ih =>
              rw [powerWhere_cons, ih (fun z hz => hl z (List.mem_cons_of_mem _ hz))]
              have hy := hl y List.mem_cons_self
              by_cases hyx : y.rate ≤ x.rate
              · have : ¬ (0 < y.power) := fun h => by have := hy.2 h; omega
                simp [hyx]; omega
              · simp [hyx]
          exact this b hwf
        rw [hzero]; omega
      · have := spb.least x (hp.symm.subset e) hlt
        rw [powerWhere_perm _ hp] at this
        omega
  have spa' : ScanSpec (Int.tdiv (ballotPower b) 2) 0 (a :: b) (weightedMedian (a :: b)) := by
    refine ⟨?_, ?_, ?_⟩
    · obtain ⟨w, hw, hwm⟩ := spa.mem; exact ⟨w, hpa.subset hw, hwm⟩
    · have := spa.reach; rw [powerWhere_perm _ hpa] at this; exact this
    · intro x hx hlt
      have := spa.least x (hpa.symm.subset hx) hlt
      rw [powerWhere_perm _ hpa] at this; exact this
  exact ScanSpec_unique _ _ _ (List.Perm.refl _) _ _ spa' spb'

/-! ### T1 (regenerated from x/oracle/abci.go and x/oracle/types/core.go on every run) -/

/-- the tally runs exactly at the last block of a vote period: the end blocker calls `UpdateExchangeRates` under `IsPeriodLastBlock(VotePeriod)` and
    `SlashAndResetMissCounters` under `IsPeriodLastBlock(SlashWindow)`, nothing else, and a period's last block is the one whose
    height + 1 is a multiple of the period (the correspondence run calls the two keeper functions directly) -/
theorem fact_C10_end_blocker_gates :
    Generated.oracleEndBlockerCalls =
      [("types.IsPeriodLastBlock(ctx, params.VotePeriod)", "UpdateExchangeRates"),
       ("types.IsPeriodLastBlock(ctx, params.SlashWindow)", "SlashAndResetMissCounters")] ∧
    Generated.oraclePeriodLastBlockExpr = "((uint64)(ctx.BlockHeight())+1)%blocksPerPeriod == 0" := by decide

end Nibiru.Oracle
