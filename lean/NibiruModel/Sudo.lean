/-
  NibiruModel.Sudo — x/sudo (keeper/keeper.go, keeper/msg_server.go, types/msgs.go) and the four sudo-gated entry points
  (oracle EditOracleParams, inflation EditInflationParams / ToggleInflation, tokenfactory SudoSetDenomMetadata), each executed as the
  chain executes a message: ValidateBasic, then the handler on a branched store discarded on error.
  Addresses are the bech32 strings carried by the messages. `canon` is the account identity of a string (what
  `AccAddressFromBech32(s).String()` returns: bech32 is case-insensitive as a whole, the canonical form is lower case).
-/
import NibiruModel.Prelude
namespace Nibiru.Sudo

def canon (a : String) : String := a.toLower

inductive Target where | oracleParams | inflationParams | inflationToggle | denomMetadata
deriving Repr, DecidableEq

structure State where
  valid     : List String := []          -- strings that decode as addresses
  root      : String := ""
  contracts : List String := []          -- set semantics; persisted order is not part of the model (C01)
  writes    : Target → Nat := fun _ => 0  -- number of accepted writes per gated store
deriving Inhabited

inductive Err where | invalid | unauthorized
deriving Repr, DecidableEq

def Err.render : Err → String
  | .invalid => "invalid" | .unauthorized => "unauthorized"

def run (s : State) (guard : Option Err) (effect : State) : State × Option Err :=
  match guard with
  | some e => (s, some e)
  | none => (effect, none)

def firstErr : List (Bool × Err) → Option Err
  | [] => none
  | (bad, e) :: rest => if bad then some e else firstErr rest

inductive Action where | add | remove | other
deriving Repr, DecidableEq

/-- `EditSudoers`: ValidateBasic (sender and every contract decode, action is add or remove), then the sender string must EQUAL
    the stored root string -/
def editGuard (s : State) (sender : String) (act : Action) (cs : List String) : Option Err :=
  firstErr [(!s.valid.contains sender || cs.any (fun c => !s.valid.contains c) || act == .other, .invalid),
            (sender != s.root, .unauthorized)]

def addAll (set : List String) : List String → List String
  | [] => set
  | c :: cs => addAll (if set.contains (canon c) then set else set ++ [canon c]) cs

def editEffect (s : State) (act : Action) (cs : List String) : State :=
  match act with
  | .add => { s with contracts := addAll s.contracts cs }
  | .remove => { s with contracts := s.contracts.filter (fun x => !cs.contains x) }   -- removes the raw strings
  | .other => s

def editSudoers (s : State) (sender : String) (act : Action) (cs : List String) :=
  run s (editGuard s sender act cs) (editEffect s act cs)

/-- `ChangeRoot`: sender and stored root are compared as decoded addresses; the new root string is stored as given -/
def changeRootGuard (s : State) (sender newRoot : String) : Option Err :=
  firstErr [(!s.valid.contains sender || !s.valid.contains newRoot, .invalid), (!s.valid.contains s.root, .invalid),
            (canon sender != canon s.root, .unauthorized)]

def changeRoot (s : State) (sender newRoot : String) :=
  run s (changeRootGuard s sender newRoot) { s with root := newRoot }

/-- `CheckPermissions(addr)`: the canonical string of the address is among the contracts, or the address equals the decoded
    stored root (fix: commit "sudo CheckPermissions compares the stored root as an address") -/
def hasPermission (s : State) (sender : String) : Bool :=
  s.contracts.contains (canon sender) || (s.valid.contains s.root && canon sender == canon s.root)

def gatedGuard (s : State) (sender : String) : Option Err :=
  firstErr [(!s.valid.contains sender, .invalid), (!hasPermission s sender, .unauthorized)]

def bump (s : State) (t : Target) : State :=
  { s with writes := fun x => if x = t then s.writes x + 1 else s.writes x }

def gated (s : State) (t : Target) (sender : String) := run s (gatedGuard s sender) (bump s t)

inductive Op where
  | edit (sender : String) (act : Action) (cs : List String)
  | changeRoot (sender newRoot : String)
  | gated (t : Target) (sender : String)

def apply (s : State) : Op → State × Option Err
  | .edit a b c => editSudoers s a b c
  | .changeRoot a b => changeRoot s a b
  | .gated t a => gated s t a

/-! ### line protocol -/

def parseTarget : String → Option Target
  | "oracleParams" => some .oracleParams | "inflationParams" => some .inflationParams
  | "inflationToggle" => some .inflationToggle | "denomMetadata" => some .denomMetadata | _ => none

def render (s : State) : String :=
  let cs := renderItems "," (sortBy (fun a b => decide (a ≤ b)) s.contracts)
  s!"root={s.root} contracts={cs} w={s.writes .oracleParams},{s.writes .inflationParams},{s.writes .inflationToggle},{s.writes .denomMetadata}"

def fin (r : State × Option Err) : State × String :=
  (r.1, (match r.2 with | none => "ok" | some e => e.render) ++ " " ++ render r.1)

def step (s : State) (args : List String) : State × String :=
  match args with
  | ["reset", valid, root, contracts] =>
    let s' : State := { valid := parseItems "," valid, root := root, contracts := parseItems "," contracts }
    (s', "ok " ++ render s')
  | ["edit", sender, act, cs] =>
    let a := if act = "add" then Action.add else if act = "remove" then Action.remove else Action.other
    fin (editSudoers s sender a (parseItems "," cs))
  | ["changeRoot", sender, newRoot] => fin (changeRoot s sender newRoot)
  | ["gated", t, sender] =>
    match parseTarget t with
    | some t => fin (gated s t sender)
    | none => (s, "bad-op")
  -- the same gated message WITHOUT its optional payload (it passes ValidateBasic): the gate comes first — refused like any other for
  -- a sender without permission — and with permission there is nothing to apply: an invalid request, nothing written
  | ["gatednil", t, sender] =>
    match parseTarget t with
    | some t =>
      match (gated s t sender).2 with
      | none => (s, "invalid " ++ render s)
      | some e => (s, e.render ++ " " ++ render s)
    | none => (s, "bad-op")
  | _ => (s, "bad-op")

end Nibiru.Sudo
