package main

import (
	"fmt"
	"go/ast"
	"sort"
	"strings"
)

func init() {
	extractors["commission"] = func(repo string, out *leanFile, js map[string]any) error {
		// which message types the staking-commission ante decorator inspects, and whether it looks into authz.MsgExec
		var cases []string
		found := false
		for _, sf := range loadDir(repo, "app/ante") {
			if !strings.HasSuffix(sf.rel, "commission.go") {
				continue
			}
			ast.Inspect(sf.file, func(n ast.Node) bool {
				cc, ok := n.(*ast.CaseClause)
				if !ok {
					return true
				}
				for _, e := range cc.List {
					cases = append(cases, exprString(e))
				}
				found = true
				return true
			})
			// does the file mention MsgExec unpacking at all (GetMessages)?
			ast.Inspect(sf.file, func(n ast.Node) bool {
				if se, ok := n.(*ast.SelectorExpr); ok && se.Sel.Name == "GetMessages" {
					cases = append(cases, "calls:GetMessages")
				}
				return true
			})
		}
		if !found {
			return fmt.Errorf("app/ante/commission.go: no type switch found")
		}
		sort.Strings(cases)
		uniq := cases[:0]
		for i, c := range cases {
			if i == 0 || c != cases[i-1] {
				uniq = append(uniq, c)
			}
		}
		out.f("def commissionDecoratorCases : List String := %s\n", leanStrList(uniq))
		return nil
	}
}
