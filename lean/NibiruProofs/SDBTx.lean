/-
  SDBTx — towards the last step of the C03 refinement: what Nibiru's `Commit` and go-ethereum's end-of-transaction write-back persist
  after the same transaction body.

  Part 1 (this file, first section): `journal.dirties` is exactly the per-address count of the surviving journal entries that
  dirtied the address — through appends, and through `journal.Revert`, which decrements per reverted entry and deletes at zero.
-/
import NibiruProofs.SDBWF

namespace Nibiru.SDB
open Nibiru

/-! ### the dirty counts are the per-address counts of the journal -/

def cnt (a : Nat) (J : List Entry) : Nat := (J.filter (fun e => decide (e.dirtied = some a))).length

def CntOK (d : List (Nat × Int)) (J : List Entry) : Prop :=
  ∀ a, AList.find? d a = if cnt a J = 0 then none else some ((cnt a J : Nat) : Int)

/-- the bookkeeping half of `journal.append` -/
def bumpStep (d : List (Nat × Int)) (e : Entry) : List (Nat × Int) :=
  match e.dirtied with
  | some a => bumpDirty d a 1
  | none => d

/-- the bookkeeping half of one iteration of `journal.Revert` -/
def unStep (d : List (Nat × Int)) (e : Entry) : List (Nat × Int) :=
  match e.dirtied with
  | some a => unDirty d a
  | none => d

theorem cnt_append (a : Nat) (J : List Entry) (e : Entry) :
    cnt a (J ++ [e]) = cnt a J + (if e.dirtied = some a then 1 else 0) := by
  unfold cnt
  rw [List.filter_append, List.length_append]
  by_cases h : e.dirtied = some a
  · simp [h]
  · simp [h]

theorem cntOK_bump (d : List (Nat × Int)) (J : List Entry) (e : Entry) (h : CntOK d J) : CntOK (bumpStep d e) (J ++ [e]) := by
  intro a
  rw [cnt_append]
  unfold bumpStep
  cases he : e.dirtied with
  | none =>
    have : ¬ (none : Option Nat) = some a := by simp
    simp only [this, if_false, Nat.add_zero]
    exact h a
  | some a0 =>
    simp only
    by_cases ha : a0 = a
    · subst ha
      simp only [if_true]
      unfold bumpDirty
      rw [AList.find?_set_self, h a0]
      have hne : cnt a0 J + 1 ≠ 0 := by omega
      simp only [hne, if_false]
      by_cases hz : cnt a0 J = 0
      · simp [hz]
      · simp only [hz, if_false, Option.getD_some]
        congr 1
    · have hne : ¬ (some a0 = some a) := fun e' => ha (Option.some.inj e')
      simp only [hne, if_false, Nat.add_zero]
      unfold bumpDirty
      rw [AList.find?_set_ne _ _ _ _ ha]
      exact h a

theorem cntOK_un (d : List (Nat × Int)) (J : List Entry) (e : Entry) (h : CntOK d (J ++ [e])) : CntOK (unStep d e) J := by
  intro a
  have ha := h a
  rw [cnt_append] at ha
  unfold unStep
  cases he : e.dirtied with
  | none =>
    rw [he] at ha
    have : ¬ (none : Option Nat) = some a := by simp
    simp only [this, if_false, Nat.add_zero] at ha
    exact ha
  | some a0 =>
    rw [he] at ha
    simp only
    by_cases haa : a0 = a
    · subst haa
      simp only [if_true] at ha
      have hne : cnt a0 J + 1 ≠ 0 := by omega
      simp only [hne, if_false] at ha
      unfold unDirty
      rw [ha]
      simp only [Option.getD_some]
      by_cases hz : cnt a0 J = 0
      · have : ((cnt a0 J + 1 : Nat) : Int) - 1 = 0 := by rw [hz]; rfl
        simp only [this, if_true, hz]
        exact AList.find?_erase_self _ _
      · have hc : ((cnt a0 J + 1 : Nat) : Int) - 1 = ((cnt a0 J : Nat) : Int) := by omega
        have hnz : ¬ ((cnt a0 J : Nat) : Int) = 0 := by omega
        rw [hc]
        simp only [hnz, if_false, hz]
        exact AList.find?_set_self _ _ _
    · have hne : ¬ (some a0 = some a) := fun e' => haa (Option.some.inj e')
      simp only [hne, if_false, Nat.add_zero] at ha
      unfold unDirty
      simp only
      split
      · rw [AList.find?_erase_ne _ _ _ haa]; exact ha
      · rw [AList.find?_set_ne _ _ _ _ haa]; exact ha

/-- the dirty-count half of `journal.Revert` over a suffix, newest entry first -/
theorem cntOK_unfold (r : List Entry) (J : List Entry) (d : List (Nat × Int)) (h : CntOK d (J ++ r.reverse)) :
    CntOK (r.foldl unStep d) J := by
  induction r generalizing d with
  | nil => simpa using h
  | cons e t ih =>
    simp only [List.foldl_cons]
    apply ih
    have : J ++ (e :: t).reverse = (J ++ t.reverse) ++ [e] := by simp
    rw [this] at h
    exact cntOK_un d _ e h

theorem cntOK_folds (es : List Entry) (J : List Entry) (d : List (Nat × Int)) (h : CntOK d J) : CntOK (es.foldl bumpStep d) (J ++ es) := by
  induction es generalizing d J with
  | nil => simpa using h
  | cons e t ih =>
    simp only [List.foldl_cons]
    have := ih (J ++ [e]) (bumpStep d e) (cntOK_bump d J e h)
    simpa using this

/-- `DJ s`: the invariant on a StateDB -/
def DJ (s : S) : Prop := CntOK s.dirties s.journal

theorem dj_mem (s : S) (h : DJ s) (a : Nat) : a ∈ s.dirties.map (·.1) ↔ ∃ e ∈ s.journal, e.dirtied = some a := by
  have ha := h a
  constructor
  · intro hin
    have hne : AList.find? s.dirties a ≠ none := fun e => (find?_none_iff s.dirties a).mp e hin
    by_cases hz : cnt a s.journal = 0
    · rw [hz] at ha; simp at ha; exact absurd ha hne
    · unfold cnt at hz
      have : (s.journal.filter (fun e => decide (e.dirtied = some a))) ≠ [] := fun e => hz (by rw [e]; rfl)
      obtain ⟨e, he⟩ := List.exists_mem_of_ne_nil _ this
      have := List.mem_filter.mp he
      exact ⟨e, this.1, by simpa using this.2⟩
  · intro ⟨e, he, hd⟩
    have hpos : cnt a s.journal ≠ 0 := by
      unfold cnt
      have hmem : e ∈ s.journal.filter (fun e => decide (e.dirtied = some a)) := List.mem_filter.mpr ⟨he, by simpa using hd⟩
      intro hz
      have hnil := List.eq_nil_of_length_eq_zero hz
      rw [hnil] at hmem
      cases hmem
    simp only [hpos, if_false] at ha
    apply Classical.byContradiction
    intro hnot
    have := (find?_none_iff s.dirties a).mpr hnot
    rw [this] at ha
    cases ha

/-- `s'` was obtained from `s` by appending `es` to the journal (and by operations that touch neither the journal nor the counts) -/
def Appended (s s' : S) (es : List Entry) : Prop := s'.journal = s.journal ++ es ∧ s'.dirties = es.foldl bumpStep s.dirties

theorem Appended.refl (s : S) : Appended s s [] := ⟨by simp, rfl⟩

theorem Appended.trans {s s1 s2 : S} {e1 e2 : List Entry} (h1 : Appended s s1 e1) (h2 : Appended s1 s2 e2) : Appended s s2 (e1 ++ e2) :=
  ⟨by rw [h2.1, h1.1, List.append_assoc], by rw [h2.2, h1.2, List.foldl_append]⟩

theorem Appended.dj {s s' : S} {es : List Entry} (h : Appended s s' es) (hd : DJ s) : DJ s' := by
  unfold DJ
  rw [h.1, h.2]
  exact cntOK_folds es _ _ hd

theorem appended_append (s : S) (e : Entry) : Appended s (append s e) [e] := ⟨rfl, rfl⟩

theorem appended_same {s t : S} (hj : t.journal = s.journal) (hd : t.dirties = s.dirties) : Appended s t [] := ⟨by simp [hj], hd⟩

theorem getObj_dj (s : S) (a : Nat) : (getObj s a).1.journal = s.journal ∧ (getObj s a).1.dirties = s.dirties := by
  unfold getObj
  split
  · exact ⟨rfl, rfl⟩
  · split <;> exact ⟨rfl, rfl⟩

/-! ### what each operation appends, and which objects it leaves cached -/

theorem appended_getOrNew (s : S) (a : Nat) :
    ∃ es, Appended s (getOrNew s a).1 es ∧ (es = [] ∨ es = [.createObject a]) := by
  obtain ⟨j, d⟩ := getObj_dj s a
  unfold getOrNew
  rcases hg : getObj s a with ⟨s1, _ | o⟩
  · rw [hg] at j d
    dsimp only
    refine ⟨[.createObject a], ?_, Or.inr rfl⟩
    have h1 : Appended s s1 [] := appended_same j d
    have h2 : Appended s1 (setObj (append s1 (.createObject a)) a {}) [.createObject a] := ⟨rfl, rfl⟩
    simpa using h1.trans h2
  · rw [hg] at j d
    exact ⟨[], appended_same j d, Or.inl rfl⟩

/-- an account write of the interpreter: everything it appends dirties `a` and is not a `PrecompileCalled`; `a` is cached afterwards
    unless nothing happened at all; every other object is untouched -/
structure Desc (s s' : S) (a : Nat) : Prop where
  es : ∃ es, Appended s s' es ∧ ∀ e ∈ es, e.plain = true ∧ e.dirtied = some a
  cachedA : (∃ o, AList.find? s'.objs a = some o) ∨ s'.journal = s.journal
  keepsA : ∀ o, AList.find? s.objs a = some o → ∃ o', AList.find? s'.objs a = some o'
  other : ∀ b, a ≠ b → AList.find? s'.objs b = AList.find? s.objs b

theorem desc_field (s : S) (a : Nat) (e : Entry) (o' : Obj) (hp : e.plain = true) (hd : e.dirtied = some a) :
    Desc s (setObj (append (getOrNew s a).1 e) a o') a := by
  obtain ⟨pre, hpre, hcase⟩ := appended_getOrNew s a
  refine ⟨⟨pre ++ [e], ?_, ?_⟩, Or.inl ⟨o', find_setObj_same _ _ _⟩, fun _ _ => ⟨o', find_setObj_same _ _ _⟩, fun b hab => ?_⟩
  · have h2 : Appended (getOrNew s a).1 (setObj (append (getOrNew s a).1 e) a o') [e] := ⟨rfl, rfl⟩
    exact hpre.trans h2
  · intro x hx
    rcases List.mem_append.mp hx with h | h
    · rcases hcase with e0 | e1
      · rw [e0] at h; cases h
      · rw [e1] at h; simp only [List.mem_singleton] at h; subst h; exact ⟨rfl, rfl⟩
    · simp only [List.mem_singleton] at h; subst h; exact ⟨hp, hd⟩
  · rw [find_setObj_other _ _ _ _ hab]
    exact (getOrNew_other s a b hab).2.2

theorem desc_noentry (s : S) (a : Nat) (o' : Obj) : Desc s (setObj (getOrNew s a).1 a o') a := by
  obtain ⟨pre, hpre, hcase⟩ := appended_getOrNew s a
  refine ⟨⟨pre, ⟨hpre.1, hpre.2⟩, ?_⟩, Or.inl ⟨o', find_setObj_same _ _ _⟩, fun _ _ => ⟨o', find_setObj_same _ _ _⟩, fun b hab => ?_⟩
  · intro x hx
    rcases hcase with e0 | e1
    · rw [e0] at hx; cases hx
    · rw [e1] at hx; simp only [List.mem_singleton] at hx; subst hx; exact ⟨rfl, rfl⟩
  · rw [find_setObj_other _ _ _ _ hab]
    exact (getOrNew_other s a b hab).2.2

theorem desc_getOrNew (s : S) (a : Nat) : Desc s (getOrNew s a).1 a := by
  obtain ⟨pre, hpre, hcase⟩ := appended_getOrNew s a
  obtain ⟨_, _, _, hfind⟩ := getOrNew_shape s a
  refine ⟨⟨pre, hpre, ?_⟩, Or.inl ⟨_, hfind⟩, fun _ _ => ⟨_, hfind⟩, fun b hab => (getOrNew_other s a b hab).2.2⟩
  intro x hx
  rcases hcase with e0 | e1
  · rw [e0] at hx; cases hx
  · rw [e1] at hx; simp only [List.mem_singleton] at hx; subst hx; exact ⟨rfl, rfl⟩

theorem desc_applyW (s : S) (w : WOp) (a : Nat) (hacct : w.acct = some a) : Desc s (applyW s w) a := by
  cases w with
  | addLog => cases hacct
  | addRefund g => cases hacct
  | subRefund g => cases hacct
  | addAddr a' => cases hacct
  | addSlot a' k => cases hacct
  | addBalance a' d =>
    have : a' = a := by injection hacct
    subst this
    show Desc s (addBalance s a' d) a'
    rw [addBalance_eq]
    by_cases hd : d = 0
    · simp only [hd, if_true]; exact desc_getOrNew s a'
    · simp only [hd, if_false]; exact desc_field s a' _ _ rfl rfl
  | setNonce a' n =>
    have : a' = a := by injection hacct
    subst this
    show Desc s (setNonce s a' n) a'
    rw [setNonce_eq]; exact desc_field s a' _ _ rfl rfl
  | setCode a' c =>
    have : a' = a := by injection hacct
    subst this
    show Desc s (setCode s a' c) a'
    rw [setCode_eq]; exact desc_field s a' _ _ rfl rfl
  | setState a' k v =>
    have : a' = a := by injection hacct
    subst this
    show Desc s (setState s a' k v) a'
    rw [setState_eq]
    by_cases hv : objState (getOrNew s a').1 a' (getOrNew s a').2 k = v
    · simp only [hv, if_true]; exact desc_noentry s a' _
    · simp only [hv, if_false]; exact desc_field s a' _ _ rfl rfl
  | suicide a' =>
    have : a' = a := by injection hacct
    subst this
    show Desc s (suicide s a').1 a'
    obtain ⟨j, d⟩ := getObj_dj s a'
    obtain ⟨_, g2, _, _, _⟩ := getObj_shape s a'
    unfold suicide
    rcases hg : getObj s a' with ⟨s1, _ | o⟩
    · have e1 : (getObj s a').1 = s1 := by rw [hg]
      rw [e1] at j d g2
      dsimp only
      refine ⟨⟨[], appended_same j d, by simp⟩, Or.inr j, fun o ho => ?_, fun b hab => ?_⟩
      · obtain ⟨o', f', _⟩ := g2.objs a' o ho; exact ⟨o', f'⟩
      · have := (getObj_other s a' b hab).2.2; rw [e1] at this; exact this
    · have e1 : (getObj s a').1 = s1 := by rw [hg]
      rw [e1] at j d
      dsimp only
      refine ⟨⟨[.suicide a' o.suicided o.balance], ?_, ?_⟩, Or.inl ⟨_, find_setObj_same _ _ _⟩, fun _ _ => ⟨_, find_setObj_same _ _ _⟩,
        fun b hab => ?_⟩
      · have h1 : Appended s s1 [] := appended_same j d
        have h2 : Appended s1 (setObj (append s1 (.suicide a' o.suicided o.balance)) a' { o with suicided := true, balance := 0 })
            [.suicide a' o.suicided o.balance] := ⟨rfl, rfl⟩
        simpa using h1.trans h2
      · intro x hx; simp only [List.mem_singleton] at hx; subst hx; exact ⟨rfl, rfl⟩
      · rw [find_setObj_other _ _ _ _ hab]
        have := (getObj_other s a' b hab).2.2; rw [e1] at this; exact this

/-- the counters: nothing they append dirties an address, no object is touched -/
theorem desc_counter (s : S) (w : WOp) (hacct : w.acct = none) :
    (∃ es, Appended s (applyW s w) es ∧ ∀ e ∈ es, e.plain = true ∧ e.dirtied = none) ∧
    ∀ b, AList.find? (applyW s w).objs b = AList.find? s.objs b := by
  refine ⟨?_, fun b => (applyW_other s w b (by rw [hacct]; simp)).2.2⟩
  cases w with
  | addBalance a d => cases hacct
  | setNonce a n => cases hacct
  | setCode a c => cases hacct
  | setState a k v => cases hacct
  | suicide a => cases hacct
  | addLog => exact ⟨[.addLog], ⟨rfl, rfl⟩, by simp [Entry.plain, Entry.dirtied]⟩
  | addRefund g => exact ⟨[.refund s.refund], ⟨rfl, rfl⟩, by simp [Entry.plain, Entry.dirtied]⟩
  | subRefund g =>
    show ∃ es, Appended s ((subRefund s g).getD s) es ∧ _
    unfold subRefund
    split
    · exact ⟨[], Appended.refl s, by simp⟩
    · exact ⟨[.refund s.refund], ⟨rfl, rfl⟩, by simp [Entry.plain, Entry.dirtied]⟩
  | addAddr a =>
    show ∃ es, Appended s (addAddr s a) es ∧ _
    unfold addAddr
    split
    · exact ⟨[], Appended.refl s, by simp⟩
    · exact ⟨[.alAddr a], ⟨rfl, rfl⟩, by simp [Entry.plain, Entry.dirtied]⟩
  | addSlot a k =>
    show ∃ es, Appended s (addSlot s a k) es ∧ _
    have h1 : ∃ es, Appended s (addAddr s a) es ∧ ∀ e ∈ es, e.plain = true ∧ e.dirtied = none := by
      unfold addAddr
      split
      · exact ⟨[], Appended.refl s, by simp⟩
      · exact ⟨[.alAddr a], ⟨rfl, rfl⟩, by simp [Entry.plain, Entry.dirtied]⟩
    obtain ⟨es1, a1, p1⟩ := h1
    unfold addSlot
    dsimp only
    split
    · exact ⟨es1, a1, p1⟩
    · refine ⟨es1 ++ [.alSlot a k], a1.trans ⟨rfl, rfl⟩, ?_⟩
      intro e he
      rcases List.mem_append.mp he with h | h
      · exact p1 e h
      · simp only [List.mem_singleton] at h; subst h; exact ⟨rfl, rfl⟩

/-! ### the Nibiru-side invariants through any transaction body -/

/-- every address a surviving journal entry dirtied has its object cached -/
def EC (s : S) : Prop := ∀ e ∈ s.journal, ∀ a, e.dirtied = some a → ∃ o, AList.find? s.objs a = some o

/-- undoing the entries appended since `s` leads `Grows`-above `s` -/
def Back (s s' : S) : Prop :=
  ∃ es, s'.journal = s.journal ++ es ∧ (∀ e ∈ es, e.plain = true) ∧ Grows s (revertEntries s' es.reverse)

theorem grows_revertEntries_congr (l : List Entry) (hl : ∀ e ∈ l, e.plain = true) {t t' : S} (h : Grows t t') :
    Grows (revertEntries t l) (revertEntries t' l) := by
  induction l generalizing t t' with
  | nil => exact h
  | cons e r ih =>
    simp only [revertEntries, List.foldl_cons]
    exact ih (fun x hx => hl x (List.mem_cons_of_mem _ hx)) (grows_revertEntry_congr h e (hl e (List.mem_cons_self ..)))

theorem Back.refl (s : S) : Back s s := ⟨[], by simp, by simp, Grows.refl s⟩

theorem Back.trans {s s1 s2 : S} (h1 : Back s s1) (h2 : Back s1 s2) : Back s s2 := by
  obtain ⟨e1, j1, p1, g1⟩ := h1
  obtain ⟨e2, j2, p2, g2⟩ := h2
  refine ⟨e1 ++ e2, by rw [j2, j1, List.append_assoc], ?_, ?_⟩
  · intro e he
    rcases List.mem_append.mp he with h | h
    · exact p1 e h
    · exact p2 e h
  · rw [List.reverse_append, revertEntries_append]
    exact g1.trans (grows_revertEntries_congr e1.reverse (fun e he => p1 e (List.mem_reverse.mp he)) g2)

theorem chk_plain (l : List Entry) (s : S) (h : Chk s l) : ∀ e ∈ l, e.plain = true := by
  induction l generalizing s with
  | nil => intro e he; cases he
  | cons x r ih =>
    intro e he
    rcases List.mem_cons.mp he with h1 | h1
    · subst h1; exact pre_plain s e h.1
    · exact ih _ h.2 e h1

theorem back_of_step {s s' : S} (st : Step s s') : Back s s' := by
  obtain ⟨es, hj, hchk, hg⟩ := st.shape
  exact ⟨es, hj, fun e he => chk_plain _ _ hchk e (List.mem_reverse.mpr he), hg⟩

theorem ec_of_desc {s s' : S} {a : Nat} (d : Desc s s' a) (h : EC s) : EC s' := by
  obtain ⟨es, happ, hes⟩ := d.es
  intro e he b hb
  rw [happ.1] at he
  rcases List.mem_append.mp he with h1 | h1
  · obtain ⟨o, ho⟩ := h e h1 b hb
    by_cases hab : a = b
    · subst hab; exact d.keepsA o ho
    · rw [d.other b hab]; exact ⟨o, ho⟩
  · have hd := (hes e h1).2
    rw [hd] at hb
    injection hb with hb
    subst hb
    rcases d.cachedA with hc | hj
    · exact hc
    · rw [happ.1] at hj
      have : es = [] := by
        have := congrArg List.length hj
        simp at this
        exact this
      rw [this] at h1; cases h1

theorem createAccount_desc (s : S) (a : Nat) :
    (∃ es, Appended s (createAccount s a) es ∧ ∀ e ∈ es, e.plain = true ∧ (e.dirtied = some a ∨ e.dirtied = none)) ∧
    (∃ o, AList.find? (createAccount s a).objs a = some o) ∧
    (∀ b, a ≠ b → AList.find? (createAccount s a).objs b = AList.find? s.objs b) := by
  obtain ⟨j, d⟩ := getObj_dj s a
  unfold createAccount
  rcases hg : getObj s a with ⟨s1, _ | prev⟩
  · have e1 : (getObj s a).1 = s1 := by rw [hg]
    rw [e1] at j d
    dsimp only
    refine ⟨⟨[.createObject a], ?_, ?_⟩, ⟨_, find_setObj_same _ _ _⟩, fun b hab => ?_⟩
    · have h1 : Appended s s1 [] := appended_same j d
      have h2 : Appended s1 (setObj (append s1 (.createObject a)) a {}) [.createObject a] := ⟨rfl, rfl⟩
      simpa using h1.trans h2
    · intro x hx; simp only [List.mem_singleton] at hx; subst hx; exact ⟨rfl, Or.inl rfl⟩
    · rw [find_setObj_other _ _ _ _ hab]
      have := (getObj_other s a b hab).2.2; rw [e1] at this; exact this
  · have e1 : (getObj s a).1 = s1 := by rw [hg]
    rw [e1] at j d
    dsimp only
    refine ⟨⟨[.resetObject a prev], ?_, ?_⟩, ⟨_, find_setObj_same _ _ _⟩, fun b hab => ?_⟩
    · have h1 : Appended s s1 [] := appended_same j d
      have h2 : Appended s1 (setObj (append s1 (.resetObject a prev)) a { balance := prev.balance }) [.resetObject a prev] := ⟨rfl, rfl⟩
      simpa using h1.trans h2
    · intro x hx; simp only [List.mem_singleton] at hx; subst hx; exact ⟨rfl, Or.inr rfl⟩
    · rw [find_setObj_other _ _ _ _ hab]
      have := (getObj_other s a b hab).2.2; rw [e1] at this; exact this

/-- the Nibiru-side bundle -/
structure NInv (s : S) : Prop where
  inv : Inv s
  dj : DJ s
  ec : EC s

theorem ninv_write (s : S) (h : NInv s) (w : WOp) : NInv (applyW s w) := by
  refine ⟨inv_step h.inv (step_applyW s h.inv.1 w), ?_, ?_⟩
  · cases hacct : w.acct with
    | none => obtain ⟨⟨es, happ, _⟩, _⟩ := desc_counter s w hacct; exact happ.dj h.dj
    | some a => obtain ⟨es, happ, _⟩ := (desc_applyW s w a hacct).es; exact happ.dj h.dj
  · cases hacct : w.acct with
    | none =>
      obtain ⟨⟨es, happ, hes⟩, hobjs⟩ := desc_counter s w hacct
      intro e he b hb
      rw [happ.1] at he
      rcases List.mem_append.mp he with h1 | h1
      · rw [hobjs b]; exact h.ec e h1 b hb
      · rw [(hes e h1).2] at hb; cases hb
    | some a => exact ec_of_desc (desc_applyW s w a hacct) h.ec

theorem ninv_create (s : S) (h : NInv s) (a : Nat) : NInv (createAccount s a) := by
  obtain ⟨⟨es, happ, hes⟩, hca, hother⟩ := createAccount_desc s a
  refine ⟨inv_step h.inv (step_createAccount s h.inv.1 a), happ.dj h.dj, ?_⟩
  intro e he b hb
  rw [happ.1] at he
  by_cases hab : a = b
  · subst hab; exact hca
  · rw [hother b hab]
    rcases List.mem_append.mp he with h1 | h1
    · exact h.ec e h1 b hb
    · rcases (hes e h1).2 with hd | hd
      · rw [hd] at hb; injection hb with hb; exact absurd hb hab
      · rw [hd] at hb; cases hb

theorem ninv_snapshot (s : S) (h : NInv s) : NInv (snapshot s).1 :=
  ⟨inv_step h.inv (step_snapshot s h.inv.1), h.dj, h.ec⟩

/-- after `RevertToSnapshot`: the counts are those of the restored journal, and what the restored journal dirtied is still cached -/
theorem ninv_revert (s s2 : S) (es : List Entry) (hj : s2.journal = s.journal ++ es) (h : NInv s) (h2 : NInv s2)
    (hback : Grows s (revertEntries s2 es.reverse)) (revs : List (Nat × Nat)) :
    NInv { (revertTo s2 s.journal.length) with revisions := revs } := by
  have hdrop : s2.journal.drop s.journal.length = es := by rw [hj]; simp
  have htake : s2.journal.take s.journal.length = s.journal := by rw [hj]; simp
  refine ⟨inv_revert s s2 es hj h2.inv revs, ?_, ?_⟩
  · show CntOK (((s2.journal.drop s.journal.length).reverse).foldl
        (fun d e => match e.dirtied with | some a => unDirty d a | none => d) s2.dirties) (s2.journal.take s.journal.length)
    rw [hdrop, htake]
    have := cntOK_unfold es.reverse s.journal s2.dirties (by rw [List.reverse_reverse, ← hj]; exact h2.dj)
    exact this
  · intro e he b hb
    have he' : e ∈ s2.journal.take s.journal.length := he
    rw [htake] at he'
    obtain ⟨o, ho⟩ := h.ec e he' b hb
    obtain ⟨o', ho', _⟩ := hback.objs b o ho
    show ∃ o, AList.find? (revertEntries s2 (s2.journal.drop s.journal.length).reverse).objs b = some o
    rw [hdrop]
    exact ⟨o', ho'⟩

mutual
theorem runT_tx (b : Tree) (s : S) (h : NInv s) (hrev : RevOK s) :
    ∃ s', runT s b = some s' ∧ NInv s' ∧ Ext2 s s' ∧ Back s s' := by
  have hc : s.cache = none := h.inv.1.1
  cases b with
  | w op => exact ⟨applyW s op, rfl, ninv_write s h op, ext2_write s hc op, back_of_step (step_applyW s h.inv.1 op)⟩
  | create a => exact ⟨createAccount s a, rfl, ninv_create s h a, ext2_create s hc a, back_of_step (step_createAccount s h.inv.1 a)⟩
  | frame ok body =>
    have x0 := ext2_snapshot s hc
    have b0 : Back s (snapshot s).1 := back_of_step (step_snapshot s h.inv.1)
    obtain ⟨s2, hrun, n2, x2, b2⟩ := runTL_tx body (snapshot s).1 (ninv_snapshot s h) (x0.revOK hrev)
    cases ok with
    | true => exact ⟨s2, by simp only [runT, hrun]; rfl, n2, x0.trans x2, b0.trans b2⟩
    | false =>
      obtain ⟨s3, h3, x3, _, _, _⟩ := ext2_revert s s2 hc hrev x2
      have hexp := revertToSnapshot_explicit s s2 hrev x2.revs
      rw [hexp] at h3
      obtain ⟨es, hj, hpl, hg⟩ := b2
      have hj' : s2.journal = s.journal ++ es := hj
      have hg' : Grows s (revertEntries s2 es.reverse) := (grows_of_same (s := s) (t := (snapshot s).1) rfl rfl rfl).trans hg
      have n3 := ninv_revert s s2 es hj' h n2 hg' (s2.revisions.filter (fun r => r.1 < s.nextRev))
      have e3 := Option.some.inj h3
      rw [e3] at n3
      refine ⟨s3, by simp only [runT, hrun, hexp]; exact congrArg some e3, n3, x3, ?_⟩
      -- Back s s3 with an empty suffix: the reverted state is `Grows`-above `s`
      refine ⟨[], ?_, by simp, ?_⟩
      · rw [← e3]
        show s2.journal.take s.journal.length = s.journal ++ []
        rw [hj']; simp
      · rw [← e3]
        have hdrop : s2.journal.drop s.journal.length = es := by rw [hj']; simp
        refine hg'.trans (grows_of_same ?_ ?_ ?_)
        · show (revertEntries s2 (s2.journal.drop s.journal.length).reverse).txStore = _; rw [hdrop]
        · show (revertEntries s2 (s2.journal.drop s.journal.length).reverse).cache = _; rw [hdrop]
        · show (revertEntries s2 (s2.journal.drop s.journal.length).reverse).objs = _; rw [hdrop]
theorem runTL_tx (bs : List Tree) (s : S) (h : NInv s) (hrev : RevOK s) :
    ∃ s', runTL s bs = some s' ∧ NInv s' ∧ Ext2 s s' ∧ Back s s' := by
  cases bs with
  | nil => exact ⟨s, rfl, h, Ext2.refl s h.inv.1.1, Back.refl s⟩
  | cons b t =>
    obtain ⟨s1, hr1, n1, x1, b1⟩ := runT_tx b s h hrev
    obtain ⟨s2, hr2, n2, x2, b2⟩ := runTL_tx t s1 n1 (x1.revOK hrev)
    exact ⟨s2, by simp only [runTL, hr1]; exact hr2, n2, x1.trans x2, b1.trans b2⟩
end

theorem ninv_fresh (st : Store) : NInv { txStore := st } :=
  ⟨inv_fresh st, fun a => by simp [cnt, AList.find?], fun e he => by cases he⟩

/-- **the dirty set at the end of any transaction body** is exactly the set of addresses dirtied by a journal entry that survived
    every revert, and each of them has its state object cached — what `Commit` iterates over -/
theorem dirties_after_any_body (st : Store) (body : List Tree) :
    ∃ s', runTL { txStore := st } body = some s' ∧ WF s' ∧
      (∀ a, a ∈ s'.dirties.map (·.1) ↔ ∃ e ∈ s'.journal, e.dirtied = some a) ∧
      (∀ a, a ∈ s'.dirties.map (·.1) → ∃ o, AList.find? s'.objs a = some o) := by
  obtain ⟨s', hr, n, _, _⟩ := runTL_tx body { txStore := st } (ninv_fresh st) (fun r hr => by cases hr)
  refine ⟨s', hr, n.inv.1, dj_mem s' n.dj, fun a ha => ?_⟩
  obtain ⟨e, he, hd⟩ := (dj_mem s' n.dj a).mp ha
  exact n.ec e he a hd

end Nibiru.SDB
