/-
  SDBOrder — C01 for the EVM write-back: what `Commit` persists does not depend on the order in which Go delivers the keys of the
  `journal.dirties` map (nor, per object, of `DirtyStorage`), because both key sets are sorted before they are walked
  (`journal.sortedDirties`, `Storage.SortedKeys`).  In the model the two Go maps are association lists; a different iteration order
  is a permutation of the list.
-/
import NibiruProofs.SDBCommit

namespace Nibiru.SDB
open Nibiru

theorem sorted_ext : ∀ (l1 l2 : List Nat), l1.Pairwise (· < ·) → l2.Pairwise (· < ·) → (∀ x, x ∈ l1 ↔ x ∈ l2) → l1 = l2
  | [], [], _, _, _ => rfl
  | [], b :: t2, _, _, h => by have := (h b).mpr (List.mem_cons_self ..); cases this
  | a :: t1, [], _, _, h => by have := (h a).mp (List.mem_cons_self ..); cases this
  | a :: t1, b :: t2, p1, p2, h => by
    rw [List.pairwise_cons] at p1 p2
    have hab : a = b := by
      have ha := (h a).mp (List.mem_cons_self ..)
      have hb := (h b).mpr (List.mem_cons_self ..)
      rcases List.mem_cons.mp ha with e | e
      · exact e
      · rcases List.mem_cons.mp hb with e' | e'
        · exact e'.symm
        · have l1 := p2.1 a e
          have l2 := p1.1 b e'
          omega
    subst hab
    have ht : ∀ x, x ∈ t1 ↔ x ∈ t2 := by
      intro x
      constructor
      · intro hx
        have := (h x).mp (List.mem_cons_of_mem _ hx)
        rcases List.mem_cons.mp this with e | e
        · have := p1.1 x hx; omega
        · exact e
      · intro hx
        have := (h x).mpr (List.mem_cons_of_mem _ hx)
        rcases List.mem_cons.mp this with e | e
        · have := p2.1 x hx; omega
        · exact e
    rw [sorted_ext t1 t2 p1.2 p2.2 ht]

/-- the sorted key list depends only on which keys there are -/
theorem sortNat_of_same_members (l l' : List Nat) (h : ∀ x, x ∈ l ↔ x ∈ l') : sortNat l = sortNat l' := by
  apply sorted_ext _ _ (sortNat_sorted_aux l [] List.Pairwise.nil) (sortNat_sorted_aux l' [] List.Pairwise.nil)
  intro x
  have e1 := mem_sortNat l x
  have e2 := mem_sortNat l' x
  unfold sortNat at e1 e2
  rw [e1, e2]
  exact h x

theorem sortNat_perm (l l' : List Nat) (h : l.Perm l') : sortNat l = sortNat l' :=
  sortNat_of_same_members l l' (fun _ => h.mem_iff)

/-- what a step of the write-back reads and what it produces, apart from the dirty counts themselves -/
def piC (acc : S × Store) : List (Nat × Obj) × Store × Option Store × Store := (acc.1.objs, acc.1.txStore, acc.1.cache, acc.2)

theorem stepC_pi (acc acc' : S × Store) (a : Nat) (h : piC acc = piC acc') : piC (stepC acc a) = piC (stepC acc' a) := by
  obtain ⟨s, st⟩ := acc
  obtain ⟨s', st'⟩ := acc'
  cases s with
  | mk txStore cache objs journal dirties revisions nextRev refund logs alAddrs alSlots cacheCount =>
  cases s' with
  | mk txStore' cache' objs' journal' dirties' revisions' nextRev' refund' logs' alAddrs' alSlots' cacheCount' =>
    simp only [piC, Prod.mk.injEq] at h
    obtain ⟨h1, h2, h3, h4⟩ := h
    subst h1 h2 h3 h4
    unfold stepC getObj piC curStore
    simp only
    cases AList.find? objs a with
    | some o =>
      simp only
      cases o.suicided <;> simp [setObj]
    | none =>
      simp only
      cases loadObj (cache.getD txStore) a with
      | none => simp
      | some o =>
        simp only
        cases o.suicided <;> simp [setObj]

theorem foldl_stepC_pi (L : List Nat) (acc acc' : S × Store) (h : piC acc = piC acc') :
    piC (L.foldl stepC acc) = piC (L.foldl stepC acc') := by
  induction L generalizing acc acc' with
  | nil => exact h
  | cons a t ih => simp only [List.foldl_cons]; exact ih _ _ (stepC_pi acc acc' a h)

/-- **C01 — the write-back is independent of the iteration order of `journal.dirties`.** `d'` is any other order in which the map
    could have delivered its entries: the store written by `commitCtx` is the same, and so are the state objects it leaves. -/
theorem C01_commit_independent_of_dirties_order (s : S) (st : Store) (d' : List (Nat × Int)) (h : d'.Perm s.dirties) :
    (commitInto { s with dirties := d' } st).2 = (commitInto s st).2 ∧
    (commitInto { s with dirties := d' } st).1.objs = (commitInto s st).1.objs := by
  rw [commitInto_eq, commitInto_eq]
  have hk : sortNat (d'.map (·.1)) = sortNat (s.dirties.map (·.1)) := sortNat_perm _ _ (h.map _)
  show (List.foldl stepC ({ s with dirties := d' }, st) (sortNat (d'.map (·.1)))).2 = _ ∧ _
  rw [hk]
  have := foldl_stepC_pi (sortNat (s.dirties.map (·.1))) ({ s with dirties := d' }, st) (s, st) rfl
  unfold piC at this
  exact ⟨congrArg (fun t => t.2.2.2) this, congrArg (fun t => t.1) this⟩

/-- … and so is the whole `Commit` -/
theorem C01_commit_store_independent_of_dirties_order (s : S) (d' : List (Nat × Int)) (h : d'.Perm s.dirties) :
    (commit { s with dirties := d' }).txStore = (commit s).txStore := by
  cases s with
  | mk txStore cache objs journal dirties revisions nextRev refund logs alAddrs alSlots cacheCount =>
    cases cache with
    | none =>
      exact (C01_commit_independent_of_dirties_order
        { txStore := txStore, cache := none, objs := objs, journal := journal, dirties := dirties, revisions := revisions,
          nextRev := nextRev, refund := refund, logs := logs, alAddrs := alAddrs, alSlots := alSlots, cacheCount := cacheCount }
        txStore d' h).1
    | some c =>
      exact (C01_commit_independent_of_dirties_order
        { txStore := c, cache := some c, objs := objs, journal := journal, dirties := dirties, revisions := revisions,
          nextRev := nextRev, refund := refund, logs := logs, alAddrs := alAddrs, alSlots := alSlots, cacheCount := cacheCount }
        c d' h).1

/-- per object: the slots `commitCtx` writes do not depend on the iteration order of `DirtyStorage` — `Storage.SortedKeys` sorts
    them; `dirty'` is any reordering that keeps every key's value -/
theorem C01_flush_independent_of_dirty_storage_order (st : Store) (a : Nat) (o : Obj) (dirty' : List (Nat × Nat))
    (hp : dirty'.Perm o.dirty) (hv : ∀ k, AList.find? dirty' k = AList.find? o.dirty k) :
    (flushObj st a { o with dirty := dirty' }).1 = (flushObj st a o).1 := by
  rw [flushObj_eq, flushObj_eq]
  have hk : sortNat (dirty'.map (·.1)) = sortNat (o.dirty.map (·.1)) := sortNat_perm _ _ (hp.map _)
  show (List.foldl (flushStep a) _ (sortNat (dirty'.map (·.1)))).1 = _
  rw [hk]
  -- the fold reads `dirty` only through `find?`, which the reordering preserves
  have key : ∀ (L : List Nat) (acc acc' : Store × Obj), acc.1 = acc'.1 → acc.2.origin = acc'.2.origin →
      (∀ k, AList.find? acc.2.dirty k = AList.find? acc'.2.dirty k) →
      (L.foldl (flushStep a) acc).1 = (L.foldl (flushStep a) acc').1 := by
    intro L
    induction L with
    | nil => intro acc acc' h1 _ _; exact h1
    | cons k t ih =>
      intro acc acc' h1 h2 h3
      simp only [List.foldl_cons]
      apply ih
      · unfold flushStep; simp only [h3 k, h2, h1]; split
        · exact h1
        · rfl
      · unfold flushStep; simp only [h3 k, h2]; split
        · exact h2
        · simp [h2]
      · intro k'; unfold flushStep; simp only [h3 k, h2]; split <;> exact h3 k'
  exact key _ _ _ rfl rfl hv

end Nibiru.SDB
