package main

import (
	"go/ast"
	"strings"
)

// getErc20Address looks its argument up in the FunTokens BankDenom index (a string-key index: the key encoder panics on a null
// character).  The argument is validated in parseArgsGetErc20Address: sdk.ValidateDenom, and when that fails a tokenfactory format
// check that only looks at the "/"-separated sections.
//   getErc20AddressGuards   the conditions of every `if` of precompileFunToken.parseArgsGetErc20Address, in source order
func init() {
	extractors["erc20addr"] = func(repo string, out *leanFile, js map[string]any) error {
		var conds []string
		if fd := findFunc(repo, "x/evm/precompile", "precompileFunToken.parseArgsGetErc20Address"); fd != nil {
			ast.Inspect(fd.Body, func(n ast.Node) bool {
				if is, ok := n.(*ast.IfStmt); ok {
					c := exprString(is.Cond)
					if is.Init != nil {
						var sb strings.Builder
						_ = printerFprint(&sb, is.Init)
						c = strings.Join(strings.Fields(sb.String()), " ") + "; " + c
					}
					conds = append(conds, c)
				}
				return true
			})
		}
		out.f("def getErc20AddressGuards : List String := %s\n", leanStrList(conds))
		return nil
	}
}
