/-
  NibiruModel.OracleVotes — x/oracle msg server: AggregateExchangeRatePrevote / AggregateExchangeRateVote / DelegateFeedConsent
  (keeper/msg_server.go), ValidateFeeder (keeper/keeper.go), the exchange-rate string parser (types/vote.go, common/asset/pair.go),
  clearVotesAndPrevotes (keeper/ballot.go).
  Addresses are hex strings (a validator's own account has the same bytes as its operator address). The hash function is a
  parameter: the vote op carries `expected = H(salt ":" rates ":" valoper)` (computed outside the repository's code) and the
  decimal parser of the SDK is a table `decs` from substring to parsed raw value.
-/
import NibiruModel.Prelude
namespace Nibiru.OracleVotes

structure Prevote where
  hash        : String
  submitBlock : Nat
deriving Repr, DecidableEq, Inhabited

structure State where
  votePeriod : Nat := 1
  whitelist  : List String := []
  bonded     : List (String × Bool) := []          -- validator (hex) → is bonded; absent = no such validator
  feeders    : List (String × String) := []        -- FeederDelegations
  prevotes   : List (String × Prevote) := []
  votes      : List (String × List (String × Int)) := []
deriving Repr, Inhabited

inductive Err where
  | noperm | notbonded | novalidator | noprevote | period | parse | unknownpair | hash | badhash
deriving Repr, DecidableEq

def Err.render : Err → String
  | .noperm => "noperm" | .notbonded => "notbonded" | .novalidator => "novalidator" | .noprevote => "noprevote"
  | .period => "period" | .parse => "parse" | .unknownpair => "unknownpair" | .hash => "hash" | .badhash => "badhash"

/-- `ValidateFeeder` -/
def validateFeeder (s : State) (feeder val : String) : Option Err :=
  let permitted := feeder = val || (match AList.find? s.feeders val with | some d => d = feeder | none => false)
  if !permitted then some .noperm
  else match AList.find? s.bonded val with
    | some true => none
    | _ => some .notbonded

/-! ### exchange-rate string parser -/

/-- `asset.TryNewPair` -/
def parsePair (s : String) : Option String :=
  match s.splitOn ":" with
  | [a, b] => if a = "" || b = "" then none else if validDenom a && validDenom b then some s else none
  | _ => none

/-- `NewExchangeRateTupleFromString`; `decs` is the SDK decimal parser as a table -/
def parseTuple (decs : List (String × Option Int)) (s : String) : Option (String × Int) :=
  let cs := s.toList
  if cs.length ≤ 2 then none
  else if cs.head? ≠ some '(' || cs.getLast? ≠ some ')' then none
  else
    let inner := String.ofList ((cs.drop 1).dropLast)
    match inner.splitOn "," with
    | [p, d] =>
      match parsePair p with
      | none => none
      | some pair =>
        match AList.find? decs d with
        | some (some raw) => some (pair, raw)
        | _ => none
    | _ => none

/-- `NewExchangeRateTuplesFromString`: tuples separated by '|', duplicate pairs rejected -/
def parseTuples (decs : List (String × Option Int)) (s : String) : Option (List (String × Int)) :=
  let rec go (parts : List String) (seen : List String) (acc : List (String × Int)) : Option (List (String × Int)) :=
    match parts with
    | [] => some acc.reverse
    | p :: ps =>
      match parseTuple decs p with
      | none => none
      | some t => if seen.contains t.1 then none else go ps (t.1 :: seen) (t :: acc)
  go (s.splitOn "|") [] []

/-! ### message handlers -/

/-- `AggregateExchangeRatePrevote`; `hashOk` = the hex string decodes (`AggregateVoteHashFromHexString`), `hash` = its canonical
    lower-case re-encoding -/
def prevote (s : State) (height : Nat) (val feeder : String) (hashOk : Bool) (hash : String) : State × Option Err :=
  match validateFeeder s feeder val with
  | some e => (s, some e)
  | none =>
    if !hashOk then (s, some .badhash)
    else ({ s with prevotes := AList.set (AList.erase s.prevotes val) val { hash := hash, submitBlock := height } }, none)

/-- the reveal window test in `uint64` arithmetic: `(h / P) - (sb / P) == 1`, wrap-around included -/
def periodOk (s : State) (height : Nat) (pv : Prevote) : Bool :=
  (height / s.votePeriod + 2 ^ 64 - pv.submitBlock / s.votePeriod) % 2 ^ 64 == 1

def allWhitelisted (s : State) (tuples : List (String × Int)) : Bool :=
  tuples.all (fun t => s.whitelist.contains t.1)

/-- `AggregateExchangeRateVote` -/
def vote (s : State) (height : Nat) (val feeder : String) (rates : String) (decs : List (String × Option Int))
    (expected : String) : State × Option Err :=
  match validateFeeder s feeder val with
  | some e => (s, some e)
  | none =>
    match AList.find? s.prevotes val with
    | none => (s, some .noprevote)
    | some pv =>
      if !periodOk s height pv then (s, some .period)
      else
        match parseTuples decs rates with
        | none => (s, some .parse)
        | some tuples =>
          if !allWhitelisted s tuples then (s, some .unknownpair)
          else if pv.hash ≠ expected then (s, some .hash)
          else
            ({ s with votes := AList.set (AList.erase s.votes val) val tuples, prevotes := AList.erase s.prevotes val }, none)

/-- `DelegateFeedConsent` (the signer is the operator; the handler only checks that the validator exists) -/
def delegate (s : State) (op delegate : String) : State × Option Err :=
  match AList.find? s.bonded op with
  | none => (s, some .novalidator)
  | some _ => ({ s with feeders := AList.set (AList.erase s.feeders op) op delegate }, none)

/-- `clearVotesAndPrevotes` at a period end -/
def endPeriod (s : State) (height : Nat) : State :=
  { s with votes := [], prevotes := s.prevotes.filter (fun x => !(decide (height ≥ x.2.submitBlock + s.votePeriod))) }

/-! ### line protocol -/

def hexVal (c : Char) : Option Nat :=
  if '0' ≤ c && c ≤ '9' then some (c.toNat - '0'.toNat)
  else if 'a' ≤ c && c ≤ 'f' then some (c.toNat - 'a'.toNat + 10)
  else none

def unhex (s : String) : Option String :=
  let rec go : List Char → List Char → Option (List Char)
    | [], acc => some acc.reverse
    | [_], _ => none
    | a :: b :: rest, acc =>
      match hexVal a, hexVal b with
      | some x, some y => go rest (Char.ofNat (x * 16 + y) :: acc)
      | _, _ => none
  if s = "-" then some "" else (go s.toList []).map String.ofList

def sortedBy (l : List (String × α)) : List (String × α) := sortBy (fun a b => decide (a.1 ≤ b.1)) l

def renderState (s : State) : String :=
  let pv := renderItems "," ((sortedBy s.prevotes).map (fun x => s!"{x.1}/{x.2.hash}/{x.2.submitBlock}"))
  let vs := renderItems "," ((sortedBy s.votes).map (fun x => x.1 ++ "@" ++ renderItems ";" (x.2.map (fun t => s!"{t.1}/{t.2}"))))
  let fd := renderItems "," ((sortedBy s.feeders).map (fun x => s!"{x.1}/{x.2}"))
  s!"PV={pv} V={vs} F={fd}"

def renderRes (r : State × Option Err) : State × String :=
  (r.1, (match r.2 with | none => "ok" | some e => e.render) ++ " " ++ renderState r.1)

def parseDecs (s : String) : Option (List (String × Option Int)) :=
  (parseItems "," s).mapM (fun it =>
    match it.splitOn "=" with
    | [k, v] => do
      let k ← unhex k
      if v = "err" then pure (k, none) else do let r ← parseInt? v; pure (k, some r)
    | _ => none)

def step (s : State) (args : List String) : State × String :=
  match args with
  | ["reset", vp, wl, vals] =>
    match parseNat? vp with
    | some vp =>
      let bonded := (parseItems "," vals).filterMap (fun it => match it.splitOn "/" with | [a, b] => some (a, b = "1") | _ => none)
      ({ votePeriod := vp, whitelist := parseItems "," wl, bonded := bonded }, "ok")
    | none => (s, "bad-op")
  | ["setperiod", vp] =>
    match parseNat? vp with
    | some vp => ({ s with votePeriod := vp }, "ok " ++ renderState s)
    | none => (s, "bad-op")
  | ["setbonded", val, b] =>
    let s' := { s with bonded := AList.set (AList.erase s.bonded val) val (b = "1") }
    (s', "ok " ++ renderState s')
  | ["delegate", op, d] => renderRes (delegate s op d)
  | ["prevote", h, val, feeder, hashOk, hash] =>
    match parseNat? h with
    | some h => renderRes (prevote s h val feeder (hashOk = "1") hash)
    | none => (s, "bad-op")
  | ["vote", h, val, feeder, ratesHex, decs, expected] =>
    match parseNat? h, unhex ratesHex, parseDecs decs with
    | some h, some rates, some decs => renderRes (vote s h val feeder rates decs expected)
    | _, _, _ => (s, "bad-op")
  | ["endperiod", h] =>
    match parseNat? h with
    | some h => let s' := endPeriod s h; (s', "ok " ++ renderState s')
    | none => (s, "bad-op")
  | _ => (s, "bad-op")

end Nibiru.OracleVotes
