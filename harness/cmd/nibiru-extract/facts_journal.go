package main

import (
	"fmt"
	"go/ast"
	"sort"
	"strings"
)

// Facts about x/evm/statedb's journal (C03 / C04): the Lean model has one `Entry` constructor per JournalChange type, `Entry.dirtied`
// mirrors `Dirtied()`, `revertEntry` mirrors `Revert`, `append` / `revertTo` mirror the dirty-count bookkeeping.
//   journalEntryTypes      per type of journal.go with a Revert method: (name, what Dirtied returns, skeleton of Revert)
//                          (calls, assigned fields, deletes, conditions — in source order)
//   journalBookkeeping     skeleton of journal.append and journal.Revert (incl. the conditions on the dirty count)
//   journalAppendSites     per function of statedb.go / state_object.go: the entry types it appends and the fields it assigns, in order
//   commitSkeletons        skeleton of StateDB.Commit / CommitCacheCtx / commitCtx (loop over the sorted dirties, the three branches,
//                          the skip of a dirty value equal to OriginStorage[key], the reset of the dirty count)
func skeleton(body *ast.BlockStmt) []string {
	var out []string
	ast.Inspect(body, func(n ast.Node) bool {
		switch x := n.(type) {
		case *ast.CallExpr:
			out = append(out, "call:"+exprString(x.Fun))
		case *ast.AssignStmt:
			for _, l := range x.Lhs {
				out = append(out, "assign:"+exprString(l))
			}
		case *ast.IncDecStmt:
			out = append(out, x.Tok.String()+":"+exprString(x.X))
		case *ast.IfStmt:
			out = append(out, "if:"+exprString(x.Cond))
		case *ast.ForStmt:
			c := ""
			if x.Cond != nil {
				c = exprString(x.Cond)
			}
			out = append(out, "for:"+c)
		case *ast.RangeStmt:
			out = append(out, "range:"+exprString(x.X))
		case *ast.BranchStmt:
			out = append(out, x.Tok.String())
		case *ast.ReturnStmt:
			var rs []string
			for _, r := range x.Results {
				rs = append(rs, exprString(r))
			}
			out = append(out, "return:"+strings.Join(rs, ","))
		}
		return true
	})
	return out
}

func init() {
	extractors["journal"] = func(repo string, out *leanFile, js map[string]any) error {
		type ent struct{ dirtied, revert string }
		ents := map[string]*ent{}
		var order []string
		var book []string
		for _, sf := range loadDir(repo, "x/evm/statedb") {
			if !strings.HasSuffix(sf.rel, "journal.go") {
				continue
			}
			for _, d := range sf.file.Decls {
				fd, ok := d.(*ast.FuncDecl)
				if !ok || fd.Body == nil || fd.Recv == nil {
					continue
				}
				name := funcName(fd)
				typ := strings.SplitN(name, ".", 2)[0]
				switch fd.Name.Name {
				case "Revert", "Dirtied":
					if typ == "journal" {
						book = append(book, name+" = "+strings.Join(skeleton(fd.Body), " ; "))
						continue
					}
					if ents[typ] == nil {
						ents[typ] = &ent{}
						order = append(order, typ)
					}
					if fd.Name.Name == "Revert" {
						ents[typ].revert = strings.Join(skeleton(fd.Body), " ; ")
					} else {
						ents[typ].dirtied = strings.Join(skeleton(fd.Body), " ; ")
					}
				case "append":
					if typ == "journal" {
						book = append(book, name+" = "+strings.Join(skeleton(fd.Body), " ; "))
					}
				}
			}
		}
		if len(order) == 0 {
			return fmt.Errorf("no JournalChange types found in x/evm/statedb/journal.go")
		}
		var items []string
		for _, t := range order {
			items = append(items, fmt.Sprintf("(%s, %s, %s)", leanStr(t), leanStr(ents[t].dirtied), leanStr(ents[t].revert)))
		}
		out.f("def journalEntryTypes : List (String × String × String) := [%s]\n", strings.Join(items, ", "))
		out.f("def journalBookkeeping : List String := %s\n", leanStrList(book))
		// append sites
		var sites []string
		for _, sf := range loadDir(repo, "x/evm/statedb") {
			if strings.HasSuffix(sf.rel, "_test.go") || !(strings.HasSuffix(sf.rel, "statedb.go") || strings.HasSuffix(sf.rel, "state_object.go")) {
				continue
			}
			for _, d := range sf.file.Decls {
				fd, ok := d.(*ast.FuncDecl)
				if !ok || fd.Body == nil {
					continue
				}
				var seq []string
				ast.Inspect(fd.Body, func(n ast.Node) bool {
					switch x := n.(type) {
					case *ast.CallExpr:
						if se, ok := x.Fun.(*ast.SelectorExpr); ok && se.Sel.Name == "append" && len(x.Args) == 1 && strings.HasSuffix(strings.ToLower(exprString(se.X)), "journal") {
							if cl, ok := x.Args[0].(*ast.CompositeLit); ok {
								seq = append(seq, "append:"+exprString(cl.Type))
							} else {
								seq = append(seq, "append:"+exprString(x.Args[0]))
							}
						}
					case *ast.AssignStmt:
						for _, l := range x.Lhs {
							if se, ok := l.(*ast.SelectorExpr); ok {
								seq = append(seq, "assign:"+exprString(se))
							}
						}
					}
					return true
				})
				hasAppend := false
				for _, s := range seq {
					if strings.HasPrefix(s, "append:") {
						hasAppend = true
					}
				}
				if hasAppend {
					sites = append(sites, funcName(fd)+" = "+strings.Join(seq, " ; "))
				}
			}
		}
		sort.Strings(sites)
		out.f("def journalAppendSites : List String := %s\n", leanStrList(sites))
		// the write-back: Commit, CommitCacheCtx, commitCtx
		var commits []string
		for _, name := range []string{"StateDB.Commit", "StateDB.CommitCacheCtx", "StateDB.commitCtx"} {
			fd := findFunc(repo, "x/evm/statedb", name)
			if fd == nil || fd.Body == nil {
				return fmt.Errorf("%s not found", name)
			}
			commits = append(commits, name+" = "+strings.Join(skeleton(fd.Body), " ; "))
		}
		out.f("def commitSkeletons : List String := %s\n", leanStrList(commits))
		return nil
	}
}
