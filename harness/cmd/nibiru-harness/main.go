// nibiru-harness drives the real NibiruChain/nibiru code (linked in-process from /repo through the replace directive)
// with generated operation sequences and prints one canonical observation per operation.
package main

import (
	"flag"
	"fmt"
	"os"
	"sort"

	"verif/harness/internal/hx"
)

type runner func(r *hx.R, n int, w *hx.W, args []string) error

var runners = map[string]runner{}

func main() {
	if len(os.Args) < 2 {
		names := []string{}
		for k := range runners {
			names = append(names, k)
		}
		sort.Strings(names)
		fmt.Fprintln(os.Stderr, "usage: nibiru-harness <model> [-seed S] [-n N] [-out DIR] ; models:", names)
		os.Exit(2)
	}
	model := os.Args[1]
	fs := flag.NewFlagSet(model, flag.ExitOnError)
	seed := fs.Int64("seed", 1, "PRNG seed")
	n := fs.Int("n", 100, "number of generated sequences / cases")
	out := fs.String("out", ".", "output directory for ops.txt and impl.out")
	_ = fs.Parse(os.Args[2:])
	run, ok := runners[model]
	if !ok {
		fmt.Fprintln(os.Stderr, "unknown model", model)
		os.Exit(2)
	}
	w := hx.NewW(*out)
	err := run(hx.NewR(*seed), *n, w, fs.Args())
	w.Close()
	fmt.Printf("STATS model=%s steps=%d %s\n", model, w.N, w.Stats())
	if err != nil {
		fmt.Fprintln(os.Stderr, "harness error:", err)
		os.Exit(3)
	}
}
