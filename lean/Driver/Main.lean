/-
  Driver.Main — line protocol: each input line is `<model> <op> <args…>`; one output line per input line.
  Core-only (no Mathlib) so that it can be compiled with `lake build driver`.
-/
import NibiruModel
import Generated.Facts

open Nibiru

structure DriverState where
  epochs : Epochs.State := []
  infl : Inflation.State := default
  ovote : OracleVotes.State := {}
  tf : TF.State × TF.View := default
  sudo : Sudo.State := default
  devgas : DevGas.State := default
  logidx : LogIndex.State := {}
  evmtx : EvmTx.State × EvmTx.View := default
  sdb : SDB.S := {}
  msgtree : MsgTree.State := {}
  ft : FunToken.State := {}
  gspec : GethSpec.G := {}

def splitArgs (line : String) : List String :=
  (line.trimAscii.toString.splitOn " ").filter (· ≠ "")

def stepLine (st : DriverState) (line : String) : DriverState × String :=
  match splitArgs line with
  | "epochs" :: "reset" :: _ => ({ st with epochs := [] }, "ok")
  | "epochs" :: args =>
    let (s', out) := Epochs.step st.epochs args
    ({ st with epochs := s' }, out)
  | "dec" :: args => (st, Dec.step args)
  | "ovote" :: args =>
    let (s', out) := OracleVotes.step st.ovote args
    ({ st with ovote := s' }, out)
  | "tf" :: args =>
    let (s', out) := TF.step st.tf args
    ({ st with tf := s' }, out)
  | "sudo" :: args =>
    let (s', out) := Sudo.step st.sudo args
    ({ st with sudo := s' }, out)
  | "devgas" :: args =>
    let (s', out) := DevGas.step st.devgas args
    ({ st with devgas := s' }, out)
  | "logidx" :: args =>
    let (s', out) := LogIndex.step (LogIndex.cfgOfFacts Generated.bloomSiteArgs) st.logidx args
    ({ st with logidx := s' }, out)
  | "evmtx" :: args =>
    let (s', out) := EvmTx.step st.evmtx args
    ({ st with evmtx := s' }, out)
  | "sdb" :: args =>
    let (s', out) := SDB.step {} st.sdb args
    ({ st with sdb := s' }, out)
  | "msgtree" :: args =>
    let (s', out) := MsgTree.step (MsgTree.guardOfFacts Generated.commissionDecoratorCases) st.msgtree args
    ({ st with msgtree := s' }, out)
  | "gspec" :: args =>
    let (s', out) := GethSpec.step st.gspec args
    ({ st with gspec := s' }, out)
  | "ft" :: args =>
    let (s', out) := FunToken.stepLine st.ft args
    ({ st with ft := s' }, out)
  | "pc" :: args =>
    (st, Precompile.step (Precompile.cfgOfFacts Generated.precompileRequiredGasLenCheck Generated.precompileIsMutation
      Generated.precompileRunCases Generated.precompileRunDefersOOG Generated.precompileRawStringUses Generated.getErc20AddressGuards) args)
  | "oracle" :: args => (st, Oracle.step args)
  | "interleave" :: args => (st, Concurrency.step args)
  | "infl" :: args =>
    let (s', out) := Inflation.step st.infl args
    ({ st with infl := s' }, out)
  | _ => (st, "bad-op")

partial def loop (h : IO.FS.Stream) (out : IO.FS.Stream) (st : DriverState) : IO Unit := do
  let line ← h.getLine
  if line.isEmpty then return ()
  if line.trimAscii.toString.isEmpty || line.startsWith "#" then
    loop h out st
  else
    let (st', o) := stepLine st line
    out.putStrLn o
    loop h out st'

def main : IO Unit := do
  let stdin ← IO.getStdin
  let stdout ← IO.getStdout
  loop stdin stdout {}
  stdout.flush
