// Package hx holds helpers shared by every harness sub-command: the seeded PRNG, the op/observation writer and
// panic capture.  Every random choice derives from one PRNG seeded by VERIF_SEED.
package hx

import (
	"bufio"
	"fmt"
	"math/big"
	"math/rand"
	"os"
	"path/filepath"
	"sort"
	"strings"
)

// W writes one operation line (ops.txt, what the Lean driver reads) and one observation line (impl.out, what the real
// code did) per step.
type W struct {
	ops, obs *bufio.Writer
	fo, fb   *os.File
	N        int
	Kinds    map[string]int // distribution of op kinds / result classes, for the evidence
}

func NewW(dir string) *W {
	if err := os.MkdirAll(dir, 0o755); err != nil {
		panic(err)
	}
	fo, err := os.Create(filepath.Join(dir, "ops.txt"))
	if err != nil {
		panic(err)
	}
	fb, err := os.Create(filepath.Join(dir, "impl.out"))
	if err != nil {
		panic(err)
	}
	return &W{ops: bufio.NewWriter(fo), obs: bufio.NewWriter(fb), fo: fo, fb: fb, Kinds: map[string]int{}}
}

// Step records one op and the observation of the real code.
func (w *W) Step(op string, obs string) {
	if strings.ContainsAny(op, "\n\r") || strings.ContainsAny(obs, "\n\r") {
		panic("newline in protocol line: " + op + " => " + obs)
	}
	fmt.Fprintln(w.ops, op)
	fmt.Fprintln(w.obs, obs)
	w.N++
}

func (w *W) Count(kind string) { w.Kinds[kind]++ }

func (w *W) Close() {
	w.ops.Flush()
	w.obs.Flush()
	w.fo.Close()
	w.fb.Close()
}

// Stats renders the distribution as sorted "k=v" pairs.
func (w *W) Stats() string {
	ks := make([]string, 0, len(w.Kinds))
	for k := range w.Kinds {
		ks = append(ks, k)
	}
	sort.Strings(ks)
	var sb strings.Builder
	for _, k := range ks {
		fmt.Fprintf(&sb, "%s=%d ", k, w.Kinds[k])
	}
	return strings.TrimSpace(sb.String())
}

// R is the single PRNG.
type R struct{ *rand.Rand }

func NewR(seed int64) *R { return &R{rand.New(rand.NewSource(seed))} }

func (r *R) Pick(n int) int { return r.Intn(n) }
func (r *R) Chance(num, den int) bool { return r.Intn(den) < num }
func (r *R) Range(lo, hi int64) int64 { // inclusive
	if hi <= lo {
		return lo
	}
	return lo + r.Int63n(hi-lo+1)
}

// BigBelow returns a uniformly random integer in [0, 2^bits).
func (r *R) BigBits(bits int) *big.Int {
	if bits <= 0 {
		return new(big.Int)
	}
	b := make([]byte, (bits+7)/8)
	r.Read(b)
	x := new(big.Int).SetBytes(b)
	return x.Rsh(x, uint(len(b)*8-bits))
}

// Recover runs f and maps a panic to ("panic", message).
func Recover(f func() string) (out string) {
	defer func() {
		if r := recover(); r != nil {
			msg := fmt.Sprint(r)
			msg = strings.ReplaceAll(msg, "\n", " ")
			if len(msg) > 120 {
				msg = msg[:120]
			}
			out = "panic"
			LastPanic = msg
		}
	}()
	return f()
}

var LastPanic string
