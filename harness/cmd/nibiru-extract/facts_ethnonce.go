package main

import (
	"go/ast"
	"sort"
	"strings"
)

// Facts about the nonce check of the EVM ante chain (C07): the model accepts a message iff its nonce EQUALS the signer's current
// sequence. In the code that is one comparison, made per message after the previous message's bump.
//   evmAnteNonceConditions   every `if` condition in the non-test files of app/evmante that mentions a nonce, as "func: cond", sorted
func init() {
	extractors["ethnonce"] = func(repo string, out *leanFile, js map[string]any) error {
		var conds []string
		for _, sf := range loadDir(repo, "app/evmante") {
			if strings.HasSuffix(sf.rel, "_test.go") {
				continue
			}
			for _, d := range sf.file.Decls {
				fd, ok := d.(*ast.FuncDecl)
				if !ok || fd.Body == nil {
					continue
				}
				ast.Inspect(fd.Body, func(n ast.Node) bool {
					if is, ok := n.(*ast.IfStmt); ok {
						c := exprString(is.Cond)
						if strings.Contains(strings.ToLower(c), "nonce") {
							conds = append(conds, funcName(fd)+": "+c)
						}
					}
					return true
				})
			}
		}
		sort.Strings(conds)
		out.f("def evmAnteNonceConditions : List String := %s\n", leanStrList(conds))
		// applyEvmMsgNonceAndVm: in Keeper.ApplyEvmMsg, in source order, every StateDB.SetNonce call (with its arguments) and every
		// interpreter entry (Create / Call): the nonce the interpreter sees — and derives a creation address from — is the one pinned
		// just before it
		var seq []string
		if fd := findFunc(repo, "x/evm/keeper", "Keeper.ApplyEvmMsg"); fd != nil {
			ast.Inspect(fd.Body, func(n ast.Node) bool {
				ce, ok := n.(*ast.CallExpr)
				if !ok {
					return true
				}
				if se, ok := ce.Fun.(*ast.SelectorExpr); ok {
					switch se.Sel.Name {
					case "SetNonce":
						var args []string
						for _, a := range ce.Args {
							args = append(args, exprString(a))
						}
						seq = append(seq, "SetNonce("+strings.Join(args, ", ")+")")
					case "Create", "Call":
						if strings.HasSuffix(exprString(se.X), "evmObj") {
							seq = append(seq, se.Sel.Name)
						}
					}
				}
				return true
			})
		}
		out.f("def applyEvmMsgNonceAndVm : List String := %s\n", leanStrList(seq))
		return nil
	}
}
