/-
  SDBTx — the last step of the C03 refinement: what Nibiru's `Commit` and go-ethereum's end-of-transaction write-back persist
  after the same transaction body.

  1. `journal.dirties` is exactly the per-address count of the surviving journal entries that dirtied the address — through
     appends, and through `journal.Revert`, which decrements per reverted entry and deletes at zero (`CntOK`, `DJ`); every dirtied
     address still has its object cached (`EC`) — induction over any body (`runT_tx`).
  2. Relational invariants with the reference state: every address a surviving entry dirtied is materialised in the reference's
     transaction state (`JG`); an address no surviving entry dirtied shows exactly what the store holds (`Clean`) — `runT_full`.
  3. Per address: what `Commit` writes (SDBCommit, SDBWF) against what `GethSpec.commit` writes (SDBSpecCommit):
     `C03_transaction_commit_matches_reference_partial`.
-/
import NibiruProofs.SDBWF
import NibiruProofs.SDBSpecCommit

namespace Nibiru.SDB
open Nibiru

/-! ### the dirty counts are the per-address counts of the journal -/

def cnt (a : Nat) (J : List Entry) : Nat := (J.filter (fun e => decide (e.dirtied = some a))).length

def CntOK (d : List (Nat × Int)) (J : List Entry) : Prop :=
  ∀ a, AList.find? d a = if cnt a J = 0 then none else some ((cnt a J : Nat) : Int)

/-- the bookkeeping half of `journal.append` -/
def bumpStep (d : List (Nat × Int)) (e : Entry) : List (Nat × Int) :=
  match e.dirtied with
  | some a => bumpDirty d a 1
  | none => d

/-- the bookkeeping half of one iteration of `journal.Revert` -/
def unStep (d : List (Nat × Int)) (e : Entry) : List (Nat × Int) :=
  match e.dirtied with
  | some a => unDirty d a
  | none => d

theorem cnt_append (a : Nat) (J : List Entry) (e : Entry) :
    cnt a (J ++ [e]) = cnt a J + (if e.dirtied = some a then 1 else 0) := by
  unfold cnt
  rw [List.filter_append, List.length_append]
  by_cases h : e.dirtied = some a
  · simp [h]
  · simp [h]

theorem cntOK_bump (d : List (Nat × Int)) (J : List Entry) (e : Entry) (h : CntOK d J) : CntOK (bumpStep d e) (J ++ [e]) := by
  intro a
  rw [cnt_append]
  unfold bumpStep
  cases he : e.dirtied with
  | none =>
    have : ¬ (none : Option Nat) = some a := by simp
    simp only [this, if_false, Nat.add_zero]
    exact h a
  | some a0 =>
    simp only
    by_cases ha : a0 = a
    · subst ha
      simp only [if_true]
      unfold bumpDirty
      rw [AList.find?_set_self, h a0]
      have hne : cnt a0 J + 1 ≠ 0 := by omega
      simp only [hne, if_false]
      by_cases hz : cnt a0 J = 0
      · simp [hz]
      · simp only [hz, if_false, Option.getD_some]
        congr 1
    · have hne : ¬ (some a0 = some a) := fun e' => ha (Option.some.inj e')
      simp only [hne, if_false, Nat.add_zero]
      unfold bumpDirty
      rw [AList.find?_set_ne _ _ _ _ ha]
      exact h a

theorem cntOK_un (d : List (Nat × Int)) (J : List Entry) (e : Entry) (h : CntOK d (J ++ [e])) : CntOK (unStep d e) J := by
  intro a
  have ha := h a
  rw [cnt_append] at ha
  unfold unStep
  cases he : e.dirtied with
  | none =>
    rw [he] at ha
    have : ¬ (none : Option Nat) = some a := by simp
    simp only [this, if_false, Nat.add_zero] at ha
    exact ha
  | some a0 =>
    rw [he] at ha
    simp only
    by_cases haa : a0 = a
    · subst haa
      simp only [if_true] at ha
      have hne : cnt a0 J + 1 ≠ 0 := by omega
      simp only [hne, if_false] at ha
      unfold unDirty
      rw [ha]
      simp only [Option.getD_some]
      by_cases hz : cnt a0 J = 0
      · have : ((cnt a0 J + 1 : Nat) : Int) - 1 = 0 := by rw [hz]; rfl
        simp only [this, if_true, hz]
        exact AList.find?_erase_self _ _
      · have hc : ((cnt a0 J + 1 : Nat) : Int) - 1 = ((cnt a0 J : Nat) : Int) := by omega
        have hnz : ¬ ((cnt a0 J : Nat) : Int) = 0 := by omega
        rw [hc]
        simp only [hnz, if_false, hz]
        exact AList.find?_set_self _ _ _
    · have hne : ¬ (some a0 = some a) := fun e' => haa (Option.some.inj e')
      simp only [hne, if_false, Nat.add_zero] at ha
      unfold unDirty
      simp only
      split
      · rw [AList.find?_erase_ne _ _ _ haa]; exact ha
      · rw [AList.find?_set_ne _ _ _ _ haa]; exact ha

/-- the dirty-count half of `journal.Revert` over a suffix, newest entry first -/
theorem cntOK_unfold (r : List Entry) (J : List Entry) (d : List (Nat × Int)) (h : CntOK d (J ++ r.reverse)) :
    CntOK (r.foldl unStep d) J := by
  induction r generalizing d with
  | nil => simpa using h
  | cons e t ih =>
    simp only [List.foldl_cons]
    apply ih
    have : J ++ (e :: t).reverse = (J ++ t.reverse) ++ [e] := by simp
    rw [this] at h
    exact cntOK_un d _ e h

theorem cntOK_folds (es : List Entry) (J : List Entry) (d : List (Nat × Int)) (h : CntOK d J) : CntOK (es.foldl bumpStep d) (J ++ es) := by
  induction es generalizing d J with
  | nil => simpa using h
  | cons e t ih =>
    simp only [List.foldl_cons]
    have := ih (J ++ [e]) (bumpStep d e) (cntOK_bump d J e h)
    simpa using this

/-- `DJ s`: the invariant on a StateDB -/
def DJ (s : S) : Prop := CntOK s.dirties s.journal

theorem dj_mem (s : S) (h : DJ s) (a : Nat) : a ∈ s.dirties.map (·.1) ↔ ∃ e ∈ s.journal, e.dirtied = some a := by
  have ha := h a
  constructor
  · intro hin
    have hne : AList.find? s.dirties a ≠ none := fun e => (find?_none_iff s.dirties a).mp e hin
    by_cases hz : cnt a s.journal = 0
    · rw [hz] at ha; simp at ha; exact absurd ha hne
    · unfold cnt at hz
      have : (s.journal.filter (fun e => decide (e.dirtied = some a))) ≠ [] := fun e => hz (by rw [e]; rfl)
      obtain ⟨e, he⟩ := List.exists_mem_of_ne_nil _ this
      have := List.mem_filter.mp he
      exact ⟨e, this.1, by simpa using this.2⟩
  · intro ⟨e, he, hd⟩
    have hpos : cnt a s.journal ≠ 0 := by
      unfold cnt
      have hmem : e ∈ s.journal.filter (fun e => decide (e.dirtied = some a)) := List.mem_filter.mpr ⟨he, by simpa using hd⟩
      intro hz
      have hnil := List.eq_nil_of_length_eq_zero hz
      rw [hnil] at hmem
      cases hmem
    simp only [hpos, if_false] at ha
    apply Classical.byContradiction
    intro hnot
    have := (find?_none_iff s.dirties a).mpr hnot
    rw [this] at ha
    cases ha

/-- `s'` was obtained from `s` by appending `es` to the journal (and by operations that touch neither the journal nor the counts) -/
def Appended (s s' : S) (es : List Entry) : Prop := s'.journal = s.journal ++ es ∧ s'.dirties = es.foldl bumpStep s.dirties

theorem Appended.refl (s : S) : Appended s s [] := ⟨by simp, rfl⟩

theorem Appended.trans {s s1 s2 : S} {e1 e2 : List Entry} (h1 : Appended s s1 e1) (h2 : Appended s1 s2 e2) : Appended s s2 (e1 ++ e2) :=
  ⟨by rw [h2.1, h1.1, List.append_assoc], by rw [h2.2, h1.2, List.foldl_append]⟩

theorem Appended.dj {s s' : S} {es : List Entry} (h : Appended s s' es) (hd : DJ s) : DJ s' := by
  unfold DJ
  rw [h.1, h.2]
  exact cntOK_folds es _ _ hd

theorem appended_append (s : S) (e : Entry) : Appended s (append s e) [e] := ⟨rfl, rfl⟩

theorem appended_same {s t : S} (hj : t.journal = s.journal) (hd : t.dirties = s.dirties) : Appended s t [] := ⟨by simp [hj], hd⟩

theorem getObj_dj (s : S) (a : Nat) : (getObj s a).1.journal = s.journal ∧ (getObj s a).1.dirties = s.dirties := by
  unfold getObj
  split
  · exact ⟨rfl, rfl⟩
  · split <;> exact ⟨rfl, rfl⟩

/-! ### what each operation appends, and which objects it leaves cached -/

theorem appended_getOrNew (s : S) (a : Nat) :
    ∃ es, Appended s (getOrNew s a).1 es ∧ (es = [] ∨ es = [.createObject a]) := by
  obtain ⟨j, d⟩ := getObj_dj s a
  unfold getOrNew
  rcases hg : getObj s a with ⟨s1, _ | o⟩
  · rw [hg] at j d
    dsimp only
    refine ⟨[.createObject a], ?_, Or.inr rfl⟩
    have h1 : Appended s s1 [] := appended_same j d
    have h2 : Appended s1 (setObj (append s1 (.createObject a)) a {}) [.createObject a] := ⟨rfl, rfl⟩
    simpa using h1.trans h2
  · rw [hg] at j d
    exact ⟨[], appended_same j d, Or.inl rfl⟩

/-- an account write of the interpreter: everything it appends dirties `a` and is not a `PrecompileCalled`; `a` is cached afterwards
    unless nothing happened at all; every other object is untouched -/
structure Desc (s s' : S) (a : Nat) : Prop where
  es : ∃ es, Appended s s' es ∧ ∀ e ∈ es, e.plain = true ∧ e.dirtied = some a
  cachedA : (∃ o, AList.find? s'.objs a = some o) ∨ s'.journal = s.journal
  keepsA : ∀ o, AList.find? s.objs a = some o → ∃ o', AList.find? s'.objs a = some o'
  other : ∀ b, a ≠ b → AList.find? s'.objs b = AList.find? s.objs b

theorem desc_field (s : S) (a : Nat) (e : Entry) (o' : Obj) (hp : e.plain = true) (hd : e.dirtied = some a) :
    Desc s (setObj (append (getOrNew s a).1 e) a o') a := by
  obtain ⟨pre, hpre, hcase⟩ := appended_getOrNew s a
  refine ⟨⟨pre ++ [e], ?_, ?_⟩, Or.inl ⟨o', find_setObj_same _ _ _⟩, fun _ _ => ⟨o', find_setObj_same _ _ _⟩, fun b hab => ?_⟩
  · have h2 : Appended (getOrNew s a).1 (setObj (append (getOrNew s a).1 e) a o') [e] := ⟨rfl, rfl⟩
    exact hpre.trans h2
  · intro x hx
    rcases List.mem_append.mp hx with h | h
    · rcases hcase with e0 | e1
      · rw [e0] at h; cases h
      · rw [e1] at h; simp only [List.mem_singleton] at h; subst h; exact ⟨rfl, rfl⟩
    · simp only [List.mem_singleton] at h; subst h; exact ⟨hp, hd⟩
  · rw [find_setObj_other _ _ _ _ hab]
    exact (getOrNew_other s a b hab).2.2

theorem desc_noentry (s : S) (a : Nat) (o' : Obj) : Desc s (setObj (getOrNew s a).1 a o') a := by
  obtain ⟨pre, hpre, hcase⟩ := appended_getOrNew s a
  refine ⟨⟨pre, ⟨hpre.1, hpre.2⟩, ?_⟩, Or.inl ⟨o', find_setObj_same _ _ _⟩, fun _ _ => ⟨o', find_setObj_same _ _ _⟩, fun b hab => ?_⟩
  · intro x hx
    rcases hcase with e0 | e1
    · rw [e0] at hx; cases hx
    · rw [e1] at hx; simp only [List.mem_singleton] at hx; subst hx; exact ⟨rfl, rfl⟩
  · rw [find_setObj_other _ _ _ _ hab]
    exact (getOrNew_other s a b hab).2.2

theorem desc_getOrNew (s : S) (a : Nat) : Desc s (getOrNew s a).1 a := by
  obtain ⟨pre, hpre, hcase⟩ := appended_getOrNew s a
  obtain ⟨_, _, _, hfind⟩ := getOrNew_shape s a
  refine ⟨⟨pre, hpre, ?_⟩, Or.inl ⟨_, hfind⟩, fun _ _ => ⟨_, hfind⟩, fun b hab => (getOrNew_other s a b hab).2.2⟩
  intro x hx
  rcases hcase with e0 | e1
  · rw [e0] at hx; cases hx
  · rw [e1] at hx; simp only [List.mem_singleton] at hx; subst hx; exact ⟨rfl, rfl⟩

theorem desc_applyW (s : S) (w : WOp) (a : Nat) (hacct : w.acct = some a) : Desc s (applyW s w) a := by
  cases w with
  | addLog => cases hacct
  | addRefund g => cases hacct
  | subRefund g => cases hacct
  | addAddr a' => cases hacct
  | addSlot a' k => cases hacct
  | addBalance a' d =>
    have : a' = a := by injection hacct
    subst this
    show Desc s (addBalance s a' d) a'
    rw [addBalance_eq]
    by_cases hd : d = 0
    · simp only [hd, if_true]; exact desc_getOrNew s a'
    · simp only [hd, if_false]; exact desc_field s a' _ _ rfl rfl
  | setNonce a' n =>
    have : a' = a := by injection hacct
    subst this
    show Desc s (setNonce s a' n) a'
    rw [setNonce_eq]; exact desc_field s a' _ _ rfl rfl
  | setCode a' c =>
    have : a' = a := by injection hacct
    subst this
    show Desc s (setCode s a' c) a'
    rw [setCode_eq]; exact desc_field s a' _ _ rfl rfl
  | setState a' k v =>
    have : a' = a := by injection hacct
    subst this
    show Desc s (setState s a' k v) a'
    rw [setState_eq]
    by_cases hv : objState (getOrNew s a').1 a' (getOrNew s a').2 k = v
    · simp only [hv, if_true]; exact desc_noentry s a' _
    · simp only [hv, if_false]; exact desc_field s a' _ _ rfl rfl
  | suicide a' =>
    have : a' = a := by injection hacct
    subst this
    show Desc s (suicide s a').1 a'
    obtain ⟨j, d⟩ := getObj_dj s a'
    obtain ⟨_, g2, _, _, _⟩ := getObj_shape s a'
    unfold suicide
    rcases hg : getObj s a' with ⟨s1, _ | o⟩
    · have e1 : (getObj s a').1 = s1 := by rw [hg]
      rw [e1] at j d g2
      dsimp only
      refine ⟨⟨[], appended_same j d, by simp⟩, Or.inr j, fun o ho => ?_, fun b hab => ?_⟩
      · obtain ⟨o', f', _⟩ := g2.objs a' o ho; exact ⟨o', f'⟩
      · have := (getObj_other s a' b hab).2.2; rw [e1] at this; exact this
    · have e1 : (getObj s a').1 = s1 := by rw [hg]
      rw [e1] at j d
      dsimp only
      refine ⟨⟨[.suicide a' o.suicided o.balance], ?_, ?_⟩, Or.inl ⟨_, find_setObj_same _ _ _⟩, fun _ _ => ⟨_, find_setObj_same _ _ _⟩,
        fun b hab => ?_⟩
      · have h1 : Appended s s1 [] := appended_same j d
        have h2 : Appended s1 (setObj (append s1 (.suicide a' o.suicided o.balance)) a' { o with suicided := true, balance := 0 })
            [.suicide a' o.suicided o.balance] := ⟨rfl, rfl⟩
        simpa using h1.trans h2
      · intro x hx; simp only [List.mem_singleton] at hx; subst hx; exact ⟨rfl, rfl⟩
      · rw [find_setObj_other _ _ _ _ hab]
        have := (getObj_other s a' b hab).2.2; rw [e1] at this; exact this

/-- the counters: nothing they append dirties an address, no object is touched -/
theorem desc_counter (s : S) (w : WOp) (hacct : w.acct = none) :
    (∃ es, Appended s (applyW s w) es ∧ ∀ e ∈ es, e.plain = true ∧ e.dirtied = none) ∧
    ∀ b, AList.find? (applyW s w).objs b = AList.find? s.objs b := by
  refine ⟨?_, fun b => (applyW_other s w b (by rw [hacct]; simp)).2.2⟩
  cases w with
  | addBalance a d => cases hacct
  | setNonce a n => cases hacct
  | setCode a c => cases hacct
  | setState a k v => cases hacct
  | suicide a => cases hacct
  | addLog => exact ⟨[.addLog], ⟨rfl, rfl⟩, by simp [Entry.plain, Entry.dirtied]⟩
  | addRefund g => exact ⟨[.refund s.refund], ⟨rfl, rfl⟩, by simp [Entry.plain, Entry.dirtied]⟩
  | subRefund g =>
    show ∃ es, Appended s ((subRefund s g).getD s) es ∧ _
    unfold subRefund
    split
    · exact ⟨[], Appended.refl s, by simp⟩
    · exact ⟨[.refund s.refund], ⟨rfl, rfl⟩, by simp [Entry.plain, Entry.dirtied]⟩
  | addAddr a =>
    show ∃ es, Appended s (addAddr s a) es ∧ _
    unfold addAddr
    split
    · exact ⟨[], Appended.refl s, by simp⟩
    · exact ⟨[.alAddr a], ⟨rfl, rfl⟩, by simp [Entry.plain, Entry.dirtied]⟩
  | addSlot a k =>
    show ∃ es, Appended s (addSlot s a k) es ∧ _
    have h1 : ∃ es, Appended s (addAddr s a) es ∧ ∀ e ∈ es, e.plain = true ∧ e.dirtied = none := by
      unfold addAddr
      split
      · exact ⟨[], Appended.refl s, by simp⟩
      · exact ⟨[.alAddr a], ⟨rfl, rfl⟩, by simp [Entry.plain, Entry.dirtied]⟩
    obtain ⟨es1, a1, p1⟩ := h1
    unfold addSlot
    dsimp only
    split
    · exact ⟨es1, a1, p1⟩
    · refine ⟨es1 ++ [.alSlot a k], a1.trans ⟨rfl, rfl⟩, ?_⟩
      intro e he
      rcases List.mem_append.mp he with h | h
      · exact p1 e h
      · simp only [List.mem_singleton] at h; subst h; exact ⟨rfl, rfl⟩

/-! ### the Nibiru-side invariants through any transaction body -/

/-- every address a surviving journal entry dirtied has its object cached -/
def EC (s : S) : Prop := ∀ e ∈ s.journal, ∀ a, e.dirtied = some a → ∃ o, AList.find? s.objs a = some o

/-- undoing the entries appended since `s` leads `Grows`-above `s` -/
def Back (s s' : S) : Prop :=
  ∃ es, s'.journal = s.journal ++ es ∧ (∀ e ∈ es, e.plain = true) ∧ Grows s (revertEntries s' es.reverse)

theorem grows_revertEntries_congr (l : List Entry) (hl : ∀ e ∈ l, e.plain = true) {t t' : S} (h : Grows t t') :
    Grows (revertEntries t l) (revertEntries t' l) := by
  induction l generalizing t t' with
  | nil => exact h
  | cons e r ih =>
    simp only [revertEntries, List.foldl_cons]
    exact ih (fun x hx => hl x (List.mem_cons_of_mem _ hx)) (grows_revertEntry_congr h e (hl e (List.mem_cons_self ..)))

theorem Back.refl (s : S) : Back s s := ⟨[], by simp, by simp, Grows.refl s⟩

theorem Back.trans {s s1 s2 : S} (h1 : Back s s1) (h2 : Back s1 s2) : Back s s2 := by
  obtain ⟨e1, j1, p1, g1⟩ := h1
  obtain ⟨e2, j2, p2, g2⟩ := h2
  refine ⟨e1 ++ e2, by rw [j2, j1, List.append_assoc], ?_, ?_⟩
  · intro e he
    rcases List.mem_append.mp he with h | h
    · exact p1 e h
    · exact p2 e h
  · rw [List.reverse_append, revertEntries_append]
    exact g1.trans (grows_revertEntries_congr e1.reverse (fun e he => p1 e (List.mem_reverse.mp he)) g2)

theorem chk_plain (l : List Entry) (s : S) (h : Chk s l) : ∀ e ∈ l, e.plain = true := by
  induction l generalizing s with
  | nil => intro e he; cases he
  | cons x r ih =>
    intro e he
    rcases List.mem_cons.mp he with h1 | h1
    · subst h1; exact pre_plain s e h.1
    · exact ih _ h.2 e h1

theorem back_of_step {s s' : S} (st : Step s s') : Back s s' := by
  obtain ⟨es, hj, hchk, hg⟩ := st.shape
  exact ⟨es, hj, fun e he => chk_plain _ _ hchk e (List.mem_reverse.mpr he), hg⟩

theorem ec_of_desc {s s' : S} {a : Nat} (d : Desc s s' a) (h : EC s) : EC s' := by
  obtain ⟨es, happ, hes⟩ := d.es
  intro e he b hb
  rw [happ.1] at he
  rcases List.mem_append.mp he with h1 | h1
  · obtain ⟨o, ho⟩ := h e h1 b hb
    by_cases hab : a = b
    · subst hab; exact d.keepsA o ho
    · rw [d.other b hab]; exact ⟨o, ho⟩
  · have hd := (hes e h1).2
    rw [hd] at hb
    injection hb with hb
    subst hb
    rcases d.cachedA with hc | hj
    · exact hc
    · rw [happ.1] at hj
      have : es = [] := by
        have := congrArg List.length hj
        simp at this
        exact this
      rw [this] at h1; cases h1

theorem createAccount_desc (s : S) (a : Nat) :
    (∃ es, Appended s (createAccount s a) es ∧ ∀ e ∈ es, e.plain = true ∧ (e.dirtied = some a ∨ e.dirtied = none)) ∧
    (∃ o, AList.find? (createAccount s a).objs a = some o) ∧
    (∀ b, a ≠ b → AList.find? (createAccount s a).objs b = AList.find? s.objs b) := by
  obtain ⟨j, d⟩ := getObj_dj s a
  unfold createAccount
  rcases hg : getObj s a with ⟨s1, _ | prev⟩
  · have e1 : (getObj s a).1 = s1 := by rw [hg]
    rw [e1] at j d
    dsimp only
    refine ⟨⟨[.createObject a], ?_, ?_⟩, ⟨_, find_setObj_same _ _ _⟩, fun b hab => ?_⟩
    · have h1 : Appended s s1 [] := appended_same j d
      have h2 : Appended s1 (setObj (append s1 (.createObject a)) a {}) [.createObject a] := ⟨rfl, rfl⟩
      simpa using h1.trans h2
    · intro x hx; simp only [List.mem_singleton] at hx; subst hx; exact ⟨rfl, Or.inl rfl⟩
    · rw [find_setObj_other _ _ _ _ hab]
      have := (getObj_other s a b hab).2.2; rw [e1] at this; exact this
  · have e1 : (getObj s a).1 = s1 := by rw [hg]
    rw [e1] at j d
    dsimp only
    refine ⟨⟨[.resetObject a prev], ?_, ?_⟩, ⟨_, find_setObj_same _ _ _⟩, fun b hab => ?_⟩
    · have h1 : Appended s s1 [] := appended_same j d
      have h2 : Appended s1 (setObj (append s1 (.resetObject a prev)) a { balance := prev.balance }) [.resetObject a prev] := ⟨rfl, rfl⟩
      simpa using h1.trans h2
    · intro x hx; simp only [List.mem_singleton] at hx; subst hx; exact ⟨rfl, Or.inr rfl⟩
    · rw [find_setObj_other _ _ _ _ hab]
      have := (getObj_other s a b hab).2.2; rw [e1] at this; exact this

/-- the Nibiru-side bundle -/
structure NInv (s : S) : Prop where
  inv : Inv s
  dj : DJ s
  ec : EC s

theorem ninv_write (s : S) (h : NInv s) (w : WOp) : NInv (applyW s w) := by
  refine ⟨inv_step h.inv (step_applyW s h.inv.1 w), ?_, ?_⟩
  · cases hacct : w.acct with
    | none => obtain ⟨⟨es, happ, _⟩, _⟩ := desc_counter s w hacct; exact happ.dj h.dj
    | some a => obtain ⟨es, happ, _⟩ := (desc_applyW s w a hacct).es; exact happ.dj h.dj
  · cases hacct : w.acct with
    | none =>
      obtain ⟨⟨es, happ, hes⟩, hobjs⟩ := desc_counter s w hacct
      intro e he b hb
      rw [happ.1] at he
      rcases List.mem_append.mp he with h1 | h1
      · rw [hobjs b]; exact h.ec e h1 b hb
      · rw [(hes e h1).2] at hb; cases hb
    | some a => exact ec_of_desc (desc_applyW s w a hacct) h.ec

theorem ninv_create (s : S) (h : NInv s) (a : Nat) : NInv (createAccount s a) := by
  obtain ⟨⟨es, happ, hes⟩, hca, hother⟩ := createAccount_desc s a
  refine ⟨inv_step h.inv (step_createAccount s h.inv.1 a), happ.dj h.dj, ?_⟩
  intro e he b hb
  rw [happ.1] at he
  by_cases hab : a = b
  · subst hab; exact hca
  · rw [hother b hab]
    rcases List.mem_append.mp he with h1 | h1
    · exact h.ec e h1 b hb
    · rcases (hes e h1).2 with hd | hd
      · rw [hd] at hb; injection hb with hb; exact absurd hb hab
      · rw [hd] at hb; cases hb

theorem ninv_read (s : S) (h : NInv s) (r : ROp) : NInv (applyR s r) := by
  have hi := inert_read s r
  have st := step_read s h.inv.1 r
  obtain ⟨_, _, _, hg⟩ := back_of_step st
  refine ⟨inv_step h.inv st, (appended_same hi.journal hi.dirties).dj h.dj, ?_⟩
  intro e he b hb
  rw [hi.journal] at he
  obtain ⟨o, ho⟩ := h.ec e he b hb
  -- reads only add cached objects
  have hgrow : Grows s (applyR s r) := by
    obtain ⟨es, hj, _, hgr⟩ := st.shape
    have : es = [] := by
      rw [hi.journal] at hj
      have := congrArg List.length hj
      simp at this
      exact this
    subst this
    exact hgr
  obtain ⟨o', ho', _⟩ := hgrow.objs b o ho
  exact ⟨o', ho'⟩

theorem ninv_snapshot (s : S) (h : NInv s) : NInv (snapshot s).1 :=
  ⟨inv_step h.inv (step_snapshot s h.inv.1), h.dj, h.ec⟩

/-- after `RevertToSnapshot`: the counts are those of the restored journal, and what the restored journal dirtied is still cached -/
theorem ninv_revert (s s2 : S) (es : List Entry) (hj : s2.journal = s.journal ++ es) (h : NInv s) (h2 : NInv s2)
    (hback : Grows s (revertEntries s2 es.reverse)) (revs : List (Nat × Nat)) :
    NInv { (revertTo s2 s.journal.length) with revisions := revs } := by
  have hdrop : s2.journal.drop s.journal.length = es := by rw [hj]; simp
  have htake : s2.journal.take s.journal.length = s.journal := by rw [hj]; simp
  refine ⟨inv_revert s s2 es hj h2.inv revs, ?_, ?_⟩
  · show CntOK (((s2.journal.drop s.journal.length).reverse).foldl
        (fun d e => match e.dirtied with | some a => unDirty d a | none => d) s2.dirties) (s2.journal.take s.journal.length)
    rw [hdrop, htake]
    have := cntOK_unfold es.reverse s.journal s2.dirties (by rw [List.reverse_reverse, ← hj]; exact h2.dj)
    exact this
  · intro e he b hb
    have he' : e ∈ s2.journal.take s.journal.length := he
    rw [htake] at he'
    obtain ⟨o, ho⟩ := h.ec e he' b hb
    obtain ⟨o', ho', _⟩ := hback.objs b o ho
    show ∃ o, AList.find? (revertEntries s2 (s2.journal.drop s.journal.length).reverse).objs b = some o
    rw [hdrop]
    exact ⟨o', ho'⟩

mutual
theorem runT_tx (b : Tree) (s : S) (h : NInv s) (hrev : RevOK s) :
    ∃ s', runT s b = some s' ∧ NInv s' ∧ Ext2 s s' ∧ Back s s' := by
  have hc : s.cache = none := h.inv.1.1
  cases b with
  | w op => exact ⟨applyW s op, rfl, ninv_write s h op, ext2_write s hc op, back_of_step (step_applyW s h.inv.1 op)⟩
  | r op => exact ⟨applyR s op, rfl, ninv_read s h op, ext2_of_inert (inert_read s op) hc, back_of_step (step_read s h.inv.1 op)⟩
  | create a => exact ⟨createAccount s a, rfl, ninv_create s h a, ext2_create s hc a, back_of_step (step_createAccount s h.inv.1 a)⟩
  | frame ok body =>
    have x0 := ext2_snapshot s hc
    have b0 : Back s (snapshot s).1 := back_of_step (step_snapshot s h.inv.1)
    obtain ⟨s2, hrun, n2, x2, b2⟩ := runTL_tx body (snapshot s).1 (ninv_snapshot s h) (x0.revOK hrev)
    cases ok with
    | true => exact ⟨s2, by simp only [runT, hrun]; rfl, n2, x0.trans x2, b0.trans b2⟩
    | false =>
      obtain ⟨s3, h3, x3, _, _, _⟩ := ext2_revert s s2 hc hrev x2
      have hexp := revertToSnapshot_explicit s s2 hrev x2.revs
      rw [hexp] at h3
      obtain ⟨es, hj, hpl, hg⟩ := b2
      have hj' : s2.journal = s.journal ++ es := hj
      have hg' : Grows s (revertEntries s2 es.reverse) := (grows_of_same (s := s) (t := (snapshot s).1) rfl rfl rfl).trans hg
      have n3 := ninv_revert s s2 es hj' h n2 hg' (s2.revisions.filter (fun r => r.1 < s.nextRev))
      have e3 := Option.some.inj h3
      rw [e3] at n3
      refine ⟨s3, by simp only [runT, hrun, hexp]; exact congrArg some e3, n3, x3, ?_⟩
      -- Back s s3 with an empty suffix: the reverted state is `Grows`-above `s`
      refine ⟨[], ?_, by simp, ?_⟩
      · rw [← e3]
        show s2.journal.take s.journal.length = s.journal ++ []
        rw [hj']; simp
      · rw [← e3]
        have hdrop : s2.journal.drop s.journal.length = es := by rw [hj']; simp
        refine hg'.trans (grows_of_same ?_ ?_ ?_)
        · show (revertEntries s2 (s2.journal.drop s.journal.length).reverse).txStore = _; rw [hdrop]
        · show (revertEntries s2 (s2.journal.drop s.journal.length).reverse).cache = _; rw [hdrop]
        · show (revertEntries s2 (s2.journal.drop s.journal.length).reverse).objs = _; rw [hdrop]
theorem runTL_tx (bs : List Tree) (s : S) (h : NInv s) (hrev : RevOK s) :
    ∃ s', runTL s bs = some s' ∧ NInv s' ∧ Ext2 s s' ∧ Back s s' := by
  cases bs with
  | nil => exact ⟨s, rfl, h, Ext2.refl s h.inv.1.1, Back.refl s⟩
  | cons b t =>
    obtain ⟨s1, hr1, n1, x1, b1⟩ := runT_tx b s h hrev
    obtain ⟨s2, hr2, n2, x2, b2⟩ := runTL_tx t s1 n1 (x1.revOK hrev)
    exact ⟨s2, by simp only [runTL, hr1]; exact hr2, n2, x1.trans x2, b1.trans b2⟩
end

theorem ninv_fresh (st : Store) : NInv { txStore := st } :=
  ⟨inv_fresh st, fun a => by simp [cnt, AList.find?], fun e he => by cases he⟩

/-- **the dirty set at the end of any transaction body** is exactly the set of addresses dirtied by a journal entry that survived
    every revert, and each of them has its state object cached — what `Commit` iterates over -/
theorem C04_dirty_set_after_any_body_partial (st : Store) (body : List Tree) :
    ∃ s', runTL { txStore := st } body = some s' ∧ WF s' ∧
      (∀ a, a ∈ s'.dirties.map (·.1) ↔ ∃ e ∈ s'.journal, e.dirtied = some a) ∧
      (∀ a, a ∈ s'.dirties.map (·.1) → ∃ o, AList.find? s'.objs a = some o) := by
  obtain ⟨s', hr, n, _, _⟩ := runTL_tx body { txStore := st } (ninv_fresh st) (fun r hr => by cases hr)
  refine ⟨s', hr, n.inv.1, dj_mem s' n.dj, fun a ha => ?_⟩
  obtain ⟨e, he, hd⟩ := (dj_mem s' n.dj a).mp ha
  exact n.ec e he a hd

/-! ### the relational invariants: journal entries vs materialised reference accounts, and clean accounts -/

/-- every address a surviving journal entry dirtied is materialised in the reference's transaction state -/
def JG (s : S) (g : GethSpec.G) : Prop :=
  ∀ e ∈ s.journal, ∀ a, e.dirtied = some a → ∃ x, AList.find? g.tx.objs a = some x

/-- an address that no surviving entry dirtied shows exactly what the store holds -/
def Clean (st : Store) (s : S) : Prop :=
  ∀ a, a ∉ s.dirties.map (·.1) → OptEqv st a (objOf s a) (loadObj st a)

theorem gobjs_setObj (g : GethSpec.G) (a b : Nat) (x : GethSpec.Acc) :
    AList.find? (GethSpec.setObj g a x).tx.objs b = if a = b then some x else AList.find? g.tx.objs b := by
  unfold GethSpec.setObj
  by_cases h : a = b
  · subst h; simp [AList.find?_set_self]
  · simp only [h, if_false]; exact AList.find?_set_ne _ _ _ _ h

/-- the reference never un-materialises an account on a plain call, and materialises the account of every write (a self-destruct
    only if the account exists) -/
theorem spec_objs_applyW (g : GethSpec.G) (w : WOp) :
    (∀ b x, AList.find? g.tx.objs b = some x → ∃ x', AList.find? (GethSpec.apply g (toSpec w)).1.tx.objs b = some x') ∧
    (∀ a, w.acct = some a → ((∀ a', w ≠ .suicide a') ∨ GethSpec.obj? g a ≠ none) →
      ∃ x, AList.find? (GethSpec.apply g (toSpec w)).1.tx.objs a = some x) := by
  have keep : ∀ (a : Nat) (y : GethSpec.Acc) b x, AList.find? g.tx.objs b = some x →
      ∃ x', AList.find? (GethSpec.setObj g a y).tx.objs b = some x' := by
    intro a y b x hb
    rw [gobjs_setObj]
    by_cases h : a = b
    · simp [h]
    · simp only [h, if_false]; exact ⟨x, hb⟩
  have mat : ∀ (a : Nat) (y : GethSpec.Acc), ∃ x, AList.find? (GethSpec.setObj g a y).tx.objs a = some x := by
    intro a y; rw [gobjs_setObj]; simp
  cases w with
  | addBalance a d => exact ⟨fun b x hb => keep a _ b x hb, fun a' ha _ => by injection ha with ha; subst ha; exact mat _ _⟩
  | setNonce a n => exact ⟨fun b x hb => keep a _ b x hb, fun a' ha _ => by injection ha with ha; subst ha; exact mat _ _⟩
  | setCode a c => exact ⟨fun b x hb => keep a _ b x hb, fun a' ha _ => by injection ha with ha; subst ha; exact mat _ _⟩
  | setState a k v => exact ⟨fun b x hb => keep a _ b x hb, fun a' ha _ => by injection ha with ha; subst ha; exact mat _ _⟩
  | suicide a =>
    simp only [toSpec, GethSpec.apply]
    cases ho : GethSpec.obj? g a with
    | none =>
      refine ⟨fun b x hb => ⟨x, hb⟩, fun a' ha hcond => ?_⟩
      injection ha with ha; subst ha
      rcases hcond with h | h
      · exact absurd rfl (h a)
      · exact absurd ho h
    | some o => exact ⟨fun b x hb => keep a _ b x hb, fun a' ha _ => by injection ha with ha; subst ha; exact mat _ _⟩
  | addLog => exact ⟨fun b x hb => ⟨x, hb⟩, fun a' ha _ => by cases ha⟩
  | addRefund r => exact ⟨fun b x hb => ⟨x, hb⟩, fun a' ha _ => by cases ha⟩
  | subRefund r =>
    refine ⟨fun b x hb => ?_, fun a' ha _ => by cases ha⟩
    simp only [toSpec, GethSpec.apply]
    split <;> exact ⟨x, hb⟩
  | addAddr a =>
    refine ⟨fun b x hb => ?_, fun a' ha _ => by cases ha⟩
    show ∃ x', AList.find? (GethSpec.apply g (.addAddr a)).1.tx.objs b = some x'
    rw [(gAddAddr_fields g a).2.1]; exact ⟨x, hb⟩
  | addSlot a k =>
    refine ⟨fun b x hb => ?_, fun a' ha _ => by cases ha⟩
    show ∃ x', AList.find? (GethSpec.apply g (.addSlot a k)).1.tx.objs b = some x'
    rw [(gAddSlot_fields g a k).2.1]; exact ⟨x, hb⟩

theorem suicide_absent (s : S) (hc : s.cache = none) (a : Nat) (h : objOf s a = none) : (suicide s a).1.journal = s.journal := by
  obtain ⟨h1, _⟩ := getObj_spec s hc a
  obtain ⟨j, _⟩ := getObj_dj s a
  unfold suicide
  rcases hg : getObj s a with ⟨s1, _ | o⟩
  · rw [hg] at j; exact j
  · rw [hg] at h1; simp only at h1; rw [← h1] at h; cases h

theorem jg_write (s : S) (g : GethSpec.G) (hs : Sim s g) (h : JG s g) (w : WOp) :
    JG (applyW s w) (GethSpec.apply g (toSpec w)).1 := by
  obtain ⟨keep, mat⟩ := spec_objs_applyW g w
  cases hacct : w.acct with
  | none =>
    obtain ⟨⟨es, happ, hes⟩, _⟩ := desc_counter s w hacct
    intro e he b hb
    rw [happ.1] at he
    rcases List.mem_append.mp he with h1 | h1
    · obtain ⟨x, hx⟩ := h e h1 b hb; exact keep b x hx
    · rw [(hes e h1).2] at hb; cases hb
  | some a =>
    obtain ⟨es, happ, hes⟩ := (desc_applyW s w a hacct).es
    intro e he b hb
    rw [happ.1] at he
    rcases List.mem_append.mp he with h1 | h1
    · obtain ⟨x, hx⟩ := h e h1 b hb; exact keep b x hx
    · rw [(hes e h1).2] at hb
      injection hb with hb
      subst hb
      apply mat a hacct
      -- a self-destruct journals something only if the account exists — on both sides, by the simulation
      by_cases hsu : ∃ a', w = .suicide a'
      · obtain ⟨a', hw⟩ := hsu
        subst hw
        have : a' = a := by injection hacct
        subst this
        refine Or.inr (fun hnone => ?_)
        have hr := hs.objs a'
        rw [hnone] at hr
        have hobj : objOf s a' = none := by
          cases ho : objOf s a' with
          | none => rfl
          | some o => rw [ho] at hr; exact False.elim hr
        have hj := suicide_absent s hs.cache a' hobj
        have hj' : (applyW s (.suicide a')).journal = s.journal := hj
        rw [happ.1] at hj'
        have : es = [] := by
          have := congrArg List.length hj'
          simp at this
          exact this
        rw [this] at h1; cases h1
      · exact Or.inl (fun a' hw => hsu ⟨a', hw⟩)

theorem objOf_of_find (s s' : S) (b : Nat) (h1 : AList.find? s'.objs b = AList.find? s.objs b) (h2 : s'.txStore = s.txStore) :
    objOf s' b = objOf s b := by unfold objOf; rw [h1, h2]

theorem clean_write (st : Store) (s : S) (hst : s.txStore = st) (hn : NInv s) (hn' : NInv (applyW s w)) (h : Clean st s) :
    Clean st (applyW s w) := by
  have hstore : (applyW s w).txStore = s.txStore :=
    (applyW_other s w ((w.acct.getD 0) + 1) (by cases h : w.acct <;> simp)).2.1
  have hc : s.cache = none := hn.inv.1.1
  intro b hb
  cases hacct : w.acct with
  | none =>
    obtain ⟨⟨es, happ, hes⟩, hobjs⟩ := desc_counter s w hacct
    have hb0 : b ∉ s.dirties.map (·.1) := by
      intro hin
      obtain ⟨e, he, hd⟩ := (dj_mem s hn.dj b).mp hin
      exact hb ((dj_mem _ hn'.dj b).mpr ⟨e, by rw [happ.1]; exact List.mem_append_left _ he, hd⟩)
    rw [objOf_of_find s (applyW s w) b (hobjs b) hstore]
    exact h b hb0
  | some a =>
    have d := desc_applyW s w a hacct
    obtain ⟨es, happ, hes⟩ := d.es
    have hb0 : b ∉ s.dirties.map (·.1) := by
      intro hin
      obtain ⟨e, he, hd⟩ := (dj_mem s hn.dj b).mp hin
      exact hb ((dj_mem _ hn'.dj b).mpr ⟨e, by rw [happ.1]; exact List.mem_append_left _ he, hd⟩)
    by_cases hab : a = b
    · subst hab
      -- nothing that dirties `a` was appended, so nothing was appended at all, and the call changed no observable
      have hnil : es = [] := by
        cases es with
        | nil => rfl
        | cons e r =>
          exfalso
          apply hb
          exact (dj_mem _ hn'.dj a).mpr ⟨e, by rw [happ.1]; simp, (hes e (List.mem_cons_self ..)).2⟩
      obtain ⟨es', hj', _, hobs⟩ := undoW_obs s hc w
      have : es' = [] := by
        rw [happ.1, hnil] at hj'
        have := congrArg List.length hj'
        simp at this
        exact this
      rw [this] at hobs
      have ho : Obs (applyW s w) s := hobs
      have e1 := ho.objs a
      rw [hstore, hst] at e1
      exact e1.trans (h a hb0)
    · rw [objOf_of_find s (applyW s w) b (d.other b hab) hstore]
      exact h b hb0

theorem jg_create (s : S) (g : GethSpec.G) (h : JG s g) (a : Nat) :
    JG (createAccount s a) (GethSpec.apply g (.createAccount a)).1 := by
  obtain ⟨⟨es, happ, hes⟩, _, _⟩ := createAccount_desc s a
  intro e he b hb
  show ∃ x, AList.find? (GethSpec.setObj g a _).tx.objs b = some x
  rw [gobjs_setObj]
  by_cases hab : a = b
  · simp [hab]
  · simp only [hab, if_false]
    rw [happ.1] at he
    rcases List.mem_append.mp he with h1 | h1
    · exact h e h1 b hb
    · rcases (hes e h1).2 with hd | hd
      · rw [hd] at hb; injection hb with hb; exact absurd hb hab
      · rw [hd] at hb; cases hb

/-- where `evm.create` may call `CreateAccount`: the persisted account (if any) has no nonce, no code and no storage -/
def CreateOK (st : Store) (a : Nat) : Prop :=
  (∀ k, st.slot a k = 0) ∧ ∀ x, st.acct a = some x → x.nonce = 0 ∧ x.codeHash = 0

theorem clean_create (st : Store) (s : S) (hst : s.txStore = st) (hn : NInv s) (hn' : NInv (createAccount s a)) (h : Clean st s)
    (hok : CreateOK st a) : Clean st (createAccount s a) := by
  have hc : s.cache = none := hn.inv.1.1
  obtain ⟨⟨es, happ, hes⟩, _, hother⟩ := createAccount_desc s a
  obtain ⟨fst, _, _, _⟩ := createAccount_frame s a
  intro b hb
  have hb0 : b ∉ s.dirties.map (·.1) := by
    intro hin
    obtain ⟨e, he, hd⟩ := (dj_mem s hn.dj b).mp hin
    exact hb ((dj_mem _ hn'.dj b).mpr ⟨e, by rw [happ.1]; exact List.mem_append_left _ he, hd⟩)
  by_cases hab : a = b
  · subst hab
    have hclean := h a hb0
    obtain ⟨h1, _⟩ := getObj_spec s hc a
    obtain ⟨j, _⟩ := getObj_dj s a
    -- which branch `createAccount` took
    cases hobj : objOf s a with
    | none =>
      -- over nothing: a `createObjectChange` dirties `a`
      exfalso
      apply hb
      have hjr : (createAccount s a).journal = s.journal ++ [.createObject a] := by
        unfold createAccount
        rcases hg : getObj s a with ⟨s1, _ | prev⟩
        · rw [hg] at j; dsimp only; show s1.journal ++ [Entry.createObject a] = _; rw [j]
        · rw [hg] at h1; simp only at h1; rw [← h1] at hobj; cases hobj
      exact (dj_mem _ hn'.dj a).mpr ⟨.createObject a, by rw [hjr]; simp, rfl⟩
    | some prev =>
      rw [hobj] at hclean
      have hnew : objOf (createAccount s a) a = some { balance := prev.balance } := by
        unfold createAccount
        rcases hg : getObj s a with ⟨s1, _ | p⟩
        · rw [hg] at h1; simp only at h1; rw [← h1] at hobj; cases hobj
        · rw [hg] at h1; simp only at h1; rw [← h1] at hobj; injection hobj with hobj; subst hobj
          dsimp only
          rw [objOf_setObj]; simp
      rw [hnew]
      cases hl : loadObj st a with
      | none => rw [hl] at hclean; exact False.elim hclean
      | some L =>
        rw [hl] at hclean
        unfold loadObj at hl
        cases hy : st.acct a with
        | none => rw [hy] at hl; cases hl
        | some y =>
          rw [hy] at hl
          simp only [Option.map] at hl
          injection hl with hl
          obtain ⟨hn0, hc0⟩ := hok.2 y hy
          subst hl
          exact ⟨hclean.1, hn0.symm, hc0.symm, rfl, fun _ => rfl, fun _ => rfl⟩
  · rw [objOf_of_find s (createAccount s a) b (hother b hab) fst, ]
    exact h b hb0

/-- after a reverted frame: the dirty set and every observable are those of the state at the snapshot -/
theorem clean_of_obs (st : Store) (s s3 : S) (hst : s.txStore = st) (hn : NInv s) (hn3 : NInv s3) (hj : s3.journal = s.journal)
    (hobs : Obs s3 s) (h : Clean st s) : Clean st s3 := by
  intro b hb
  have hb0 : b ∉ s.dirties.map (·.1) := by
    intro hin
    obtain ⟨e, he, hd⟩ := (dj_mem s hn.dj b).mp hin
    exact hb ((dj_mem _ hn3.dj b).mpr ⟨e, by rw [hj]; exact he, hd⟩)
  have e1 := hobs.objs b
  have hst3 : s3.txStore = st := by rw [← hst]; exact hobs.core.store.symm
  rw [hst3] at e1
  exact e1.trans (h b hb0)

mutual
def Tree.OK2 (st : Store) : Tree → Prop
  | .w _ => True
  | .r _ => True
  | .create a => CreateOK st a
  | .frame _ body => Tree.OKL2 st body
def Tree.OKL2 (st : Store) : List Tree → Prop
  | [] => True
  | b :: t => Tree.OK2 st b ∧ Tree.OKL2 st t
end

mutual
theorem ok_of_ok2 (st : Store) (b : Tree) (h : Tree.OK2 st b) : Tree.OK st b := by
  cases b with
  | w op => exact True.intro
  | r op => exact True.intro
  | create a => exact h.1
  | frame ok body => simp only [Tree.OK2] at h; simp only [Tree.OK]; exact okl_of_okl2 st body h
theorem okl_of_okl2 (st : Store) (bs : List Tree) (h : Tree.OKL2 st bs) : Tree.OKL st bs := by
  cases bs with
  | nil => exact True.intro
  | cons b t => simp only [Tree.OKL2] at h; simp only [Tree.OKL]; exact ⟨ok_of_ok2 st b h.1, okl_of_okl2 st t h.2⟩
end

/-- everything the last step needs, about a pair of states -/
structure Full (st : Store) (s : S) (g : GethSpec.G) : Prop where
  sim : Sim s g
  ninv : NInv s
  jg : JG s g
  clean : Clean st s
  store : s.txStore = st
  rev : RevOK s
  ids : GethSpec.IdsBelow g

mutual
theorem runT_full (st : Store) (b : Tree) (s : S) (g : GethSpec.G) (h : Full st s g) (hok : Tree.OK2 st b) :
    ∃ s', runT s b = some s' ∧ Full st s' (runGT g b) ∧ Ext2 s s' ∧ ExtG g (runGT g b) := by
  have hok1 : Tree.OK s.txStore b := by rw [h.store]; exact ok_of_ok2 st b hok
  -- the simulation, the Nibiru-side bundle and the bookkeeping come from the earlier inductions on the same tree
  obtain ⟨sa, hra, hsim, xa, ya⟩ := runT_sim b s g h.sim h.rev h.ids hok1
  obtain ⟨sb, hrb, hnb, _, _⟩ := runT_tx b s h.ninv h.rev
  have hsame : sb = sa := by rw [hra] at hrb; exact (Option.some.inj hrb).symm
  subst hsame
  have hstore : sb.txStore = st := xa.store.trans h.store
  have hrev' := xa.revOK h.rev
  have hids' := ya.idsBelow h.ids
  refine ⟨sb, hra, ?_, xa, ya⟩
  cases b with
  | w op =>
    have e : sb = applyW s op := (Option.some.inj hra).symm
    subst e
    exact ⟨hsim, hnb, by simp only [runGT]; exact jg_write s g h.sim h.jg op,
      clean_write st s h.store h.ninv hnb h.clean, hstore, hrev', hids'⟩
  | r op =>
    have e : sb = applyR s op := (Option.some.inj hra).symm
    subst e
    have hi := inert_read s op
    refine ⟨hsim, hnb, ?_, ?_, hstore, hrev', hids'⟩
    · simp only [runGT]
      intro e he a hd
      rw [hi.journal] at he
      exact h.jg e he a hd
    · intro b hb
      rw [hi.dirties] at hb
      have e1 := (hi.obs h.sim.cache).objs b
      rw [hstore] at e1
      exact e1.trans (h.clean b hb)
  | create a =>
    have e : sb = createAccount s a := (Option.some.inj hra).symm
    subst e
    exact ⟨hsim, hnb, by simp only [runGT]; exact jg_create s g h.jg a,
      clean_create st s h.store h.ninv hnb h.clean hok, hstore, hrev', hids'⟩
  | frame ok body =>
    simp only [Tree.OK2] at hok
    have hc : s.cache = none := h.sim.cache
    have hs1 : Sim (snapshot s).1 (GethSpec.apply g .snapshot).1 :=
      sim_congr_ref (snapshot s).1 g _ rfl rfl
        ⟨h.sim.cache, h.sim.storeOK, fun a => Rel_congr s (snapshot s).1 g g rfl rfl a _ _ (h.sim.objs a), h.sim.refund,
          h.sim.logs, h.sim.alA, h.sim.alS⟩
    have x0 := ext2_snapshot s hc
    have y0 := extG_snapshot g
    have f0 : Full st (snapshot s).1 (GethSpec.apply g .snapshot).1 :=
      ⟨hs1, ninv_snapshot s h.ninv, h.jg, h.clean, h.store, x0.revOK h.rev, y0.idsBelow h.ids⟩
    obtain ⟨s2, hrun, f2, x2, y2⟩ := runTL_full st body (snapshot s).1 (GethSpec.apply g .snapshot).1 f0 hok
    cases ok with
    | true =>
      have e : sb = s2 := by
        have : runT s (.frame true body) = some s2 := by simp only [runT, hrun]; rfl
        rw [hra] at this; exact Option.some.inj this
      subst e
      exact ⟨hsim, hnb, by simp only [runGT, if_true]; exact f2.jg, f2.clean, hstore, hrev', hids'⟩
    | false =>
      obtain ⟨s3, h3, x3, e3, hj3, _⟩ := ext2_revert s s2 hc h.rev x2
      obtain ⟨t1, _, _, _⟩ := extG_revert g _ h.ids y2
      have e : sb = s3 := by
        have : runT s (.frame false body) = some s3 := by simp only [runT, hrun]; exact h3
        rw [hra] at this; exact Option.some.inj this
      subst e
      refine ⟨hsim, hnb, ?_, clean_of_obs st s sb h.store h.ninv hnb hj3 e3 h.clean, hstore, hrev', hids'⟩
      simp only [runGT, Bool.false_eq_true, if_false]
      intro e he a hd
      rw [hj3] at he
      rw [t1]
      exact h.jg e he a hd
theorem runTL_full (st : Store) (bs : List Tree) (s : S) (g : GethSpec.G) (h : Full st s g) (hok : Tree.OKL2 st bs) :
    ∃ s', runTL s bs = some s' ∧ Full st s' (runGTL g bs) ∧ Ext2 s s' ∧ ExtG g (runGTL g bs) := by
  cases bs with
  | nil => exact ⟨s, rfl, h, Ext2.refl s h.sim.cache, ExtG.refl g⟩
  | cons b t =>
    simp only [Tree.OKL2] at hok
    obtain ⟨s1, hr1, f1, x1, y1⟩ := runT_full st b s g h hok.1
    obtain ⟨s2, hr2, f2, x2, y2⟩ := runTL_full st t s1 (runGT g b) f1 hok.2
    exact ⟨s2, by simp only [runTL, hr1]; exact hr2, by simp only [runGTL]; exact f2, x1.trans x2, by simp only [runGTL]; exact y1.trans y2⟩
end

/-! ### the last step: what the two write-backs persist -/

/-- how a persisted Nibiru account and a persisted reference account correspond; go-ethereum deletes an account that ends a
    transaction empty, Nibiru persists it as an empty record — the two are identified -/
def AcctRel (E : Prop) : Option StoreAcc → Option (Nat × Nat × Int) → Prop
  -- Nibiru's bank holds whole unibi: it persists the wei balance divided by 10^12, truncated
  | some x, some y => y.1 = x.nonce ∧ y.2.1 = x.codeHash ∧ x.balance = Int.tdiv y.2.2 weiPerUnibi
  | none, none => True
  | some x, none => x.nonce = 0 ∧ x.codeHash = 0 ∧ x.balance = 0 ∧ E    -- `E`: why the reference has no account here
  | none, some _ => False

/-- the reference deleted the account at `a` because it ended the transaction empty (EIP-161) -/
def EndedEmpty (g : GethSpec.G) (a : Nat) : Prop :=
  ∃ x, AList.find? g.tx.objs a = some x ∧ x.suicided = false ∧ x.nonce = 0 ∧ x.balance = 0 ∧ x.code = 0

theorem view_parts {a : Nat} {B : GethSpec.Base} {p : Option (Nat × Nat × Int)} {f : Nat → Nat}
    (h : GethSpec.view a B = (p, f)) : AList.find? B.accts a = p ∧ ∀ k, B.slot a k = f k :=
  ⟨congrArg Prod.fst h, fun k => congrFun (congrArg Prod.snd h) k⟩

theorem commit_suicided_absent (s : S) (hc : s.cache = none) (a : Nat) (o : Obj) (ho : AList.find? s.objs a = some o)
    (hd : a ∈ s.dirties.map (·.1)) (hs : o.suicided = true) (hab : s.txStore.acct a = none) (k : Nat) :
    (commit s).txStore.slot a k = s.txStore.slot a k := by
  rw [commit_txStore s hc]
  obtain ⟨acc', h1, h2⟩ := foldl_at stepC (atAddr a) a (stepC_frame a) (sortNat (s.dirties.map (·.1))) (s, s.txStore)
    (sortNat_nodup _) (by rw [mem_sortNat]; exact hd)
  rw [← commitInto_eq] at h2
  unfold atAddr at h1 h2
  have e1 : AList.find? acc'.1.objs a = some o := (congrArg (fun t => t.1) h1).trans ho
  have e2 : acc'.2.acct a = s.txStore.acct a := congrArg (fun t => t.2.1) h1
  have e3 : acc'.2.slot a k = s.txStore.slot a k := congrFun (congrArg (fun t => t.2.2) h1) k
  have h3 := congrFun (congrArg (fun t => t.2.2) h2) k
  simp only at h3
  rw [h3, stepC_at_dead a acc' o e1 hs]
  have : acc'.2.deleteAcct a = acc'.2 := by
    unfold Store.deleteAcct
    rw [e2, hab]
  rw [this]; exact e3

theorem dead_iff (x : GethSpec.Acc) (hs : x.suicided = false) :
    GethSpec.dead x = true ↔ (x.nonce = 0 ∧ x.balance = 0 ∧ x.code = 0) := by
  unfold GethSpec.dead
  rw [hs]
  simp [and_assoc]

/-- **C03 (partial) — a whole transaction without precompile calls, through the write-back.** Over the same persisted data, for ANY
    transaction body (any tree of writes, `CreateAccount` calls where `evm.create` may make them, and call frames nested to any
    depth, returning or failing, on any accounts): Nibiru's journaled StateDB runs it to the end, and after `Commit` the store holds,
    at EVERY address, what go-ethereum's own end-of-transaction write-back leaves in its state — the same nonce, code hash and
    balance (an account go-ethereum deletes because it ended empty is an empty record in Nibiru) and the same value in every
    storage slot; the balance Nibiru persists is go-ethereum's wei balance in whole unibi (divided by 10^12, truncated: Nibiru's bank
    stores unibi).  One side condition, about the final state and guaranteed by the interpreter: an account that ends the
    transaction empty without having self-destructed has no storage (only contract code writes storage). -/
theorem C03_transaction_commit_matches_reference_partial (st : Store) (b : GethSpec.Base)
    (hok : ∀ a, st.acct a = none → ∀ k, st.slot a k = 0)
    (hacc : ∀ a, AList.find? b.accts a = (st.acct a).map (fun x => (x.nonce, x.codeHash, x.balance * weiPerUnibi)))
    (hslot : ∀ a k, b.slot a k = st.slot a k) (body : List Tree) (hbody : Tree.OKL2 st body) :
    ∃ s', runTL { txStore := st } body = some s' ∧
      ((∀ a x, AList.find? (runGTL { base := b } body).tx.objs a = some x → x.suicided = false →
          x.nonce = 0 → x.balance = 0 → x.code = 0 →
          ∀ k, GethSpec.stateOf (runGTL { base := b } body) a x k = 0 ∧ b.slot a k = 0) →
       ∀ a, AcctRel (EndedEmpty (runGTL { base := b } body) a) ((commit s').txStore.acct a)
              (AList.find? (GethSpec.commit (runGTL { base := b } body)).base.accts a) ∧
            ∀ k, (commit s').txStore.slot a k = (GethSpec.commit (runGTL { base := b } body)).base.slot a k) := by
  have f0 : Full st { txStore := st } { base := b } := by
    refine ⟨sim_init st b hok hacc hslot, ninv_fresh st, fun e he => (by cases he), fun a _ => ?_, rfl, fun r hr => (by cases hr),
      fun r hr => (by cases hr)⟩
    have : objOf ({ txStore := st } : S) a = loadObj st a := rfl
    rw [this]; exact OptEqv.refl _ _ _
  obtain ⟨s', hrun, f, _, yg⟩ := runTL_full st body { txStore := st } { base := b } f0 hbody
  refine ⟨s', hrun, fun hempty a => ?_⟩
  have hbase : (runGTL { base := b } body).base = b := yg.base
  have hwf : WF s' := f.ninv.inv.1
  have hc : s'.cache = none := hwf.1
  have hw0 : weiPerUnibi ≠ 0 := by unfold weiPerUnibi; decide
  have hrel := f.sim.objs a
  by_cases hD : a ∈ s'.dirties.map (·.1)
  · -- written back by Nibiru
    obtain ⟨e, he, hde⟩ := (dj_mem s' f.ninv.dj a).mp hD
    obtain ⟨o, ho⟩ := f.ninv.ec e he a hde
    obtain ⟨x, hx⟩ := f.jg e he a hde
    have hobj : objOf s' a = some o := by unfold objOf; rw [ho]
    have hgobj : GethSpec.obj? (runGTL { base := b } body) a = some x := by unfold GethSpec.obj?; rw [hx]
    rw [hobj, hgobj] at hrel
    obtain ⟨r1, r2, r3, r4, r5, _⟩ := hrel
    obtain ⟨ga, gs⟩ := view_parts (GethSpec.commit_at _ a x hx)
    cases hsu : o.suicided with
    | true =>
      have hxs : x.suicided = true := by rw [← r4, hsu]
      have hdead : GethSpec.dead x = true := by unfold GethSpec.dead; rw [hxs]; rfl
      obtain ⟨p1, p2⟩ := commit_deletes_suicided s' hc a o ho hD hsu
      rw [p1, ga, hdead]
      refine ⟨True.intro, fun k => ?_⟩
      rw [gs k, hdead]
      simp only [if_true, hxs, Bool.true_or]
      cases hy : s'.txStore.acct a with
      | some y => exact p2 k y hy
      | none =>
        rw [commit_suicided_absent s' hc a o ho hD hsu hy k, f.store]
        exact hok a (by rw [← f.store]; exact hy) k
    | false =>
      have hxs : x.suicided = false := by rw [← r4, hsu]
      obtain ⟨p1, p2⟩ := commit_persists_view s' hwf a o ho hD hsu
      rw [p1, ga]
      cases hdead : GethSpec.dead x with
      | true =>
        obtain ⟨d1, d2, d3⟩ := (dead_iff x hxs).mp hdead
        obtain ⟨z1, z2⟩ := fun k => hempty a x hx hxs d1 d2 d3 k |>.1, fun k => (hempty a x hx hxs d1 d2 d3 k).2
        refine ⟨⟨by rw [r2]; exact d1, by rw [r3]; exact d3, by rw [r1, d2]; rfl, x, hx, hxs, d1, d2, d3⟩, fun k => ?_⟩
        rw [p2 k, gs k, hdead, r5 k, z1 k]
        simp only [if_true, hxs, Bool.false_or]
        split
        · rfl
        · rw [hbase]; exact (z2 k).symm
      | false =>
        simp only [Bool.false_eq_true, if_false]
        refine ⟨?_, fun k => ?_⟩
        · exact ⟨r2.symm, r3.symm, by rw [r1]⟩
        · rw [p2 k, gs k, hdead]
          simp only [Bool.false_eq_true, if_false]
          exact r5 k
  · -- left alone by Nibiru
    obtain ⟨p1, p2⟩ := commit_frame s' hc a hD
    rw [f.store] at p1 p2
    rw [p1]
    cases hx : AList.find? (runGTL { base := b } body).tx.objs a with
    | none =>
      obtain ⟨ga, gs⟩ := view_parts (GethSpec.commit_untouched _ a hx)
      rw [ga, hbase, hacc a]
      refine ⟨?_, fun k => ?_⟩
      · cases st.acct a with
        | none => exact True.intro
        | some y => exact ⟨rfl, rfl, (Int.mul_tdiv_cancel _ hw0).symm⟩
      · rw [p2 k, gs k, hbase]; exact (hslot a k).symm
    | some x =>
      have hgobj : GethSpec.obj? (runGTL { base := b } body) a = some x := by unfold GethSpec.obj?; rw [hx]
      rw [hgobj] at hrel
      have hcl := f.clean a hD
      cases hobj : objOf s' a with
      | none => rw [hobj] at hrel; exact False.elim hrel
      | some o =>
        rw [hobj] at hrel hcl
        obtain ⟨r1, r2, r3, r4, r5, _⟩ := hrel
        cases hl : loadObj st a with
        | none => rw [hl] at hcl; exact False.elim hcl
        | some L =>
          rw [hl] at hcl
          obtain ⟨q1, q2, q3, q4, _, q6⟩ := hcl
          unfold loadObj at hl
          cases hy : st.acct a with
          | none => rw [hy] at hl; cases hl
          | some y =>
            rw [hy] at hl
            simp only [Option.map] at hl
            injection hl with hl
            subst hl
            simp only at q1 q2 q3 q4 q6
            have hxs : x.suicided = false := by rw [← r4, q4]
            have hstate : ∀ k, GethSpec.stateOf (runGTL { base := b } body) a x k = st.slot a k := by
              intro k
              rw [← r5 k, objState_eq, f.store]
              have := q6 k
              simp only [AList.find?] at this
              exact this
            obtain ⟨ga, gs⟩ := view_parts (GethSpec.commit_at _ a x hx)
            rw [ga]
            cases hdead : GethSpec.dead x with
            | true =>
              obtain ⟨d1, d2, d3⟩ := (dead_iff x hxs).mp hdead
              have z := hempty a x hx hxs d1 d2 d3
              refine ⟨⟨by rw [← q2, r2]; exact d1, by rw [← q3, r3]; exact d3, ?_, x, hx, hxs, d1, d2, d3⟩, fun k => ?_⟩
              · have hb0 : y.balance * weiPerUnibi = 0 := by rw [← q1, r1]; exact d2
                rcases Int.mul_eq_zero.mp hb0 with h0 | h0
                · exact h0
                · exact absurd h0 hw0
              · rw [p2 k, gs k, hdead]
                simp only [if_true, hxs, Bool.false_or]
                have hz : st.slot a k = 0 := by rw [← hstate k]; exact (z k).1
                split
                · exact hz
                · rw [hbase, (z k).2]; exact hz
            | false =>
              simp only [Bool.false_eq_true, if_false]
              refine ⟨?_, fun k => ?_⟩
              · refine ⟨by rw [← r2, q2], by rw [← r3, q3], ?_⟩
                show y.balance = Int.tdiv x.balance weiPerUnibi
                rw [← r1, q1, Int.mul_tdiv_cancel _ hw0]
              · rw [p2 k, gs k, hdead]
                simp only [Bool.false_eq_true, if_false]
                exact (hstate k).symm

/-! ### non-vacuity: a concrete transaction over a store with one contract -/

/-- value arrives at the contract, a slot is rewritten; a frame that funds a new account, creates another and rewrites the slot fails;
    a frame that bumps the nonce returns although a nested frame that self-destructs the contract fails; a fresh account is funded;
    reads (account, GetState, GetCommittedState) in between -/
def demoTx : List Tree :=
  [ .r (.acc 1), .w (.addBalance 1 3000000000000), .r (.state 1 0), .w (.setState 1 0 5),
    .frame false [ .r (.acc 2), .w (.addBalance 2 7000000000000), .create 3, .w (.setNonce 3 1), .r (.committed 1 0),
                   .w (.setState 1 0 9) ],
    .frame true [ .w (.setNonce 1 2), .frame false [ .w (.suicide 1), .r (.acc 1) ] ],
    .w (.addBalance 4 2000000000000), .r (.state 4 7) ]

def demoFinal : S := (runTL { txStore := demoStore } demoTx).getD {}

theorem demoStore_ok : ∀ a, demoStore.acct a = none → ∀ k, demoStore.slot a k = 0 := by
  intro a ha k
  by_cases h1 : a = 1
  · subst h1; simp [demoStore, Store.acct, AList.find?] at ha
  · have : ((1, 0) : Nat × Nat) ≠ (a, k) := fun e => h1 (congrArg Prod.fst e).symm
    simp [demoStore, Store.slot, AList.find?, this]

theorem demo_acc : ∀ a, AList.find? demoBase.accts a =
    (demoStore.acct a).map (fun x => (x.nonce, x.codeHash, x.balance * weiPerUnibi)) := by
  intro a
  by_cases h1 : a = 1
  · subst h1; simp [demoStore, demoBase, Store.acct, AList.find?, weiPerUnibi]
  · have : (1 : Nat) ≠ a := fun e => h1 e.symm
    simp [demoStore, demoBase, Store.acct, AList.find?, this]

theorem demoTx_ok : Tree.OKL2 demoStore demoTx := by
  simp only [demoTx, Tree.OKL2, Tree.OK2, and_true, true_and]
  refine ⟨fun k => ?_, fun x hx => ?_⟩
  · have : ((1, 0) : Nat × Nat) ≠ (3, k) := fun e => by cases e
    simp [demoStore, Store.slot, AList.find?, this]
  · simp [demoStore, Store.acct, AList.find?] at hx

/-- the side conditions of the theorem hold for `demoTx`, so its conclusion does: after `Commit` every address holds what the
    reference's write-back holds (account 1: nonce 2, code 7, 8 unibi, slot 0 = 5; account 4: 2 unibi; accounts 2 and 3: nothing) -/
example : ∀ a, AcctRel (EndedEmpty (runGTL { base := demoBase } demoTx) a) ((commit demoFinal).txStore.acct a)
      (AList.find? (GethSpec.commit (runGTL { base := demoBase } demoTx)).base.accts a) ∧
    ∀ k, (commit demoFinal).txStore.slot a k = (GethSpec.commit (runGTL { base := demoBase } demoTx)).base.slot a k := by
  obtain ⟨s', hr, h⟩ := C03_transaction_commit_matches_reference_partial demoStore demoBase demoStore_ok demo_acc (fun _ _ => rfl)
    demoTx demoTx_ok
  have e : s' = demoFinal := by unfold demoFinal; rw [hr]; rfl
  subst e
  apply h
  intro a x hx _ hn hb _
  · have hobjs : (runGTL { base := demoBase } demoTx).tx.objs =
        [(1, { balance := 8000000000000, nonce := 2, code := 7, storage := [(0, 5)] }),
         (4, { balance := 2000000000000, fresh := true })] := by decide
    rw [hobjs] at hx
    by_cases h1 : a = 1
    · subst h1
      simp [AList.find?] at hx
      subst hx
      simp at hn
    · by_cases h4 : a = 4
      · subst h4
        simp [AList.find?] at hx
        subst hx
        simp at hb
      · have n1 : (1 : Nat) ≠ a := fun e => h1 e.symm
        have n4 : (4 : Nat) ≠ a := fun e => h4 e.symm
        simp [AList.find?, n1, n4] at hx

/-! ### sequences of transactions -/

/-- an account that is absent after `Commit` has no storage left -/
theorem commit_absent_no_slots (st : Store) (hok : ∀ a, st.acct a = none → ∀ k, st.slot a k = 0) (body : List Tree) :
    ∃ s', runTL { txStore := st } body = some s' ∧
      ∀ a, (commit s').txStore.acct a = none → ∀ k, (commit s').txStore.slot a k = 0 := by
  obtain ⟨s', hr, n, x, _⟩ := runTL_tx body { txStore := st } (ninv_fresh st) (fun r hr => by cases hr)
  refine ⟨s', hr, fun a hnone k => ?_⟩
  have hwf : WF s' := n.inv.1
  have hst : s'.txStore = st := x.store
  by_cases hD : a ∈ s'.dirties.map (·.1)
  · obtain ⟨e, he, hde⟩ := (dj_mem s' n.dj a).mp hD
    obtain ⟨o, ho⟩ := n.ec e he a hde
    cases hsu : o.suicided with
    | true =>
      obtain ⟨_, p2⟩ := commit_deletes_suicided s' hwf.1 a o ho hD hsu
      cases hy : s'.txStore.acct a with
      | some y => exact p2 k y hy
      | none =>
        rw [commit_suicided_absent s' hwf.1 a o ho hD hsu hy k, hst]
        exact hok a (by rw [← hst]; exact hy) k
    | false =>
      obtain ⟨p1, _⟩ := commit_persists_view s' hwf a o ho hD hsu
      rw [p1] at hnone; cases hnone
  · obtain ⟨p1, p2⟩ := commit_frame s' hwf.1 a hD
    rw [hst] at p1 p2
    rw [p2 k]
    exact hok a (by rw [← p1]; exact hnone) k

/-- the persisted states agree exactly: what `sim_init` asks for at the start of a transaction -/
structure StoreEq (st : Store) (b : GethSpec.Base) : Prop where
  ok : ∀ a, st.acct a = none → ∀ k, st.slot a k = 0
  acc : ∀ a, AList.find? b.accts a = (st.acct a).map (fun x => (x.nonce, x.codeHash, x.balance * weiPerUnibi))
  slot : ∀ a k, b.slot a k = st.slot a k

/-- what one transaction leaves in Nibiru's store / in the reference's base -/
def persistN (st : Store) (body : List Tree) : Store := (commit ((runTL { txStore := st } body).getD {})).txStore
def persistG (b : GethSpec.Base) (body : List Tree) : GethSpec.Base := (GethSpec.commit (runGTL { base := b } body)).base

/-- the side conditions of one transaction over `(st, b)`: `CreateAccount` only where `evm.create` may call it; the balances the
    reference persists are whole unibi (otherwise Nibiru's bank, which truncates, holds less than the reference at the next start);
    no materialised account ends the transaction empty (so the reference deletes nothing as empty) -/
structure TxOK (st : Store) (b : GethSpec.Base) (body : List Tree) : Prop where
  create : Tree.OKL2 st body
  whole : ∀ a y, AList.find? (persistG b body).accts a = some y → ∃ u : Int, y.2.2 = u * weiPerUnibi
  noEmpty : ∀ a, ¬ EndedEmpty (runGTL { base := b } body) a

theorem storeEq_step (st : Store) (b : GethSpec.Base) (h : StoreEq st b) (body : List Tree) (hok : TxOK st b body) :
    StoreEq (persistN st body) (persistG b body) := by
  obtain ⟨s', hrun, hmain⟩ := C03_transaction_commit_matches_reference_partial st b h.ok h.acc h.slot body hok.create
  obtain ⟨s'', hrun', habs⟩ := commit_absent_no_slots st h.ok body
  have e : s'' = s' := by rw [hrun] at hrun'; exact (Option.some.inj hrun').symm
  subst e
  have hp : persistN st body = (commit s'').txStore := by unfold persistN; rw [hrun]; rfl
  have hconcl := hmain (fun a x hx hs hn hb hc => absurd ⟨x, hx, hs, hn, hb, hc⟩ (hok.noEmpty a))
  have hw0 : weiPerUnibi ≠ 0 := by unfold weiPerUnibi; decide
  rw [hp]
  refine ⟨habs, fun a => ?_, fun a k => ((hconcl a).2 k).symm⟩
  have hr := (hconcl a).1
  unfold persistG
  cases hx : (commit s'').txStore.acct a with
  | none =>
    rw [hx] at hr
    cases hy : AList.find? (GethSpec.commit (runGTL { base := b } body)).base.accts a with
    | none => rfl
    | some y => rw [hy] at hr; exact False.elim hr
  | some x =>
    rw [hx] at hr
    cases hy : AList.find? (GethSpec.commit (runGTL { base := b } body)).base.accts a with
    | none => rw [hy] at hr; exact absurd hr.2.2.2 (hok.noEmpty a)
    | some y =>
      rw [hy] at hr
      obtain ⟨u, hu⟩ := hok.whole a y (by unfold persistG; exact hy)
      obtain ⟨e1, e2, e3⟩ := hr
      simp only [Option.map]
      rw [← e1, ← e2, e3, hu, Int.mul_tdiv_cancel _ hw0, ← hu]

def runTxsN (st : Store) : List (List Tree) → Store
  | [] => st
  | body :: rest => runTxsN (persistN st body) rest
def runTxsG (b : GethSpec.Base) : List (List Tree) → GethSpec.Base
  | [] => b
  | body :: rest => runTxsG (persistG b body) rest

/-- every transaction of the history meets its side conditions at the state it starts from -/
def AllOK (st : Store) (b : GethSpec.Base) : List (List Tree) → Prop
  | [] => True
  | body :: rest => TxOK st b body ∧ AllOK (persistN st body) (persistG b body) rest

/-- **C03 (partial) — any history of transactions without precompile calls.** Starting from equal persisted data, after ANY sequence
    of transactions (each any body of reads, writes, `CreateAccount`s and nested call frames, each followed by the respective
    write-back), Nibiru's store and go-ethereum's state hold the same accounts — nonce, code hash, balance — and the same value in
    every storage slot.  Side conditions per transaction (`TxOK`): `CreateAccount` where `evm.create` may call it, whole-unibi
    balances at write-back, and no account ends a transaction empty (that is where go-ethereum deletes and Nibiru keeps an empty
    record; the single-transaction theorem above covers it, the equality of the NEXT start states does not). -/
theorem C03_history_commits_match_reference_partial (txs : List (List Tree)) (st : Store) (b : GethSpec.Base)
    (h : StoreEq st b) (hok : AllOK st b txs) : StoreEq (runTxsN st txs) (runTxsG b txs) := by
  induction txs generalizing st b with
  | nil => exact h
  | cons body rest ih => exact ih _ _ (storeEq_step st b h body hok.1) hok.2

/-! ### non-vacuity of the history theorem: two transactions, side conditions evaluated by the kernel -/

def demoTx2 : List Tree :=
  [ .r (.state 1 0), .w (.addBalance 4 1000000000000), .frame false [ .w (.setNonce 4 9), .w (.setState 1 0 6) ], .w (.setState 1 2 3) ]

theorem demo_txok1 : TxOK demoStore demoBase demoTx := by
  refine ⟨demoTx_ok, fun a y hy => ?_, fun a ⟨x, hx, _, hn, hb, _⟩ => ?_⟩
  · have hacc : (persistG demoBase demoTx).accts = [(1, 2, 7, 8000000000000), (4, 0, 0, 2000000000000)] := by decide
    rw [hacc] at hy
    by_cases h1 : a = 1
    · subst h1; simp [AList.find?] at hy; subst hy; exact ⟨8, by simp [weiPerUnibi]⟩
    · by_cases h4 : a = 4
      · subst h4; simp [AList.find?] at hy; subst hy; exact ⟨2, by simp [weiPerUnibi]⟩
      · have n1 : (1 : Nat) ≠ a := fun e => h1 e.symm
        have n4 : (4 : Nat) ≠ a := fun e => h4 e.symm
        simp [AList.find?, n1, n4] at hy
  · have hobjs : (runGTL { base := demoBase } demoTx).tx.objs =
        [(1, { balance := 8000000000000, nonce := 2, code := 7, storage := [(0, 5)] }),
         (4, { balance := 2000000000000, fresh := true })] := by decide
    rw [hobjs] at hx
    by_cases h1 : a = 1
    · subst h1; simp [AList.find?] at hx; subst hx; simp at hn
    · by_cases h4 : a = 4
      · subst h4; simp [AList.find?] at hx; subst hx; simp at hb
      · have n1 : (1 : Nat) ≠ a := fun e => h1 e.symm
        have n4 : (4 : Nat) ≠ a := fun e => h4 e.symm
        simp [AList.find?, n1, n4] at hx

def demoStore2 : Store := persistN demoStore demoTx
def demoBase2 : GethSpec.Base := persistG demoBase demoTx
def demoFinal2 : S := (runTL { txStore := demoStore2 } demoTx2).getD {}

theorem demo_txok2 : TxOK demoStore2 demoBase2 demoTx2 := by
  refine ⟨by simp [demoTx2, Tree.OKL2, Tree.OK2], fun a y hy => ?_, fun a ⟨x, hx, _, hn, hb, _⟩ => ?_⟩
  · have hacc : (persistG demoBase2 demoTx2).accts = [(1, 2, 7, 8000000000000), (4, 0, 0, 3000000000000)] := by decide
    rw [hacc] at hy
    by_cases h1 : a = 1
    · subst h1; simp [AList.find?] at hy; subst hy; exact ⟨8, by simp [weiPerUnibi]⟩
    · by_cases h4 : a = 4
      · subst h4; simp [AList.find?] at hy; subst hy; exact ⟨3, by simp [weiPerUnibi]⟩
      · have n1 : (1 : Nat) ≠ a := fun e => h1 e.symm
        have n4 : (4 : Nat) ≠ a := fun e => h4 e.symm
        simp [AList.find?, n1, n4] at hy
  · have hobjs : (runGTL { base := demoBase2 } demoTx2).tx.objs =
        [(4, { balance := 3000000000000 }),
         (1, { balance := 8000000000000, nonce := 2, code := 7, storage := [(2, 3)] })] := by decide
    rw [hobjs] at hx
    by_cases h1 : a = 1
    · subst h1; simp [AList.find?] at hx; subst hx; simp at hn
    · by_cases h4 : a = 4
      · subst h4; simp [AList.find?] at hx; subst hx; simp at hb
      · have n1 : (1 : Nat) ≠ a := fun e => h1 e.symm
        have n4 : (4 : Nat) ≠ a := fun e => h4 e.symm
        simp [AList.find?, n1, n4] at hx

/-- two transactions in a row: the stores agree after both (account 1: nonce 2, code 7, 8 unibi, slots 0 ↦ 5 and 2 ↦ 3;
    account 4: 3 unibi) -/
example : StoreEq (runTxsN demoStore [demoTx, demoTx2]) (runTxsG demoBase [demoTx, demoTx2]) :=
  C03_history_commits_match_reference_partial _ _ _ ⟨demoStore_ok, demo_acc, fun _ _ => rfl⟩ ⟨demo_txok1, demo_txok2, True.intro⟩

end Nibiru.SDB
