/-
  Shared lemmas about NibiruModel.SdkDec (LegacyDec on raw integers).
-/
import NibiruModel.SdkDec
namespace Nibiru.Dec


theorem chopRoundNat_mul_prec (x : Int) (hx : 0 ≤ x) : chopRoundNat (x * prec) = x := by
  unfold chopRoundNat prec
  simp only [Int.mul_emod_left, if_true]
  omega

theorem chopRound_mul_prec (x : Int) : chopRound (x * prec) = x := by
  unfold chopRound
  by_cases h : x * prec < 0
  · have hx : x < 0 := by unfold prec at h; omega
    simp only [h, if_true]
    have : -(x * prec) = (-x) * prec := by rw [Int.neg_mul]
    rw [this, chopRoundNat_mul_prec (-x) (by omega)]; omega
  · have hx : 0 ≤ x := by unfold prec at h; omega
    simp only [h, if_false]; exact chopRoundNat_mul_prec x hx

/-- NewDecFromInt(m).Mul(p) is exactly m·p (no rounding happens) -/
theorem mul_ofInt (m p : Int) : mul (ofInt m) p = m * p := by
  unfold mul ofInt
  have : m * prec * p = (m * p) * prec := by
    rw [Int.mul_assoc, Int.mul_comm prec p, ← Int.mul_assoc]
  rw [this, chopRound_mul_prec]


theorem tdiv_nonneg_eq (a b : Int) (h : 0 ≤ a) : Int.tdiv a b = a / b := Int.tdiv_eq_ediv_of_nonneg h

end Nibiru.Dec
