/-
  C16 — Privileged chain operations succeed only for current sudoers.
  Theorems about NibiruModel.Sudo (x/sudo keeper + msg server, and the four sudo-gated entry points).
-/
import NibiruModel.Sudo
import Generated.Facts
namespace Nibiru.Sudo

theorem run_fst_of_err (s : State) (g : Option Err) (eff : State) (e : Err) (h : (run s g eff).2 = some e) : (run s g eff).1 = s := by
  unfold run at *; cases g <;> simp_all

theorem run_ok (s : State) (g : Option Err) (eff : State) (h : (run s g eff).2 = none) : g = none ∧ (run s g eff).1 = eff := by
  unfold run at *; cases g <;> simp_all

theorem run_ok_iff (s : State) (g : Option Err) (eff : State) : (run s g eff).2 = none ↔ g = none := by
  unfold run; cases g <;> simp

theorem firstErr_none_cons (b : Bool) (e : Err) (rest : List (Bool × Err)) :
    firstErr ((b, e) :: rest) = none ↔ b = false ∧ firstErr rest = none := by
  cases b <;> simp [firstErr]

/-- **A rejected privileged message changes no state.** -/
theorem C16_rejected_no_change (s : State) (op : Op) (e : Err) (h : (apply s op).2 = some e) : (apply s op).1 = s := by
  cases op <;> exact run_fst_of_err _ _ _ e h

/-- **Gate.** A sudo-gated operation is accepted iff the sender decodes as an address and that address is a currently listed
    contract or the current root (compared as addresses). -/
theorem C16_gated_iff_root_or_listed (s : State) (t : Target) (sender : String) :
    (gated s t sender).2 = none ↔
      sender ∈ s.valid ∧ (canon sender ∈ s.contracts ∨ (s.root ∈ s.valid ∧ canon sender = canon s.root)) := by
  unfold gated
  rw [run_ok_iff]
  unfold gatedGuard hasPermission
  simp only [firstErr_none_cons, Bool.not_eq_false', Bool.or_eq_true, Bool.and_eq_true, List.contains_iff_mem, beq_iff_eq]
  constructor
  · rintro ⟨h1, h2, _⟩; exact ⟨h1, h2⟩
  · rintro ⟨h1, h2⟩; exact ⟨h1, h2, rfl⟩

/-- an accepted gated operation writes exactly its own store, once; sudoers are untouched -/
theorem C16_gated_effect (s : State) (t : Target) (sender : String) (h : (gated s t sender).2 = none) :
    (gated s t sender).1.root = s.root ∧ (gated s t sender).1.contracts = s.contracts ∧
    (gated s t sender).1.writes t = s.writes t + 1 ∧ ∀ t', t' ≠ t → (gated s t sender).1.writes t' = s.writes t' := by
  obtain ⟨_, he⟩ := run_ok _ _ _ h
  unfold gated at *
  rw [he]
  refine ⟨rfl, rfl, by simp [bump], fun t' ht => by simp [bump, ht]⟩

/-- **Only the current root edits the contract list or hands the role over.** If a message changes the root or the contract
    list, it is an `EditSudoers` whose sender string is the stored root, or a `ChangeRoot` whose sender is the root address. -/
theorem C16_only_root_edits_or_hands_over (s : State) (op : Op)
    (hch : (apply s op).1.root ≠ s.root ∨ (apply s op).1.contracts ≠ s.contracts) :
    (∃ sender act cs, op = .edit sender act cs ∧ sender = s.root ∧ sender ∈ s.valid) ∨
    (∃ sender new, op = .changeRoot sender new ∧ canon sender = canon s.root ∧ sender ∈ s.valid ∧ new ∈ s.valid ∧
        (apply s op).1.root = new ∧ (apply s op).1.contracts = s.contracts) := by
  have hne : (apply s op).1 ≠ s := by
    intro e; rw [e] at hch; rcases hch with h | h <;> exact h rfl
  cases op with
  | gated t sender =>
    exfalso
    cases h : (gated s t sender).2 with
    | some e => exact hne (run_fst_of_err _ _ _ e h)
    | none =>
      obtain ⟨h1, h2, _⟩ := C16_gated_effect s t sender h
      rcases hch with h' | h'
      · exact h' h1
      · exact h' h2
  | edit sender act cs =>
    left
    cases h : (editSudoers s sender act cs).2 with
    | some e => exact absurd (run_fst_of_err _ _ _ e h) hne
    | none =>
      obtain ⟨hg, _⟩ := run_ok _ _ _ h
      unfold editGuard at hg
      simp only [firstErr_none_cons, Bool.or_eq_false_iff, Bool.not_eq_false', bne_eq_false_iff_eq, List.contains_iff_mem] at hg
      exact ⟨sender, act, cs, rfl, hg.2.1, hg.1.1.1⟩
  | changeRoot sender new =>
    right
    cases h : (changeRoot s sender new).2 with
    | some e => exact absurd (run_fst_of_err _ _ _ e h) hne
    | none =>
      obtain ⟨hg, he⟩ := run_ok _ _ _ h
      unfold changeRootGuard at hg
      simp only [firstErr_none_cons, Bool.or_eq_false_iff, Bool.not_eq_false', bne_eq_false_iff_eq, List.contains_iff_mem] at hg
      obtain ⟨⟨h1, h2⟩, _, h4, _⟩ := hg
      refine ⟨sender, new, rfl, h4, h1, h2, ?_, ?_⟩
      · show (run s (changeRootGuard s sender new) { s with root := new }).1.root = new
        rw [he]
      · show (run s (changeRootGuard s sender new) { s with root := new }).1.contracts = s.contracts
        rw [he]

/-- **Stale membership gives nothing**: once the root has removed a contract (by the canonical string under which it is listed),
    that address is refused — unless it is the root itself. -/
theorem C16_removed_contract_loses_access (s : State) (c : String) (t : Target) (hroot : s.root ∈ s.valid)
    (hc : c ∈ s.valid) (hcanon : canon c = c) (hnr : canon c ≠ canon s.root) :
    (gated (editSudoers s s.root .remove [c]).1 t c).2 = some .unauthorized := by
  have hg : editGuard s s.root .remove [c] = none := by
    unfold editGuard
    simp [firstErr, hroot, hc]
  have hs : (editSudoers s s.root .remove [c]).1 = { s with contracts := s.contracts.filter (fun x => !([c].contains x)) } := by
    unfold editSudoers run; rw [hg]; rfl
  rw [hs]
  unfold gated run gatedGuard hasPermission
  have hnot : ¬ (c ∈ s.contracts.filter (fun x => !([c].contains x))) := by
    intro hm; have := (List.mem_filter.mp hm).2; simp at this
  have hnr' : ¬ c = canon s.root := by rw [← hcanon]; exact hnr
  have hnot' : ¬ (c ∈ s.contracts ∧ ¬ c = c) := fun h => h.2 rfl
  simp [firstErr, hcanon, hnr', hc, hroot]

/-- after a hand-over the former root is refused (unless it is listed or the new root decodes to the same address) -/
theorem C16_former_root_loses_access (s : State) (new : String) (t : Target) (hroot : s.root ∈ s.valid) (hnew : new ∈ s.valid)
    (hdiff : canon s.root ≠ canon new) (hnl : canon s.root ∉ s.contracts) :
    (gated (changeRoot s s.root new).1 t s.root).2 = some .unauthorized := by
  have hg : changeRootGuard s s.root new = none := by
    unfold changeRootGuard
    simp [firstErr, hroot, hnew]
  have hs : (changeRoot s s.root new).1 = { s with root := new } := by
    unfold changeRoot run; rw [hg]
  rw [hs]
  unfold gated run gatedGuard hasPermission
  simp [firstErr, hroot, hnl, hdiff, hnew]

/-- a hand-over removes nobody from the list: whatever `changeRoot` does (accepted or refused), the contracts are the ones there
    were, and a listed contract is served afterwards exactly as before -/
theorem C16_hand_over_keeps_listed_contracts (s : State) (sender new c : String) (t : Target) (hc : c ∈ s.valid)
    (hl : canon c ∈ s.contracts) :
    (changeRoot s sender new).1.contracts = s.contracts ∧ (gated (changeRoot s sender new).1 t c).2 = none := by
  have hcs : (changeRoot s sender new).1.contracts = s.contracts ∧ (changeRoot s sender new).1.valid = s.valid := by
    unfold changeRoot run
    cases changeRootGuard s sender new with
    | none => exact ⟨rfl, rfl⟩
    | some e => exact ⟨rfl, rfl⟩
  refine ⟨hcs.1, ?_⟩
  rw [C16_gated_iff_root_or_listed]
  exact ⟨by rw [hcs.2]; exact hc, Or.inl (by rw [hcs.1]; exact hl)⟩

/-- histories: whatever happened before, acceptance of a gated operation is decided by the sudoers *at the time of the call* -/
def runOps (s : State) : List Op → State
  | [] => s
  | op :: ops => runOps (apply s op).1 ops

theorem C16_gate_at_time_of_call (s₀ : State) (ops : List Op) (t : Target) (sender : String) :
    let s := runOps s₀ ops
    (gated s t sender).2 = none ↔
      sender ∈ s.valid ∧ (canon sender ∈ s.contracts ∨ (s.root ∈ s.valid ∧ canon sender = canon s.root)) :=
  C16_gated_iff_root_or_listed _ t sender

/- Non-vacuity: the correspondence run executes thousands of accepted and refused gated operations, root edits and hand-overs
   on the real keepers (evidence: generator_distribution). A closed-term `decide` example is not possible because
   `String.toLower` is not kernel-reducible. -/

end Nibiru.Sudo

/-! ### T1: the gated entry points of the code are exactly the modelled ones (facts regenerated from /repo on every run) -/
section Facts

/-- the functions of the node that consult `CheckPermissions` are exactly the four modelled `Target`s -/
theorem fact_C16_sudoCheckSites : Generated.sudoCheckSites =
    ["x/inflation/keeper:sudoExtension.EditInflationParams", "x/inflation/keeper:sudoExtension.ToggleInflation",
     "x/oracle/keeper:msgServer.EditOracleParams", "x/tokenfactory/keeper:Keeper.SudoSetDenomMetadata"] := by decide

/-- in each of them the check precedes the first store write -/
theorem fact_C16_sudoCheckOrder : Generated.sudoCheckOrder =
    ["x/inflation/keeper:sudoExtension.EditInflationParams=check-before-write",
     "x/inflation/keeper:sudoExtension.ToggleInflation=check-before-write",
     "x/oracle/keeper:msgServer.EditOracleParams=check-before-write",
     "x/tokenfactory/keeper:Keeper.SudoSetDenomMetadata=check-before-write"] := by decide

/-- root-only operations: both EditSudoers branches and ChangeRoot carry their root check -/
theorem fact_C16_sudoRootCheckSites : Generated.sudoRootCheckSites =
    ["senderHasPermission@x/sudo/keeper:Keeper.AddContracts", "senderHasPermission@x/sudo/keeper:Keeper.RemoveContracts",
     "validateRootPermissions@x/sudo/keeper:MsgServer.ChangeRoot"] := by decide

end Facts
