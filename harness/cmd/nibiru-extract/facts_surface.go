package main

import (
	"crypto/sha256"
	"encoding/hex"
	"encoding/json"
	"fmt"
	"go/ast"
	"go/parser"
	"go/scanner"
	"go/token"
	"os"
	"path/filepath"
	"sort"
	"strings"
)

// Structural fingerprints of the functions a property's model was written from (its "modelled surface", lib/surface.json:
// the functions the property's anchors point into, plus the files only that property is anchored in).
//   surface_Cxx : List (String × String)      ("file:Func", fingerprint), sorted
// The fingerprint is the SHA-256 (first 16 hex digits) of the function's declaration printed from its AST without comments, with
// every identifier declared inside the function (receiver, parameters, results, locals, labels) replaced by its index in order of
// first appearance, layout-dependent punctuation removed, and with logging statements dropped: renaming a local, reformatting, commenting or logging does not change it;
// a changed operator, constant, callee, field, guard, statement order or signature does.  A hand-written model is only known to
// correspond to the text it was written from: when a fingerprint moves, the obligation `fact_Cxx_surface_fingerprints` breaks and
// the check goes looking for a failing input.
var surfaceSpec = "/verif/lib/surface.json"

func init() {
	extractors["surface"] = func(repo string, out *leanFile, js map[string]any) error {
		if p := os.Getenv("VERIF_SURFACE"); p != "" {
			surfaceSpec = p
		}
		raw, err := os.ReadFile(surfaceSpec)
		if err != nil {
			return err
		}
		spec := map[string][]string{}
		if err := json.Unmarshal(raw, &spec); err != nil {
			return err
		}
		pids := make([]string, 0, len(spec))
		for k := range spec {
			pids = append(pids, k)
		}
		sort.Strings(pids)
		cache := map[string]map[string]string{} // file -> func -> fingerprint
		load := func(rel string) map[string]string {
			if m, ok := cache[rel]; ok {
				return m
			}
			m := map[string]string{}
			cache[rel] = m
			fs := token.NewFileSet()
			f, err := parser.ParseFile(fs, filepath.Join(repo, rel), nil, 0)
			if err != nil {
				return m
			}
			for _, d := range f.Decls {
				switch x := d.(type) {
				case *ast.FuncDecl:
					name := funcName(x)
					fp := fingerprint(fs, x)
					if old, dup := m[name]; dup { // e.g. several init()
						fp = hash16(old + fp)
					}
					m[name] = fp
				case *ast.GenDecl:
					// package-level constants and variables (MAX_COMMISSION, gas tables, …) under their own names
					if x.Tok == token.CONST || x.Tok == token.VAR {
						for _, s := range x.Specs {
							vs := s.(*ast.ValueSpec)
							for _, n := range vs.Names {
								if n.Name == "_" {
									continue
								}
								m[n.Name] = hash16(nodeText(fs, vs))
							}
						}
					}
				}
			}
			return m
		}
		for _, pid := range pids {
			var rows []string
			seen := map[string]bool{}
			for _, ent := range spec[pid] {
				file, fn := ent, ""
				if i := strings.Index(ent, ":"); i >= 0 {
					file, fn = ent[:i], ent[i+1:]
				}
				m := load(file)
				if fn == "" {
					names := make([]string, 0, len(m))
					for k := range m {
						names = append(names, k)
					}
					sort.Strings(names)
					if len(names) == 0 {
						rows = append(rows, fmt.Sprintf("(%s, %s)", leanStr(file), leanStr("missing")))
					}
					for _, k := range names {
						key := file + ":" + k
						if !seen[key] {
							seen[key] = true
							rows = append(rows, fmt.Sprintf("(%s, %s)", leanStr(key), leanStr(m[k])))
						}
					}
				} else {
					key := file + ":" + fn
					if seen[key] {
						continue
					}
					seen[key] = true
					fp, ok := m[fn]
					if !ok {
						fp = "missing"
					}
					rows = append(rows, fmt.Sprintf("(%s, %s)", leanStr(key), leanStr(fp)))
				}
			}
			sort.Strings(rows)
			out.f("def surface_%s : List (String × String) := [\n  %s]\n", pid, strings.Join(rows, ",\n  "))
		}
		return nil
	}
}

func hash16(s string) string {
	h := sha256.Sum256([]byte(s))
	return hex.EncodeToString(h[:])[:16]
}

func nodeText(fs *token.FileSet, n any) string {
	var sb strings.Builder
	old := fset
	fset = fs
	_ = printerFprint(&sb, n)
	fset = old
	// layout-independent: the printed text is re-scanned into tokens; go/printer's trailing comma in a multi-line literal / call
	// and the semicolons (explicit or inserted at line ends) are dropped
	var sc scanner.Scanner
	src := []byte(sb.String())
	f2 := token.NewFileSet()
	sc.Init(f2.AddFile("", f2.Base(), len(src)), src, nil, 0)
	var toks []string
	for {
		_, tok, lit := sc.Scan()
		if tok == token.EOF {
			break
		}
		if tok == token.SEMICOLON {
			continue
		}
		if (tok == token.RPAREN || tok == token.RBRACE || tok == token.RBRACK) && len(toks) > 0 && toks[len(toks)-1] == "," {
			toks = toks[:len(toks)-1]
		}
		if lit != "" {
			toks = append(toks, lit)
		} else {
			toks = append(toks, tok.String())
		}
	}
	return strings.Join(toks, " ")
}

func isLogging(fs *token.FileSet, s ast.Stmt) bool {
	es, ok := s.(*ast.ExprStmt)
	if !ok {
		return false
	}
	if _, ok := es.X.(*ast.CallExpr); !ok {
		return false
	}
	t := nodeText(fs, es.X)
	return strings.Contains(t, ".Logger(") || strings.HasPrefix(t, "log.") || strings.HasPrefix(t, "logger.")
}

func fingerprint(fs *token.FileSet, fd *ast.FuncDecl) string {
	lo, hi := fd.Pos(), fd.End()
	names := map[*ast.Object]string{}
	ast.Inspect(fd, func(n ast.Node) bool {
		switch x := n.(type) {
		case *ast.BlockStmt:
			kept := x.List[:0:0]
			for _, s := range x.List {
				if !isLogging(fs, s) {
					kept = append(kept, s)
				}
			}
			x.List = kept
		case *ast.CaseClause:
			kept := x.Body[:0:0]
			for _, s := range x.Body {
				if !isLogging(fs, s) {
					kept = append(kept, s)
				}
			}
			x.Body = kept
		}
		return true
	})
	ast.Inspect(fd, func(n ast.Node) bool {
		id, ok := n.(*ast.Ident)
		if !ok || id.Obj == nil || id.Name == "_" {
			return true
		}
		nm, ok := names[id.Obj]
		if !ok {
			// (Object.Pos looks the declaring identifier up by name: it has to be asked before that identifier is renamed)
			if p := id.Obj.Pos(); p < lo || p >= hi {
				return true
			}
			nm = fmt.Sprintf("v%d", len(names)+1)
			names[id.Obj] = nm
		}
		id.Name = nm
		return true
	})
	if os.Getenv("VERIF_SURFACE_DEBUG") == funcName(fd) || os.Getenv("VERIF_SURFACE_DEBUG") == "*" {
		fmt.Fprintln(os.Stderr, "FPTEXT", nodeText(fs, fd))
	}
	return hash16(nodeText(fs, fd))
}
