"""Per-property configuration: proof modules, correspondence runs, oracles (the property evaluated directly on the
implementation's own observations — used to search for a concrete failing input and to recognise known findings)."""
import re

PROPS = {}


def V(sig, detail, **kw):
    d = {"signature": sig, "detail": detail}
    d.update(kw)
    return d


# ------------------------------------------------------------------------------------------------ C14 epochs
def parse_epochs(s):
    res = {}
    s = s.strip()
    if not s:
        return res
    for part in s.split(";"):
        f = part.split(",")
        res[f[0]] = dict(id=f[0], start=int(f[1]), dur=int(f[2]), cur=int(f[3]), curStart=int(f[4]), started=f[5] == "1",
                         h=int(f[6]))
    return res


def oracle_c14(run, ops, impl):
    out = []
    prev = {}
    for i, (op, ob) in enumerate(zip(ops, impl)):
        a = op.split()
        if a[1] == "reset":
            prev = {}
            continue
        if "|" not in ob:
            out.append(V("C14:malformed-observation", {"line": i + 1, "op": op, "obs": ob}))
            continue
        head, st = ob.split("|", 1)
        cur = parse_epochs(st)
        if a[1] == "block":
            t, h = int(a[2]), int(a[3])
            calls = head.split()
            exp_calls = []
            for id_ in sorted(prev):
                e = prev[id_]
                n = cur.get(id_)
                if n is None:
                    out.append(V("C14:epoch-vanished", {"line": i + 1, "id": id_}))
                    continue
                wf = e["started"] or e["cur"] == 0
                adv = t >= e["start"] and ((not e["started"]) or e["curStart"] + e["dur"] <= t)
                if n["cur"] < e["cur"] and wf:
                    out.append(V("C14:epoch-number-decreased", {"line": i + 1, "op": op, "before": e, "after": n}))
                if wf:
                    if adv and n["cur"] != e["cur"] + 1:
                        out.append(V("C14:advance-expected", {"line": i + 1, "op": op, "before": e, "after": n}))
                    if (not adv) and n["cur"] != e["cur"]:
                        out.append(V("C14:unexpected-advance", {"line": i + 1, "op": op, "before": e, "after": n}))
                if adv:
                    if n["curStart"] != t or n["h"] != h:
                        out.append(V("C14:start-not-recorded", {"line": i + 1, "op": op, "before": e, "after": n}))
                    if e["started"]:
                        exp_calls += ["A:%s:%d" % (id_, e["cur"]), "B:%s:%d" % (id_, e["cur"] + 1)]
                    else:
                        exp_calls += ["B:%s:%d" % (id_, 1)]
            if calls != exp_calls:
                out.append(V("C14:hook-trace", {"line": i + 1, "op": op, "got": calls, "want": exp_calls}))
        prev = cur
    return out


PROPS["C14"] = {
    "modules": ["NibiruProofs.C14"],
    "runs": [{"model": "epochs", "n_quick": 300, "n_thorough": 5000, "nontrivial": r"^A:"}],
    "oracle": oracle_c14,
    "rule": "each case is one generated history (AddEpochInfo calls, valid and malformed, interleaved with BeginBlocker calls at "
            "generated block times: equal timestamps, sub-second steps, exact boundary hits, multi-duration gaps, future start "
            "times) on the real x/epochs keeper with a recording EpochHooks; distinct = distinct op sequence; non-trivial = at "
            "least one AfterEpochEnd hook fired (an epoch was finished, not just started)",
    "assumptions": ["time.Time arithmetic is exact for the generated range (nanoseconds since 2020, < 2^62)",
                    "collections.Map iterates in key order (string keys)"],
}


# ------------------------------------------------------------------------------------------------ SdkDec helpers (python)
P18 = 10 ** 18


def tdiv(a, b):
    q = abs(a) // abs(b)
    return q if (a >= 0) == (b >= 0) else -q


def chop_round(x):
    if x < 0:
        return -chop_round(-x)
    q, r = divmod(x, P18)
    if r == 0 or r < P18 // 2:
        return q
    if r > P18 // 2:
        return q + 1
    return q if q % 2 == 0 else q + 1


def dmul(a, b):
    return chop_round(a * b)


def dquo(a, b):
    return chop_round(tdiv(a * P18 * P18, b))


def dpower(d, n):
    if n == 0:
        return P18
    tmp = P18
    i = n
    while i > 1:
        if i % 2 != 0:
            tmp = dmul(tmp, d)
        i //= 2
        d = dmul(d, d)
    return dmul(d, tmp)


# ------------------------------------------------------------------------------------------------ C13 inflation
def infl_provision(p, period):
    if p["epp"] == 0 or period >= p["max"]:
        return 0
    x = period * P18
    acc = 0
    fs = p["factors"]
    for i, f in enumerate(fs):
        acc += dmul(f, dpower(x, len(fs) - i - 1))
    v = dmul(acc, 1000000 * P18)
    if v < 0:
        return 0
    return dquo(v, p["epp"] * P18)


def infl_mint_of(p, period):
    prov = infl_provision(p, period)
    m = tdiv(prov, P18)
    return m if (prov > 0 and m > 0) else 0


def oracle_c13(run, ops, impl):
    if run["model"] != "infl":
        return []
    out = []
    p = None
    in_domain = False
    g = 0
    for i, (op, ob) in enumerate(zip(ops, impl)):
        a = op.split()
        if a[1] == "reset":
            period, skipped = int(a[2]), int(a[3])
            p = dict(enabled=a[4] == "1", started=a[5] == "1", epp=int(a[6]), max=int(a[7]), ppy=int(a[8]), ps=int(a[9]), pc=int(a[10]),
                     pr=int(a[11]), factors=[] if a[12] == "-" else [int(x) for x in a[12].split(",")])
            n = None          # last finished epoch: known from the first epoch op (epochs are consecutive)
            start = (period, skipped)
            in_domain = None  # decided at the first epoch op
            continue
        if ob == "panic":
            out.append(V("C13:panic", {"line": i + 1, "op": op}))
            in_domain = False
            continue
        f = ob.split()
        if a[1] == "toggle":
            en = a[2] == "1"
            p["enabled"] = en
            p["started"] = p["started"] or en
            continue
        if a[1] == "edit":
            if f[0] == "ok":
                if a[2] != "-" or a[3] != "-":
                    in_domain = False    # EpochsPerPeriod / MaxPeriod are fixed per history in the property
                if a[4] != "-":
                    p["ppy"] = int(a[4])
                if a[5] != "-":
                    p["ps"], p["pc"], p["pr"] = int(a[5]), int(a[6]), int(a[7])
                if a[8] != "-":
                    p["factors"] = [int(x) for x in a[8].split(",")]
            continue
        if a[1] == "epoch":
            nn = int(a[2])
            minted, st, cm, sr = int(f[0]), int(f[1]), int(f[2]), int(f[3])
            kv = dict(x.split("=") for x in f[4:])
            if in_domain is None:
                period, skipped = start
                n0 = nn - 1
                k = n0 - skipped
                E = p["epp"]
                coh = E > 0 and skipped <= n0 and ((not p["enabled"]) or p["started"]) and \
                    (p["started"] or (period == 0 and skipped == n0)) and \
                    ((period < p["max"] and E * period <= k < E * period + E) or (period >= p["max"] and E * p["max"] <= k))
                in_domain = coh
                g = k
            # distribution: always
            if st + cm + sr != minted or int(kv["bal"]) != 0 or min(st, cm, sr, minted) < 0:
                out.append(V("C13:distribution", {"line": i + 1, "op": op, "obs": ob}))
            if minted > 0 and (st != (minted * p["ps"]) // P18 or cm != (minted * p["pc"]) // P18):
                out.append(V("C13:proportions", {"line": i + 1, "op": op, "obs": ob, "params": {k2: str(v) for k2, v in p.items()}}))
            if in_domain:
                positive = all(infl_provision(p, per) > 0 for per in range(0, min(p["max"], 64)))
                if not positive:
                    in_domain = False
            if in_domain:
                if p["enabled"]:
                    want = infl_mint_of(p, g // p["epp"])
                    g += 1
                else:
                    want = 0
                if minted != want:
                    out.append(V("C13:schedule", {"line": i + 1, "op": op, "minted": minted, "scheduled": want, "enabled_epochs_before": g - (1 if p["enabled"] else 0),
                                                   "obs": ob}))
                    in_domain = False
    return out


PROPS["C13"] = {
    "modules": ["NibiruProofs.C13"],
    "runs": [{"model": "infl", "n_quick": 250, "n_thorough": 3000, "nontrivial": r"^[1-9]\d* "},
             {"model": "dec", "n_quick": 400, "n_thorough": 5000, "nontrivial": r"^-?[1-9]", "per_line": True}],
    "oracle": oracle_c13,
    "rule": "infl: each case is one generated history on the real x/inflation keeper (real bank/distribution/sudo keepers): counters "
            "set to a coherent or arbitrary start, then day-epoch ends with consecutive numbers interleaved with ToggleInflation and "
            "EditInflationParams (valid and invalid) — observations: supply delta, fee-collector / community-pool / sudo-root deltas, "
            "module balance, CurrentPeriod, NumSkippedEpochs; non-trivial = at least one epoch minted a positive amount. dec: LegacyDec "
            "operations on boundary-biased operands (half-way banker's cases, up to 315 bits, negative) vs the Lean SdkDec; one op per "
            "case, non-trivial = non-zero result",
    "assumptions": ["counters stay below 2^62 (model uses unbounded naturals for uint64/int64)",
                    "the sudo root is a valid address and the inflation module account has minter permission (genesis)",
                    "property domain: coherent starting counters (DESIGN §7 C13); C13_incoherent_genesis_witness documents the rest"],
}


# ------------------------------------------------------------------------------------------------ C10 / C12 oracle tally
def sec(args, key):
    for a in args:
        if a.startswith(key + "="):
            return a[len(key) + 1:]
    return "-"


def plist(s, sep=","):
    return [] if s in ("-", "") else s.split(sep)


def parse_tally_op(op):
    a = op.split()
    d = dict(height=int(a[2]), thr=int(a[3]), minv=int(a[4]), exp=int(a[5]), band=int(a[6]), tb=int(a[7]), vp=int(a[8]))
    rest = a[9:]
    d["vals"] = {}
    for it in plist(sec(rest, "V")):
        f = it.split("/")
        d["vals"][f[0]] = dict(power=int(f[1]), bonded=f[2] == "1", jailed=f[3] == "1")
    d["wl"] = plist(sec(rest, "W"))
    d["next"] = plist(sec(rest, "N"))
    d["rates"] = {}
    for it in plist(sec(rest, "R")):
        f = it.split("/")
        d["rates"][f[0]] = (int(f[1]), int(f[2]))
    d["votes"] = []
    for it in plist(sec(rest, "B")):
        voter, ts = it.split("@")
        d["votes"].append((voter, [(t.split("/")[0], int(t.split("/")[1])) for t in plist(ts, ";")]))
    d["rewards"] = [tuple(int(x) for x in it.split("/")) for it in plist(sec(rest, "RW"))]
    d["mc"] = {it.split("/")[0]: int(it.split("/")[1]) for it in plist(sec(rest, "MC"))}
    d["bal"] = int(sec(rest, "BAL"))
    return d


def parse_tally_obs(ob):
    a = ob.split()
    o = {}
    o["rates"] = {}
    for it in plist(sec(a, "R")):
        f = it.split("/")
        o["rates"][f[0]] = (int(f[1]), int(f[2]))
    o["perf"] = {}
    for it in plist(sec(a, "PERF")):
        f = it.split("/")
        o["perf"][f[0]] = dict(weight=int(f[1]), win=int(f[2]), abstain=int(f[3]), miss=int(f[4]))
    o["mc"] = {it.split("/")[0]: int(it.split("/")[1]) for it in plist(sec(a, "MC"))}
    o["paid"] = {it.split("/")[0]: int(it.split("/")[1]) for it in plist(sec(a, "PAID"))}
    o["rewards"] = [tuple(int(x) for x in it.split("/")) for it in plist(sec(a, "RW"))]
    o["bal"] = int(sec(a, "BAL"))
    return o


def tally_ballots(d):
    """ballots of bonded validators per pair: list of (rate, voter, power-counted)"""
    ballots = {}
    for voter, ts in d["votes"]:
        v = d["vals"].get(voter)
        if not v or not v["bonded"]:
            continue
        for pair, rate in ts:
            ballots.setdefault(pair, []).append((rate, voter, v["power"] if rate > 0 else 0))
    return ballots


def quorum(d, b):
    T = sum(x[2] for x in b)
    tp = chop_round(d["thr"] * d["tb"])
    nvalid = sum(1 for x in b if x[0] > 0)
    return T != 0 and T >= tp and nvalid >= d["minv"]


def oracle_c10(run, ops, impl):
    out = []
    for i, (op, ob) in enumerate(zip(ops, impl)):
        if not op.startswith("oracle tally"):
            continue
        if ob == "panic":
            out.append(V("C10:panic", {"line": i + 1}))
            continue
        d = parse_tally_op(op)
        o = parse_tally_obs(ob)
        ballots = tally_ballots(d)
        # the vote targets of the NEXT period: when the period end rewrites the WhitelistedPairs store at all, it rewrites it to the
        # whitelist parameter — a de-listed pair does not stay a target (votes for it would be accepted and could set its rate)
        w_after = sorted(plist(sec(ob.split(), "W")))
        if w_after != sorted(d["wl"]) and w_after != sorted(set(d["next"])):
            out.append(V("C10:delisted-or-unlisted-pair-is-a-vote-target-after-refresh",
                         {"line": i + 1, "store_before": sorted(d["wl"]), "param": sorted(d["next"]), "store_after": w_after}))
        for pair in set(list(d["rates"]) + list(o["rates"]) + list(ballots) + d["wl"]):
            b = ballots.get(pair, [])
            should = pair in d["wl"] and quorum(d, b)
            new = o["rates"].get(pair)
            old = d["rates"].get(pair)
            if should:
                T = sum(x[2] for x in b)
                if new is None or new[1] != d["height"]:
                    out.append(V("C10:not-updated", {"line": i + 1, "pair": pair, "new": str(new)}))
                    continue
                m = new[0]
                if T >= 2:
                    below = sum(x[2] for x in b if x[0] < m)
                    above = sum(x[2] for x in b if x[0] > m)
                    okm = any(x[0] == m and x[0] > 0 for x in b) and 2 * below <= T and above <= T - T // 2
                    if not okm:
                        out.append(V("C10:not-a-weighted-median", {"line": i + 1, "pair": pair, "rate": str(m), "T": T, "below": below, "above": above,
                                                                    "ballot": [(str(x[0]), x[2]) for x in b]}))
            else:
                expired = old is not None and old[1] + d["exp"] <= d["height"]
                want = None if (old is None or expired) else old
                if new != want:
                    out.append(V("C10:unexpected-rate-change", {"line": i + 1, "pair": pair, "old": str(old), "new": str(new), "whitelisted": pair in d["wl"],
                                                                "quorum": quorum(d, b)}))
    return out


PROPS["C10"] = {
    "modules": ["NibiruProofs.C10"],
    "fact_obligations": ["fact_C10_end_blocker_gates"],
    "runs": [{"model": "otally", "n_quick": 400, "n_thorough": 6000, "nontrivial": r"R=[a-z]", "per_line": True}],
    "oracle": oracle_c10,
    "rule": "each case: a validator set created through the real staking msg server (random powers, some jailed/unbonding), random "
            "oracle params accepted by Validate, whitelist, stored rates (fresh / about to expire / non-whitelisted), aggregate votes "
            "(positive, zero/negative abstain, ties, band-edge, up to 300-bit rates, votes of non-validators), prevotes, miss counters, "
            "reward allocations; then the real UpdateExchangeRates (and SlashAndResetMissCounters); distinct = distinct op line; "
            "non-trivial = at least one exchange rate stored afterwards",
    "assumptions": ["staking keeper: IsBonded/GetConsensusPower/TotalBondedTokens are as observed through its API",
                    "number of bonded validators ≤ MaxValidators (staking invariant)",
                    "abstention no-influence and the median bounds need total ballot power ≥ 2 (C10_T_lt_2_witness)"],
}


# ------------------------------------------------------------------------------------------------ C12
import math as _math

UPPER = (2 ** 256) * P18


def std_dev(b, median):
    pos = [x for x in b if x[0] > 0]
    if not pos:
        return 0
    sq = [dmul(x[0] - median, x[0] - median) for x in pos]
    if any(abs(x) > UPPER for x in sq):
        return 0
    s = sum(sq)
    if abs(s) > UPPER:
        return 0
    return _math.isqrt(tdiv(s, len(pos))) * 10 ** 9


def oracle_c12(run, ops, impl):
    out = []
    for i, (op, ob) in enumerate(zip(ops, impl)):
        if ob == "panic":
            out.append(V("C12:panic", {"line": i + 1}))
            continue
        if op.startswith("oracle tally"):
            d = parse_tally_op(op)
            o = parse_tally_obs(ob)
            ballots = tally_ballots(d)
            exp_miss = {}
            for pair, b in ballots.items():
                if not (pair in d["wl"] and quorum(d, b)):
                    continue
                if pair not in o["rates"]:
                    continue  # C10's business
                median = o["rates"][pair][0]
                spread = max(dmul(median, tdiv(d["band"], 2)), std_dev(b, median))
                for rate, voter, _ in b:
                    if rate > 0 and not (median - spread <= rate <= median + spread):
                        exp_miss.setdefault(voter, set()).add(pair)
            for a, v in d["vals"].items():
                before = d["mc"].get(a, 0)
                after = o["mc"].get(a, 0)
                want = len(exp_miss.get(a, ())) if v["bonded"] else 0
                if after - before != want:
                    out.append(V("C12:miss-counter", {"line": i + 1, "validator": a, "before": before, "after": after, "expected_growth": want,
                                                      "out_of_band_pairs": sorted(exp_miss.get(a, ()))}))
            # rewards
            totw = sum(p["weight"] for p in o["perf"].values())
            pot = sum(r[2] for r in d["rewards"])
            owed_before = sum(r[1] * r[2] for r in d["rewards"])
            owed_after = sum(r[1] * r[2] for r in o["rewards"])
            paid = sum(o["paid"].values())
            if totw > 0:
                if paid > pot:
                    out.append(V("C12:paid-exceeds-pot", {"line": i + 1, "paid": paid, "pot": pot}))
                for a, p in o["perf"].items():
                    want = (pot * ((p["weight"] * P18) // totw)) // P18
                    if o["paid"].get(a, 0) != want:
                        out.append(V("C12:not-pro-rata", {"line": i + 1, "validator": a, "paid": o["paid"].get(a, 0), "want": want, "weight": p["weight"], "total": totw}))
            elif paid != 0:
                out.append(V("C12:paid-without-weight", {"line": i + 1, "paid": paid}))
            # the schedule: a period's pot leaves the schedule exactly when it is paid out — with winners every allocation loses one
            # period, without winners nothing is consumed (the pot of that period is still owed)
            if totw == 0 and sorted(o["rewards"]) != sorted(d["rewards"]):
                out.append(V("C12:reward-period-consumed-without-payout", {"line": i + 1, "schedule_before": sorted(d["rewards"])[:6],
                                                                            "schedule_after": sorted(o["rewards"])[:6]}))
            if totw > 0:
                want_sched = sorted((r[0], r[1] - 1, r[2]) for r in d["rewards"] if r[1] > 1)
                if sorted(o["rewards"]) != want_sched:
                    out.append(V("C12:reward-schedule-not-advanced-by-one-period", {"line": i + 1, "schedule_before": sorted(d["rewards"])[:6],
                                                                                    "schedule_after": sorted(o["rewards"])[:6]}))
            if d["bal"] >= owed_before and o["bal"] < owed_after:
                out.append(V("C12:module-balance-below-owed", {"line": i + 1, "balance": o["bal"], "owed": owed_after}))
        elif op.startswith("oracle gates"):
            a = op.split()
            h, vp, sw = int(a[2]), int(a[3]), int(a[4])
            if ob.startswith("panic"):
                out.append(V("C12:panic-in-end-blocker", {"line": i + 1, "op": op}))
                continue
            o = dict(x.split("=") for x in ob.split())
            if (o.get("slash") == "1") != ((h + 1) % sw == 0):
                out.append(V("C12:slash-window-end-not-honoured", {"line": i + 1, "height": h, "votePeriod": vp, "slashWindow": sw,
                                                                   "reset_ran": o.get("slash") == "1"}))
            if (o.get("tally") == "1") != ((h + 1) % vp == 0):
                out.append(V("C12:tally-not-at-vote-period-end", {"line": i + 1, "height": h, "votePeriod": vp, "slashWindow": sw,
                                                                  "tally_ran": o.get("tally") == "1"}))
        elif op.startswith("oracle allocate"):
            a = op.split()
            total, periods = int(a[3]), int(a[4])
            rw_b = [tuple(int(x) for x in it.split("/")) for it in plist(sec(a[5:], "RW"))]
            bal_b = int(sec(a[5:], "BAL"))
            if ob.startswith("panic") or ob.startswith("err"):
                out.append(V("C12:allocation-failed", {"line": i + 1, "op": op[:200], "result": ob[:100]}))
                continue
            o = ob.split()
            rw_a = [tuple(int(x) for x in it.split("/")) for it in plist(sec(o, "RW"))]
            bal_a = int(sec(o, "BAL"))
            owed_b = sum(r[1] * r[2] for r in rw_b)
            owed_a = sum(r[1] * r[2] for r in rw_a)
            if bal_a - bal_b != total:
                out.append(V("C12:allocation-moved-wrong-amount", {"line": i + 1, "moved": bal_a - bal_b, "total": total}))
            if owed_a - owed_b > total:
                out.append(V("C12:allocation-owes-more-than-funded", {"line": i + 1, "total": total, "periods": periods, "owed_growth": owed_a - owed_b}))
            if bal_b >= owed_b and bal_a < owed_a:
                out.append(V("C12:module-balance-below-owed", {"line": i + 1, "balance": bal_a, "owed": owed_a}))
        elif op.startswith("oracle slash"):
            a = op.split()
            sw, vp, minvalid = int(a[2]), int(a[3]), int(a[4])
            vals = {}
            for it in plist(sec(a[5:], "V")):
                f = it.split("/")
                vals[f[0]] = dict(bonded=f[2] == "1", jailed=f[3] == "1")
            mc = {it.split("/")[0]: int(it.split("/")[1]) for it in plist(sec(a[5:], "MC"))}
            ppw = sw // vp
            want = sorted(x for x, n in mc.items() if tdiv((ppw - n) * P18, ppw) < minvalid and vals.get(x, {}).get("bonded") and not vals[x]["jailed"])
            o = ob.split()
            got = plist(sec(o, "SLASHED"))
            if sorted(got) != want or sec(o, "MC") != "-":
                out.append(V("C12:slash-set", {"line": i + 1, "got": got, "want": want, "counters_after": sec(o, "MC")}))
    return out


PROPS["C12"] = {
    "modules": ["NibiruProofs.C12"],
    "fact_obligations": ["fact_C12_end_blocker_gates"],
    "runs": [{"model": "otally", "n_quick": 400, "n_thorough": 6000, "nontrivial": r"PAID=[0-9a-f]|SLASHED=[0-9a-f]", "per_line": True}],
    "oracle": oracle_c12,
    "rule": PROPS["C10"]["rule"] + "; for C12 a case is non-trivial when a reward was paid out or a validator was slashed",
    "assumptions": ["staking Slash/Jail, distribution AllocateTokensToValidator and bank transfers behave as observed through their APIs "
                    "(parameters of the model)", "reward coins are a single denom in the model (per-denom independent in the code)"],
}


# ------------------------------------------------------------------------------------------------ C11
import re as _re

DENOM_RE = _re.compile(r"^[a-zA-Z][a-zA-Z0-9/:._-]{2,127}$")


def parse_rates_py(rates, decs):
    out, seen = [], set()
    for part in rates.split("|"):
        if len(part) <= 2 or part[0] != "(" or part[-1] != ")":
            return None
        sp = part[1:-1].split(",")
        if len(sp) != 2:
            return None
        ps = sp[0].split(":")
        if len(ps) != 2 or not ps[0] or not ps[1] or not DENOM_RE.match(ps[0]) or not DENOM_RE.match(ps[1]):
            return None
        if decs.get(sp[1]) is None:
            return None
        if sp[0] in seen:
            return None
        seen.add(sp[0])
        out.append((sp[0], decs[sp[1]]))
    return out


def parse_votes_obs(ob):
    a = ob.split()
    st = {"pv": {}, "v": {}, "f": {}}
    for it in plist(sec(a, "PV")):
        f = it.split("/")
        st["pv"][f[0]] = (f[1], int(f[2]))
    for it in plist(sec(a, "V")):
        k, ts = it.split("@")
        st["v"][k] = ts
    for it in plist(sec(a, "F")):
        f = it.split("/")
        st["f"][f[0]] = f[1]
    return a[0], st


def oracle_c11(run, ops, impl):
    out = []
    st = {"pv": {}, "v": {}, "f": {}}
    bonded, wl, vp = {}, [], 1
    deleg = {}   # the oracle's own record of who each validator currently delegates to (from the accepted messages)
    sub = {}     # the oracle's own record of the height at which each validator's latest accepted prevote was submitted
    for i, (op, ob) in enumerate(zip(ops, impl)):
        a = op.split()
        if a[1] == "reset":
            vp, wl = int(a[2]), plist(a[3])
            bonded = {x.split("/")[0]: x.split("/")[1] == "1" for x in plist(a[4])}
            st = {"pv": {}, "v": {}, "f": {}}
            deleg = {}
            sub = {}
            continue
        if ob.startswith("panic"):
            out.append(V("C11:panic", {"line": i + 1, "op": op}))
            continue
        res, new = parse_votes_obs(ob)
        if a[1] == "delegate" and res == "ok":
            deleg[a[2]] = a[3]
        if a[1] == "endperiod" and new["v"]:
            # the tally at the end of a vote period consumes every revealed vote: none may be counted again in a later period
            out.append(V("C11:vote-survives-period-end", {"line": i + 1, "op": op, "votes_left": sorted(new["v"])[:3]}))
        if a[1] == "setperiod":
            vp = int(a[2])
        elif a[1] == "setbonded":
            bonded[a[2]] = a[3] == "1"
        elif a[1] in ("prevote", "vote"):
            h, val, feeder = int(a[2]), a[3], a[4]
            auth = (feeder == val or deleg.get(val, st["f"].get(val)) == feeder) and bonded.get(val) is True
            if a[1] == "prevote":
                want = auth and a[5] == "1"
                if (res == "ok") != want:
                    out.append(V("C11:prevote-acceptance", {"line": i + 1, "op": op, "result": res, "authorised": auth}))
                if res != "ok" and new != st:
                    out.append(V("C11:rejected-prevote-changed-state", {"line": i + 1, "op": op}))
                if res == "ok":
                    sub[val] = h
                    if len(a) > 6 and new["pv"].get(val) != (a[6].lower(), h):
                        out.append(V("C11:prevote-not-recorded-as-submitted", {"line": i + 1, "op": op, "stored": new["pv"].get(val),
                                                                               "submitted": (a[6], h)}))
            else:
                rates = bytes.fromhex(a[5]).decode() if a[5] != "-" else ""
                decs = {}
                for it in plist(a[6]):
                    k, v = it.split("=")
                    decs[bytes.fromhex(k).decode() if k != "-" else ""] = None if v == "err" else int(v)
                pv = st["pv"].get(val)
                if pv is not None and val in sub:
                    pv = (pv[0], sub[val])      # the period of the commitment comes from the oracle's own record
                tuples = parse_rates_py(rates, decs)
                want = bool(auth and pv is not None and ((h // vp) - (pv[1] // vp)) % 2 ** 64 == 1 and tuples is not None and
                            all(t[0] in wl for t in tuples) and pv[0] == a[7])
                if (res == "ok") != want:
                    out.append(V("C11:vote-acceptance", {"line": i + 1, "op": op[:300], "result": res, "authorised": auth, "prevote": pv, "votePeriod": vp,
                                                         "hash_matches": pv is not None and pv[0] == a[7]}))
                if res == "ok" and val in new["pv"]:
                    out.append(V("C11:prevote-not-consumed", {"line": i + 1, "op": op[:300]}))
                if res != "ok" and new != st:
                    out.append(V("C11:rejected-vote-changed-state", {"line": i + 1, "op": op[:300]}))
        st = new
    return out


PROPS["C11"] = {
    "modules": ["NibiruProofs.C11"],
    "runs": [{"model": "ovote", "n_quick": 150, "n_thorough": 2500, "nontrivial": r"^ok PV=\S+ V=[0-9a-f]"}],
    "oracle": oracle_c11,
    "rule": "each case is one generated history on the real oracle msg server (validators created through the real staking msg "
            "server): DelegateFeedConsent, prevotes (valid / upper-case / malformed hashes), reveals (exact, different salt, textual "
            "variants of the same tuples, other validator, former/stranger feeder, replays), VotePeriod changes, jailing, and block "
            "advances through the real EndBlocker across period boundaries; non-trivial = at least one reveal was accepted",
    "assumptions": ["the hash is modelled as an uninterpreted injective function (sha256 collision-freeness); the expected hash in the "
                    "protocol is computed by the harness with crypto/sha256, not by the repository",
                    "cosmossdk.io/math LegacyNewDecFromStr is a parameter (table supplied by the harness)",
                    "heights < 2^63 (int64)"],
}


# ------------------------------------------------------------------------------------------------ C15 tokenfactory
def parse_tf_obs(ob):
    a = ob.split()
    st = {"S": {}, "B": {}, "A": {}}
    for it in plist(sec(a, "S")):
        k, v = it.rsplit("=", 1)
        st["S"][k] = int(v)
    for it in plist(sec(a, "B")):
        k, v = it.rsplit("=", 1)
        st["B"][tuple(k.split("|"))] = int(v)
    for it in plist(sec(a, "A")):
        k, v = it.rsplit("=", 1)
        st["A"][k] = v
    return a[0], st


def tf_shape(d):
    p = d.split("/")
    return len(p) == 3 and p[0] == "tf" and p[1] != "" and p[2] != ""


def oracle_c15(run, ops, impl):
    out = []
    st = None
    for i, (op, ob) in enumerate(zip(ops, impl)):
        a = op.split()
        if ob.startswith("panic"):
            out.append(V("C15:panic", {"line": i + 1, "op": op}))
            continue
        res, new = parse_tf_obs(ob)
        if a[1] == "reset":
            st = new
            continue
        un = lambda s: "" if s == "_" else s
        kind = a[1]
        sender = un(a[2])
        if res != "ok":
            if new != st:
                out.append(V("C15:rejected-message-changed-state", {"line": i + 1, "op": op, "result": res}))
            st = new
            continue
        # supply
        for d in set(st["S"]) | set(new["S"]):
            delta = new["S"].get(d, 0) - st["S"].get(d, 0)
            if delta == 0:
                continue
            admin = st["A"].get(d)
            if kind == "mint" and a[3] == d and admin == sender and delta == int(a[4]) and delta > 0 and tf_shape(d):
                continue
            if kind == "burn" and a[3] == d and admin == sender and delta == -int(a[4]) and delta < 0:
                continue
            if kind == "burnNative" and a[3] == d and delta == -int(a[4]):
                if d in st["A"] and admin != sender:
                    out.append(V("C15:burnNative-by-non-admin-holder-changes-tf-supply", {"line": i + 1, "op": op, "denom": d, "admin": admin, "delta": delta}))
                continue
            out.append(V("C15:supply-changed-without-admin-mint-burn", {"line": i + 1, "op": op, "denom": d, "delta": delta, "admin": admin}))
        # control
        for d in set(st["A"]) | set(new["A"]):
            if st["A"].get(d) == new["A"].get(d):
                continue
            if kind == "create" and d == "tf/%s/%s" % (sender, un(a[3])) and d not in st["A"] and new["A"][d] == sender:
                continue
            if kind == "changeAdmin" and a[3] == d and st["A"].get(d) == sender and new["A"].get(d) == un(a[4]):
                continue
            out.append(V("C15:admin-changed-illegitimately", {"line": i + 1, "op": op, "denom": d, "before": st["A"].get(d), "after": new["A"].get(d)}))
        # debits
        for k in set(st["B"]) | set(new["B"]):
            delta = new["B"].get(k, 0) - st["B"].get(k, 0)
            if delta >= 0:
                continue
            acct, d = k
            if kind == "burn" and a[3] == d and st["A"].get(d) == sender and tf_shape(d):
                continue
            if kind == "burnNative" and a[3] == d and sender.lower() == acct.lower():
                continue
            out.append(V("C15:account-debited-illegitimately", {"line": i + 1, "op": op, "account": acct, "denom": d, "delta": delta}))
        st = new
    return out


PROPS["C15"] = {
    "modules": ["NibiruProofs.C15"],
    "runs": [{"model": "tf", "n_quick": 150, "n_thorough": 2500, "nontrivial": r"^ok S="}],
    "oracle": oracle_c15,
    "rule": "each case is one generated history on the real tokenfactory msg server, each message run as the chain does (ValidateBasic, "
            "handler on a branched context discarded on error): CreateDenom / ChangeAdmin / Mint / Burn / BurnNative / SetDenomMetadata "
            "from admins, former admins, holders, strangers, module accounts, upper-case bech32 and malformed addresses, on created "
            "denoms, other creators' denoms, unibi, ibc/…, erc20/… and look-alike strings; observations: result class, bank supply of "
            "every tracked denom, every non-zero balance, admin of every denom; non-trivial = at least one message accepted",
    "assumptions": ["bank keeper Mint/Burn/Send move exactly the stated coins (parameter, observed)",
                    "messages are executed atomically (branched store discarded on error), as baseapp does"],
}


# ------------------------------------------------------------------------------------------------ C16 sudo
def parse_sudo_obs(ob):
    a = ob.split()
    kv = dict(x.split("=", 1) for x in a[1:])
    return a[0], dict(root=kv["root"], contracts=plist(kv["contracts"]), w=[int(x) for x in kv["w"].split(",")])


def oracle_c16(run, ops, impl):
    out = []
    st = None
    tix = {"oracleParams": 0, "inflationParams": 1, "inflationToggle": 2, "denomMetadata": 3}
    valid = set()
    for i, (op, ob) in enumerate(zip(ops, impl)):
        a = op.split()
        if ob.startswith("panic"):
            out.append(V("C16:panic", {"line": i + 1, "op": op}))
            continue
        res, new = parse_sudo_obs(ob)
        if a[1] == "reset":
            st = new
            valid = set(plist(a[2]))
            continue
        sender = a[3] if a[1] in ("gated", "gatednil") else a[2]
        is_root = sender in valid and sender.lower() == st["root"].lower()
        listed = sender in valid and sender.lower() in [c.lower() for c in st["contracts"]]
        if res != "ok" and new != st:
            out.append(V("C16:rejected-message-changed-state", {"line": i + 1, "op": op, "result": res}))
        if a[1] == "gatednil":
            # the gated message without its payload: never applied (nothing to apply), and refused as unauthorised without permission
            if res == "ok":
                out.append(V("C16:gated-accepted-for-non-sudoer" if not (is_root or listed) else "C16:payloadless-gated-op-reported-success",
                             {"line": i + 1, "op": op, "root": st["root"], "contracts": st["contracts"]}))
            elif res == "unauthorized" and (is_root or listed):
                out.append(V("C16:gated-refused-for-sudoer:payloadless", {"line": i + 1, "op": op, "root": st["root"], "contracts": st["contracts"]}))
            elif res == "invalid" and sender in valid and not (is_root or listed):
                out.append(V("C16:payloadless-gated-op-not-gated-first", {"line": i + 1, "op": op, "result": res}))
        elif a[1] == "gated":
            if res == "ok" and not (is_root or listed):
                out.append(V("C16:gated-accepted-for-non-sudoer", {"line": i + 1, "op": op, "root": st["root"], "contracts": st["contracts"]}))
            if res != "ok" and (is_root or listed):
                spelled = "uppercase-root" if (is_root and st["root"] != st["root"].lower()) else \
                    ("uppercase-sender" if sender != sender.lower() else "plain")
                out.append(V("C16:gated-refused-for-sudoer:%s" % spelled, {"line": i + 1, "op": op, "root": st["root"], "contracts": st["contracts"], "result": res}))
            if res == "ok":
                w = list(st["w"])
                w[tix[a[2]]] += 1
                if new["w"] != w:
                    out.append(V("C16:accepted-gated-op-wrote-unexpected-stores", {"line": i + 1, "op": op, "before": st["w"], "after": new["w"]}))
        else:
            changed = (new["root"], sorted(new["contracts"])) != (st["root"], sorted(st["contracts"]))
            if changed and not is_root:
                out.append(V("C16:sudoers-changed-by-non-root", {"line": i + 1, "op": op, "root": st["root"]}))
            if res == "ok" and not is_root:
                out.append(V("C16:root-operation-accepted-for-non-root", {"line": i + 1, "op": op, "root": st["root"]}))
            if res == "ok" and a[1] == "edit":
                cs = plist(a[4])
                before, after = set(st["contracts"]), set(new["contracts"])
                if a[3] == "add":
                    want = before | {c.lower() for c in cs}
                    if after != want:
                        out.append(V("C16:accepted-add-did-not-produce-the-requested-set", {"line": i + 1, "op": op, "before": sorted(before), "after": sorted(after)}))
                elif a[3] == "remove":
                    # every contract named in its canonical (stored) spelling must be gone, nothing else may change
                    must_go = {c for c in cs if c == c.lower()}
                    if (after & must_go) or not (before - set(cs) <= after <= before):
                        out.append(V("C16:accepted-remove-left-a-named-contract-listed", {"line": i + 1, "op": op, "before": sorted(before), "after": sorted(after)}))
            if res == "ok" and a[1] == "changeRoot":
                # handing over the root role removes nobody from the list: a contract stays listed until a root removes it
                if sorted(new["contracts"]) != sorted(st["contracts"]):
                    out.append(V("C16:changeRoot-changed-the-contract-list", {"line": i + 1, "op": op, "before": sorted(st["contracts"]),
                                                                             "after": sorted(new["contracts"])}))
                if new["root"].lower() != a[3].lower():
                    out.append(V("C16:changeRoot-installed-another-root", {"line": i + 1, "op": op, "root_after": new["root"]}))
            if res != "ok" and is_root and a[1] == "changeRoot" and a[3] in valid:
                out.append(V("C16:changeRoot-refused-for-root", {"line": i + 1, "op": op, "root": st["root"], "result": res}))
        st = new
    return out


PROPS["C16"] = {
    "modules": ["NibiruProofs.C16"],
    "runs": [{"model": "sudo", "n_quick": 150, "n_thorough": 2500, "nontrivial": r"^ok root="}],
    "oracle": oracle_c16,
    "rule": "each case is one generated history on the real sudo msg server and the four real sudo-gated entry points (oracle "
            "EditOracleParams, inflation EditInflationParams / ToggleInflation, tokenfactory SudoSetDenomMetadata), each message run as "
            "the chain does (ValidateBasic, handler on a branched context discarded on error): EditSudoers add/remove/unknown action "
            "with duplicates, ChangeRoot, gated messages — by root, former roots, listed and formerly listed contracts, strangers, "
            "upper-case spellings and malformed addresses; observations: result class, stored root and contract set, number of observed "
            "writes per gated store; non-trivial = at least one message accepted",
    "assumptions": ["authz wrapping is covered by the message-tree model (C02/C17), not by this check",
                    "T1: the set of functions calling CheckPermissions and the check-before-write order are regenerated from the source "
                    "on every run (fact_C16_*)"],
}


# ------------------------------------------------------------------------------------------------ C18 devgas
def pcoins(s):
    return {it.rsplit("=", 1)[0]: int(it.rsplit("=", 1)[1]) for it in plist(s)}


C17_CAP = 25 * 10 ** 16   # 0.25 as a raw LegacyDec


def oracle_c18(run, ops, impl):
    out = []
    P = None
    reg = {}
    contracts = {}
    gov = ""
    for i, (op, ob) in enumerate(zip(ops, impl)):
        a = op.split()
        if a[1] == "reset":
            P = dict(enabled=a[2] == "1", share=int(a[3]), allowed=plist(sec(a[4:], "ALLOWED")))
            gov = sec(a[4:], "GOV")
            contracts = {}
            for it in plist(sec(a[4:], "CONTRACTS")):
                f = it.split("/")
                contracts[f[0]] = dict(admin="" if f[1] == "_" else f[1], creator="" if f[2] == "_" else f[2])
            reg = {}
            continue
        def parse_reg(ob):
            r = {}
            for it in plist(sec(ob.split(), "REG")):
                f = it.split("/")
                r[f[0]] = (f[1], f[2])
            return r
        if a[1] == "payout":
            fee, targets = pcoins(a[2]), plist(a[3])
            registered_targets = [t for t in targets if t in reg and reg[t][1] not in ("", "_")]
            if ob.startswith("paid"):
                f = ob.split()
                each, to = pcoins(sec(f, "EACH")), plist(sec(f, "TO"))
                n = len(to)
                if not P["enabled"] or not registered_targets:
                    out.append(V("C18:paid-although-disabled-or-unregistered", {"line": i + 1, "op": op[:300], "obs": ob[:200]}))
                if sorted(to) != sorted(reg[t][1] for t in registered_targets):
                    out.append(V("C18:wrong-recipients", {"line": i + 1, "to": to, "want": [reg[t][1] for t in registered_targets]}))
                for d, amt in each.items():
                    own = fee.get(d, 0) if (not P["allowed"] or d in P["allowed"]) else 0
                    if n * amt * P18 > P["share"] * own + n * P18:
                        dup = "duplicate-allowed-denom" if P["allowed"].count(d) > 1 else "plain"
                        out.append(V("C18:payout-exceeds-share-of-fee:%s" % dup, {"line": i + 1, "denom": d, "each": amt, "recipients": n, "fee": own,
                                                                                  "share_raw": str(P["share"]), "allowed": P["allowed"]}))
            elif ob.startswith("uneven") or ob.startswith("unequal") or ob.startswith("none-but-paid"):
                out.append(V("C18:unequal-split", {"line": i + 1, "obs": ob}))
            continue
        if ob.startswith("panic"):
            reg = parse_reg(ob) if "REG=" in ob else reg
            continue
        if a[1] == "setadmin":
            # wasm admin change (not a devgas message): the oracle follows the new owner
            if a[2] in contracts:
                contracts[a[2]]["admin"] = "" if a[3] in ("-", "_") else a[3]
            if parse_reg(ob) != reg:
                out.append(V("C18:admin-change-changed-registry", {"line": i + 1, "op": op}))
            continue
        res = ob.split()[0]
        new = parse_reg(ob)
        contract, sender = a[2], a[3]
        if res != "ok":
            if new != reg:
                out.append(V("C18:rejected-message-changed-registry", {"line": i + 1, "op": op}))
        else:
            info = contracts.get(contract)
            owner = info and (info["admin"] == sender or (info["admin"] == "" and info["creator"] == sender))
            if a[1] == "register":
                if contract in reg:
                    # a contract has one fee share; a second Register must be refused (redirecting it is Update's job, by the admin)
                    out.append(V("C18:register-over-existing-registration", {"line": i + 1, "op": op, "existing": reg[contract], "info": info}))
                factory = info and (info["admin"] == gov or (info["admin"] == "" and info["creator"] in contracts) or
                                    (info["admin"] not in ("", sender) and info["admin"] in contracts))
                wd = "" if a[4] == "_" else a[4]
                if not (owner or (factory and wd == contract)):
                    out.append(V("C18:register-by-non-owner", {"line": i + 1, "op": op, "info": info}))
                if factory and wd != contract:
                    out.append(V("C18:factory-contract-names-other-withdrawer", {"line": i + 1, "op": op, "info": info}))
            else:
                if not owner:
                    out.append(V("C18:%s-by-non-owner" % a[1], {"line": i + 1, "op": op, "info": info}))
        reg = new
    return out


PROPS["C18"] = {
    "modules": ["NibiruProofs.C18"],
    "runs": [{"model": "devgas", "n_quick": 150, "n_thorough": 2500, "nontrivial": r"^paid EACH=[a-z]|^ok REG=n"}],
    "oracle": oracle_c18,
    "rule": "each case is one generated history: real wasm contracts (no admin / user admin / gov-module admin / contract admin / "
            "self-administered) instantiated once; per case random params (enabled, DeveloperShares in [0,1] incl. 18-digit fractions, "
            "allowed-denom lists incl. repeated denoms), then Register/Update/Cancel messages by admins, creators, strangers, contracts "
            "(ValidateBasic + handler on a branched context) interleaved with transactions pushed through the real payout decorator "
            "(0–5 MsgExecuteContract to registered/unregistered/unknown contracts mixed with bank sends, fees of 1–3 base units up to "
            "2^62 in up to three denoms, fee collector funded like DeductFee does); observations: registry contents, who was paid what; "
            "non-trivial = a payout happened or a registration was accepted",
    "assumptions": ["wasm ContractInfo (admin, creator) is a parameter read from the real wasm keeper",
                    "the decorator sits directly after DeductFee (fact_C18_payout_after_fee_deduction, regenerated every run)"],
}


# ------------------------------------------------------------------------------------------------ C19 log / tx indices
def oracle_c19(run, ops, impl):
    out = []
    nxt_log, nxt_tx, nlogs = 0, 0, 0
    for i, (op, ob) in enumerate(zip(ops, impl)):
        a = op.split()
        if a[1] == "newblock":
            nxt_log, nxt_tx, nlogs = 0, 0, 0
            continue
        if ob.startswith("panic"):
            out.append(V("C19:panic", {"line": i + 1, "op": op}))
            continue
        f = ob.split()
        if a[1] == "endblock":
            kv = dict(x.split("=", 1) for x in f)
            if kv["bloom"] != "union-of-%d-logs" % nlogs:
                out.append(V("C19:block-bloom-is-not-the-union-of-log-blooms", {"line": i + 1, "obs": ob, "logs_emitted": nlogs}))
            if plist(kv["ethTxs"]) != [str(x) for x in range(nxt_tx)]:
                out.append(V("C19:eth-tx-indices-not-consecutive", {"line": i + 1, "got": kv["ethTxs"], "executed": nxt_tx}))
            continue
        res = f[0]
        logs = [tuple(int(y) for y in x.split("/")) for x in plist(sec(f, "logs"))]
        if a[1] == "eth":
            if res == "failed" or res == "reverted":
                if logs:
                    out.append(V("C19:logs-from-reverted-or-failed-tx", {"line": i + 1, "op": op, "obs": ob}))
            for (li, ti) in logs:
                if ti != nxt_tx:
                    out.append(V("C19:eth-log-carries-wrong-tx-index", {"line": i + 1, "op": op, "log": (li, ti), "tx_index": nxt_tx}))
        kind = "eth" if a[1] == "eth" else a[2]
        for (li, ti) in logs:
            if li != nxt_log:
                out.append(V("C19:log-index-not-consecutive:after-%s" % kind, {"line": i + 1, "op": op, "log_index": li, "expected": nxt_log}))
                break
            nxt_log += 1
        nlogs += len(logs)
        if len(logs) and logs[-1][0] + 1 > nxt_log:
            nxt_log = logs[-1][0] + 1
        if a[1] == "eth" and res in ("ok", "reverted"):
            nxt_tx += 1
    return out


PROPS["C19"] = {
    "modules": ["NibiruProofs.C19"],
    "runs": [{"model": "logidx", "n_quick": 250, "n_thorough": 4000, "nontrivial": r"logs=\d+/\d+,"}],
    "oracle": oracle_c19,
    "rule": "each case is one block on the real EVM keeper (transient counters reset as Commit does): Ethereum txs to a logger "
            "contract emitting 0–4 logs, succeeding / reverting / failing (gas below intrinsic), interleaved with ConvertCoinToEvm "
            "(coin-born FunToken: one ERC20 mint log) — succeeding or failing — and CreateFunToken for a fresh bank coin (ERC20 "
            "deployment logs), then EndBlock; observations: log index / tx index of every log in EventTxLog, BlockTxIndex and "
            "BlockLogSize after every message, EventEthereumTx indices, and whether EventBlockBloom equals the union of the blooms of "
            "all emitted logs; non-trivial = some operation emitted at least two logs",
    "assumptions": ["messages run on a branched context that is dropped on error (as baseapp does)",
                    "the model takes the updateBlockBloom argument of each call site from the regenerated facts (fact_C19_all_sites_pass_log_index)",
                    "ERC20-born conversions (convertCoinToEvmBornERC20) and Ethereum txs straight to the FunToken precompile are generated too (the number of logs they emit is read off the implementation)"],
}


# ------------------------------------------------------------------------------------------------ C02 / C17 message trees
def msgtree_paths(body):
    """yield (path, leaf) for every leaf of the tree syntax of the msgtree harness: path = list of enclosing router kinds"""
    out, stack, cur = [], [], ""
    def flush():
        nonlocal cur
        if cur:
            out.append((list(stack), cur))
        cur = ""
    i = 0
    while i < len(body):
        c = body[i]
        if c == "[":
            stack.append(cur.split(":")[0]); cur = ""
        elif c == "]":
            flush(); stack.pop()
        elif c in ";,":
            flush()
        else:
            cur += c
        i += 1
    flush()
    return out


def oracle_msgtree(run, ops, impl, pid):
    out = []
    vals = {}
    for i, (op, ob) in enumerate(zip(ops, impl)):
        a = op.split()
        if a[1] == "reset":
            vals = {}
            for it in plist(a[2][4:]):
                o, r = it.split(":"); vals[o] = int(r)
            continue
        if ob.startswith("panic"):
            out.append(V(pid + ":panic", {"line": i + 1, "op": op}))
            continue
        if a[1] != "tx" or not ob.startswith("ok"):
            continue
        ext, sig, body = a[2], a[3], a[5]
        f = ob.split()
        eth = int(sec(f, "eth"))
        leaves = msgtree_paths(body)
        if pid == "C02":
            if ext == "0" and eth != 0:
                where = sorted({">".join(p) or "top" for p, l in leaves if l == "eth"})
                out.append(V("C02:ethereum-tx-executed-outside-evm-ante:via=%s" % "+".join(where), {"line": i + 1, "op": op, "obs": ob}))
            if ext == "1" and (any(l != "eth" or p for p, l in leaves) or eth != len(leaves)):
                out.append(V("C02:evm-extension-tx-accepted-with-foreign-messages", {"line": i + 1, "op": op, "obs": ob}))
            if ext == "0" and sig == "0":
                out.append(V("C02:cosmos-tx-accepted-without-a-valid-cosmos-signature", {"line": i + 1, "op": op, "obs": ob}))
        else:
            new = {}
            for it in plist(sec(f, "VAL")):
                o, r = it.split(":"); new[o] = int(r)
            for o, r in new.items():
                if r > C17_CAP and vals.get(o, 0) <= C17_CAP:
                    paths = sorted({">".join(p) or "top" for p, l in leaves
                                    if l.startswith("comm:%s:" % o) and int(l.split(":")[2]) > C17_CAP})
                    via = "wasm" if any("wasm" in x for x in paths) else "+".join(paths)
                    out.append(V("C17:commission-above-cap:via=%s" % via, {"line": i + 1, "op": op, "obs": ob, "operator": o, "rate": r}))
            vals = new
    return out


def oracle_c02(run, ops, impl):
    if run["model"] != "msgtree":
        return []
    return oracle_msgtree(run, ops, impl, "C02")


def cross_oracle_evmtx(prop):
    """evmtx runs: the Lean model EvmTx is the admission pipeline the theorems speak about (nonce matched and consumed once,
    gasLimit x price taken from the signer of that very message up front, refund of the unused part). Where the implementation's
    observation differs from the model's on an included tx, an account that signed a message of that tx and ends up RICHER than the
    model says, or with a different sequence, is a concrete failing input (it paid less than the pipeline charges / its nonce was
    not consumed exactly once)."""
    def f(all_runs):
        out = []
        for (run, seed, ops, impl, model) in all_runs:
            if run["model"] != "evmtx":
                continue
            n = min(len(ops), len(impl), len(model))
            ntok = run.get("cmp_tokens")
            for i in range(n):
                if (impl[i].split()[:ntok] == model[i].split()[:ntok]) if ntok else (impl[i] == model[i]):
                    continue
                a = ops[i].split()
                if len(a) < 3 or a[1] != "tx":
                    break
                try:
                    ri, si = parse_evmtx_obs(impl[i])
                    rm, sm = parse_evmtx_obs(model[i])
                    ms = parse_evm_msgs(a[2])
                except Exception:
                    break
                signers = {m["sender"] for m in ms}
                for acc in sorted(signers):
                    if acc not in si["acct"] or acc not in sm["acct"]:
                        continue
                    (qi, bi), (qm, bm) = si["acct"][acc], sm["acct"][acc]
                    if ri != "rejected" and bi > bm:
                        w = V("%s:signer-paid-less-than-the-admission-pipeline-charges" % prop,
                              {"line": i + 1, "op": ops[i][:400], "signer": acc, "balance": bi, "balance_by_pipeline": bm, "result": ri})
                        w["seed"], w["model"] = seed, "evmtx"
                        out.append(w)
                    if qi != qm:
                        w = V("%s:signer-sequence-differs-from-the-admission-pipeline" % prop,
                              {"line": i + 1, "op": ops[i][:400], "signer": acc, "sequence": qi, "sequence_by_pipeline": qm, "result": ri})
                        w["seed"], w["model"] = seed, "evmtx"
                        out.append(w)
                break   # only the first divergence of a run is meaningful (the model state is off afterwards)
        return out
    return f


def oracle_c17(run, ops, impl):
    if run["model"] == "gentx":
        # a gentx is delivered through DeliverTx (and the ante handler) at InitChain: an accepted one must respect the cap too
        out = []
        cap = 250_000_000_000_000_000
        for i, (op, ob) in enumerate(zip(ops, impl)):
            kv = dict(x.split("=", 1) for x in (op + " " + ob).split() if "=" in x)
            if ob.startswith("panic"):
                out.append(V("C17:panic-in-gentx-delivery", {"line": i + 1, "op": op}))
            elif ob.startswith("accepted") and int(kv.get("maxrate", "0")) > cap:
                out.append(V("C17:commission-above-cap:via=gentx", {"line": i + 1, "op": op, "obs": ob}))
            elif ob.startswith("rejected") and int(kv.get("rate", "0")) <= cap:
                out.append(V("C17:gentx-within-the-cap-refused", {"line": i + 1, "op": op}))
        return out
    return oracle_msgtree(run, ops, impl, "C17")


MSGTREE_RULE = ("each case is one block of DeliverTx calls on the real app (full ante + message routing): message trees of depth <= 4 built "
                "from MsgEthereumTx (signed with an Ethereum key), MsgCreateValidator/MsgEditValidator with commission rates on both sides "
                "of the cap, bank sends, authz MsgGrant (generic, for every kind incl. MsgEthereumTx and MsgExec) and MsgExec, gov "
                "MsgSubmitProposal, and MsgExecuteContract on a reflect contract that re-dispatches embedded messages (Stargate); half of "
                "the trees come from aimed templates (self-exec, nested exec, grant-then-exec, wasm-wrapped, proposal-wrapped, the same body "
                "with the EVM extension option, Cosmos tx signed by an eth_secp256k1 key); observations: accepted/failed, number of "
                "EventEthereumTx, commission of the tracked validators; the model is outcome-conditioned: it must predict every failure its "
                "rules imply and the exact effects of every accepted tx")

PROPS["C02"] = {
    "modules": ["NibiruProofs.C02"],
    "runs": [{"model": "msgtree", "n_quick": 120, "n_thorough": 1500, "nontrivial": r"eth"},
             {"model": "evmtx", "n_quick": 200, "n_thorough": 3000, "nontrivial": r"^ok A=", "cmp_tokens": 4}],
    "oracle": oracle_c02,
    "cross_oracle": cross_oracle_evmtx("C02"),
    "rule": MSGTREE_RULE + "; non-trivial = the tx contains a MsgEthereumTx somewhere | evmtx: what the EVM admission pipeline does for "
            "each message of an accepted Ethereum tx (signature, nonce matched and consumed once, gasLimit x price from that message's "
            "signer up front, refund) — the EvmTx model against full DeliverTx, incl. txs carrying several messages of different signers",
    "assumptions": ["an address recovered from an Ethereum signature cannot sign a Cosmos tx (eth_secp256k1 keys are refused by the SDK "
                    "signature decorators: exercised by the generator), is not a contract and not the gov account (hypothesis WF/CosmosSigned)",
                    "gov proposal content executes only after a vote, with the gov account as signer; the EthereumTx handler recovers "
                    "its sender from the signature, so it could never be the gov account",
                    "what runs behind the EVM ante (fees, nonce, signature) is decided by C05/C07"],
}

PROPS["C17"] = {
    "modules": ["NibiruProofs.C17"],
    "runs": [{"model": "msgtree", "n_quick": 120, "n_thorough": 1500, "nontrivial": r"comm:\d+:(25(?!0{16})\d{16}|2[6-9]\d{16}|[3-9]\d{17}|1\d{18})"},
             {"model": "gentx", "n_quick": 8, "n_thorough": 60, "thorough_seeds": 4, "no_model": True, "per_line": True, "nontrivial": r"^(accepted|rejected)"}],
    "oracle": oracle_c17,
    "rule": MSGTREE_RULE + "; non-trivial = the tx contains a staking message with a commission above 25%",
    "assumptions": ["the cap theorem covers trees without wasm-dispatched staking messages; the wasm path is a proved counterexample "
                    "(C17_counterexample_wasm_dispatch) and a known finding",
                    "MaxRate / MaxChangeRate limits of x/staking are outside the model (outcome-conditioned: the model takes the real outcome "
                    "when no modelled rule forces a failure)"],
}


# ------------------------------------------------------------------------------------------------ C05 / C07 evm transactions
E12 = 10 ** 12


def parse_evmtx_obs(ob):
    a = ob.split()
    st = {"acct": {}, "C": 0, "S": 0}
    for it in plist(sec(a, "A")):
        k, q, b = it.split(":")
        st["acct"][k] = (int(q), int(b))
    st["C"] = int(sec(a, "C"))
    st["S"] = int(sec(a, "S"))
    return a[0], st


def parse_evm_msgs(s):
    out = []
    for it in plist(s):
        f = it.split("/")
        out.append(dict(sender=f[0], nonce=int(f[1]), L=int(f[2]), tip=None if f[3] == "-" else int(f[3]), price=int(f[4]), value=int(f[5]),
                        sig=f[6] == "1", kind=f[7], U=int(f[8]), to=f[9]))
    return out


def eff_price(m):
    if m["tip"] is None:
        return max(E12, m["price"])
    return max(E12, min(m["tip"] + E12, m["price"]))


def oracle_c07(run, ops, impl):
    out = []
    st = None
    executed = set()
    for i, (op, ob) in enumerate(zip(ops, impl)):
        a = op.split()
        if ob.startswith("panic"):
            out.append(V("C07:panic", {"line": i + 1}))
            continue
        res, new = parse_evmtx_obs(ob)
        if a[1] == "reset":
            st = new
            continue
        ms = parse_evm_msgs(a[2])
        cnt = {}
        for m in ms:
            cnt[m["sender"]] = cnt.get(m["sender"], 0) + 1
        if res == "rejected":
            if new["acct"] != st["acct"]:
                out.append(V("C07:rejected-tx-changed-state", {"line": i + 1, "op": op[:300]}))
        else:
            # admitted: nonces must be the consecutive sequence numbers, signatures valid
            exp = {k: v[0] for k, v in st["acct"].items()}
            for m in ms:
                if not m["sig"]:
                    out.append(V("C07:tx-with-bad-signature-or-chain-id-admitted", {"line": i + 1, "op": op[:300]}))
                if m["nonce"] != exp.get(m["sender"], 0):
                    out.append(V("C07:admitted-with-nonce-not-equal-to-sequence", {"line": i + 1, "sender": m["sender"], "nonce": m["nonce"], "sequence": exp.get(m["sender"], 0)}))
                exp[m["sender"]] = exp.get(m["sender"], 0) + 1
            for k, v in new["acct"].items():
                want = st["acct"].get(k, (0, 0))[0] + cnt.get(k, 0)
                if v[0] != want:
                    out.append(V("C07:sequence-not-advanced-by-one-per-message", {"line": i + 1, "account": k, "before": st["acct"].get(k, (0, 0))[0], "after": v[0],
                                                                                     "messages": cnt.get(k, 0), "result": res}))
            if res == "ok":
                # a contract creation that did not fail put its code at the address derived from the signer and the tx nonce
                for d in plist(sec(ob.split(), "D") or "-"):
                    who, ex, failed = d.split(":")
                    if ex == "0" and failed == "0":
                        out.append(V("C07:contract-not-at-the-address-derived-from-signer-and-nonce", {"line": i + 1, "creation": who, "op": op[:300]}))
                for m in ms:
                    key = (m["sender"], m["nonce"])
                    if key in executed:
                        out.append(V("C07:signed-tx-took-effect-twice", {"line": i + 1, "sender": m["sender"], "nonce": m["nonce"]}))
                    executed.add(key)
        for k, v in new["acct"].items():
            if v[0] < st["acct"].get(k, (0, 0))[0]:
                out.append(V("C07:sequence-decreased", {"line": i + 1, "account": k}))
        st = new
    return out


def oracle_c05_supply(run, ops, impl):
    """evmsupply: per EVM tx the total unibi supply (and the sum of all unibi balances) must not change (zero gas price, whole
    unibi, no self-destruct to self)."""
    out = []
    for i, (op, ob) in enumerate(zip(ops, impl)):
        kv = dict(x.split("=", 1) for x in (op + " " + ob).split() if "=" in x)
        res = ob.split()[0]
        feat = set(kv.get("feat", "-").split("+")) - {"-"}
        has_pc = bool(feat & {"pcmove", "pcfail", "pcquery"})
        # a frame is undone: statically (a callee that reverts / a failing precompile call / the top frame reverts) or as seen
        # on the receipt (the programs log a marker after every CALL/CREATE that reported failure)
        undone = res == "vmerr" or bool(feat & {"rev", "pcfail", "toprev"}) or int(kv.get("failedCalls", "0")) > 0
        if res == "panic":
            where = ("undone-precompile-frame" if has_pc and undone else "selfdestruct+precompile" if has_pc and "sd" in feat else
                     "precompile" if has_pc else "+".join(sorted(feat)) or "-")
            out.append(V("C05:panic-in-tx:%s:%s" % (kv.get("panicClass", "other"), where), {"line": i + 1, "op": op}))
            continue
        sd, bd = int(kv.get("supplyDelta", "0")), int(kv.get("balancesDelta", "0"))
        if sd == 0 and bd == 0:
            continue
        if sd < 0 and bd == sd and {"sd", "xfer"} <= feat and not (has_pc and undone):
            # value sent to a contract that has already self-destructed in this tx is destroyed with the account at the end of the
            # tx — go-ethereum's semantics (which C03 demands), the sibling of the self-destruct-to-self case the property excludes;
            # shrunk witness (thorough tier, seed 31005): B self-destructs, then A sends 3 unibi to B -> supply -3
            continue
        if has_pc and undone:
            sig = "C05:supply-changed:tx-with-undone-precompile-frame:%s" % ("increase" if sd > 0 else "decrease")
        else:
            sig = "C05:supply-changed:%s:%s" % ("+".join(sorted(feat)) or "plain", "increase" if sd > 0 else "decrease")
        out.append(V(sig, {"line": i + 1, "op": op, "obs": ob}))
    return out


def oracle_c05(run, ops, impl):
    if run["model"] == "evmsupply":
        return oracle_c05_supply(run, ops, impl)
    if run["model"] == "sdb":
        # what the StateDB hands to the bank at Commit: where the persisted unibi balances differ from the reference semantics'
        # (outside the listed findings around reverted precompile frames, which C04 / the evmsupply run report) NIBI was made or lost
        out = []
        for v in oracle_sdb(run, ops, impl, "C05"):
            sig = v.get("signature", "")
            if sig.startswith("C05:view-differs-after-precompile-without-revert"):
                # the StateDB shows another balance than the bank holds after a precompile's bank move, nothing having been reverted:
                # Commit writes the StateDB's figure back over the bank's (SetAccBalance mints / burns the difference)
                got, want = v["detail"].get("got", ""), v["detail"].get("want", "")
                if got.split(":")[1:2] != want.split(":")[1:2]:
                    v["signature"] = "C05:statedb-balance-out-of-step-with-the-bank-after-a-precompile-bank-move"
                    out.append(v)
                continue
            if not sig.startswith("C05:committed-state-differs-after-precompile-without-revert") and \
               not sig.startswith("C05:committed-state-differs-from-reference"):
                continue
            diffs = [d for d in v.get("detail", {}).get("differences", []) if d and d[0] == "account" and len(d) > 2 and
                     d[2]["persisted"].get("bal") != d[2]["reference"].get("bal")]
            if diffs:
                v["signature"] = "C05:committed-unibi-balance-differs-from-the-reference" + (":after-precompile" if "precompile" in sig else "")
                out.append(v)
        return out
    if run["model"] != "evmtx":
        return []
    out = []
    st = None
    for i, (op, ob) in enumerate(zip(ops, impl)):
        a = op.split()
        if ob.startswith("panic"):
            out.append(V("C05:panic", {"line": i + 1}))
            continue
        res, new = parse_evmtx_obs(ob)
        if a[1] == "reset":
            st = new
            continue
        ms = parse_evm_msgs(a[2])
        tot0 = sum(v[1] for v in st["acct"].values()) + st["C"]
        tot1 = sum(v[1] for v in new["acct"].values()) + new["C"]
        if new["S"] > st["S"]:
            out.append(V("C05:unibi-supply-increased", {"line": i + 1, "before": st["S"], "after": new["S"], "op": op[:300]}))
        # value sent along with a contract creation goes to the new contract's account, which is not among the tracked ones
        leaks = {0}
        if res == "ok":
            for m in ms:
                if m["kind"] == "create" and m["value"] >= E12:
                    leaks |= {x + m["value"] // E12 for x in leaks}
        if tot0 - tot1 not in leaks:
            out.append(V("C05:unibi-not-conserved-among-accounts-and-collector", {"line": i + 1, "before": tot0, "after": tot1, "op": op[:300]}))
        if len(ms) == 1 and res != "rejected":
            m = ms[0]
            p = eff_price(m)
            paid = st["acct"][m["sender"]][1] - new["acct"][m["sender"]][1]
            gain = new["C"] - st["C"]
            moved = 0
            if res == "ok" and m["kind"] in ("transfer", "create") and m["to"] != "-" and m["to"] != m["sender"]:
                # the value moves only if the sender can still afford it after the up-front gas payment (otherwise the run ends
                # with "insufficient balance for transfer": all gas is charged, nothing moves — thorough tier, seed 7007)
                upfront = (m["L"] * p) // E12
                if (st["acct"][m["sender"]][1] - upfront) * E12 >= m["value"]:
                    moved = m["value"] // E12
            fee_paid = paid - moved
            if res == "execfailed":
                F = (m["L"] * p) // E12
                others = all(new["acct"][k][1] == st["acct"][k][1] for k in new["acct"] if k != m["sender"])
                if fee_paid != F or gain != F or not others:
                    out.append(V("C05:failed-tx-changed-more-than-fee-and-nonce", {"line": i + 1, "op": op[:300], "paid": fee_paid, "F": F, "collector_gain": gain}))
            else:
                if gain != fee_paid:
                    out.append(V("C05:collector-gain-differs-from-signer-payment", {"line": i + 1, "op": op[:300], "paid": fee_paid, "collector_gain": gain}))
                if not (m["U"] * p - E12 < fee_paid * E12 < m["U"] * p + E12) or fee_paid * E12 > m["L"] * p:
                    out.append(V("C05:net-gas-payment-out-of-bounds", {"line": i + 1, "op": op[:300], "paid": fee_paid, "gasUsed": m["U"], "price": p}))
                if m["kind"] == "revert":
                    others = all(new["acct"][k][1] == st["acct"][k][1] for k in new["acct"] if k != m["sender"])
                    if not others:
                        out.append(V("C05:reverted-tx-moved-balances", {"line": i + 1, "op": op[:300]}))
        st = new
    return out


EVMTX_RULE = ("each case is one block on a real NibiruApp driven through BeginBlock / DeliverTx / EndBlock / Commit: 1–4 transactions of "
              "1–3 signed Ethereum messages (legacy, access-list, dynamic-fee; prices below / at / above the base fee and not multiples of "
              "10^12 wei; value transfers of whole and fractional unibi, sub-unibi values, calls to a reverting contract and a logger, "
              "contract creations, gas limits below the intrinsic gas, over-spending) with correct, stale and gapped nonces, exact "
              "resubmission of earlier signed txs, signatures for another chain id and corrupted signatures; observations after every "
              "tx: result class, sequence and unibi balance of every involved account, fee collector balance, total unibi supply; "
              "non-trivial = at least one tx executed")

PROPS["C07"] = {
    "modules": ["NibiruProofs.C07"],
    "cross_oracle": cross_oracle_evmtx("C07"),
    "runs": [{"model": "evmtx", "n_quick": 250, "n_thorough": 4000, "nontrivial": r"^ok A=", "cmp_tokens": 4}],
    "oracle": oracle_c07,
    "rule": EVMTX_RULE,
    "assumptions": ["signature recovery (secp256k1/keccak, London signer) is a parameter: a message carries whether its signature recovers "
                    "under this chain's id", "an Ethereum-derived account cannot sign Cosmos txs (different key type), so the shared-sequence "
                    "clause is exercised only through the EVM path", "gas used is taken from the real execution (EVM interpreter is a parameter)"],
}
PROPS["C05"] = {
    "modules": ["NibiruProofs.C05"],
    "cross_oracle": cross_oracle_evmtx("C05"),
    "runs": [{"model": "evmtx", "n_quick": 250, "n_thorough": 4000, "nontrivial": r"^ok A=", "cmp_tokens": 4},
             {"model": "sdb", "n_quick": 300, "n_thorough": 4000, "nontrivial": r"^P:ACC="},
             {"model": "evmsupply", "n_quick": 120, "n_thorough": 1500, "no_model": True, "per_line": True, "nontrivial": r"^ok "}],
    "oracle": oracle_c05,
    "rule": EVMTX_RULE + " | sdb: the StateDB model (commit / flush / journal bookkeeping, which decides what reaches the bank) against "
            "the real StateDB, as in C04 | evmsupply (oracle only): generated multi-frame programs that move NIBI by EVM value "
            "transfers, CREATE endowments, SELFDESTRUCT and through the FunToken precompile (bank moves of the contract's own funds, "
            "failing precompile calls, frames that revert around them) through the real msg server at a zero gas price; per tx the "
            "total unibi supply and the sum of all unibi balances must not change",
    "assumptions": ["gas used and the outcome kind of each message come from the real execution (EVM interpreter is a parameter)",
                    "the conservation theorems are over the EvmTx model, in which the EVM run is a parameter that moves value between "
                    "accounts; for transactions that undo a frame containing a Nibiru precompile call the real StateDB does NOT "
                    "conserve (known finding C05-undone-precompile-frame, root cause C04-lost-write / C04-stale-balance)"],
}


# ------------------------------------------------------------------------------------------------ C04 / C03: reference semantics
import copy as _copy


class RefWorld:
    """Copy-on-snapshot reference: a journaled world (accounts, storage, refund, logs, access list) together with a journaled
    multistore (bank unibi = the account balance, and one foreign module value per account)."""

    def __init__(self, accts, slots):
        self.acc = {}      # addr -> dict(bal(wei), nonce, code, suicided)
        self.st = {}       # (addr,key) -> val
        self.other = {}
        self.orig = {}     # committed storage at tx start
        for a, x in accts.items():
            if x["exists"]:
                self.acc[a] = dict(bal=x["bal"] * E12, nonce=x["nonce"], code=x["code"], suicided=False)
            if x["other"]:
                self.other[a] = x["other"]
        for (a, k), v in slots.items():
            self.st[(a, k)] = v
            self.orig[(a, k)] = v
        self.refund, self.logs, self.al, self.als = 0, 0, set(), set()
        self.snaps = []
        self.next = 0
        self.pc = 0

    def state(self):
        return _copy.deepcopy((self.acc, self.st, self.other, self.refund, self.logs, self.al, self.als))

    def restore(self, st):
        self.acc, self.st, self.other, self.refund, self.logs, self.al, self.als = _copy.deepcopy(st)

    def touch(self, a):
        if a not in self.acc:
            self.acc[a] = dict(bal=0, nonce=0, code=0, suicided=False)
        return self.acc[a]


def parse_sdb_store(args):
    accts, slots = {}, {}
    for it in plist(sec(args, "ACC")):
        f = it.split(":")
        a = int(f[0])
        if f[1] == "-":
            accts[a] = dict(exists=False, nonce=0, code=0, bal=0, other=int(f[2]))
        else:
            accts[a] = dict(exists=True, nonce=int(f[1]), code=int(f[2]), bal=int(f[3]), other=int(f[4]))
    for it in plist(sec(args, "ST")):
        ak, v = it.split("=")
        a, k = ak.split(".")
        slots[(int(a), int(k))] = int(v)
    return accts, slots


def oracle_sdb(run, ops, impl, prop):
    """Evaluates C04 (frame atomicity incl. precompile side effects; balance views agree) on the implementation's trace of
    StateDB API calls, against the copy-on-snapshot reference. Sequences that use CreateAccount/Suicide are only compared on
    what the reference defines unambiguously."""
    out = []
    W = None
    skip = False
    uses_pre = False
    for i, (op, ob) in enumerate(zip(ops, impl)):
        a = op.split()
        kind = a[1]
        if kind == "reset":
            accts, slots = parse_sdb_store(a[2:])
            W = RefWorld(accts, slots)
            skip = False
            uses_pre = False
            reverted_pre = False     # a call frame containing a precompile call has been reverted
            snap_pos = {}
            pre_pos = []
            seq_start = i
            continue
        if skip or W is None:
            continue
        if ob.startswith("panic") and kind not in ("subRefund", "revert"):
            out.append(V("%s:panic-in-%s" % (prop, kind), {"line": i + 1, "op": op}))
            skip = True
            continue
        n = lambda x: int(x)
        if kind == "read":
            x = W.acc.get(n(a[2]))
            want = "000:0:0:0" if x is None else None
            if x is None:
                want = "010:0:0:0"
            else:
                empty = x["nonce"] == 0 and x["bal"] == 0 and x["code"] == 0
                want = "1%s%s:%d:%d:%d" % ("1" if empty else "0", "1" if x["suicided"] else "0", x["bal"], x["nonce"], x["code"])
            if ob != want:
                sig = "view-differs-from-reference"
                if reverted_pre:
                    sig = "view-differs-after-reverted-precompile-frame"
                elif uses_pre:
                    sig = "view-differs-after-precompile-without-revert"
                out.append(V("%s:%s" % (prop, sig), {"line": i + 1, "op": op, "got": ob, "want": want, "sequence_start": seq_start + 1}))
                skip = True
        elif kind == "getState":
            ad, k = n(a[2]), n(a[3])
            cur = W.st.get((ad, k), 0) if ad in W.acc else 0
            com = W.orig.get((ad, k), 0) if ad in W.acc else 0
            got_cur = ob.split("/")[0]
            if got_cur != str(cur):
                sig = "storage-view-differs-after-reverted-precompile-frame" if reverted_pre else (
                    "storage-view-differs-after-precompile-without-revert" if uses_pre else "storage-view-differs-from-reference")
                out.append(V("%s:%s" % (prop, sig), {"line": i + 1, "op": op, "got": ob, "want": "%d/%d" % (cur, com)}))
                skip = True
        elif kind == "misc":
            pass
        elif kind == "addBalance":
            x = W.touch(n(a[2]))
            x["bal"] += int(a[3])
        elif kind == "setNonce":
            W.touch(n(a[2]))["nonce"] = n(a[3])
        elif kind == "setCode":
            W.touch(n(a[2]))["code"] = n(a[3])
        elif kind == "setState":
            W.touch(n(a[2]))
            W.st[(n(a[2]), n(a[3]))] = n(a[4])
        elif kind in ("createAccount", "suicide"):
            skip = True      # outside what this reference defines; covered by model-vs-implementation and the geth differential
        elif kind == "addLog":
            W.logs += 1
        elif kind == "addRefund":
            W.refund += n(a[2])
        elif kind == "subRefund":
            if ob != "panic":
                W.refund -= n(a[2])
        elif kind == "addAddr":
            W.al.add(n(a[2]))
        elif kind == "addSlot":
            W.al.add(n(a[2]))
            W.als.add((n(a[2]), n(a[3])))
        elif kind == "snapshot":
            snap_pos[W.next] = i
            W.snaps.append((W.next, W.state()))
            W.next += 1
        elif kind == "revert":
            rid = n(a[2])
            idx = [j for j, (x, _) in enumerate(W.snaps) if x == rid]
            if not idx:
                if ob != "panic":
                    out.append(V("%s:revert-of-invalid-id-accepted" % prop, {"line": i + 1}))
                skip = True
                continue
            if any(p > snap_pos.get(rid, i) for p in pre_pos):
                reverted_pre = True
            W.restore(W.snaps[idx[0]][1])
            W.snaps = W.snaps[:idx[0]]
        elif kind == "precompile":
            uses_pre = True
            pre_pos.append(i)
            W.pc += 1
            res = ob.split()[0]
            if W.pc > 10:
                if res != "limit":
                    out.append(V("%s:precompile-call-limit-not-enforced" % prop, {"line": i + 1}))
                continue
            if a[2] == "other":
                W.touch(n(a[3]))
                W.other[n(a[3])] = W.other.get(n(a[3]), 0) + int(a[4])
            elif a[2] == "move":
                src, dst, amt = n(a[3]), n(a[4]), int(a[5])
                have = W.acc.get(src, {"bal": 0})["bal"] // E12
                if have < amt:
                    if res != "insufficient":
                        # the mirror image of the case below: after a reverted frame that contained a bank-moving precompile call
                        # the StateDB still shows the moved funds (C04-stale-balance) and the next flush writes them into the bank,
                        # so a move the reference world cannot afford is accepted (thorough tier, seed 23)
                        sig = "bank-view-stale-after-reverted-precompile-frame" if reverted_pre else "bank-move-without-funds-accepted"
                        out.append(V("%s:%s" % (prop, sig), {"line": i + 1, "op": op}))
                        skip = True
                else:
                    if res != "ok":
                        # after a reverted frame that contained a precompile call the bank side no longer holds what the EVM view
                        # shows (the pre-frame write was flushed, un-flushed by the revert, and is never flushed again)
                        sig = "bank-view-stale-after-reverted-precompile-frame" if reverted_pre else "bank-move-refused"
                        out.append(V("%s:%s" % (prop, sig), {"line": i + 1, "op": op, "obs": ob[:200]}))
                        skip = True
                        continue
                    # the bank holds whole unibi: the accounts the bank touched lose their sub-unibi remainder (by design)
                    if src != dst:
                        W.touch(src)["bal"] = (W.touch(src)["bal"] // E12 - amt) * E12
                        W.touch(dst)["bal"] = (W.touch(dst)["bal"] // E12 + amt) * E12
                    else:
                        W.touch(src)["bal"] = (W.touch(src)["bal"] // E12) * E12
        elif kind == "commit":
            accts, slots = parse_sdb_store(ob[2:].split())
            bad = []
            for ad in range(4):
                x = W.acc.get(ad)
                g = accts.get(ad)
                if x is None:
                    if g["exists"] or g["other"] != W.other.get(ad, 0):
                        bad.append(("account", ad))
                    continue
                if not g["exists"] or (g["nonce"], g["code"], g["bal"]) != (x["nonce"], x["code"], x["bal"] // E12) or g["other"] != W.other.get(ad, 0):
                    bad.append(("account", ad, {"persisted": g, "reference": dict(nonce=x["nonce"], code=x["code"], bal=x["bal"] // E12, other=W.other.get(ad, 0))}))
                for k in range(3):
                    if slots.get((ad, k), 0) != W.st.get((ad, k), 0):
                        bad.append(("slot", ad, k, slots.get((ad, k), 0), W.st.get((ad, k), 0)))
            if bad:
                what = "committed-state-differs-after-reverted-precompile-frame" if reverted_pre else (
                    "committed-state-differs-after-precompile-without-revert" if uses_pre else "committed-state-differs-from-reference")
                out.append(V("%s:%s" % (prop, what), {"line": i + 1, "sequence_start": seq_start + 1, "differences": bad[:4],
                                                        "ops": [o for o in ops[seq_start:i + 1] if o.split()[1] not in ("read", "getState", "misc")][:40]}))
            skip = True
    return out


def oracle_c04(run, ops, impl):
    return oracle_sdb(run, ops, impl, "C04")


PROPS["C04"] = {
    "modules": ["NibiruProofs.C04", "NibiruProofs.SDBNested", "NibiruProofs.SDBObs", "NibiruProofs.SDBWF", "NibiruProofs.SDBTx", "NibiruProofs.SDBFlush"],
    "fact_obligations": ["fact_C04_onRunStart_sequence"],
    "runs": [{"model": "sdb", "n_quick": 400, "n_thorough": 8000, "nontrivial": r"^P:ACC="}],
    "oracle": oracle_c04,
    "rule": "corpus first (corpus/C04/*.ops: minimal histories of the known findings and an atomic control case), then generated "
            "histories of vm.StateDB calls on the real StateDB and keeper: balance/nonce/code/storage writes, CreateAccount, logs, "
            "refunds, access list, nested Snapshot/RevertToSnapshot (valid and invalid ids), explicit reads (which also cache state "
            "objects, as in the real code), the OnRunStart sequence of a precompile call followed by a bank move of unibi between "
            "accounts / a foreign-module write / nothing, up to and beyond the per-tx precompile limit, and Commit; SELFDESTRUCT is "
            "generated only in histories without precompile calls (their combination panics in the real code and is exercised by the "
            "corpus instead); observations: read results, cache-context store after every precompile call, persisted accounts / "
            "storage / foreign values after Commit; non-trivial = the history committed",
    "assumptions": ["precompile bodies are abstracted to their multistore effect (bank unibi move, foreign-module write)",
                    "sub-unibi remainders of accounts touched by a bank move are dropped by design (bank holds whole unibi)",
                    "the full atomicity theorem is NOT proved: the property is false on the unchanged tree (known findings C04-lost-write, "
                    "C04-stale-balance); proved: the two counterexamples, multistore restoration by the PrecompileCalled entry, "
                    "balance-view agreement after SyncStateDBWithAccount"],
}


# ------------------------------------------------------------------------------------------------ C08 precompiles
C08_STATE_CHANGING = {"sendToBank", "sendToEvm", "bankMsgSend", "execute", "instantiate", "executeMulti"}


def c08_panic_category(kv, msg):
    m = msg or ""
    if "slice_bounds" in m or "slice bounds" in m:
        return "short-input"
    if "invalid_denom" in m:
        return "bankMsgSend-invalid-denom"
    if "invalid_StringKey" in m:
        return "sendToEvm-denom-string-key"
    if kv.get("pc") == "oracle" and ("Read" in m or "out_of_gas" in m or "out of gas" in m):
        return "oracle-out-of-gas"
    if not m:
        # L1 lines carry no message: classify from the call itself
        ln, cap = int(kv.get("len", "0")), int(kv.get("cap", "0"))
        if ln < 4:
            return "short-input"
        if kv.get("selLen") == "bankMsgSend":
            return "bankMsgSend-invalid-denom"
        if kv.get("selLen") == "sendToEvm":
            return "sendToEvm-denom-string-key"
        if kv.get("pc") == "oracle":
            return "oracle-out-of-gas"
    return "other"


def oracle_c08(run, ops, impl):
    out = []
    for i, (op, ob) in enumerate(zip(ops, impl)):
        a = op.split()
        kv = dict(x.split("=", 1) for x in a[2:] if "=" in x)
        if a[1] == "run":
            if ob == "panic":
                out.append(V("C08:panic:%s" % c08_panic_category(kv, ""), {"line": i + 1, "op": op}))
            elif ob == "gas-left-exceeds-supplied":
                out.append(V("C08:gas-left-exceeds-supplied", {"line": i + 1, "op": op}))
            elif ob == "run" and kv.get("ro") == "1" and kv.get("unpack") == "1" and kv.get("selLen") in C08_STATE_CHANGING:
                out.append(V("C08:state-changing-method-admitted-under-read-only-flag:%s" % kv.get("selLen"), {"line": i + 1, "op": op}))
            elif ob == "run" and kv.get("val") == "1" and kv.get("unpack") == "1" and kv.get("pc") != "oracle" \
                    and kv.get("selLen") not in C08_STATE_CHANGING and kv.get("selLen") != "-":
                out.append(V("C08:query-admitted-with-value:%s" % kv.get("selLen"), {"line": i + 1, "op": op}))
            continue
        if a[1] != "tx":
            continue
        f = ob.split()
        res = f[0]
        okv = dict(x.split("=", 1) for x in f[1:] if "=" in x)
        shape, sel = kv.get("shape"), kv.get("sel")
        changed = okv.get("changed", "-")
        if res == "panic":
            out.append(V("C08:panic:%s" % c08_panic_category(kv, okv.get("msg", "")), {"line": i + 1, "op": op, "obs": ob}))
            continue
        if res in ("badret", "innerfail") or (res == "vmerr" and shape != "top") or res == "txerr":
            # the proxy never reverts by construction; the only legitimate failure is the tx running out of gas
            if not (res == "innerfail" or res == "vmerr"):
                out.append(V("C08:unexpected-outcome:%s" % res, {"line": i + 1, "op": op, "obs": ob}))
            continue
        sub = okv.get("sub")
        if sub == "0" and changed != "-":
            out.append(V("C08:state-change-left-behind-by-failed-call", {"line": i + 1, "op": op, "obs": ob}))
        static = shape in ("static", "static>call", "call>static")
        if static and changed != "-":
            where = "nested-plain-call-under-static-frame" if shape == "static>call" else "direct-staticcall"
            out.append(V("C08:state-change-in-static-context:%s" % where, {"line": i + 1, "op": op, "obs": ob}))
        if (not static) and sel not in C08_STATE_CHANGING and sel != "-" and kv.get("val") == "0" and changed != "-":
            out.append(V("C08:query-method-changed-state:%s" % sel, {"line": i + 1, "op": op, "obs": ob}))
        fwd = int(kv.get("fwd", "0"))
        used = int(okv.get("used", "0"))
        # the same call with ALL gas forwarded succeeded and cost `need`: a run that was forwarded clearly less cannot succeed
        nd = okv.get("need", "-")
        if sub == "1" and fwd > 0 and nd != "-":
            ref_ok, ref_used = nd.split(":")
            # (`used` is measured around the CALL: it includes the caller-side charges — 2600 cold access, and with value 9000 + 25000
            # for an empty target — on top of what the callee burns out of the forwarded gas)
            slack = 5000 if kv.get("val") == "0" else 40000
            if ref_ok == "1" and fwd + slack < int(ref_used):
                out.append(V("C08:call-succeeded-on-less-gas-than-it-costs", {"line": i + 1, "op": op, "obs": ob, "forwarded": fwd, "cost_with_all_gas": int(ref_used)}))
        if shape not in ("top",) and fwd > 0 and used > fwd + 40000:
            out.append(V("C08:call-consumed-more-gas-than-forwarded", {"line": i + 1, "op": op, "obs": ob, "forwarded": fwd, "used": used}))
    return out


PROPS["C08"] = {
    "modules": ["NibiruProofs.C08"],
    "prefix": "C08_",
    "runs": [{"model": "precomp", "n_quick": 1500, "n_thorough": 20000, "per_line": True, "nontrivial": r"^(run|readonly|value|unpack)$"},
             {"model": "precomptx", "n_quick": 700, "n_thorough": 6000, "per_line": True, "no_model": True, "nontrivial": r"sub=1"}],
    "oracle": oracle_c08,
    "fact_obligations": ["fact_C08_isMutation_table", "fact_C08_state_changing_guarded", "fact_C08_unguarded_are_queries",
                         "fact_C08_queries_refuse_value", "fact_C08_methods_unique", "fact_C08_cfg_good", "fact_C08_all_runs_defer_oog"],
    "rule": "L1 (model vs implementation): evm.RunPrecompiledContract on the real FunToken/Wasm/Oracle precompile objects with generated "
            "calldata (empty, 1–3 bytes, unknown selectors, every ABI method with well-typed arguments — canonical valid ones and "
            "semantically invalid ones: bad denoms incl. NUL bytes, bad addresses, amounts up to 2^256-1, repeated fund denoms — then "
            "truncated / extended / head-word-corrupted encodings), input slices whose capacity exceeds their length (a window into EVM "
            "memory, optionally followed by a real selector), read-only flag, value, and gas amounts around RequiredGas; the stage that "
            "rejects the call (or a recovered panic) must equal the model's. L2 (oracle only): the same calldata in signed Ethereum txs "
            "through the real msg server, reaching the precompile at top level or through a generic proxy contract by CALL / STATICCALL / "
            "DELEGATECALL / CALLCODE, nested under a static frame, with forwarded gas from 0 to all, with and without value; "
            "observed: recovered panics, the sub-call's success flag, gas consumed vs forwarded, and which of 13 module stores changed "
            "(fee bookkeeping of the tx itself excluded); non-trivial = the call got past admission / the sub-call succeeded",
    "assumptions": ["geth's ABI decoder (Unpack) and the business logic behind the guards are parameters of the model "
                    "(unpackOk, stage `run`); that *they* never panic rests on the generated inputs only — hence partial",
                    "the fork passes readOnly=false for a plain CALL nested under a static frame (known finding C08-nested-static); "
                    "the model's read-only theorems are about the flag the precompile receives"],
    "trusted": ["C08: the proxy contract (harness/internal/easm) and the store digests used as the state-change detector"],
}


# ------------------------------------------------------------------------------------------------ C06 funtoken backing
def parse_ft_obs(ob):
    f = ob.split()
    res = f[0]
    kv = dict(x.split("=", 1) for x in f[1:] if "=" in x)
    maps = [tuple(x.split(":")) for x in plist(kv.get("M", "-"))]
    bank, tok = {}, {}
    for x in plist(kv.get("B", "-")):
        d, a, v = x.rsplit(":", 2)
        bank[(d, a)] = int(v)
    for x in plist(kv.get("T", "-")):
        t, a, v = x.split(":")
        tok[(t, a)] = int(v)
    return res, maps, bank, tok


def oracle_c06(run, ops, impl):
    out = []
    for i, (op, ob) in enumerate(zip(ops, impl)):
        res, maps, bank, tok = parse_ft_obs(ob)
        if res == "panic":
            out.append(V("C06:panic", {"line": i + 1, "op": op}))
            continue
        if res == "inner-frame-did-not-revert":
            out.append(V("C06:harness-anomaly:inner-frame-did-not-revert", {"line": i + 1, "op": op}))
        toks = [m[0] for m in maps]
        dens = [m[1] for m in maps]
        if len(set(toks)) != len(toks):
            out.append(V("C06:erc20-in-two-mappings", {"line": i + 1, "op": op, "mappings": maps}))
        if len(set(dens)) != len(dens):
            out.append(V("C06:denom-in-two-mappings", {"line": i + 1, "op": op, "mappings": maps}))
        kind = " ".join(op.split()[1:2] + [x for x in op.split()[2:6] if x in ("sendToBank", "sendToEvm", "bankMsgSend", "top", "proxy", "revert")])
        for (t, d, coin) in maps:
            if coin == "1":
                sup, esc = tok.get((t, "S"), 0), bank.get((d, "0"), 0)
                if sup > esc:
                    out.append(V("C06:coin-born-erc20-supply-exceeds-escrow:after=%s" % kind.replace(" ", "/"),
                                 {"line": i + 1, "op": op, "mapping": (t, d), "erc20_total_supply": sup, "escrowed_coin": esc}))
            else:
                sup, held = bank.get((d, "S"), 0), tok.get((t, "0"), 0)
                if sup > held:
                    out.append(V("C06:erc20-born-bank-supply-exceeds-module-erc20-balance:after=%s" % kind.replace(" ", "/"),
                                 {"line": i + 1, "op": op, "mapping": (t, d), "bank_supply": sup, "module_erc20_balance": held}))
        if res == "fail" and i > 0 and ops[i].split()[1] not in ("reset", "pc2"):   # (pc2: two tolerated calls — one may stand)
            # a failed operation (incl. one inside a reverted frame) leaves every observed quantity as it was
            if ob.split(" ", 1)[1:] != impl[i - 1].split(" ", 1)[1:]:
                out.append(V("C06:failed-or-reverted-operation-changed-state:%s" % kind.replace(" ", "/"), {"line": i + 1, "op": op, "before": impl[i - 1][:300], "after": ob[:300]}))
    return out


PROPS["C06"] = {
    "modules": ["NibiruProofs.C06"],
    "fact_obligations": ["fact_C06_bank_calls_go_through_the_wrapper"],
    "prefix": "C06_",
    "runs": [{"model": "funtoken", "n_quick": 60, "n_thorough": 1500, "thorough_seeds": 6, "nontrivial": r"^ok M=[^-]"}],
    "oracle": oracle_c06,
    "rule": "generated histories on the real keeper, msg server and FunToken precompile (real ERC20 bytecode: the module's minter contract, "
            "TestERC20, TestERC20TransferWithFee): CreateFunToken from a coin / from an ERC20 (repeated and crossed attempts), "
            "MsgConvertCoinToEvm, precompile sendToBank / sendToEvm / bankMsgSend called by an EOA directly, through a proxy contract, "
            "and inside a frame that reverts afterwards, direct ERC20 transfers (also to the module account and to the token contract) "
            "and burns, bank sends; amounts 0, 1, typical, above the balance; hex and bech32 recipients incl. the module account. "
            "After every operation: every mapping, ERC20 totalSupply and balances, bank supply and balances of all tracked accounts "
            "on both sides; the model must predict all of it; non-trivial = an operation succeeded with at least one mapping present",
    "assumptions": ["ERC20 contracts are abstract ledgers of the three kinds present in the repository (minter, standard, 10% "
                    "fee-on-transfer); the theorem's StandardToken hypothesis is that a transfer debits the sender by exactly the amount",
                    "every operation is atomic (failing message: branch dropped; reverted frame: journal) — atomicity itself is C04",
                    "the EVM module account never signs or calls (Op.WF)"],
}


# ------------------------------------------------------------------------------------------------ C03 EVM equivalence with go-ethereum
def oracle_c03(run, ops, impl):
    out = []
    if run["model"] != "evmdiff":
        for i, (op, ob) in enumerate(zip(ops, impl)):
            if ob == "panic" and not (op.split()[1] in ("revert", "subRefund")):
                out.append(V("C03:panic-in-statedb-call", {"line": i + 1, "op": op}))
        return out
    for i, (op, ob) in enumerate(zip(ops, impl)):
        try:
            n, rest = ob[2:].split(" G:", 1)
            g, post = rest.split(" POST:", 1)
        except ValueError:
            out.append(V("C03:unparsable-observation", {"line": i + 1, "obs": ob[:200]}))
            continue
        if n == "panic":
            out.append(V("C03:panic-in-nibiru-state-transition", {"line": i + 1, "op": op}))
            continue
        if n != g:
            nf, gf = n.split("/"), g.split("/")
            what = "result"
            if len(nf) == 4 and len(gf) == 4:
                names = ["vm-error", "return-data", "gas-used", "logs"]
                what = ",".join(names[j] for j in range(4) if nf[j] != gf[j])
            out.append(V("C03:message-result-differs-from-go-ethereum:%s" % what, {"line": i + 1, "op": op, "nibiru": n[:300], "go_ethereum": g[:300]}))
        if post != "=":
            kinds = sorted({d.split("(")[0] for d in post.split(",")})
            out.append(V("C03:post-state-differs-from-go-ethereum:%s" % "+".join(kinds), {"line": i + 1, "op": op, "differences": post[:400]}))
    return out


def cross_oracle_c03(all_runs):
    """gspecnib and gspecgeth replay the same generated vm.StateDB call sequence (same seed) on Nibiru's real StateDB and on
    go-ethereum's real one: a line on which the two implementations answer differently is a concrete failing input."""
    out = []
    by = {}
    for (run, seed, ops, impl, model) in all_runs:
        by[(run["model"], seed)] = (ops, impl)
    for (m, seed), (ops, impl) in sorted(by.items()):
        if m != "gspecnib" or ("gspecgeth", seed) not in by:
            continue
        gops, gimpl = by[("gspecgeth", seed)]
        n = min(len(ops), len(gops), len(impl), len(gimpl))
        for i in range(n):
            if ops[i] != gops[i]:
                break          # the sequences stopped being the same: nothing to compare beyond this point
            if impl[i] != gimpl[i]:
                start = max((j for j in range(i + 1) if ops[j].split()[1:2] == ["reset"]), default=0)
                w = V("C03:statedb-call-differs-from-go-ethereum:%s" % (ops[i].split() + ["?", "?"])[1],
                      {"line": i + 1, "op": ops[i], "nibiru": impl[i][:300], "go_ethereum": gimpl[i][:300],
                       "calls_since_reset": ops[start:i + 1][-40:]})
                w["seed"], w["model"] = seed, "gspecnib"
                out.append(w)
                break
    return out


PROPS["C03"] = {
    "cross_oracle": cross_oracle_c03,
    "modules": ["NibiruProofs.C03", "NibiruProofs.SDBFrames", "NibiruProofs.SDBNested", "NibiruProofs.SDBObs", "NibiruProofs.SDBTx", "NibiruProofs.SDBKeep"],
    "prefix": "C03_",
    "runs": [{"model": "gspecnib", "n_quick": 150, "n_thorough": 3000, "nontrivial": r"^P:"},
             {"model": "gspecgeth", "n_quick": 150, "n_thorough": 3000, "nontrivial": r"^P:"},
             {"model": "evmdiff", "n_quick": 80, "n_thorough": 1500, "no_model": True, "per_line": True, "nontrivial": r"^N:-/"}],
    "oracle": oracle_c03,
    "rule": "interface level (two runs, identical generated call sequences): several transactions per history of vm.StateDB calls — "
            "reads, balance/nonce/code/storage writes, CreateAccount, Suicide, logs, AddRefund/SubRefund, access-list additions, nested "
            "Snapshot/RevertToSnapshot with valid and invalid ids, end-of-transaction commit — on Nibiru's real StateDB over the real "
            "keeper (gspecnib) and on upstream go-ethereum's real core/state.StateDB (gspecgeth); both must equal the reference "
            "semantics GethSpec line by line. The generator stays inside what the interpreter can do (storage writes only to accounts "
            "with code or a nonce, CreateAccount only where evm.create would not report a collision, SELFDESTRUCT only of non-empty "
            "accounts, whole-unibi amounts). EVM level (evmdiff, oracle only): generated multi-frame bytecode programs (SSTORE/SLOAD "
            "with refunds, LOGn, nested CALL/CALLCODE/DELEGATECALL/STATICCALL to self and to a sibling contract with limited gas and "
            "value, CREATE/CREATE2 of children that return/revert/self-destruct/are invalid, SELFDESTRUCT, transfers, frames ending in "
            "STOP/RETURN/REVERT/INVALID, tight tx gas, legacy and access-list txs) executed as multi-transaction histories through "
            "Nibiru's msg server and through go-ethereum's core.ApplyMessage on go-ethereum's state, same interpreter and block "
            "context; per tx VM error, return data, gas used after refunds, logs; after every tx nonce/code/balance/storage of "
            "every account either side could touch. non-trivial = a history committed / a tx executed without VM error",
    "assumptions": ["the interpreter (core/vm of the fork) is the same code on both sides and is trusted",
                    "absent and empty accounts are identified between transactions (go-ethereum deletes touched empty accounts, Nibiru "
                    "persists them); the interface-level generator avoids calls the interpreter cannot make (documented in DESIGN.md)",
                    "the full simulation NibiruModel.StateDB ~ GethSpec is NOT proved (partial): proved are the spec's snapshot theorem, the "
                    "per-entry journal inverses and the refund arithmetic; observational equality rests on the three-way correspondence",
                    "sender / coinbase balances are not compared at the EVM level (fee bookkeeping differs by construction: C05)"],
}


# ------------------------------------------------------------------------------------------------ C20 genesis round trip
def oracle_c20(run, ops, impl):
    out = []
    for i, (op, ob) in enumerate(zip(ops, impl)):
        if ob.startswith("panic"):
            out.append(V("C20:export-or-import-panics", {"line": i + 1, "op": op[:300], "obs": ob[:300]}))
            continue
        kv = dict(x.split("=", 1) for x in ob.split() if "=" in x)
        for m in plist(kv.get("sections", "-")):
            out.append(V("C20:second-export-differs:%s" % m, {"line": i + 1, "op": op[:400], "obs": ob}))
        for q in plist(kv.get("queries", "-")):
            out.append(V("C20:query-result-changed-by-round-trip:%s" % q, {"line": i + 1, "op": op[:400], "obs": ob}))
        for a in plist(kv.get("after", "-")):
            out.append(V("C20:behaviour-after-import-differs:%s" % a, {"line": i + 1, "op": op[:400], "obs": ob}))
    return out


PROPS["C20"] = {
    "modules": ["NibiruProofs.C20"],
    "prefix": "C20_",
    "runs": [{"model": "genesis", "n_quick": 10, "n_thorough": 150, "thorough_seeds": 6, "no_model": True, "per_line": True,
              "nontrivial": r"^sections="}],
    "oracle": oracle_c20,
    "fact_obligations": ["fact_C20_store_fields_classified", "fact_C20_rewards_id_expr"],
    "rule": "each case: a fresh real app; a generated history populates every custom module (generated multi-frame contracts with "
            "storage, some self-destructed, children with empty code, two instances of the same ERC20 bytecode with different "
            "balances, FunTokens from coins and from an ERC20 with conversions in both directions, token-factory denoms with mints and "
            "admin hand-over, sudoers with several contracts and a root change, inflation counters and flags, epoch advances, a fee "
            "share for a wasm contract, oracle price history over time, feeder delegation, miss counter, pending prevote / vote, "
            "allocated rewards); the whole application state is exported, a FRESH app is initialised from it (InitChain), exported "
            "again; compared: every custom-module section of the two exports (epochs modulo current_epoch_start_height), bank "
            "balances, sequences, code, storage and ERC20 balanceOf results of sampled accounts and contracts, the oracle TWAP, and "
            "the module state after the same follow-up operations on both apps (reward allocation, denom creation); raw per-namespace "
            "store differences are recorded as a diagnostic. non-trivial = the round trip completed",
    "assumptions": ["the Go Init/ExportGenesis code implements the model's exportG/initG per field — tied by this differential run, not proved",
                    "raw store differences that neither the exports, nor the queries, nor the follow-up operations can see "
                    "(storage of code-less accounts, re-stamped creation blocks) are not violations of the property as stated"],
}


# ------------------------------------------------------------------------------------------------ C01 replicated determinism
def oracle_c01(run, ops, impl):
    out = []
    for i, (op, ob) in enumerate(zip(ops, impl)):
        if ob.startswith("DIFFER"):
            kv = dict(x.split("=", 1) for x in ob.split() if "=" in x)
            stores = sorted({s.split(":")[0] for s in plist(kv.get("stores", "-"))})
            what = ob.split()[1]
            kinds = sorted({re.sub(r"\(r\d+\)", "", w).split(":")[0] for w in what.split(",")})
            kinds = ["tx-result" if k.startswith("tx") else k for k in kinds]
            out.append(V("C01:replicas-diverge:%s:stores=%s" % ("+".join(sorted(set(kinds))), "+".join(stores) or "-"),
                         {"line": i + 1, "op": op[:400], "obs": ob[:400]}))
    # a divergence persists in every later block: report the first one per signature only
    seen, uniq = set(), []
    for v in out:
        if v["signature"] not in seen:
            seen.add(v["signature"])
            uniq.append(v)
    return uniq


PROPS["C01"] = {
    "modules": ["NibiruProofs.C01", "NibiruProofs.SDBOrder"],
    "prefix": "C01_",
    "mapranges": True,
    "runs": [{"model": "replicas", "n_quick": 40, "n_thorough": 400, "thorough_seeds": 6, "no_model": True, "per_line": True,
              "nontrivial": r"^agree ok=[1-9]"}],
    "oracle": oracle_c01,
    "fact_obligations": ["fact_C01_map_range_sites", "fact_C01_map_range_outer_writes", "fact_C01_to_slice_consumers", "fact_C01_goroutines_and_clock", "fact_C01_leak_is_contained", "fact_C01_sort_comparators"],
    "rule": "three real NibiruApp instances in one process, initialised from the same genesis (three validators), fed the same blocks "
            "of encoded transactions through BeginBlock/DeliverTx/EndBlock/Commit: sudoers edits adding/removing several contracts, "
            "oracle prevotes and reveals by two validators across vote periods (tally, miss counters, rewards), deployments and calls of "
            "generated multi-frame EVM programs (several new accounts and storage slots per tx, self-destructs, creates), FunToken "
            "creation and conversions, token-factory denoms, bank sends, block times that cross epoch boundaries (inflation hooks). Go "
            "randomises map iteration per range statement, so the replicas see different orders. Per height: app hash, "
            "DeliverTx {code, data, gas wanted, gas used} and validator updates must be equal on all replicas; on a mismatch the raw KV "
            "of every store is diffed to localise. non-trivial = a block with at least one successful tx on which the replicas agree",
    "assumptions": ["that each map-range site's loop body has the shape of its class is validated by the replica run, not proved",
                    "determinism of the SDK, IAVL, wasmvm, the go-ethereum interpreter and the Go runtime is trusted",
                    "event order and tx logs are not part of the compared data (they are not hashed by consensus)"],
}


# ------------------------------------------------------------------------------------------------ C09 query isolation
def oracle_c09(run, ops, impl):
    out = []
    for i, (op, ob) in enumerate(zip(ops, impl)):
        kv = dict(x.split("=", 1) for x in op.split() if "=" in x)
        if ob.startswith("panic"):
            out.append(V("C09:panic:q=%s:yield=%s" % (kv.get("q"), kv.get("yield")), {"line": i + 1, "op": op}))
        elif ob.startswith("DIFFERS"):
            out.append(V("C09:query-changes-block-execution:q=%s:yield=%s" % (kv.get("q"), kv.get("yield")), {"line": i + 1, "op": op, "obs": ob}))
    return out


PROPS["C09"] = {
    "modules": ["NibiruProofs.C09"],
    "prefix": "C09_",
    "runs": [{"model": "interleave", "n_quick": 120, "n_thorough": 1500, "thorough_seeds": 6, "cmp_tokens": 1, "per_line": True,
              "nontrivial": r"^(same|DIFFERS)"}],
    "oracle": oracle_c09,
    "rule": "each case executes the block's Ethereum tx (a contract that calls a yield precompile and makes the FunToken precompile "
            "move NIBI through the bank) twice from the same committed state on the real keeper: alone, and with one query or "
            "simulation run to completion at a chosen point — before the tx, inside it before the bank operation, inside it after the "
            "bank operation, or the block's tx starting while a simulation is in flight; query kinds: plain bank read, eth_call of a "
            "view function, EstimateGas, eth_call reaching a NIBI-moving precompile, simulated Ethereum tx, simulated "
            "MsgConvertCoinToEvm; compared: the tx response and digests of ten module stores. The yield precompile is registered "
            "through the public Keeper.AddPrecompiles (no repository change). non-trivial = both executions completed",
    "assumptions": ["only the schedules 'Q runs to completion between two steps of T' (and the symmetric one) are replayed; the "
                    "theorem quantifies over every interleaving of the model's steps",
                    "the Go scheduler, the memory model and data races proper are outside the model (the race detector is not used)",
                    "queries run on a branch of the last committed state (SDK behaviour)"],
}
