"""Engine behind bin/check.  See DESIGN.md §2–§4."""
import os, sys, json, subprocess, time, re, hashlib, fcntl, shutil, glob
from concurrent.futures import ThreadPoolExecutor

VERIF = os.path.abspath(os.path.join(os.path.dirname(os.path.abspath(__file__)), ".."))
REPO = os.environ.get("VERIF_REPO", "/repo")
CACHE = os.path.join(VERIF, ".cache")
LEAN = os.path.join(VERIF, "lean")
HARNESS = os.path.join(VERIF, "harness")
BIN = os.path.join(CACHE, "bin")
ALLOWED_AXIOMS = {"propext", "Classical.choice", "Quot.sound"}
TRUSTED_BASE = [
    "Lean 4.33.0 kernel (thorough tier re-checks the property's .olean files with leanchecker)",
    "axioms allowed in property theorems: propext, Classical.choice, Quot.sound (audited with #print axioms on every run); "
    "no sorry/admit/axiom/native_decide/bv_decide (grep on every run)",
    "fact extractor harness/cmd/nibiru-extract (go/ast; its structural fingerprints — SHA-256 of the alpha-renamed declaration — are a "
    "change detector on the modelled functions, not a statement about behaviour) and the correspondence harness harness/cmd/nibiru-harness incl. its "
    "canonicalisation of observations",
    "modelled, not verified: go-ethereum interpreter/ABI, Cosmos-SDK fork (bank, staking, authz, gov, baseapp), wasmd/wasmvm, IAVL, "
    "CometBFT, NibiruChain/collections (ordered maps), Solidity artifacts, hash functions",
]


def go_env():
    e = dict(os.environ)
    e["GOFLAGS"] = "-mod=mod"
    e["GOPROXY"] = "off"
    e.pop("GOTOOLCHAIN", None) if e.get("GOTOOLCHAIN") == "local" else None
    e.pop("GOSUMDB", None) if e.get("GOSUMDB") == "off" else None
    return e


def sh(cmd, cwd=None, env=None, timeout=None, stdin=None):
    t0 = time.time()
    try:
        p = subprocess.run(cmd, cwd=cwd, env=env, timeout=timeout, stdin=stdin, stdout=subprocess.PIPE,
                           stderr=subprocess.STDOUT, text=True, errors="replace")
        return p.returncode, p.stdout, time.time() - t0
    except subprocess.TimeoutExpired as ex:
        out = ex.stdout or ""
        if isinstance(out, bytes):
            out = out.decode("utf8", "replace")
        return 124, out + "\n[timeout]", time.time() - t0


class Lock:
    def __init__(self, name):
        os.makedirs(CACHE, exist_ok=True)
        self.path = os.path.join(CACHE, name + ".lock")

    def __enter__(self):
        self.f = open(self.path, "w")
        fcntl.flock(self.f, fcntl.LOCK_EX)

    def __exit__(self, *a):
        fcntl.flock(self.f, fcntl.LOCK_UN)
        self.f.close()


def log(msg):
    print("[check] " + msg, flush=True)


# ------------------------------------------------------------------------------------------------------------
# build steps

EXTRACTOR_BUILT = False


def build_go(tags=""):
    """Rebuild harness and extractor against /repo's current working tree. Returns (ok, output)."""
    with Lock("gobuild"):
        os.makedirs(BIN, exist_ok=True)
        rc, out, _ = sh([os.path.join(VERIF, "bin", "gen-gomod")])
        if rc != 0:
            return False, out
        outs = []
        rc, out, dt = sh(["go", "build", "-o", os.path.join(BIN, "nibiru-extract"), "./cmd/nibiru-extract"], cwd=HARNESS,
                         env=go_env(), timeout=1800)
        outs.append(out)
        if rc != 0:
            return False, "\n".join(outs)
        global EXTRACTOR_BUILT
        EXTRACTOR_BUILT = True
        cmd = ["go", "build"] + (["-tags", tags] if tags else []) + ["-o", os.path.join(BIN, "nibiru-harness"),
                                                                    "./cmd/nibiru-harness"]
        rc, out, dt2 = sh(cmd, cwd=HARNESS, env=go_env(), timeout=3000)
        outs.append(out)
        log("go build: extractor %.1fs harness %.1fs rc=%d" % (dt, dt2, rc))
        return rc == 0, "\n".join(outs)


def extract_facts():
    """T1: run the extractor; it rewrites lean/Generated/Facts.lean (only touching the file when content changed)."""
    with Lock("extract"):
        gen = os.path.join(LEAN, "Generated")
        os.makedirs(gen, exist_ok=True)
        tmp = os.path.join(CACHE, "facts_tmp")
        shutil.rmtree(tmp, ignore_errors=True)
        os.makedirs(tmp)
        env = go_env()
        env["VERIF_SURFACE"] = os.path.join(VERIF, "lib", "surface.json")
        rc, out, dt = sh([os.path.join(BIN, "nibiru-extract"), "-repo", REPO, "-out", tmp], env=env, timeout=900)
        if rc != 0:
            return False, out, {}
        digests = {}
        for f in sorted(os.listdir(tmp)):
            src = open(os.path.join(tmp, f)).read()
            digests[f] = hashlib.sha256(src.encode()).hexdigest()[:16]
            dst = os.path.join(gen, f) if f.endswith(".lean") else os.path.join(CACHE, f)
            old = open(dst).read() if os.path.exists(dst) else None
            if old != src:
                open(dst, "w").write(src)
        log("extract facts: %.1fs %s" % (dt, digests))
        return True, out, digests


def extract_mapranges():
    """T1 (typed): tools/mapranges -> lean/Generated/MapRanges.lean (map-range sites, goroutines, clock reads, ToSlice consumers)."""
    with Lock("extract"):
        tool = os.path.join(BIN, "mapranges")
        rc, out, dt = sh(["go", "build", "-o", tool, "."], cwd=os.path.join(VERIF, "tools", "mapranges"), env=go_env(), timeout=1800)
        if rc != 0:
            return False, out
        p = subprocess.run([tool, REPO], stdout=subprocess.PIPE, stderr=subprocess.PIPE, text=True, env=go_env(), timeout=1800)
        if p.returncode != 0 or "namespace Generated" not in p.stdout:
            return False, (p.stderr or p.stdout)[-2000:]
        dst = os.path.join(LEAN, "Generated", "MapRanges.lean")
        old = open(dst).read() if os.path.exists(dst) else None
        if old != p.stdout:
            open(dst, "w").write(p.stdout)
        log("mapranges: %.1fs + run, digest %s" % (dt, hashlib.sha256(p.stdout.encode()).hexdigest()[:16]))
        return True, ""


def lake_build(targets, timeout=3000):
    with Lock("lake"):
        rc, out, dt = sh(["lake", "build"] + targets, cwd=LEAN, timeout=timeout)
        log("lake build %s: rc=%d %.1fs" % (" ".join(targets), rc, dt))
        return rc == 0, out


def surface_changes(pid):
    """Which entries of Generated.surface_<pid> differ from the committed expectation (NibiruProofs/Surf<pid>.lean)."""
    def rows(path, name):
        try:
            src = open(path).read()
        except OSError:
            return {}
        m = re.search(r"def %s : List \(String × String\) := \[\n(.*?)\]\n" % name, src, re.S)
        return dict(re.findall(r'\("([^"]*)", "([^"]*)"\)', m.group(1))) if m else {}
    exp = rows(os.path.join(LEAN, "NibiruProofs", "Surf%s.lean" % pid), "expected_%s" % pid)
    got = rows(os.path.join(LEAN, "Generated", "Facts.lean"), "surface_%s" % pid)
    out = []
    for k in sorted(set(exp) | set(got)):
        if exp.get(k) != got.get(k):
            out.append(k + (" (new)" if k not in exp else " (gone)" if got.get(k) in (None, "missing") else ""))
    return out or ["?"]


def lean_errors(out):
    """Extract (file, line, message-head) of every error in lake/lean output."""
    errs = []
    for m in re.finditer(r"^error: ([^\s:]+\.lean):(\d+):(\d+): (.*)$", out, re.M):
        errs.append({"file": m.group(1), "line": int(m.group(2)), "msg": m.group(4)[:200]})
    return errs


def theorem_at(path, line):
    """Name of the declaration containing `line` in a Lean file."""
    try:
        lines = open(os.path.join(LEAN, path)).read().split("\n")
    except OSError:
        return None
    for i in range(min(line, len(lines)) - 1, -1, -1):
        m = re.match(r"^\s*(?:private\s+|protected\s+)?(?:theorem|lemma|def|example|instance|abbrev)\s*([^\s:(\[{]*)", lines[i])
        if m:
            return m.group(1) or "example@%d" % (i + 1)
    return None


def list_theorems(module_file, prefix):
    """[(namespace, name)] of property theorems in NibiruProofs/<file>."""
    src = open(os.path.join(LEAN, module_file)).read()
    src_nc = re.sub(r"/-.*?-/", "", src, flags=re.S)
    ns = None
    res = []
    for line in src_nc.split("\n"):
        m = re.match(r"^namespace\s+(\S+)", line)
        if m:
            ns = m.group(1)
        m = re.match(r"^end\s+(\S+)", line)
        if m and ns and m.group(1) == ns:
            ns = None
        m = re.match(r"^(?:theorem|lemma)\s+((?:fact_)?" + re.escape(prefix) + r"\w*)", line)
        if m:
            res.append((ns, m.group(1)))
    return res


FORBIDDEN = re.compile(r"\bsorry\b|\badmit\b|^\s*axiom\s|native_decide|bv_decide|implemented_by|\bunsafe\s|maxHeartbeats\s+0")


def grep_forbidden():
    hits = []
    for root in ("NibiruModel", "NibiruProofs", "Generated", "Driver"):
        for p in glob.glob(os.path.join(LEAN, root, "**", "*.lean"), recursive=True):
            src = open(p).read()
            src = re.sub(r"/-.*?-/", lambda m: "\n" * m.group(0).count("\n"), src, flags=re.S)
            for i, line in enumerate(src.split("\n")):
                code = line.split("--")[0]
                if FORBIDDEN.search(code):
                    hits.append("%s:%d: %s" % (os.path.relpath(p, LEAN), i + 1, line.strip()[:100]))
    return hits


def audit(pid, modules, prefix):
    """#print axioms on every property theorem. Returns (theorems, bad[list of (name, axioms)], raw)."""
    thms = []
    for mod in modules:
        f = mod.replace(".", "/") + ".lean"
        thms += [(mod, ns, n) for (ns, n) in list_theorems(f, prefix)]
    adir = os.path.join(CACHE, "audit")
    os.makedirs(adir, exist_ok=True)
    path = os.path.join(adir, pid + "_audit.lean")
    body = "".join("import %s\n" % m for m in modules)
    for (_, ns, n) in thms:
        full = (ns + "." if ns else "") + n
        body += "#print axioms %s\n" % full
    open(path, "w").write(body)
    with Lock("lake"):
        rc, out, dt = sh(["lake", "env", "lean", path], cwd=LEAN, timeout=900)
    results = {}
    # outputs: "'X' depends on axioms: [a, b]" or "'X' does not depend on any axioms"
    for m in re.finditer(r"'([^']+)' depends on axioms: \[([^\]]*)\]", out.replace("\n", " ")):
        results[m.group(1)] = [x.strip() for x in m.group(2).split(",") if x.strip()]
    for m in re.finditer(r"'([^']+)' does not depend on any axioms", out):
        results[m.group(1)] = []
    ok, bad = [], []
    for (_, ns, n) in thms:
        full = (ns + "." if ns else "") + n
        if full not in results:
            bad.append((full, ["<not checked: %s>" % out.strip()[:200]]))
        elif set(results[full]) - ALLOWED_AXIOMS:
            bad.append((full, results[full]))
        else:
            ok.append((full, results[full]))
    log("audit %s: %d theorems, %d bad, %.1fs" % (pid, len(thms), len(bad), dt))
    return ok, bad, out


def build_driver():
    ok, out = lake_build(["driver"])
    return ok, out


def run_driver(ops_path, out_path):
    with open(ops_path) as fin, open(out_path, "w") as fout:
        p = subprocess.run([os.path.join(LEAN, ".lake", "build", "bin", "driver")], stdin=fin, stdout=fout,
                           stderr=subprocess.PIPE, text=True, timeout=3000)
    return p.returncode, p.stderr


def run_harness(model, seed, n, outdir, extra=None, timeout=3000):
    os.makedirs(outdir, exist_ok=True)
    cmd = [os.path.join(BIN, "nibiru-harness"), model, "-seed", str(seed), "-n", str(n), "-out", outdir] + (extra or [])
    env = go_env()
    env.setdefault("GOMEMLIMIT", "12GiB")
    env.setdefault("VERIF_CORPUS", os.path.join(VERIF, "corpus"))
    env.setdefault("VERIF_REPO_DIR", REPO)
    rc, out, dt = sh(cmd, env=env, timeout=timeout, cwd=outdir)
    return rc, out, dt


# ------------------------------------------------------------------------------------------------------------
# trace helpers

def read_lines(p):
    with open(p) as f:
        return [l.rstrip("\n") for l in f]


def split_sequences(ops):
    """Sequences are delimited by '<model> reset' lines. Returns list of (start, end) index ranges."""
    seqs, start = [], 0
    for i, l in enumerate(ops):
        parts = l.split()
        if len(parts) >= 2 and parts[1] in ("reset", "newblock") and i > start:
            seqs.append((start, i))
            start = i
    if start < len(ops):
        seqs.append((start, len(ops)))
    return seqs


def first_diff(a, b):
    for i in range(max(len(a), len(b))):
        x = a[i] if i < len(a) else "<missing>"
        y = b[i] if i < len(b) else "<missing>"
        if x != y:
            return i
    return None


# ------------------------------------------------------------------------------------------------------------

def load_known():
    p = os.path.join(VERIF, "known_findings.json")
    if not os.path.exists(p):
        return {"findings": [], "fixed": []}
    return json.load(open(p))


def write_json(path, obj):
    os.makedirs(os.path.dirname(path), exist_ok=True)
    tmp = path + ".tmp"
    with open(tmp, "w") as f:
        json.dump(obj, f, indent=1, sort_keys=False)
        f.write("\n")
    os.replace(tmp, path)


def run_check(pid, tier, seed, replay):
    import props
    t0 = time.time()
    if pid not in props.PROPS:
        print("unknown property", pid)
        return 2
    P = props.PROPS[pid]
    rundir = os.path.join(CACHE, "run", pid)
    shutil.rmtree(rundir, ignore_errors=True)
    os.makedirs(rundir, exist_ok=True)
    failures = []          # things that no longer check: dict(kind, name, detail)
    witnesses = []         # concrete failing inputs of the property: dict(signature, detail, ...)
    known_lines = []
    cov = {"samples": []}
    facts_digests = {}

    if replay:
        try:
            rp = json.load(open(replay))
            seed = int(rp.get("seed", seed))
            tier = rp.get("tier", tier)
            log("replaying %s (seed=%s tier=%s)" % (replay, seed, tier))
        except Exception as ex:  # noqa
            log("cannot read replay file: %s" % ex)

    # 1. build against the current working tree
    ok, out = build_go(P.get("tags", ""))
    if not ok:
        failures.append({"kind": "build", "name": "go build of harness against /repo", "detail": out[-3000:]})

    # 2. T1 facts (the extractor parses source: it does not need the harness — or /repo — to compile; stale facts would
    #    otherwise be blamed for a failure that is only a build error)
    if ok or EXTRACTOR_BUILT:
        fok, fout, facts_digests = extract_facts()
        if not fok:
            failures.append({"kind": "facts", "name": "extractor failed", "detail": fout[-3000:]})

    if ok and P.get("mapranges"):
        mok, mout = extract_mapranges()
        if not mok:
            failures.append({"kind": "facts", "name": "tools/mapranges failed", "detail": mout[-2000:]})

    # 3. proofs + audit
    modules = list(P["modules"])
    if os.path.exists(os.path.join(LEAN, "NibiruProofs", "Surf%s.lean" % pid)):
        modules.append("NibiruProofs.Surf%s" % pid)      # T1-S: fingerprints of the modelled functions
    bok, bout = lake_build(["Generated"] + modules + ["driver"])
    proof_errors = []
    if not bok:
        for e in lean_errors(bout):
            e["decl"] = theorem_at(e["file"], e["line"])
            proof_errors.append(e)
        if not proof_errors:
            proof_errors.append({"file": "?", "line": 0, "msg": bout[-1500:], "decl": None})
        for e in proof_errors:
            kind = "facts" if (e["file"].startswith("Generated") or "Facts" in (e["file"] or "") or
                               (e.get("decl") or "").startswith("fact_")) else "proof"
            detail = e["msg"]
            if (e.get("decl") or "").endswith("_surface_fingerprints"):
                detail = "modelled functions whose structure changed: " + ", ".join(surface_changes(pid)) + " | " + detail
            failures.append({"kind": kind, "name": "%s (%s:%d)" % (e.get("decl"), e["file"], e["line"]), "detail": detail})
    thm_ok, thm_bad = [], []
    if bok:
        thm_ok, thm_bad, _ = audit(pid, modules, P.get("prefix", pid + "_"))
        for (n, ax) in thm_bad:
            failures.append({"kind": "audit", "name": n, "detail": "axioms: %s" % ax})
    forb = grep_forbidden()
    for h in forb:
        failures.append({"kind": "audit", "name": "forbidden token", "detail": h})
    # fact obligations that are themselves audited theorems (fact_Cxx_*) are not counted twice
    audited = {n.split(".")[-1] for (n, _) in thm_ok} | {n.split(".")[-1] for (n, _) in thm_bad}
    n_facts = len([f for f in P.get("fact_obligations", []) if f not in audited])
    obligations = len(thm_ok) + len(thm_bad) + n_facts
    if not bok:
        # count obligations from source even if the build broke
        cnt = 0
        for mod in modules:
            cnt += len(list_theorems(mod.replace(".", "/") + ".lean", P.get("prefix", pid + "_")))
        obligations = cnt + n_facts
    discharged = (len(thm_ok) + n_facts) if bok else 0

    # 4. T2 correspondence
    traces = 0
    evaluations = 0
    distinct = set()
    nontrivial = set()
    stats = []
    diffs = []
    all_runs = []   # (run, seed, ops, impl, model)
    driver_ok = os.path.exists(os.path.join(LEAN, ".lake", "build", "bin", "driver"))
    if ok and driver_ok:
        jobs = []
        for run in P["runs"]:
            n = run["n_quick"] if tier == "quick" else run["n_thorough"]
            seeds = [seed] if tier == "quick" else [seed * 1000 + i for i in range(run.get("thorough_seeds", 8))]
            for s in seeds:
                jobs.append((run, s, n))

        def do(job):
            run, s, n = job
            d = os.path.join(rundir, "%s_%d" % (run["model"], s))
            rc, hout, dt = run_harness(run["model"], s, n, d, run.get("extra"), timeout=run.get("timeout", 3000))
            res = {"run": run, "seed": s, "dir": d, "rc": rc, "out": hout, "dt": dt}
            if rc == 0 and not run.get("no_model"):
                drc, derr = run_driver(os.path.join(d, "ops.txt"), os.path.join(d, "model.out"))
                res["drc"] = drc
                res["derr"] = derr
            return res

        with ThreadPoolExecutor(max_workers=min(len(jobs), 12) or 1) as ex:
            results = list(ex.map(do, jobs))
        for res in results:
            run = res["run"]
            m = re.search(r"^STATS (.*)$", res["out"], re.M)
            if m:
                stats.append("seed=%d %s" % (res["seed"], m.group(1)))
            if res["rc"] != 0:
                failures.append({"kind": "correspondence", "name": "harness %s seed=%d exited %d" % (run["model"], res["seed"], res["rc"]),
                                 "detail": res["out"][-2000:]})
                continue
            ops = read_lines(os.path.join(res["dir"], "ops.txt"))
            impl = read_lines(os.path.join(res["dir"], "impl.out"))
            model = impl if run.get("no_model") else read_lines(os.path.join(res["dir"], "model.out"))
            all_runs.append((run, res["seed"], ops, impl, model))
            seqs = [(j, j + 1) for j in range(len(ops))] if run.get("per_line") else split_sequences(ops)
            evaluations += len(ops)
            nt_re = re.compile(run.get("nontrivial", r"."))
            for (a, b) in seqs:
                h = hashlib.sha256("\n".join(ops[a:b]).encode()).hexdigest()
                distinct.add(h)
                if any(nt_re.search(x) for x in impl[a:b]):
                    nontrivial.add(h)
            if not run.get("no_model"):
                if res.get("drc", 0) != 0:
                    failures.append({"kind": "correspondence", "name": "driver failed", "detail": res.get("derr", "")[-500:]})
                ntok = run.get("cmp_tokens")
                if ntok:   # the model predicts only the first tokens of each observation (the rest is diagnostic detail)
                    i = first_diff([" ".join(x.split()[:ntok]) for x in impl], [" ".join(x.split()[:ntok]) for x in model])
                else:
                    i = first_diff(impl, model)
                if i is None:
                    traces += len(seqs)
                else:
                    # localise: the sequence containing the first differing line
                    for (a, b) in seqs:
                        if a <= i < b:
                            break
                    diffs.append({"model": run["model"], "seed": res["seed"], "line": i, "seq": [a, b],
                                  "ops": ops[a:i + 1][-60:], "impl": (impl + ["<missing>"] * (i + 1))[i],
                                  "modelOut": (model + ["<missing>"] * (i + 1))[i]})
                    failures.append({"kind": "correspondence",
                                     "name": "model %s vs implementation, seed=%d, line %d" % (run["model"], res["seed"], i + 1),
                                     "detail": "op: %s | impl: %s | model: %s" % (ops[i] if i < len(ops) else "?", diffs[-1]["impl"][:400],
                                                                                 diffs[-1]["modelOut"][:400])})
            if len(cov["samples"]) < 3 and seqs:
                a, b = seqs[min(1, len(seqs) - 1)]
                cov["samples"].append({"model": run["model"], "seed": res["seed"],
                                       "ops": ops[a:min(b, a + 12)], "impl": impl[a:min(b, a + 12)]})
    elif ok and not driver_ok:
        failures.append({"kind": "build", "name": "driver executable missing", "detail": bout[-1500:]})

    # 5. the property's own oracle over the implementation's trace (always run: it is the search for a failing input and
    #    the detector of known findings)
    oracle = P.get("oracle")
    predicted = {}   # (model run, seed) -> {(line, signature)} the Lean model of the UNCHANGED code itself exhibits
    coarse = set()   # runs whose model predicts only the leading tokens: compare (line, signature) only
    if oracle:
        for (run, s, ops, impl, model) in all_runs:
            try:
                for wv in oracle(run, ops, impl):
                    wv["seed"] = s
                    wv["model"] = run["model"]
                    witnesses.append(wv)
            except Exception as ex:  # an oracle crash must not hide anything: report as a failure to check
                failures.append({"kind": "oracle", "name": "oracle crashed", "detail": repr(ex)})
            # A listed finding is a defect of the unchanged code, and the Lean model reproduces that code: where a run has a step
            # model, the same oracle over the MODEL's trace says exactly where the listed defect shows in this history.  A violation
            # of the implementation that matches a listed finding's pattern but that the model does not exhibit at that line is a
            # DIFFERENT violation (same symptom class, other cause) and is reported with its input.
            if not run.get("no_model") and len(model) == len(ops) and model is not impl:
                try:
                    predicted[(run["model"], s)] = {(mv["detail"].get("line"), mv["signature"],
                                                     "" if run.get("cmp_tokens") else json.dumps(mv["detail"], sort_keys=True, default=str))
                                                    for mv in oracle(run, ops, model) if isinstance(mv.get("detail"), dict)}
                    if run.get("cmp_tokens"):
                        coarse.add((run["model"], s))
                except Exception:
                    pass

    cross = P.get("cross_oracle")
    if cross:
        try:
            witnesses.extend(cross(all_runs))
        except Exception as ex:
            failures.append({"kind": "oracle", "name": "cross-run oracle crashed", "detail": repr(ex)})

    # known findings
    known = load_known()
    unlisted = []
    seen_known = {}
    for wv in witnesses:
        hit = None
        for kf in known.get("findings", []):
            if kf["property"] == pid and re.search(kf["match"], wv["signature"]):
                hit = kf
                break
        key = (wv.get("model"), wv.get("seed"))
        if hit and key in predicted and isinstance(wv.get("detail"), dict) and wv["detail"].get("line") is not None \
                and (wv["detail"]["line"], wv["signature"],
                     "" if key in coarse else json.dumps(wv["detail"], sort_keys=True, default=str)) not in predicted[key]:
            wv["not_the_listed_finding"] = ("matches the pattern of %s, but the Lean model of the unchanged code does not fail in this "
                                            "way at this line of this history: a different violation" % hit["id"])
            unlisted.append(wv)
        elif hit:
            seen_known.setdefault(hit["id"], (hit, wv))
        else:
            unlisted.append(wv)
    for kid, (kf, wv) in sorted(seen_known.items()):
        known_lines.append("KNOWN-FINDING: property=%s %s" % (pid, kf["what"]))
    # a listed finding that was not re-observed this run is still listed (the file is the record); say so in evidence
    for kf in known.get("findings", []):
        if kf["property"] == pid and kf["id"] not in seen_known:
            known_lines.append("KNOWN-FINDING: property=%s %s (listed; not re-observed in this run)" % (pid, kf["what"]))

    violation = bool(failures) or bool(unlisted)
    replay_path = None
    if violation:
        os.makedirs(os.path.join(VERIF, "replays"), exist_ok=True)
        replay_path = os.path.join(VERIF, "replays", "%s-%s-%d.json" % (pid, tier, seed))
        found = bool(unlisted)
        # when nothing failing was found in this run's traces, widen the search on the implementation (more seeds)
        if not found and oracle and ok and any(f["kind"] in ("correspondence", "proof", "facts") for f in failures):
            extra = search_failing_input(P, pid, seed, rundir)
            for wv in extra:
                hit = any(kf["property"] == pid and re.search(kf["match"], wv["signature"]) for kf in known.get("findings", []))
                if not hit:
                    unlisted.append(wv)
            found = bool(unlisted)
        rp = {"property": pid, "tier": tier, "seed": seed,
              "how_to_replay": "VERIF_SEED=%d bin/check %s --tier %s   (every random choice derives from the seed)" % (seed, pid, tier),
              "failing_input_found": found,
              "failing_inputs": unlisted[:5],
              "no_longer_checks": failures[:20],
              "first_divergences": diffs[:5]}
        write_json(replay_path, rp)

    wall = time.time() - t0
    cov.update({
        "obligations": max(obligations, 1),
        "discharged": discharged if not violation or bok else 0,
        "checker_cmd": "cd lean && lake build Generated %s && lake env lean .cache/audit/%s_audit.lean (#print axioms)" % (" ".join(modules), pid),
        "trusted_base": TRUSTED_BASE + P.get("trusted", []),
        "theorems": [n for (n, _) in thm_ok],
        "axioms_used": sorted({a for (_, ax) in thm_ok for a in ax}),
        "fact_obligations": P.get("fact_obligations", []),
        "facts_digests": facts_digests,
        "traces_validated_against_impl": traces,
        "evaluations": evaluations,
        "distinct_nontrivial": len(nontrivial),
        "distinct_sequences": len(distinct),
        "rule": P.get("rule", ""),
        "generator_distribution": stats[:16],
        "known_findings_reported": known_lines,
        "failures": failures[:20],
    })
    if tier == "thorough" and bok:
        cov["leanchecker"] = leanchecker(modules)
        if cov["leanchecker"].get("rc") != 0:
            failures.append({"kind": "audit", "name": "leanchecker", "detail": cov["leanchecker"].get("out", "")[-500:]})
    ev = {"property_id": pid, "tier": tier, "seed": seed, "level": "proof", "coverage": cov,
          "assumptions": P.get("assumptions", []), "wall_s": round(wall, 1), "violations": len(unlisted) + (1 if failures and not unlisted else 0)}
    write_json(os.path.join(VERIF, "evidence", pid + ".json"), ev)

    for l in known_lines:
        print(l)
    if violation:
        rel = os.path.relpath(replay_path, VERIF)
        for f in failures[:8]:
            print("NO-LONGER-CHECKS kind=%s name=%s :: %s" % (f["kind"], f["name"], f["detail"].replace("\n", " ")[:300]))
        for wv in unlisted[:5]:
            print("FAILING-INPUT %s :: %s" % (wv["signature"], str(wv.get("detail", ""))[:300]))
        if unlisted:
            print("VIOLATION property=%s replay=%s" % (pid, rel))
        else:
            print("VIOLATION property=%s replay=%s no-failing-input-found" % (pid, rel))
        return 1
    print("OK property=%s tier=%s obligations=%d discharged=%d traces=%d evaluations=%d wall=%.0fs" %
          (pid, tier, obligations, discharged, traces, evaluations, wall))
    return 0


def search_failing_input(P, pid, seed, rundir):
    """Targeted search on the implementation only: more seeds through the property's oracle."""
    oracle = P.get("oracle")
    found = []
    jobs = []
    for run in P["runs"]:
        for i in range(6):
            jobs.append((run, seed * 7919 + 101 + i))

    def do(job):
        run, s = job
        d = os.path.join(rundir, "search_%s_%d" % (run["model"], s))
        rc, out, dt = run_harness(run["model"], s, run["n_quick"], d, run.get("extra"), timeout=run.get("timeout", 3000))
        if rc != 0:
            return []
        ops = read_lines(os.path.join(d, "ops.txt"))
        impl = read_lines(os.path.join(d, "impl.out"))
        res = []
        for wv in oracle(run, ops, impl):
            wv["seed"] = s
            wv["model"] = run["model"]
            res.append(wv)
        return res

    with ThreadPoolExecutor(max_workers=8) as ex:
        for r in ex.map(do, jobs):
            found += r
    log("search for a failing input on the implementation: %d candidate(s)" % len(found))
    return found


def leanchecker(modules):
    with Lock("lake"):
        rc, out, dt = sh(["lake", "env", "leanchecker"] + modules, cwd=LEAN, timeout=3000)
    return {"rc": rc, "wall_s": round(dt, 1), "out": out[-300:]}
