package main

import (
	"fmt"
	"math/big"
	"os"
	"strings"

	sdk "github.com/cosmos/cosmos-sdk/types"
	authtx "github.com/cosmos/cosmos-sdk/x/auth/tx"
	authtypes "github.com/cosmos/cosmos-sdk/x/auth/types"
	codectypes "github.com/cosmos/cosmos-sdk/codec/types"
	gethcommon "github.com/ethereum/go-ethereum/common"
	gethcore "github.com/ethereum/go-ethereum/core/types"
	"github.com/ethereum/go-ethereum/crypto"

	"github.com/NibiruChain/nibiru/v2/app"
	"github.com/NibiruChain/nibiru/v2/x/common/testutil/testapp"
	"github.com/NibiruChain/nibiru/v2/x/evm"
	"github.com/NibiruChain/nibiru/v2/x/evm/embeds"
	"github.com/NibiruChain/nibiru/v2/x/evm/evmtest"
	"github.com/NibiruChain/nibiru/v2/x/evm/precompile"

	"verif/harness/internal/easm"
	"verif/harness/internal/hx"
)

func init() { runners["evmtx"] = runEvmTx }

const ethChainIDDefault = 6930

type ethMsgSpec struct {
	from     evmtest.EthPrivKeyAcc
	nonce    uint64
	gasLimit uint64
	tip      *big.Int // nil: legacy / access list
	price    *big.Int
	value    *big.Int
	to       *gethcommon.Address
	data     []byte
	accessL  bool
	badSig   int // 0 ok, 1 wrong chain id, 2 corrupted signature
	kind     string
}

func (m ethMsgSpec) build() (*evm.MsgEthereumTx, error) {
	var inner gethcore.TxData
	switch {
	case m.tip != nil:
		inner = &gethcore.DynamicFeeTx{ChainID: big.NewInt(ethChainIDDefault), Nonce: m.nonce, GasTipCap: m.tip, GasFeeCap: m.price, Gas: m.gasLimit, To: m.to, Value: m.value, Data: m.data}
	case m.accessL:
		inner = &gethcore.AccessListTx{ChainID: big.NewInt(ethChainIDDefault), Nonce: m.nonce, GasPrice: m.price, Gas: m.gasLimit, To: m.to, Value: m.value, Data: m.data}
	default:
		inner = &gethcore.LegacyTx{Nonce: m.nonce, GasPrice: m.price, Gas: m.gasLimit, To: m.to, Value: m.value, Data: m.data}
	}
	tx := gethcore.NewTx(inner)
	msg := new(evm.MsgEthereumTx)
	if err := msg.FromEthereumTx(tx); err != nil {
		return nil, err
	}
	msg.From = m.from.EthAddr.Hex()
	chain := int64(ethChainIDDefault)
	if m.badSig == 1 {
		chain = 1 // signed for Ethereum mainnet
		if m.tip != nil || m.accessL {
			// typed txs carry their chain id inside the payload: rebuild it for the other chain
			switch v := inner.(type) {
			case *gethcore.DynamicFeeTx:
				v.ChainID = big.NewInt(chain)
			case *gethcore.AccessListTx:
				v.ChainID = big.NewInt(chain)
			}
			if err := msg.FromEthereumTx(gethcore.NewTx(inner)); err != nil {
				return nil, err
			}
			msg.From = m.from.EthAddr.Hex()
		}
	}
	if err := msg.Sign(gethcore.LatestSignerForChainID(big.NewInt(chain)), m.from.KeyringSigner); err != nil {
		return nil, err
	}
	if m.badSig == 2 {
		// corrupt the signature: re-pack the tx data with S replaced
		signed := msg.AsTransaction()
		v, r, _ := signed.RawSignatureValues()
		var bad gethcore.TxData
		switch in := inner.(type) {
		case *gethcore.LegacyTx:
			c := *in
			c.V, c.R, c.S = v, r, big.NewInt(0)
			bad = &c
		case *gethcore.AccessListTx:
			c := *in
			c.V, c.R, c.S = v, r, big.NewInt(0)
			bad = &c
		case *gethcore.DynamicFeeTx:
			c := *in
			c.V, c.R, c.S = v, r, big.NewInt(0)
			bad = &c
		}
		if err := msg.FromEthereumTx(gethcore.NewTx(bad)); err != nil {
			return nil, err
		}
	}
	msg.From = ""
	return msg, nil
}

// wrapEthMsgs builds the Cosmos tx around Ethereum messages exactly as the JSON-RPC does for one message (extension option,
// fee = sum of the effective fees, gas limit = sum of the gas limits), for any number of messages.
func wrapEthMsgs(a *app.NibiruApp, msgs []*evm.MsgEthereumTx) (sdk.Tx, error) {
	b, _ := a.GetTxConfig().NewTxBuilder().(authtx.ExtensionOptionsTxBuilder)
	option, err := codectypes.NewAnyWithValue(&evm.ExtensionOptionsEthereumTx{})
	if err != nil {
		return nil, err
	}
	b.SetExtensionOptions(option)
	fees := sdk.Coins{}
	gas := uint64(0)
	var sm []sdk.Msg
	for _, m := range msgs {
		txData, err := evm.UnpackTxData(m.Data)
		if err != nil {
			return nil, err
		}
		f := evm.WeiToNative(txData.EffectiveFeeWei(evm.BASE_FEE_WEI))
		if f.Sign() > 0 {
			fees = fees.Add(sdk.NewCoin(evm.EVMBankDenom, sdk.NewIntFromBigInt(f)))
		}
		gas += m.GetGas()
		sm = append(sm, m)
	}
	if err := b.SetMsgs(sm...); err != nil {
		return nil, err
	}
	b.SetFeeAmount(fees)
	b.SetGasLimit(gas)
	return b.GetTx(), nil
}

func runEvmTx(r *hx.R, n int, w *hx.W, _ []string) error {
	accs := evmtest.NewEthPrivAccs(4)
	var reverter, logger gethcommon.Address
	chain := NewChain(func(ctx sdk.Context, a *app.NibiruApp) {
		for _, acc := range accs[:3] {
			_ = testapp.FundAccount(a.BankKeeper, ctx, acc.NibiruAddr, sdk.NewCoins(sdk.NewInt64Coin("unibi", 5_000_000_000_000)))
		}
		_ = testapp.FundModuleAccount(a.BankKeeper, ctx, authtypes.FeeCollectorName, sdk.NewCoins(sdk.NewInt64Coin("unibi", 1_000_000_000_000)))
		// the fourth account only receives: it is a plain BaseAccount (as genesis / pre-EVM accounts are, not an EthAccount) with a
		// signing history — its sequence must survive being touched by other people's EVM transactions
		base := authtypes.NewBaseAccountWithAddress(accs[3].NibiruAddr)
		base.AccountNumber = a.AccountKeeper.NextAccountNumber(ctx)
		_ = base.SetSequence(7)
		a.AccountKeeper.SetAccount(ctx, base)
		// deploy helper contracts through the msg server (genesis block)
		deps := evmtest.TestDeps{App: a, Ctx: ctx, EvmKeeper: a.EvmKeeper, Sender: accs[0]}
		nonce := a.EvmKeeper.GetAccNonce(ctx, accs[0].EthAddr)
		rev := easm.New().Push(0).Push(0).Op(easm.REVERT).Bytes()
		for i, code := range [][]byte{rev, loggerRuntime()} {
			m, err := signedEthTx(&deps, accs[0], nonce+uint64(i), nil, big.NewInt(0), 500_000, big.NewInt(1_000_000_000_000), easm.Deployer(code))
			if err != nil {
				panic(err)
			}
			if resp, err := a.EvmKeeper.EthereumTx(sdk.WrapSDKContext(ctx), m); err != nil || resp.VmError != "" {
				panic(fmt.Sprint("deploy helper: ", err, resp))
			}
		}
		reverter = crypto.CreateAddress(accs[0].EthAddr, nonce)
		logger = crypto.CreateAddress(accs[0].EthAddr, nonce+1)
	})
	a := chain.App
	tracked := []string{}
	trackedAddr := map[string]sdk.AccAddress{}
	for _, acc := range accs {
		tracked = append(tracked, strings.ToLower(acc.EthAddr.Hex()))
		trackedAddr[strings.ToLower(acc.EthAddr.Hex())] = acc.NibiruAddr
	}
	collector := a.AccountKeeper.GetModuleAddress(authtypes.FeeCollectorName)
	render := func(ctx sdk.Context) string {
		var it []string
		for _, t := range tracked {
			seq := uint64(0)
			if acc := a.AccountKeeper.GetAccount(ctx, trackedAddr[t]); acc != nil {
				seq = acc.GetSequence()
			}
			it = append(it, fmt.Sprintf("%s:%d:%s", t, seq, a.BankKeeper.GetBalance(ctx, trackedAddr[t], "unibi").Amount))
		}
		return fmt.Sprintf("A=%s C=%s S=%s", items(it), a.BankKeeper.GetBalance(ctx, collector, "unibi").Amount, a.BankKeeper.GetSupply(ctx, "unibi").Amount)
	}
	var resubmit []sdk.Tx // previously delivered txs, for duplicate submission
	var resubmitOps []string
	e12 := big.NewInt(1_000_000_000_000)
	for c := 0; c < n; c++ {
		chain.Begin()
		ctx := chain.Ctx()
		bgl := int64(0)
		if cp := ctx.ConsensusParams(); cp != nil && cp.Block != nil && cp.Block.MaxGas > 0 {
			bgl = cp.Block.MaxGas
		}
		w.Step(fmt.Sprintf("evmtx reset %d %s %s ACCTS=%s", bgl, a.BankKeeper.GetBalance(ctx, collector, "unibi").Amount, a.BankKeeper.GetSupply(ctx, "unibi").Amount,
			strings.TrimPrefix(strings.Fields(render(ctx))[0], "A=")), "ok "+render(ctx))
		ntx := 1 + r.Pick(4)
		for t := 0; t < ntx; t++ {
			ctx = chain.Ctx()
			var tx sdk.Tx
			var opMsgs []string
			var specs []ethMsgSpec
			if len(resubmit) > 0 && r.Chance(1, 8) { // the same signed tx again (replay)
				i := r.Pick(len(resubmit))
				tx = resubmit[i]
				opMsgs = strings.Split(resubmitOps[i], ",")
			} else {
				nm := 1
				if r.Chance(1, 4) {
					nm = 2 + r.Pick(2)
				}
				next := map[string]uint64{}
				var built []*evm.MsgEthereumTx
				// aimed: two messages of one sender that each pass the per-message balance check of the ante handler, while the second
				// one's value exceeds what is left once the first has executed (the EVM refuses the transfer at run time)
				drain := r.Chance(1, 10)
				var drainFrom evmtest.EthPrivKeyAcc
				var drainVal *big.Int
				if drain {
					nm = 2 + r.Pick(2)
					drainFrom = accs[r.Pick(3)]
					bal := a.BankKeeper.GetBalance(ctx, drainFrom.NibiruAddr, "unibi").Amount.BigInt()
					drainVal = new(big.Int).Mul(new(big.Int).Div(new(big.Int).Mul(bal, big.NewInt(r.Range(51, 90))), big.NewInt(100)), e12)
				}
				// aimed: two messages of one sender carrying the SAME nonce in one Cosmos tx (the very same signed message twice, or two
				// different ones): every per-message check that runs before any sequence is bumped sees both as current
				sameNonce := !drain && r.Chance(1, 10)
				var sameFrom evmtest.EthPrivKeyAcc
				if sameNonce {
					nm = 2 + r.Pick(2)
					sameFrom = accs[r.Pick(3)]
				}
				// aimed: a current message of one sender followed by a STALE message of ANOTHER sender whose nonce continues the first
				// sender's numbering (first sender at sequence a, second message with nonce a+1 although its own sender is further on)
				crossStale := !drain && !sameNonce && r.Chance(1, 8)
				var csA, csB evmtest.EthPrivKeyAcc
				if crossStale {
					crossStale = false
					for x := 0; x < 3 && !crossStale; x++ {
						for y := 0; y < 3 && !crossStale; y++ {
							na, nb := a.EvmKeeper.GetAccNonce(ctx, accs[x].EthAddr), a.EvmKeeper.GetAccNonce(ctx, accs[y].EthAddr)
							if x != y && nb >= na+2 {
								csA, csB, crossStale = accs[x], accs[y], true
							}
						}
					}
					if crossStale {
						nm = 2
					}
				}
				for j := 0; j < nm; j++ {
					from := accs[r.Pick(3)]
					if drain {
						from = drainFrom
					}
					if crossStale {
						from = []evmtest.EthPrivKeyAcc{csA, csB}[j]
					}
					if sameNonce && j < 2 {
						from = sameFrom
					}
					if sameNonce && j == 1 && r.Chance(1, 2) { // the identical signed message again
						built = append(built, built[0])
						specs = append(specs, specs[0])
						continue
					}
					key := strings.ToLower(from.EthAddr.Hex())
					if _, ok := next[key]; !ok {
						next[key] = a.EvmKeeper.GetAccNonce(ctx, from.EthAddr)
					}
					sp := ethMsgSpec{from: from, nonce: next[key], gasLimit: 21000, price: new(big.Int).Set(e12), value: big.NewInt(0), kind: "transfer"}
					pick := r.Pick(10)
					if crossStale {
						pick = 9
						if j == 1 {
							sp.nonce = specs[0].nonce + 1
						}
					}
					if sameNonce && j < 2 {
						pick = 9
						if j == 1 {
							sp.nonce = specs[0].nonce
						}
					}
					switch pick { // nonce
					case 0:
						sp.nonce += uint64(r.Range(1, 3)) // gap
					case 1:
						if sp.nonce > 0 {
							sp.nonce -= uint64(r.Range(1, int64(min(int(sp.nonce), 3)))) // stale
						}
					}
					switch r.Pick(6) { // price
					case 0:
						sp.price = big.NewInt(1_500_000_000_007)
					case 1:
						sp.price = big.NewInt(500_000_000_000) // below the base fee: charged at the base fee
					case 2:
						sp.price = new(big.Int).Mul(e12, big.NewInt(r.Range(1, 50)))
					case 3:
						sp.price = big.NewInt(r.Range(1_000_000_000_000, 3_000_000_000_000))
					}
					switch r.Pick(5) { // tx type
					case 0:
						sp.accessL = true
					case 1:
						sp.tip = big.NewInt(r.Range(0, 2_000_000_000_000))
						if sp.price.Cmp(e12) < 0 {
							sp.price = new(big.Int).Set(e12)
						}
						if sp.tip.Cmp(sp.price) > 0 && !r.Chance(1, 6) {
							sp.tip = new(big.Int).Set(sp.price)
						}
						if r.Chance(1, 2) { // a fee cap far above base fee + tip: charged (and refunded) at the effective price, not at the cap
							sp.price = new(big.Int).Mul(e12, big.NewInt(r.Range(3, 40)))
							sp.tip = big.NewInt(r.Range(0, 1_000_000_000_000))
						}
					}
					toAcc := accs[r.Pick(4)].EthAddr
					switch r.Pick(10) { // what it does
					case 0, 1, 2:
						sp.to, sp.value = &toAcc, new(big.Int).Mul(e12, big.NewInt(r.Range(1, 1000)))
					case 3:
						sp.to, sp.value = &toAcc, new(big.Int).Add(new(big.Int).Mul(e12, big.NewInt(r.Range(1, 1000))), big.NewInt(r.Range(1, 999_999_999_999))) // not a whole unibi
					case 4:
						sp.to, sp.value, sp.kind = &toAcc, big.NewInt(r.Range(1, 999_999_999_999)), "fail" // below one unibi: the message errors
					case 5:
						sp.to, sp.gasLimit, sp.kind = &reverter, 100_000, "revert"
					case 6:
						sp.to, sp.gasLimit, sp.data = &logger, 200_000, []byte{byte(r.Pick(4)), 0, byte(r.Pick(2)), byte(r.Pick(3))}
					case 7:
						sp.to, sp.gasLimit, sp.data, sp.kind = nil, 300_000, easm.Deployer(loggerRuntime()), "create"
					case 8:
						sp.to, sp.gasLimit, sp.kind = &toAcc, 20_000, "fail" // below the intrinsic gas
					default:
						sp.to = &toAcc
						if r.Chance(1, 2) {
							// a successful call of a Nibiru precompile's query method (no value, the sender's balance untouched in the
							// StateDB): the precompile entry flushes the StateDB — with the sender's pinned nonce — into its cache context
							pcAddr := precompile.PrecompileAddr_FunToken
							in, _ := embeds.SmartContract_FunToken.ABI.Pack("whoAmI", from.NibiruAddr.String())
							sp.to, sp.data, sp.gasLimit = &pcAddr, in, 200_000
						}
					}
					if drain && j < 2 {
						sp = ethMsgSpec{from: from, nonce: next[key], gasLimit: 21000, price: new(big.Int).Set(e12), value: new(big.Int).Set(drainVal), kind: "transfer"}
						sp.to = &toAcc
						if toAcc == from.EthAddr {
							sp.to = &accs[3].EthAddr
						}
						if j == 1 && r.Chance(1, 2) {
							sp.to, sp.gasLimit, sp.data, sp.kind = nil, 300_000, easm.Deployer(loggerRuntime()), "create"
						}
					} else if r.Chance(1, 12) {
						sp.badSig = 1 + r.Pick(2)
					}
					if r.Chance(1, 25) && sp.kind == "transfer" { // more than the balance: refused by the ante handler
						bal := a.BankKeeper.GetBalance(ctx, from.NibiruAddr, "unibi").Amount.BigInt()
						sp.value = new(big.Int).Mul(e12, new(big.Int).Add(bal, big.NewInt(r.Range(0, 1000))))
					}
					m, err := sp.build()
					if err != nil {
						return err
					}
					built = append(built, m)
					specs = append(specs, sp)
					next[key] = sp.nonce + 1
				}
				var err error
				tx, err = wrapEthMsgs(a, built)
				if err != nil {
					return err
				}
			}
			res := chain.Deliver(tx)
			cls := "ok"
			if res.Code != 0 {
				cls = "rejected"
				if strings.Contains(res.Log, "EthereumTx error") {
					cls = "execfailed"
				}
			}
			// gas used per message, from the responses
			var used []uint64
			var failedMsg []bool
			if res.Code == 0 {
				var txMsgData sdk.TxMsgData
				if err := a.AppCodec().Unmarshal(res.Data, &txMsgData); err == nil {
					for _, any := range txMsgData.MsgResponses {
						var resp evm.MsgEthereumTxResponse
						if err := a.AppCodec().Unmarshal(any.Value, &resp); err == nil {
							used = append(used, resp.GasUsed)
							failedMsg = append(failedMsg, resp.Failed())
						}
					}
				}
			}
			if specs != nil {
				opMsgs = nil
				for j, sp := range specs {
					u := uint64(0)
					if j < len(used) {
						u = used[j]
					}
					tip := "-"
					if sp.tip != nil {
						tip = sp.tip.String()
					}
					to := "-"
					if sp.to != nil {
						to = strings.ToLower(sp.to.Hex())
					}
					opMsgs = append(opMsgs, fmt.Sprintf("%s/%d/%d/%s/%s/%s/%s/%s/%d/%s", strings.ToLower(sp.from.EthAddr.Hex()), sp.nonce, sp.gasLimit, tip, sp.price, sp.value,
						b01(sp.badSig == 0), sp.kind, u, to))
				}
				if res.Code == 0 || r.Chance(1, 3) {
					resubmit = append(resubmit, tx)
					resubmitOps = append(resubmitOps, strings.Join(opMsgs, ","))
					if len(resubmit) > 20 {
						resubmit, resubmitOps = resubmit[1:], resubmitOps[1:]
					}
				}
			} else if res.Code == 0 {
				// a replayed tx that was accepted: fill in the gas used
				for j := range opMsgs {
					f := strings.Split(opMsgs[j], "/")
					if j < len(used) {
						f[8] = fmt.Sprint(used[j])
					}
					opMsgs[j] = strings.Join(f, "/")
				}
			}
			if os.Getenv("VERIF_DEBUG") != "" && res.Code != 0 {
				fmt.Fprintln(os.Stderr, "DEBUG", w.N+1, cls, res.Codespace, res.Code, res.Log)
			}
			// where the contract creations of an accepted tx put their code: for each creation message `signer/nonce:E:F`, E = code
			// exists at CreateAddress(signer, nonce), F = the message reported a VM failure (fifth token: for the oracle, not the model)
			var deployed []string
			if res.Code == 0 && specs != nil {
				for j, sp := range specs {
					if sp.kind != "create" {
						continue
					}
					at := crypto.CreateAddress(sp.from.EthAddr, sp.nonce)
					acc := a.EvmKeeper.GetAccount(chain.Ctx(), at)
					f := j < len(failedMsg) && failedMsg[j]
					deployed = append(deployed, fmt.Sprintf("%s/%d:%s:%s", strings.ToLower(sp.from.EthAddr.Hex()), sp.nonce, b01(acc != nil && acc.IsContract()), b01(f)))
				}
			}
			w.Count("tx:" + cls)
			w.Step("evmtx tx "+strings.Join(opMsgs, ","), cls+" "+render(chain.Ctx())+" D="+items(deployed))
		}
		chain.End()
		chain.Commit()
	}
	return nil
}
