/-
  NibiruModel.Determinism — Go's map iteration as an arbitrary permutation, and the five ways the consensus code uses a map
  iteration (x/common/set, x/common/omap, x/evm/statedb/journal.go, state_object.go, x/oracle/keeper, x/evm/precompile, app):
    sorted     the keys are collected and sorted before anything order-sensitive happens
    keyed      each entry updates only its own key of a keyed store (a Go map, a KV store keyed by the entry)
    sum        the entries are folded with a commutative, associative operation
    firstMatch the loop returns the first entry matching a predicate that at most one entry satisfies
    events     the loop only emits events / logs (not part of the app hash or of the hashed tx results)
    leak       the iteration order escapes into a value that is returned to the caller
-/
import NibiruModel.Prelude
namespace Nibiru.Determinism

inductive Use where | sorted | keyed | sum | firstMatch | events | leak
deriving Repr, DecidableEq

/-- every map-range site of the consensus packages (as `tools/mapranges` prints them) with its class -/
def expectedSites : List (String × Use) := [
  ("app:*NibiruApp.ModuleAccountAddrs:maccPerms", .keyed),
  ("app:BlockedAddresses:maccPerms", .keyed),
  ("app:NewNibiruApp:app.ModuleManager.Modules", .keyed),
  ("app:NewNibiruApp:app.keys", .keyed),
  ("x/common/asset:registry.BaseDenoms:r", .keyed),
  ("x/common/asset:registry.Pair:r[base]", .firstMatch),
  ("x/common/asset:registry.QuoteDenoms:r", .keyed),
  ("x/common/asset:registry.QuoteDenoms:r[base]", .keyed),
  ("x/common/omap:*SortedMap[K, V].Data:om.InternalData()", .keyed),
  ("x/common/omap:*SortedMap[K, V].Union:kvMap", .keyed),
  ("x/common/omap:*SortedMap[K, V].ensureOrder:om.data", .sorted),
  ("x/common/set:Set[T].ToSlice:set", .leak),
  ("x/evm/evmmodule:ProvideNibiruBankModule:in.AccountKeeper.GetModulePermissions()", .keyed),
  ("x/evm/keeper:*Keeper.AddPrecompiles:precompileMap", .keyed),
  ("x/evm/precompile:InitPrecompiles:vm.PrecompiledContractsBerlin", .keyed),
  ("x/evm/precompile:methodById:abi.Methods", .firstMatch),
  ("x/evm/statedb:*StateDB.DebugDirtiesCount:s.Journal.dirties", .sum),
  ("x/evm/statedb:*StateDB.DebugStateObjects:s.stateObjects", .keyed),
  ("x/evm/statedb:*journal.sortedDirties:j.dirties", .sorted),
  ("x/evm/statedb:Storage.SortedKeys:s", .sorted),
  ("x/oracle/keeper:Keeper.UpdateExchangeRates:validatorPerformances", .events),
  ("x/oracle/keeper:Keeper.incrementAbstainsByOmission:validatorPerformances", .keyed),
  ("x/oracle/keeper:Keeper.incrementMissCounters:validatorPerformances", .keyed),
  ("x/oracle/keeper:Keeper.rewardWinners:validatorPerformances", .keyed),
  ("x/oracle/types:ValidatorPerformances.TotalRewardWeight:vp", .sum)]

/-- what the body of each map-range loop does to anything that outlives one iteration (as `tools/mapranges` prints it): the
    assignments whose left-hand side is rooted in a variable declared outside the loop, and early exits. This is what the class
    above rests on: `m[key] = …` with the loop's own key (keyed), `x += …` / `x = x.Add(…)` (sum), `keys = append(keys, k)` followed
    by a sort (sorted), `return` on a predicate at most one entry satisfies (firstMatch), nothing at all (keyed store writes /
    events through calls). A new write — e.g. `last = v` — makes the order observable and needs a new look. -/
def expectedOuterWrites : List (String × List String) := [
  ("app:*NibiruApp.ModuleAccountAddrs:maccPerms", ["modAccAddrs[authtypes.NewModuleAddress(acc).String()] = true"]),
  ("app:BlockedAddresses:maccPerms", ["modAccAddrs[authtypes.NewModuleAddress(acc).String()] = true"]),
  ("app:NewNibiruApp:app.ModuleManager.Modules", []),
  ("app:NewNibiruApp:app.keys", []),
  ("x/common/asset:registry.BaseDenoms:r", []),
  ("x/common/asset:registry.Pair:r[base]", ["return NewPair(string(base), string(quote))"]),
  ("x/common/asset:registry.QuoteDenoms:r", []),
  ("x/common/asset:registry.QuoteDenoms:r[base]", []),
  ("x/common/omap:*SortedMap[K, V].Data:om.InternalData()", ["dataCopy[k] = v"]),
  ("x/common/omap:*SortedMap[K, V].Union:kvMap", ["om.data[key] = val"]),
  ("x/common/omap:*SortedMap[K, V].ensureOrder:om.data", ["keys = append(keys, key)"]),
  ("x/common/set:Set[T].ToSlice:set", ["slice = append(slice, s)"]),
  ("x/evm/evmmodule:ProvideNibiruBankModule:in.AccountKeeper.GetModulePermissions()", ["blockedAddresses[permission.GetAddress().String()] = true"]),
  ("x/evm/keeper:*Keeper.AddPrecompiles:precompileMap", []),
  ("x/evm/precompile:InitPrecompiles:vm.PrecompiledContractsBerlin", ["precompiles[addr] = pc"]),
  ("x/evm/precompile:methodById:abi.Methods", ["return &method, nil"]),
  ("x/evm/statedb:*StateDB.DebugDirtiesCount:s.Journal.dirties", ["dirtiesCount += dirtyCount"]),
  ("x/evm/statedb:*StateDB.DebugStateObjects:s.stateObjects", ["copyOfMap[key] = val"]),
  ("x/evm/statedb:*journal.sortedDirties:j.dirties", ["keys = append(keys, k)"]),
  ("x/evm/statedb:Storage.SortedKeys:s", ["keys = append(keys, k)"]),
  ("x/oracle/keeper:Keeper.UpdateExchangeRates:validatorPerformances", []),
  ("x/oracle/keeper:Keeper.incrementAbstainsByOmission:validatorPerformances", ["validatorPerformances[valAddr] = performance"]),
  ("x/oracle/keeper:Keeper.incrementMissCounters:validatorPerformances", []),
  ("x/oracle/keeper:Keeper.rewardWinners:validatorPerformances", ["distributedRewards = distributedRewards.Add(rewardPortion...)"]),
  ("x/oracle/types:ValidatorPerformances.TotalRewardWeight:vp", ["totalRewardWeight += validator.RewardWeight"])]

/-- consumers of the one leaking site (`set.Set.ToSlice`) and what they must do with the slice -/
def expectedToSliceConsumers : List (String × Bool) := [
  ("x/common/set:Set[T].Len", false),                       -- only the length is used
  ("x/sudo/keeper:Sudoers.ToPb", true),                     -- persisted: must sort
  ("x/sudo/types:MsgEditSudoers.ValidateBasic", false)]     -- only inside an error message (not hashed)

/-- the only goroutine of the consensus path: omap.Range feeds a channel from a pre-sorted slice, single producer / single
    consumer; TraceEthTxMsg is a query -/
def expectedGoStmts : List String := ["x/common/omap:*SortedMap[K, V].Range", "x/evm/keeper:*Keeper.TraceEthTxMsg"]
/-- wall-clock reads: only as the start time of telemetry measurements (and test fixtures) -/
def expectedTimeNow : List String :=
  ["x/epochs:BeginBlocker", "x/oracle/keeper:CreateTestFixture", "x/oracle/types:GenerateRandomTestCase", "x/oracle:EndBlocker"]

def leNat (a b : Nat) : Bool := decide (a ≤ b)

/-- `sort.Slice` / `sort.Strings` on collected keys (keys as naturals) -/
def sortKeys (l : List Nat) : List Nat := l.mergeSort leNat

/-- a keyed store and an update that touches only its own key (the new value may depend on the old value at that key) -/
abbrev KStore := Nat → Option Nat
def applyKeyed (st : KStore) (e : Nat × (Option Nat → Option Nat)) : KStore := fun x => if x = e.1 then e.2 (st x) else st x

/-- what `Sudoers.ToPb` persists, given the order in which the map iteration delivered the contracts -/
def toPb (sorts : Bool) (iterationOrder : List Nat) : List Nat := if sorts then sortKeys iterationOrder else iterationOrder

end Nibiru.Determinism
