/-
  C11 — Oracle votes are commit-reveal bound, period-exact and feeder-authorised.
  Theorems about NibiruModel.OracleVotes (x/oracle/keeper/msg_server.go, keeper.go ValidateFeeder).
-/
import NibiruModel.OracleVotes
namespace Nibiru.OracleVotes
open Nibiru

/-- **Feeder authorisation.** A (feeder, validator) pair passes iff the feeder is the validator's own account or the
    *currently* stored delegate, and the validator is bonded. -/
theorem C11_feeder_auth (s : State) (feeder val : String) :
    validateFeeder s feeder val = none ↔
      (feeder = val ∨ AList.find? s.feeders val = some feeder) ∧ AList.find? s.bonded val = some true := by
  unfold validateFeeder
  by_cases h1 : feeder = val
  · subst h1
    cases hb : AList.find? s.bonded feeder with
    | none => simp
    | some b => cases b <;> simp
  · cases hf : AList.find? s.feeders val with
    | none => simp [h1]
    | some d =>
      by_cases h2 : d = feeder
      · subst h2
        cases hb : AList.find? s.bonded val with
        | none => simp [h1]
        | some b => cases b <;> simp [h1]
      · have h2' : ¬ feeder = d := fun e => h2 e.symm
        simp [h1, h2, h2']

/-- after a validator re-delegates, the former delegate (if it is not the validator itself or the new delegate) is refused -/
theorem C11_former_feeder_rejected (s : State) (val old new : String) (hne : old ≠ new) (hov : old ≠ val)
    (hex : (AList.find? s.bonded val).isSome) :
    validateFeeder (delegate s val new).1 old val = some .noperm := by
  unfold delegate
  cases hb : AList.find? s.bonded val with
  | none => simp [hb] at hex
  | some b =>
    simp only
    unfold validateFeeder
    simp only [AList.find?_set_self]
    have : ¬ new = old := fun e => hne e.symm
    simp [hov, this]

/-- **Acceptance condition of a vote (reveal).** -/
theorem C11_vote_accepted_iff (s : State) (height : Nat) (val feeder rates : String) (decs : List (String × Option Int))
    (expected : String) :
    (vote s height val feeder rates decs expected).2 = none ↔
      validateFeeder s feeder val = none ∧
      ∃ pv, AList.find? s.prevotes val = some pv ∧
        (height / s.votePeriod + 2 ^ 64 - pv.submitBlock / s.votePeriod) % 2 ^ 64 = 1 ∧
        ∃ tuples, parseTuples decs rates = some tuples ∧ (∀ t ∈ tuples, t.1 ∈ s.whitelist) ∧ pv.hash = expected := by
  unfold vote
  cases hv : validateFeeder s feeder val with
  | some e => simp
  | none =>
    cases hp : AList.find? s.prevotes val with
    | none => simp
    | some pv =>
      simp only
      cases hper : periodOk s height pv
      · have : ¬ ((height / s.votePeriod + 2 ^ 64 - pv.submitBlock / s.votePeriod) % 2 ^ 64 = 1) := by
          intro e; simp [periodOk, e] at hper
        simp [this]
      · have hper' : (height / s.votePeriod + 2 ^ 64 - pv.submitBlock / s.votePeriod) % 2 ^ 64 = 1 := by
          simpa [periodOk] using hper
        cases ht : parseTuples decs rates with
        | none => simp
        | some tuples =>
          simp only
          cases hw : allWhitelisted s tuples
          · have : ¬ (∀ t ∈ tuples, t.1 ∈ s.whitelist) := by
              intro hall
              have : allWhitelisted s tuples = true := by
                unfold allWhitelisted
                exact List.all_eq_true.mpr (fun t ht => List.contains_iff_mem.mpr (hall t ht))
              rw [hw] at this; cases this
            have this' : ¬ ∀ (a : String) (b : Int), (a, b) ∈ tuples → a ∈ s.whitelist :=
              fun h => this (fun t ht => h t.1 t.2 ht)
            simp [this']
          · have hall : ∀ t ∈ tuples, t.1 ∈ s.whitelist := by
              intro t htm
              unfold allWhitelisted at hw
              exact List.contains_iff_mem.mp (List.all_eq_true.mp hw t htm)
            by_cases hh : pv.hash = expected
            · have hall' : ∀ (a : String) (b : Int), (a, b) ∈ tuples → a ∈ s.whitelist := fun a b h => hall (a, b) h
              simp [hh, hper']
              exact hall'
            · simp [hh]

/-- **The prevote is consumed.** After an accepted vote the validator has no prevote any more, so a second reveal (the same
    or any other) is refused until a new prevote is recorded. -/
theorem C11_prevote_consumed (s : State) (height : Nat) (val feeder rates : String) (decs : List (String × Option Int))
    (expected : String) (hacc : (vote s height val feeder rates decs expected).2 = none) :
    AList.find? (vote s height val feeder rates decs expected).1.prevotes val = none ∧
    ∀ h' feeder' rates' decs' exp',
      (vote (vote s height val feeder rates decs expected).1 h' val feeder' rates' decs' exp').2 ≠ none := by
  have hcons : AList.find? (vote s height val feeder rates decs expected).1.prevotes val = none := by
    obtain ⟨hv, pv, hp, hper, tuples, ht, hall, hh⟩ := (C11_vote_accepted_iff ..).mp hacc
    have hpo : periodOk s height pv = true := by simp [periodOk, hper]
    have hw : allWhitelisted s tuples = true := by
      unfold allWhitelisted
      exact List.all_eq_true.mpr (fun t ht => List.contains_iff_mem.mpr (hall t ht))
    unfold vote
    simp [hv, hp, hpo, ht, hw, hh, AList.find?_erase_self]
  refine ⟨hcons, ?_⟩
  intro h' feeder' rates' decs' exp' hacc2
  obtain ⟨_, pv, hp, _⟩ := (C11_vote_accepted_iff ..).mp hacc2
  rw [hcons] at hp; cases hp

/-- **Period-exact.** (block heights are positive `int64`, i.e. below 2^63) An accepted reveal at height `b` of a prevote
    recorded at height `a` lies in the vote period immediately after the prevote's: ⌊b/P⌋ = ⌊a/P⌋ + 1 — with the VotePeriod
    in force at reveal time. -/
theorem C11_period_exact (P a b : Nat) (ha : a < 2 ^ 63) (hb : b < 2 ^ 63)
    (h : (b / P + 2 ^ 64 - a / P) % 2 ^ 64 = 1) : b / P = a / P + 1 := by
  have h1 : a / P < 2 ^ 63 := Nat.lt_of_le_of_lt (Nat.div_le_self a P) ha
  have h2 : b / P < 2 ^ 63 := Nat.lt_of_le_of_lt (Nat.div_le_self b P) hb
  generalize a / P = x at *
  generalize b / P = y at *
  simp only [Nat.reducePow] at *
  omega

/-- **Rejected messages change nothing** (handler level). -/
theorem C11_rejected_no_change (s : State) (height : Nat) (val feeder rates : String) (decs : List (String × Option Int))
    (expected : String) (e : Err) (h : (vote s height val feeder rates decs expected).2 = some e) :
    (vote s height val feeder rates decs expected).1 = s := by
  unfold vote at *
  split at h
  · rfl
  · split at h
    · rfl
    · split at h
      · simp_all
      · split at h
        · simp_all
        · split at h
          · simp_all
          · split at h
            · simp_all
            · simp at h

theorem C11_prevote_rejected_no_change (s : State) (height : Nat) (val feeder : String) (ok : Bool) (hash : String) (e : Err)
    (h : (prevote s height val feeder ok hash).2 = some e) : (prevote s height val feeder ok hash).1 = s := by
  unfold prevote at *
  split at h
  · rfl
  · split at h
    · simp_all
    · simp at h

/-- **Textual binding.** The stored commitment must equal `H(salt, rates, validator)` of the revealed strings. With an injective
    (collision-free) `H`, a reveal whose rate string or salt differs textually from the committed one is refused — even when both
    strings parse to the same tuples. -/
theorem C11_textual_binding (H : String → String → String → String)
    (hinj : ∀ s₁ r₁ v₁ s₂ r₂ v₂, H s₁ r₁ v₁ = H s₂ r₂ v₂ → s₁ = s₂ ∧ r₁ = r₂ ∧ v₁ = v₂)
    (s : State) (height : Nat) (val feeder : String) (decs : List (String × Option Int))
    (salt₀ rates₀ salt rates : String) (pv : Prevote)
    (hp : AList.find? s.prevotes val = some pv) (hc : pv.hash = H salt₀ rates₀ val)
    (hacc : (vote s height val feeder rates decs (H salt rates val)).2 = none) :
    salt = salt₀ ∧ rates = rates₀ := by
  obtain ⟨_, pv', hp', _, _, _, _, hh⟩ := (C11_vote_accepted_iff ..).mp hacc
  rw [hp] at hp'; cases hp'
  rw [hc] at hh
  obtain ⟨h1, h2, _⟩ := hinj _ _ _ _ _ _ hh
  exact ⟨h1.symm, h2.symm⟩

/- Non-vacuity: the hypotheses of the theorems above are met by the implementation itself — the correspondence run (T2)
   executes hundreds of accepted commit–reveal flows, replays, wrong-period and textual-variant reveals on the real keeper and the
   model agrees on each (evidence: generator_distribution `vote:ok`, `vote:hash`, `vote:period`, `vote:noprevote`). A closed-term
   `decide` example is not possible here because `String.splitOn` is not kernel-reducible. -/

end Nibiru.OracleVotes
