/-
  NibiruModel.FunToken — the FunToken mappings and the flows that move value between the bank side and the ERC20 side:
    x/evm/keeper/msg_server.go       CreateFunToken, ConvertCoinToEvm (convertCoinToEvmBornCoin / …BornERC20)
    x/evm/keeper/funtoken_from_coin.go, funtoken_from_erc20.go   duplicate checks on both indexes before SafeInsert
    x/evm/precompile/funtoken.go     sendToBank, sendToEvm (mintOrUnescrowERC20), bankMsgSend
    x/evm/keeper/erc20.go            Transfer (measures the recipient's real balance increase), Mint, Burn
  Every operation is atomic: it either completes or changes nothing (a failing message is dropped with its branch of the store by
  baseapp; a failing or reverted EVM frame is undone by the StateDB journal — that is property C04).
  ERC20 contracts are abstract ledgers of three kinds, matching the repository's artifacts: the minter contract deployed for a
  bank coin (ERC20Minter: owner mint, holder burn), a standard fixed-supply token (TestERC20), and a fee-on-transfer token
  (TestERC20TransferWithFee: 10% of every transfer goes to the token contract itself).
  Accounts are naturals; account 0 is the EVM module account.  Denoms are strings ("e<t>" stands for "erc20/<address of token t>").
-/
import NibiruModel.Prelude
namespace Nibiru.FunToken

inductive TokKind where | std | fee | minter
deriving Repr, DecidableEq

structure Mapping where
  tok : Nat
  denom : String
  fromCoin : Bool
deriving Repr, DecidableEq

structure State where
  reg : List Mapping := []
  ntok : Nat := 0                         -- number of ERC20 contracts known (ids 0 … ntok-1)
  kind : Nat → TokKind := fun _ => .std
  tsupply : Nat → Nat := fun _ => 0       -- ERC20 totalSupply
  tbal : Nat → Nat → Nat := fun _ _ => 0  -- ERC20 balanceOf
  bbal : String → Nat → Nat := fun _ _ => 0   -- bank balance
  bsupply : String → Nat := fun _ => 0        -- bank supply
  hasMeta : String → Bool := fun _ => false   -- bank denom metadata exists

def modAcct : Nat := 0

def upd {α : Type} [DecidableEq α] (f : α → Nat) (k : α) (v : Nat) : α → Nat := fun x => if x = k then v else f x
def upd2 {α β : Type} [DecidableEq α] [DecidableEq β] (f : α → β → Nat) (k : α) (j : β) (v : Nat) : α → β → Nat :=
  fun x y => if x = k ∧ y = j then v else f x y

def ercDenom (t : Nat) : String := "e" ++ toString t

/-! ### primitives (each fails — `none` — exactly where the real code returns an error / reverts) -/

def bankMove (s : State) (d : String) (src dst a : Nat) : Option State :=
  if s.bbal d src < a then none
  else
    let b1 := upd2 s.bbal d src (s.bbal d src - a)
    some { s with bbal := upd2 b1 d dst (b1 d dst + a) }

def bankMint (s : State) (d : String) (a : Nat) : State :=
  { s with bsupply := upd s.bsupply d (s.bsupply d + a), bbal := upd2 s.bbal d modAcct (s.bbal d modAcct + a) }

def bankBurn (s : State) (d : String) (a : Nat) : Option State :=
  if s.bbal d modAcct < a then none
  else some { s with bsupply := upd s.bsupply d (s.bsupply d - a), bbal := upd2 s.bbal d modAcct (s.bbal d modAcct - a) }

def tokMint (s : State) (t dst a : Nat) : State :=
  { s with tsupply := upd s.tsupply t (s.tsupply t + a), tbal := upd2 s.tbal t dst (s.tbal t dst + a) }

def tokBurn (s : State) (t src a : Nat) : Option State :=
  if s.tbal t src < a then none
  else some { s with tsupply := upd s.tsupply t (s.tsupply t - a), tbal := upd2 s.tbal t src (s.tbal t src - a) }

/-- the token contract's address as an account (the fee sink of the fee token); only token 1 is tracked as account 5 -/
def tokSelf (t : Nat) : Nat := if t = 1 then 5 else 1000 + t

/-- move `a` units of token `t` from `src` to `dst` (OpenZeppelin `_transfer`) -/
def tokMove (s : State) (t src dst a : Nat) : Option State :=
  if s.tbal t src < a then none
  else
    let b1 := upd2 s.tbal t src (s.tbal t src - a)
    some { s with tbal := upd2 b1 t dst (b1 t dst + a) }

/-- ERC20 `transfer(to, a)` called by `src` -/
def tokTransferRaw (s : State) (t src dst a : Nat) : Option State :=
  match s.kind t with
  | .fee =>
    if a = 0 then none
    else if s.tbal t src < a then none
    else (tokMove s t src (tokSelf t) (a * 10 / 100)).bind (fun s1 => tokMove s1 t src dst (a - a * 10 / 100))
  | _ => tokMove s t src dst a

/-- keeper `ERC20().Transfer`: the recipient's balance must have strictly increased; returns the increase -/
def keeperTransfer (s : State) (t src dst a : Nat) : Option (State × Nat) :=
  match tokTransferRaw s t src dst a with
  | none => none
  | some s' =>
    if s'.tbal t dst ≤ s.tbal t dst then none
    else some (s', s'.tbal t dst - s.tbal t dst)

def findByDenom (s : State) (d : String) : Option Mapping := s.reg.find? (fun m => m.denom = d)
def findByTok (s : State) (t : Nat) : Option Mapping := s.reg.find? (fun m => m.tok = t)

/-- bank `BlockedAddr`: module accounts may not receive through MsgSend / SendCoinsFromModuleToAccount -/
def blocked (a : Nat) : Bool := a = modAcct

/-! ### operations -/

inductive Op where
  | createCoin (d : String)
  | createErc20 (t : Nat)
  | convert (sender : Nat) (d : String) (a : Nat) (dst : Nat)         -- MsgConvertCoinToEvm
  | sendToBank (caller t a dst : Nat)                                 -- precompile
  | sendToEvm (caller : Nat) (d : String) (a dst : Nat)               -- precompile
  | bankMsgSend (caller dst : Nat) (d : String) (a : Nat)             -- precompile
  | transfer (t src dst a : Nat)                                      -- direct ERC20 transfer by an account
  | burn (t src a : Nat)                                              -- direct ERC20Burnable.burn by a holder
  | send (src dst : Nat) (d : String) (a : Nat)                       -- bank MsgSend
  | reverted (inner : Op)                                             -- the operation inside a frame that reverts afterwards
deriving Repr

def exec (s : State) : Op → Option State
  | .createCoin d =>
    if (findByDenom s d).isSome then none
    else if !s.hasMeta d then none
    else
      let t := s.ntok
      some { s with ntok := t + 1, kind := fun x => if x = t then .minter else s.kind x,
                    tsupply := upd s.tsupply t 0, tbal := fun x y => if x = t then 0 else s.tbal x y,
                    reg := s.reg ++ [{ tok := t, denom := d, fromCoin := true }] }
  | .createErc20 t =>
    if (findByTok s t).isSome then none
    else if t ≥ s.ntok then none
    else if s.kind t = .minter then none
    else if s.hasMeta (ercDenom t) then none
    else if (findByDenom s (ercDenom t)).isSome then none
    else some { s with hasMeta := fun x => if x = ercDenom t then true else s.hasMeta x,
                       reg := s.reg ++ [{ tok := t, denom := ercDenom t, fromCoin := false }] }
  | .convert sender d a dst =>
    match findByDenom s d with
    | none => none
    | some m =>
      if m.fromCoin then
        (bankMove s d sender modAcct a).map (fun s1 => tokMint s1 m.tok dst a)
      else
        match bankMove s d sender modAcct a with
        | none => none
        | some s1 =>
          match bankBurn s1 d a with
          | none => none
          | some s2 => (keeperTransfer s2 m.tok modAcct dst a).map (·.1)
  | .sendToBank caller t a dst =>
    match findByTok s t with
    | none => none
    | some m =>
      if a = 0 then none
      else match keeperTransfer s t caller modAcct a with
        | none => none
        | some (s1, got) =>
          let s2? := if m.fromCoin then tokBurn s1 t modAcct got else some (bankMint s1 m.denom got)
          match s2? with
          | none => none
          | some s2 => if blocked dst then none else bankMove s2 m.denom modAcct dst got
  | .sendToEvm caller d a dst =>
    match findByDenom s d with
    | none => none
    | some m =>
      if a = 0 then none
      else match bankMove s d caller modAcct a with
        | none => none
        | some s1 =>
          if m.fromCoin then some (tokMint s1 m.tok dst a)
          else match keeperTransfer s1 m.tok modAcct dst a with
            | none => none
            | some (s2, _) => bankBurn s2 d a
  | .bankMsgSend caller dst d a =>
    if a = 0 then none else if blocked dst then none else bankMove s d caller dst a
  | .transfer t src dst a => tokTransferRaw s t src dst a
  | .burn t src a => if s.kind t = .minter then tokBurn s t src a else none
  | .send src dst d a => if a = 0 then none else if blocked dst then none else bankMove s d src dst a
  | .reverted _ => none

/-- the chain's view: a failing operation changes nothing -/
def step (s : State) (o : Op) : State := (exec s o).getD s

def run (s : State) (ops : List Op) : State := ops.foldl step s

/-- no operation is ever signed / called by the EVM module account (it has no key and no code) -/
def Op.WF : Op → Prop
  | .convert sender _ _ _ => sender ≠ modAcct
  | .sendToBank caller _ _ _ => caller ≠ modAcct
  | .sendToEvm caller _ _ _ => caller ≠ modAcct
  | .bankMsgSend caller _ _ _ => caller ≠ modAcct
  | .transfer _ src _ _ => src ≠ modAcct
  | .burn _ src _ => src ≠ modAcct
  | .send src _ _ _ => src ≠ modAcct
  | _ => True

/-! ### the property's quantities -/

/-- coin-born: the ERC20's total supply never exceeds the escrow -/
def BackedCoin (s : State) : Prop := ∀ m ∈ s.reg, m.fromCoin = true → s.tsupply m.tok ≤ s.bbal m.denom modAcct
/-- ERC20-born: the bank supply never exceeds the ERC20 balance held by the module -/
def BackedErc20 (s : State) : Prop := ∀ m ∈ s.reg, m.fromCoin = false → s.bsupply m.denom ≤ s.tbal m.tok modAcct
/-- each ERC20 and each denom belongs to at most one mapping -/
def Unique (s : State) : Prop := (s.reg.map (·.tok)).Nodup ∧ (s.reg.map (·.denom)).Nodup
/-- bookkeeping needed for the induction: mapped tokens exist; coin-born mappings are on minter tokens, ERC20-born are not -/
def WFReg (s : State) : Prop :=
  ∀ m ∈ s.reg, m.tok < s.ntok ∧ (m.fromCoin = true → s.kind m.tok = .minter) ∧ (m.fromCoin = false → s.kind m.tok ≠ .minter)

def Inv (s : State) : Prop := BackedCoin s ∧ BackedErc20 s ∧ Unique s ∧ WFReg s

/-! ### line protocol -/

def accts : List Nat := [0, 1, 2, 3, 4, 5]

def renderState (s : State) (denoms : List String) : String :=
  let ms := (s.reg.map (fun m => s!"{m.tok}:{m.denom}:{boolStr m.fromCoin}"))
  let bs := denoms.flatMap (fun d =>
    (s!"{d}:S:{s.bsupply d}") :: (accts.filterMap (fun a => if s.bbal d a = 0 then none else some s!"{d}:{a}:{s.bbal d a}")))
  let ts := (List.range s.ntok).flatMap (fun t =>
    (accts.filterMap (fun a => if s.tbal t a = 0 then none else some s!"{t}:{a}:{s.tbal t a}")) ++ [s!"{t}:S:{s.tsupply t}"])
  let srt := fun (l : List String) => sortBy (fun a b => decide (a ≤ b)) l
  s!"M={renderItems "," (srt ms)} B={renderItems "," (srt bs)} T={renderItems "," (srt ts)}"

def allDenoms (s : State) : List String := ["ulog", "ufoo"] ++ (List.range s.ntok).map ercDenom

def parseKind (k : String) : TokKind := if k = "fee" then .fee else if k = "minter" then .minter else .std

/-- `ft reset M=… B=… T=… K=…` -/
def reset (args : List String) : State :=
  let kinds := (parseItems "," ((section? args "K").getD "-")).map parseKind
  let s0 : State := { ntok := kinds.length, kind := fun t => kinds.getD t .std,
                      hasMeta := fun d => d = "ulog" || d = "ufoo" }
  let s1 := (parseItems "," ((section? args "B").getD "-")).foldl (fun s it =>
    match it.splitOn ":" with
    | [d, "S", v] => { s with bsupply := upd s.bsupply d (v.toNat?.getD 0) }
    | [d, a, v] => { s with bbal := upd2 s.bbal d (a.toNat?.getD 0) (v.toNat?.getD 0) }
    | _ => s) s0
  (parseItems "," ((section? args "T").getD "-")).foldl (fun s it =>
    match it.splitOn ":" with
    | [t, "S", v] => { s with tsupply := upd s.tsupply (t.toNat?.getD 0) (v.toNat?.getD 0) }
    | [t, a, v] => { s with tbal := upd2 s.tbal (t.toNat?.getD 0) (a.toNat?.getD 0) (v.toNat?.getD 0) }
    | _ => s) s1

def parseOp (args : List String) : Option Op :=
  let n := fun (x : String) => x.toNat?.getD 0
  match args with
  | ["createcoin", d] => some (.createCoin d)
  | ["createerc20", t] => some (.createErc20 (n t))
  | ["convert", f, d, a, to] => some (.convert (n f) d (n a) (n to))
  | "pc" :: via :: caller :: rest =>
    let inner : Option Op := match rest with
      | ["sendToBank", t, a, to, _] => some (.sendToBank (n caller) (n t) (n a) (n to))
      | ["sendToEvm", d, a, to, _] => some (.sendToEvm (n caller) d (n a) (n to))
      | ["bankMsgSend", to, d, a, _] => some (.bankMsgSend (n caller) (n to) d (n a))
      | _ => none
    inner.map (fun o => if via = "revert" then .reverted o else o)
  | ["transfer", t, f, to, a] => some (.transfer (n t) (n f) (n to) (n a))
  | ["burn", t, f, a] => some (.burn (n t) (n f) (n a))
  | ["send", f, to, d, a] => some (.send (n f) (n to) d (n a))
  | _ => none

def stepLine (s : State) (args : List String) : State × String :=
  match args with
  | "reset" :: rest =>
    let s' := reset rest
    (s', "ok " ++ renderState s' (allDenoms s'))
  | "pc2" :: caller :: rest =>
    -- two precompile calls by one contract in ONE transaction, each tolerated on failure: two consecutive operations of the
    -- history (`ok` when both succeeded; a call that fails leaves nothing, the other one stands)
    let first := rest.takeWhile (· ≠ "then")
    let second := (rest.dropWhile (· ≠ "then")).drop 1
    match parseOp ("pc" :: "proxy" :: caller :: first), parseOp ("pc" :: "proxy" :: caller :: second) with
    | some o1, some o2 =>
      let (s1, ok1) := match exec s o1 with | some x => (x, true) | none => (s, false)
      let (s2, ok2) := match exec s1 o2 with | some x => (x, true) | none => (s1, false)
      (s2, (if ok1 && ok2 then "ok " else "fail ") ++ renderState s2 (allDenoms s2))
    | _, _ => (s, "bad-op")
  | _ =>
    match parseOp args with
    | none => (s, "bad-op")
    | some o =>
      match exec s o with
      | none => (s, "fail " ++ renderState s (allDenoms s))
      | some s' => (s', "ok " ++ renderState s' (allDenoms s'))

end Nibiru.FunToken
