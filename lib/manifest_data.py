ALL = ["C%02d" % i for i in range(1, 21)]

CLAIMED = {
    "C09": dict(
        text="PARTIAL. Lean 4 theorems over an interleaving model of the one mutable field that block execution and queries share "
             "(Keeper.Bank.StateDB: published by NewStateDB, adopted and cleared by EthereumTx / ConvertCoinToEvm in DeliverTx and in "
             "Simulate alike, written through by every NIBI-moving bank operation): for EVERY interleaving of the block thread with a "
             "query whose steps are isolated (EthCall / EstimateGas with a private StateDB and no bank-moving precompile, plain reads) "
             "the block commits exactly what it commits alone (simulation relation, induction over schedules); closed "
             "counterexample schedules for an eth_call reaching a bank-moving precompile and for a simulated Ethereum tx (inside the "
             "block's tx, and published first). The counterexamples are replayed on the real keeper at deterministic yield points "
             "(a precompile registered through Keeper.AddPrecompiles runs the query in the middle of the block's tx) and recorded as "
             "known findings C09-ethcall-bank-precompile, C09-simulate-ethtx, C09-simulate-convert; the isolated query kinds are "
             "checked to leave the block's result unchanged. Correspondence: for every case (thirteen query kinds x four yield points) "
             "the model's prediction same / DIFFERS (the kind's program of pointer, StateDB, bank, flush and commit steps under the yield "
             "point's schedule) must equal what the real block execution shows; T1 facts pin that SetAccBalance writes back through the "
             "embedded BaseKeeper and that every bank override mirrors only gas-token movements.",
        note="The property is FALSE on the unchanged tree for the listed query kinds (not repaired: the repair is a redesign of how "
             "the StateDB reaches the bank wrapper). What no model can exhibit: the Go scheduler, the memory model, data races proper; "
             "the harness replays sequentialised schedules only. Trusted: Lean kernel; harness.",
        technique="Lean 4 proof (simulation relation over all interleavings; closed counterexample schedules by simp) + differential "
                  "correspondence (model predicts each case's verdict) + deterministic "
                  "yield-point replay on the real keeper with property oracle",
        ref="§7 C09"),
    "C01": dict(
        text="PARTIAL. Lean 4 theorems for every permutation in which Go may deliver a map's entries: the sorted key list is unique "
             "(sortedDirties, Storage.SortedKeys, omap.ensureOrder), a fold of per-key updates into a keyed store is order-independent "
             "(miss counters, per-validator rewards, account writes, Go-map copies), a sum is order-independent, a first-match loop over "
             "entries of which at most one matches is order-independent (methodById, registry.Pair), and Sudoers.ToPb persists one value "
             "when it sorts — with a counterexample when it does not (fix: d7fa6c9). T1 (typed go/packages census, regenerated on every "
             "run): the list of map-range sites, go statements, select statements, time.Now calls and consumers of set.Set.ToSlice in "
             "the consensus packages equals the classified expectation (a new site, or a consumer that stops sorting, breaks the "
             "obligation); for every map-range site also the writes to variables that outlive an iteration and the early exits. For the "
             "EVM write-back the class 'sorted' is proved on the model of the code itself (SDBOrder.lean): what commitCtx persists, "
             "and the state objects it leaves, are the same for every order in which the journal.dirties map delivers its keys, and "
             "per object for every order of DirtyStorage (C01_commit_independent_of_dirties_order, "
             "C01_commit_store_independent_of_dirties_order, C01_flush_independent_of_dirty_storage_order). T2: three real app replicas from one genesis executing identical blocks over all custom modules, compared "
             "on app hash, DeliverTx results and validator updates at every height.",
        note="NOT proved: that each site's loop body has the shape of its class (validated by the replica run), and the determinism of "
             "the SDK, IAVL, wasmvm, the go-ethereum interpreter, goroutine scheduling and the Go runtime. Trusted: Lean kernel; "
             "tools/mapranges; harness.",
        technique="Lean 4 proof (induction over List.Perm; core mergeSort uniqueness) + regenerated typed census of map iterations "
                  "(translator) + replica differential execution over ABCI with property oracle",
        ref="§7 C01"),
    "C20": dict(
        text="PARTIAL. Lean 4 theorems over a model of the custom modules' genesis export/import (every collections field of every "
             "keeper classified exported / normalised / transient / derived / dropped): for every module and every state, a second "
             "export after import equals the first (entry by entry for exported fields, on the exported projection for the normalised "
             "ones — oracle exchange rates, epochs — whatever the import context stamps); the oracle's reward id sequence after import "
             "is fresh (no pending reward overwritten) with the expression the source stores, counterexample for the expression as it "
             "was (fix: f01fc86). T1: the field table (module, field, kind, mentioned by ExportGenesis, mentioned by InitGenesis) and "
             "the RewardsID expression are regenerated from the source on every run and must match the classification (a new field, "
             "or a field dropped from an export, breaks the obligation). T2: full-application round trip on real apps — generated "
             "history over all custom modules, ExportGenesisForModules, InitChain of a fresh app, second export — comparing sections, "
             "balances, sequences, code, storage, ERC20 queries, TWAP, and module behaviour after import.",
        note="NOT proved: that the Go Init/ExportGenesis code implements the model per field (tied by the differential run) and the "
             "reachability side of 'every reachable state'. Known finding C20-oracle-twap-history (PriceSnapshots not exported). "
             "Trusted: Lean kernel; extractor; harness; SDK module manager and the non-Nibiru modules' genesis code.",
        technique="Lean 4 proof (list lemmas over classified store fields; decide on the regenerated table) + regenerated facts "
                  "(translator) + full-application export/InitChain/export differential run with property oracle",
        ref="§7 C20"),
    "C03": dict(
        text="PARTIAL. A reference semantics of the vm.StateDB interface in Lean (GethSpec: copy-on-snapshot transaction state over a "
             "persisted base) is validated on every run against upstream go-ethereum's real core/state.StateDB and compared with "
             "Nibiru's real StateDB on identical generated call sequences (three-way, line by line); generated multi-frame bytecode "
             "programs are executed through Nibiru's msg server and through go-ethereum's core.ApplyMessage on go-ethereum's state and "
             "compared per transaction (VM error, return data, gas used after refunds, logs) and per account (nonce, code, balance, "
             "storage). Theorems: over the reference semantics, RevertToSnapshot after ANY sequence of ordinary calls restores the "
             "transaction state exactly and never touches the persisted state or older snapshots (all call sequences, by induction); "
             "over the model of Nibiru's journal, every entry's Revert is the exact inverse of the mutation that appended it, and — by "
             "induction over ANY sequence of write calls on cached accounts — Snapshot … RevertToSnapshot succeeds and restores every "
             "observable of the StateDB (balances, nonces, code hashes, self-destruct flags, current and committed value of every "
             "slot, refund counter, log count, access list); the model of Nibiru's StateDB SIMULATES the reference semantics on ANY "
             "sequence of write calls on any accounts (cached, lazily loaded, created by the write, absent from the store): afterwards "
             "every account read, GetState, GetCommittedState, refund counter, log count and access list answer as the reference does "
             "(SDBSim.lean: relation preserved by every write, induction over the sequence; related start states exist for every "
             "store), on CreateAccount where evm.create may call it, and across a reverted frame (Snapshot, any writes on cached accounts, "
             "RevertToSnapshot: both sides succeed and are related again), hence on ANY list of write calls and failed frames "
             "(SDBFrames.lean, induction over the list) and on ANY TREE of write calls and call frames nested to any depth, each frame "
             "returning normally or failing (SDBNested.lean: mutual structural induction over the nested inductive Body, carrying what a "
             "run leaves behind beyond the observables — journal suffix whose reversal restores the state, younger revision ids only, "
             "untouched outside accounts — on both sides), and finally with NO condition on the accounts (SDBObs.lean, "
             "C03_any_body_simulates_reference_partial): any tree of writes, reads (account reads, GetState, GetCommittedState: they cache "
             "objects and origins and are proved observationally inert), CreateAccount calls (where evm.create may make them) and "
             "nested frames on ANY accounts — cached, first loaded inside a frame, absent and created inside a frame that is then "
             "reverted (createObjectChange / resetObjectChange are undone too) — ends related to the reference; with sim_init this is "
             "the whole body of a transaction without precompile calls; and through the WRITE-BACK (SDBTx.lean, "
             "C03_transaction_commit_matches_reference_partial): over the same persisted data, after ANY such body Nibiru's Commit leaves "
             "at EVERY address what go-ethereum's end-of-transaction write-back (GethSpec.commit, per-address characterisation in "
             "SDBSpecCommit.lean) leaves — same nonce, code hash, balance (an account go-ethereum deletes as empty is an empty record in "
             "Nibiru) and the same value in every slot; proof: journal.dirties is the per-address count of surviving entries through "
             "appends and Revert, dirtied addresses stay cached and are materialised in the reference, undirtied ones show the store "
             "(four invariants carried over the nested body), then a per-address case analysis of the two commits; the persisted Nibiru balance is "
             "the reference's wei balance in whole unibi (truncated); one side condition on the final state: an account that ends empty "
             "without self-destructing has no storage; lifted to ANY sequence of transactions by induction (C03_history_commits_match_reference_partial); "
             "concrete transactions are evaluated by the kernel as witnesses; ApplyEvmMsg's EIP-3529 refund equals go-ethereum's for all inputs and never exceeds a fifth of the gas used. A "
             "cross-implementation oracle reports the first call on which Nibiru's and go-ethereum's real StateDBs answer differently.",
        note="The history theorem (C03_history_commits_match_reference_partial: any sequence of transactions) assumes that no account ends a "
             "transaction empty — where go-ethereum deletes and Nibiru persists an empty record; that case is covered for a single "
             "transaction only and otherwise handled by the harness's rendering, not by a theorem. Against go-ethereum run with "
             "deleteEmptyObjects = false (Finalise's other mode: empty accounts are kept, which is what Nibiru's Commit does) the "
             "condition disappears: C03_history_commits_match_keep_reference_partial (SDBKeep.lean) — any history, accounts that end "
             "empty included, equal persisted states under CreateOK and whole-unibi balances alone; the equivalence of go-ethereum's "
             "two Finalise modes for later transactions is not proved. Transactions that "
             "call a Nibiru precompile are outside every theorem here (C04/C08); there the equality is established by the correspondence "
             "runs only. Trusted: Lean kernel; the interpreter (same code on both sides); harness; GethSpec's fidelity to go-ethereum "
             "is itself validated by differential execution, not proved. Precompile calls are excluded here (C04/C08).",
        technique="Lean 4 proof (refinement: journaled StateDB model ~ copy-on-snapshot reference, simulation relation preserved by every call, "
                  "mutual structural induction over nested call frames, invariants on (state, journal), per-address comparison of the two "
                  "write-backs) + three-way "
                  "differential correspondence (Lean spec / real go-ethereum StateDB / real Nibiru StateDB) + EVM-level differential "
                  "execution against go-ethereum's state transition",
        ref="§7 C03"),
    "C06": dict(
        text="Lean 4 theorems over an executable model of the FunToken registry and of every flow that moves value between the bank "
             "side and the ERC20 side (CreateFunToken from coin / from ERC20 with both duplicate checks, MsgConvertCoinToEvm in both "
             "directions, precompile sendToBank / sendToEvm / bankMsgSend, the keeper's Transfer that measures the recipient's real "
             "increase, direct ERC20 transfers and burns, bank sends; ERC20s as abstract ledgers of the three kinds in the repository: "
             "module-owned minter, standard, 10% fee-on-transfer): for every history of these operations with any amounts, recipients "
             "and senders other than the module account, including operations inside frames that revert, every coin-born mapping has "
             "ERC20 totalSupply <= escrowed coin, every ERC20-born mapping has bank supply <= the module's ERC20 balance, and each ERC20 "
             "and each denom is in at most one mapping (invariant proved per operation, lifted by induction over the history). "
             "Correspondence: generated histories on the real keeper / msg server / precompile with the real contract bytecode; the "
             "model predicts every mapping, supply and balance on both sides after every operation.",
        note="Trusted: Lean kernel; harness. Solidity bytecode is not modelled: the ledger semantics of the three token kinds "
             "(in particular: a transfer debits the sender by exactly the amount — the property's 'standard token') is validated by the "
             "correspondence only. Atomicity of failing / reverted operations is assumed here and is property C04 (with its known "
             "findings). The module account never signs or calls (Op.WF). No 'erc20/…' supply exists without its mapping (NoOrphan, "
             "hypothesis on the initial state, preserved).",
        technique="Lean 4 proof (per-operation invariant preservation via effect lemmas on four measured quantities, induction over "
                  "histories) + differential correspondence + property oracle",
        ref="§7 C06"),
    "C08": dict(
        text="Lean 4 theorems over an executable model of the admission path of a Nibiru precompile call (the fork's "
             "runPrecompiledContract, requiredGas, decomposeInput, the Run switches with each handler's first guard, the places where a "
             "Go panic can start: slice expressions on the calldata window, sdk.NewCoin on a caller-supplied denom, the string-key index "
             "lookup, an out-of-gas panic without handler): for every calldata length and capacity, selector, decodability, call kind, "
             "value and gas amount no call ends in a panic; every state-changing method of the three precompiles is refused under the "
             "read-only flag the fork passes for STATICCALL/DELEGATECALL/CALLCODE; FunToken/Wasm query handlers refuse value; gas handed "
             "back never exceeds gas supplied. The guard tables (isMutation literal, per-case handler and first guard, out-of-gas defers, "
             "length check, denom validation before panicking constructors) are regenerated from the source on every run and consumed "
             "by the theorems. Counterexample theorems for the five in-repo panics (repaired by fix: commits 257b492, 64c321d, ceb8798, "
             "84bc100, 35bc8cd — the last one, getErc20Address on a tokenfactory-shaped denom with a null character, had been a gap of "
             "the model: the lookup was listed as unvalidated but had no panic site) and for the nested-static gap of the fork (known finding C08-nested-static). Correspondence at two levels: "
             "RunPrecompiledContract with controlled len/cap (model vs implementation, stage by stage) and signed txs through proxy "
             "contracts with every call kind (oracle: panics, catchability, store digests, gas).",
        note="PARTIAL: geth's ABI decoder and the business logic behind the guards (bank, wasm, ERC20 calls) are parameters of the model; "
             "that they never panic rests on generated inputs only. 'Leaves no state change behind' for reverted frames is the "
             "PrecompileCalled theorem of C04 (with C04's known findings). Trusted: Lean kernel; extractor; harness incl. the proxy "
             "contract and store digests.",
        technique="Lean 4 proof (case analysis of the admission path over regenerated guard tables; decide on closed tables) + "
                  "regenerated facts (translator) + differential correspondence + property oracle over EVM-level runs",
        ref="§7 C08"),
    "C14": dict(
        text="Lean 4 theorems over an executable model of x/epochs BeginBlocker/AddEpochInfo, for every history of block times and every "
             "epoch definition: advance-iff, at most one advance per block, monotone epoch number, complete hook trace "
             "(B1,A1,B2,…,Bn, exactly once each, none on the first tick), start height/time recorded. The model is tied to /repo on "
             "every run by differential execution against the real keeper (same generated histories, line-by-line equal observations).",
        note="Trusted: Lean kernel; the correspondence harness; time.Time exactness in the generated range; collections iterates in key "
             "order. Hooks' bodies (inflation, oracle) are not part of this property.",
        technique="Lean 4 proof (induction over block histories) + differential correspondence model vs real keeper",
        ref="§7 C14"),
    "C13": dict(
        text="Lean 4 theorems over an executable model of the x/inflation AfterEpochEnd hook, provision formula (in the SDK's 18-digit "
             "decimal arithmetic, itself modelled and differentially validated), allocation and toggle/edit: for every history of "
             "day-epoch ends, toggles and parameter edits from coherent counters, each enabled epoch mints exactly the scheduled amount "
             "for period floor(g/E) (0 after MaxPeriod), disabled epochs mint nothing and do not advance the schedule; the parts are "
             "non-negative truncated proportions summing to the minted amount and the module account ends empty. The generator includes "
             "polynomials worth about (and below) one unibi per epoch; that exposed a genuine defect (the hook panicked when the provision "
             "truncated to 0), repaired by fix commit c73a910.",
        note="Trusted: Lean kernel; correspondence harness (real inflation/bank/distribution/sudo keepers); counters < 2^62; positivity of "
             "the provision below MaxPeriod is the property's hypothesis (Positive); incoherent genesis counters are outside the "
             "property's domain (witness theorem documents it). The real-number floor reading of the formula is not proved; the "
             "formula is read in the code's decimal arithmetic.",
        technique="Lean 4 proof (counter-coherence invariant, induction over op histories) + differential correspondence",
        ref="§7 C13"),
    "C10": dict(
        text="Lean 4 theorems over an executable model of UpdateExchangeRates (ballot grouping, whitelist/quorum filter, weighted "
             "median scan, rate store update and expiry): median specification for every ballot with total power >= 2 (a submitted "
             "positive rate, < floor(T/2) power strictly below, <= ceil(T/2) strictly above), independence from tie order / store "
             "order / Go's unstable sort, quorum rule as an iff, end-to-end published-rate theorem per pair, expiry iff, no influence of "
             "votes of non-bonded validators and of abstentions. Model tied to /repo by differential execution of the real keeper on "
             "generated validator sets, votes and parameters.",
        note="Trusted: Lean kernel; harness; staking keeper API (bondedness, power, total bonded) as observed; LegacyDec model "
             "validated by the dec correspondence. Median bounds and abstention no-influence need T >= 2 (witness theorem for T < 2).",
        technique="Lean 4 proof (scan invariant + uniqueness of the scan specification under permutation) + differential correspondence",
        ref="§7 C10"),
    "C12": dict(
        text="Lean 4 theorems over the same end-of-period model plus SlashAndResetMissCounters, rewardWinners, Gather/AllocateRewards: "
             "miss counts change only through a positive out-of-band vote on a quorum pair; the slash set is exactly (counter, rate below "
             "MinValidPerWindow, bonded, not jailed); portions are monotone in reward weight, their sum never exceeds the pot, and "
             "solvency (module balance >= owed) is preserved by allocations and payouts. Correspondence on the real keeper with real "
             "staking/slashing/distribution/bank keepers.",
        note="Trusted: Lean kernel; harness; staking Slash/Jail, distribution allocation and bank transfers are parameters observed "
             "through their APIs; single reward denom in the model.",
        technique="Lean 4 proof (induction over the tally loop and over reward lists; integer floor inequalities) + differential correspondence",
        ref="§7 C12"),
    "C11": dict(
        text="Lean 4 theorems over an executable model of the oracle msg server (prevote, vote/reveal, DelegateFeedConsent, "
             "ValidateFeeder, the exchange-rate string parser, period-end clearing): acceptance of a reveal as an iff (feeder authorised, "
             "bonded, prevote present, period difference exactly 1 in uint64 arithmetic, parse ok, all pairs whitelisted, hash equal), "
             "prevote consumed and replay refused, former delegate refused after re-delegation, period exactness for heights < 2^63, "
             "textual binding under an injective hash, rejected messages change nothing. Tied to /repo by differential execution of "
             "generated commit-reveal histories on the real msg server and EndBlocker.",
        note="Trusted: Lean kernel; harness; sha256 as an injective uninterpreted function (expected hash computed by the harness with "
             "crypto/sha256); SDK decimal parser as a parameter; staking bondedness as observed.",
        technique="Lean 4 proof (case analysis of the handler, uint64 wrap-around arithmetic by omega) + differential correspondence",
        ref="§7 C11"),
    "C15": dict(
        text="Lean 4 theorems over an executable model of the tokenfactory msg server (guard/effect per handler, executed atomically): "
             "denom format/parse round trip and injectivity in the creator, creation only by the embedded creator and only once, admin "
             "chain (creation or hand-over by the current admin only), supply of a denom changes only by the admin's Mint/Burn by exactly "
             "the amount (step level and summed over any history without BurnNative of that denom), non-tf denoms are never minted, an "
             "account is debited only by the denom admin's Burn of a tf denom or by its own BurnNative, rejected messages change "
             "nothing. The BurnNative exception is proved as a counterexample theorem and recorded as a known finding. Correspondence on "
             "the real msg server with the real bank keeper.",
        note="Trusted: Lean kernel; harness; bank keeper (parameter); atomic message execution by baseapp. Known finding C15-burnNative-"
             "holder: the literal property is violated by MsgBurnNative of tf denoms by non-admin holders.",
        technique="Lean 4 proof (guard/effect case analysis, induction over histories) + differential correspondence",
        ref="§7 C15"),
    "C16": dict(
        text="Lean 4 theorems over an executable model of x/sudo and the four gated entry points: a gated operation is accepted iff the "
             "sender is a currently listed contract or the current root (as addresses), at the time of the call over any history; only "
             "the root changes the contract list or hands the role over; a hand-over removes nobody from the list (listed contracts are served "
             "afterwards as before); removed contracts and former roots lose access; an accepted "
             "gated operation writes exactly its own store; rejected messages change nothing. T1 facts regenerated on every run pin the "
             "set of functions consulting CheckPermissions, that the check precedes the first store write, and the root checks of "
             "EditSudoers/ChangeRoot. Correspondence on the real msg servers.",
        note="Trusted: Lean kernel; harness; extractor. Authz wrapping is decided in the message-tree model. One genuine defect was found "
             "and repaired (fix: commit 9caae2d: stored root compared as a string); a second one late (fix: commit 90c6c75: EditOracleParams "
             "dereferenced its optional params field — an authorised sender's payload-less message panicked).",
        technique="Lean 4 proof (guard/effect case analysis) + regenerated facts + differential correspondence",
        ref="§7 C16"),
    "C18": dict(
        text="Lean 4 theorems over an executable model of the devgas payout decorator and registry handlers: per denom and n recipients "
             "n*payout <= share*fee/10^18 + n/2 (banker's rounding of the truncated quotient), the paid coins come only from the tx's own "
             "allowed fee coins, equal split among exactly the registered executed contracts, nothing when disabled/unregistered; "
             "register accepted only for admin/creator or factory contracts naming themselves, update/cancel only for admin/creator; "
             "rejected messages change nothing. T1 fact: decorator directly after DeductFee. Correspondence through the real decorator "
             "and msg server with real wasm contracts.",
        note="Trusted: Lean kernel; harness; extractor; wasm ContractInfo and bank sends as parameters. One genuine defect found and "
             "repaired (fix: commit d2484cb: repeated allowed denom counted twice).",
        technique="Lean 4 proof (integer rounding inequalities, guard/effect case analysis) + regenerated facts + differential correspondence",
        ref="§7 C18"),
    "C02": dict(
        text="Lean 4 theorems over an executable model of message routing (a nested inductive message tree: MsgEthereumTx, staking, bank, "
             "authz grant/exec, gov proposal, wasm execute with contract-dispatched messages; the two ante chains' routing and guards; "
             "authz DispatchActions, gov SubmitProposal and the wasm message handler): for every state without grants from "
             "Ethereum-only addresses, every accepted transaction and every history of transactions, the EthereumTx handler runs zero "
             "times outside the EVM ante pipeline, at any nesting depth and under any grant configuration (mutual induction over the "
             "tree); the invariant is preserved. T1 facts regenerated each run: both ante chains and the extension-option routing. "
             "Correspondence through full DeliverTx on the real app with generated message trees; the harness also classifies WHERE a tx "
             "failed (Ethereum guard / message execution / elsewhere) and the model must agree on the guards' verdict. The EVM admission "
             "pipeline itself (signature, nonce matched and consumed once, gasLimit x price from that message's signer up front, refund) is "
             "tied by the evmtx correspondence (model EvmTx, theorems under C05/C07) incl. txs carrying messages of several signers; a "
             "cross oracle names a signer that ends up richer than the pipeline allows.",
        note="Trusted: Lean kernel; harness; extractor. Hypotheses: an address recovered from an Ethereum signature cannot sign a Cosmos "
             "tx (exercised: eth_secp256k1-signed Cosmos txs are refused), is not a contract nor the gov account.",
        technique="Lean 4 proof (mutual structural induction over message trees, grant invariant over histories) + regenerated ante-chain "
                  "facts + differential correspondence",
        ref="§7 C02"),
    "C17": dict(
        text="Lean 4 theorems over the same message-tree model: with the decorator that looks through MsgExec (read off the regenerated "
             "facts of app/ante/commission.go), an accepted tx whose staking messages are direct or nested in authz MsgExec to any depth "
             "keeps every validator's commission within 25%; counterexample theorems for the decorator as it was (repaired by fix: "
             "commit c6f3132) and for contract-dispatched staking messages (known finding C17-wasm-stargate). Correspondence through "
             "full DeliverTx on the real app (real staking keeper, reflect contract), plus an oracle-judged run that delivers genesis "
             "transactions (gentx with generated commission rates) through InitChain of fresh applications.",
        note="Trusted: Lean kernel; harness; extractor. The cap theorem excludes wasm-dispatched staking messages (known finding). "
             "x/staking's own MaxRate/MaxChangeRate rules are outside the model.",
        technique="Lean 4 proof (mutual structural induction over message trees) + regenerated decorator facts + differential correspondence",
        ref="§7 C17"),
    "C19": dict(
        text="Lean 4 theorems over an executable model of the per-block EVM index bookkeeping (TxConfig, AddLog, updateBlockBloom and its "
             "four call sites, BlockTxIndex, EndBlock bloom): for every block composition of successful / reverted / failing Ethereum txs "
             "and FunToken Cosmos operations the log indices are 0,1,2,… in emission order, executed eth txs carry 0,1,2,…, an eth log "
             "carries its tx's index, reverted/failing txs contribute none, and the block bloom folds exactly the emitted logs "
             "(invariant by induction over the block). The argument each call site passes to updateBlockBloom is regenerated from the "
             "source on every run and drives both the executable model and a fact theorem. Correspondence on the real keeper.",
        note="Trusted: Lean kernel; harness; extractor. The defect expected in the design was confirmed on the real code, proved as "
             "C19_counterexample_old_sites and repaired (fix: commit 6eaac48).",
        technique="Lean 4 proof (block invariant by induction) + regenerated call-site facts (translator) + differential correspondence",
        ref="§7 C19"),
    "C07": dict(
        text="Lean 4 theorems over an executable model of the EVM ante chain (one pass per decorator over all messages), the EthereumTx "
             "message server's nonce handling and baseapp's ante/exec split: an admitted tx has valid signatures and nonces equal to the "
             "consecutive sequence numbers of its senders; every sender's sequence ends exactly +count whether execution succeeds, "
             "reverts or fails; sequences never decrease; over every submission history no (signer, nonce) takes effect twice; replays are "
             "rejected; every contract-creation message of an admitted tx is deployed at the address derived from its signer and its "
             "nonce, which is the signer's sequence at the moment of admission. T1: the EVM decorator chain, the nonce comparison and the "
             "order SetNonce / Create / Call in ApplyEvmMsg are regenerated from the source. Correspondence through full DeliverTx on the "
             "real app (the run also reports where every creation put its code).",
        note="Trusted: Lean kernel; harness; extractor; signature recovery and the EVM interpreter as parameters (per-message flags / gas "
             "used taken from the real run).",
        technique="Lean 4 proof (history invariant: executed nonces below the sequence, no duplicates) + regenerated ante-chain fact + "
                  "differential correspondence over ABCI",
        ref="§7 C07"),
    "C05": dict(
        text="Lean 4 theorems over the same model: net gas payment F-R within one unibi of gasUsed x effective price and never above "
             "gasLimit x price (integer floor arithmetic in wei/unibi), conservation of unibi among all involved accounts and the fee "
             "collector for every tx (accepted, rejected, failing, reverting, multi-message), a failing tx changes only the fee and the "
             "nonce, collector gain equals the signer's payment. The implementation's total supply is observed constant by the "
             "correspondence run. A genuine defect found by the evmsupply run was repaired (fix: commit 0c98db1: unibi attached as funds to "
             "a Wasm execute on a contract that keeps them was minted a second time, to the account named by the last 20 bytes of the "
             "contract's 32-byte address); T1 fact: SyncStateDBWithAccount returns early for addresses without an EVM counterpart.",
        note="The EVM run is a parameter of the model that moves value between accounts; for transactions that undo a frame containing a "
             "Nibiru precompile call the REAL StateDB does not conserve (known finding C05-undone-precompile-frame, same root cause as the "
             "C04 findings): found by the evmsupply run (generated programs with value transfers, self-destructs and FunToken "
             "precompile calls; supply observed per tx). The StateDB bookkeeping that decides what reaches the bank is pinned by the "
             "sdb correspondence, which is part of this check. Trusted: Lean kernel; harness.",
        technique="Lean 4 proof (floor-division inequalities, sum-preservation over account lists) + differential correspondence over ABCI",
        ref="§7 C05"),
    "C04": dict(
        text="Executable Lean model of Nibiru's StateDB (lazy object cache, origin caching, journal with one constructor per Go entry "
             "type, dirty counts, revisions, intermediate flush into the cache context, PrecompileCalled entry, SyncStateDBWithAccount, "
             "commit) validated against the real StateDB/keeper on >10^5 API calls per run. The full atomicity property is FALSE on the "
             "unchanged tree: two kernel-checked counterexample theorems (lost pre-frame write; stale balance of an account loaded after a "
             "bank move) are replayed on the real code by the corpus and recorded as known findings. Proved positively: for frames WITHOUT a "
             "precompile call, Snapshot / any sequence of writes on cached accounts / RevertToSnapshot restores every observable "
             "(C04_frame_revert_restores_partial, induction over the sequence), and so does a failed frame around ANY tree of writes and "
             "nested frames, returning or failing, to any depth — journal and revision list are exactly the old ones afterwards "
             "(C04_nested_frame_revert_restores_partial, SDBNested.lean), also when the body loads accounts for the first time, creates "
             "accounts (which are gone again afterwards) or calls CreateAccount: every read of every address answers as at the "
             "snapshot (C04_any_frame_revert_restores_partial, SDBObs.lean); after ANY such transaction body — reverted frames included — "
             "the StateDB is well-formed and Commit stores exactly the final view of every dirtied live account, removes the "
             "self-destructed ones and leaves alone what no surviving journal entry dirtied (C04_commit_after_any_body_partial, "
             "SDBWF.lean: an invariant on (state, journal) — reverting the journal entry by entry, every Revert finds what it needs — "
             "monotone in an extension order on cached objects; induction over the nested body); earlier, for transactions WITHOUT a precompile call, after any "
             "write sequence Commit stores exactly the final view of every dirtied live account (nonce, code hash, whole-unibi balance, "
             "every slot), removes self-destructed ones and touches nothing else (C04_commit_*_partial, SDBCommit.lean, any number of "
             "accounts and slots); about the precompile entry itself, positively: a side-effect-free precompile call that nothing "
             "reverts does not change what the transaction commits — the final Commit flushes a second time over objects whose origins the "
             "first flush advanced, and that second flush writes no account and no slot anew "
             "(C04_unreverted_query_precompile_commits_the_same_partial, SDBFlush.lean); T1 fact: OnRunStart makes exactly three unconditional StateDB calls (cache context, journal entry, "
             "flush) whatever the method, and the sdb harness enters precompiles through the real OnRunStart; the "
             "PrecompileCalled journal entry restores the multistore exactly, reverting any other entry leaves it untouched, and the "
             "StateDB balance equals the bank balance after SyncStateDBWithAccount. The reference-semantics oracle (copy-on-snapshot "
             "journaled world + journaled multistore) evaluates the property on every implementation trace and reports any violation "
             "outside the listed findings.",
        note="Trusted: Lean kernel; harness; the reference oracle. Not repaired: the natural repair contradicts the pinned test "
             "TestJournalReversion (asserts the dirty count after an intermediate flush). Partial: frames that contain a precompile call "
             "(where the property is false) are covered by the counterexamples, the correspondence and the oracle only.",
        technique="Lean 4 proof (counterexamples by decide on closed terms; invariants on (state, journal) by mutual structural induction "
                  "over nested call frames; per-address characterisation of Commit) + differential correspondence + "
                  "reference-semantics oracle",
        ref="§7 C04"),
}

PENDING_REASON = "not claimed yet: model/proofs for this property are still being built (see DESIGN.md §9 build order)"


def _surface_counts():
    import json, os, re
    out = {}
    d = os.path.join(os.path.dirname(os.path.abspath(__file__)), "..", "lean", "NibiruProofs")
    for pid in ALL:
        try:
            out[pid] = len(re.findall(r'^  \("', open(os.path.join(d, "Surf%s.lean" % pid)).read(), re.M))
        except OSError:
            pass
    return out


SURFACE_N = _surface_counts()


def manifest():
    checks = []
    for pid in ALL:
        if pid in CLAIMED:
            c = CLAIMED[pid]
            checks.append({
                "property_id": pid,
                "quick_cmd": "bin/check %s --tier quick" % pid,
                "thorough_cmd": "bin/check %s --tier thorough" % pid,
                "evidence_file": "evidence/%s.json" % pid,
                "replay_cmd_template": "bin/check %s --replay {path}" % pid,
                "engine": "lean4-proof+correspondence",
                "level_claimed": {"category": "proof", "text": c["text"], "design_ref": c["ref"]},
                "level_note": c["note"] + " T1-S: fact_%s_surface_fingerprints re-computes structural fingerprints of the %d "
                              "declarations this property's model was written from (lib/surface.json, DESIGN 3); a moved fingerprint "
                              "breaks the obligation and starts the search for a failing input." % (pid, SURFACE_N.get(pid, 0)),
                "technique": c["technique"],
            })
    return {
        "version": 1,
        "setup_cmd": "bin/setup",
        "hooks": {"guard": "verif", "enable": "go build -tags verif (no hook commits exist: all observation points are exported APIs)",
                  "baseline_off_cmd": "cd /repo && GOFLAGS=-mod=mod go test -vet=off -count=1 -timeout 25m ./...",
                  "source_commits": [], "add_only": True},
        "engines": [{"name": "lean4-proof+correspondence", "path": "bin/check",
                     "serves_properties": sorted(CLAIMED),
                     "kind_free_text": "Lean 4 theorems over hand-written executable models (lean/NibiruModel, lean/NibiruProofs); tie to "
                                       "/repo = regenerated facts incl. structural fingerprints of the modelled functions (harness/cmd/nibiru-extract -> lean/Generated) + differential "
                                       "correspondence (harness/cmd/nibiru-harness vs compiled Lean driver)"}],
        "checks": checks,
        "notes": "Every check rebuilds the Go harness against /repo's working tree, regenerates the facts, rebuilds the proofs, audits "
                 "axioms, and runs the correspondence. VERIF_SEED seeds all generators.",
        "not_applicable": [{"property_id": p, "reason": PENDING_REASON} for p in ALL if p not in CLAIMED],
    }
