/-
  C06 — every FunToken unit is backed one-for-one on the other side.
  Theorems over NibiruModel.FunToken: the invariant (coin-born: ERC20 total supply ≤ escrow; ERC20-born: bank supply ≤ the
  module's ERC20 balance; each ERC20 and each denom in at most one mapping) holds after every operation of every history.
-/
import NibiruModel.FunToken
import Generated.Facts

namespace Nibiru.FunToken
open Nibiru

/-! ### function updates -/

@[simp] theorem upd_same {α : Type} [DecidableEq α] (f : α → Nat) (k : α) (v : Nat) : upd f k v k = v := by simp [upd]
theorem upd_ne {α : Type} [DecidableEq α] (f : α → Nat) (k x : α) (v : Nat) (h : x ≠ k) : upd f k v x = f x := by simp [upd, h]
@[simp] theorem upd2_same {α β : Type} [DecidableEq α] [DecidableEq β] (f : α → β → Nat) (k : α) (j : β) (v : Nat) :
    upd2 f k j v k j = v := by simp [upd2]
theorem upd2_ne1 {α β : Type} [DecidableEq α] [DecidableEq β] (f : α → β → Nat) (k x : α) (j y : β) (v : Nat) (h : x ≠ k) :
    upd2 f k j v x y = f x y := by simp [upd2, h]
theorem upd2_ne2 {α β : Type} [DecidableEq α] [DecidableEq β] (f : α → β → Nat) (k x : α) (j y : β) (v : Nat) (h : y ≠ j) :
    upd2 f k j v x y = f x y := by simp [upd2, h]

theorem upd2_move {α : Type} [DecidableEq α] (f : α → Nat → Nat) (k : α) (src dst a x : Nat) (h : a ≤ f k src) :
    upd2 (upd2 f k src (f k src - a)) k dst ((upd2 f k src (f k src - a)) k dst + a) k x + (if x = src then a else 0)
      = f k x + (if x = dst then a else 0) := by
  simp only [upd2, true_and]
  by_cases hs : x = src
  · subst hs
    by_cases hd : x = dst
    · subst hd; simp; omega
    · simp [hd]; omega
  · by_cases hd : x = dst
    · subst hd; simp [hs]
    · simp [hs, hd]

/-! ### the four measured quantities -/

def ts (s : State) (t : Nat) : Nat := s.tsupply t            -- ERC20 total supply
def tm (s : State) (t : Nat) : Nat := s.tbal t modAcct       -- ERC20 balance of the module
def bs (s : State) (d : String) : Nat := s.bsupply d         -- bank supply
def mb (s : State) (d : String) : Nat := s.bbal d modAcct    -- bank balance of the module (escrow)

/-- no bank supply of an "erc20/…" denom exists without its mapping -/
def NoOrphan (s : State) : Prop := ∀ t, (∀ m ∈ s.reg, m.denom ≠ ercDenom t) → s.bsupply (ercDenom t) = 0

def Inv' (s : State) : Prop := Inv s ∧ NoOrphan s

structure SameFrame (s s' : State) : Prop where
  reg : s'.reg = s.reg
  ntok : s'.ntok = s.ntok
  kind : s'.kind = s.kind

theorem SameFrame.trans {a b c : State} (h1 : SameFrame a b) (h2 : SameFrame b c) : SameFrame a c :=
  ⟨h2.reg.trans h1.reg, h2.ntok.trans h1.ntok, h2.kind.trans h1.kind⟩

theorem SameFrame.refl (a : State) : SameFrame a a := ⟨rfl, rfl, rfl⟩

theorem ite_le_self (c : Prop) [Decidable c] (a : Nat) : (if c then a else 0) ≤ a := by split <;> omega

/-! ### effects of the primitives on the measures -/

theorem bankMove_eff {s s' : State} {d : String} {src dst a : Nat} (h : bankMove s d src dst a = some s') :
    SameFrame s s' ∧ (∀ t, ts s' t = ts s t) ∧ (∀ t, tm s' t = tm s t) ∧ (∀ x, bs s' x = bs s x) ∧
    (∀ x, x ≠ d → mb s' x = mb s x) ∧
    (mb s' d + (if modAcct = src then a else 0) = mb s d + (if modAcct = dst then a else 0)) ∧ a ≤ s.bbal d src ∧
    s'.tbal = s.tbal ∧ s'.tsupply = s.tsupply ∧ s'.bsupply = s.bsupply := by
  unfold bankMove at h
  split at h
  · cases h
  · rename_i hlt
    injection h with h
    subst h
    refine ⟨⟨rfl, rfl, rfl⟩, fun _ => rfl, fun _ => rfl, fun _ => rfl, ?_, ?_, by omega, rfl, rfl, rfl⟩
    · intro x hx
      simp [mb, upd2, hx]
    · exact upd2_move s.bbal d src dst a modAcct (by omega)

theorem bankMint_eff (s : State) (d : String) (a : Nat) :
    SameFrame s (bankMint s d a) ∧ (∀ t, ts (bankMint s d a) t = ts s t) ∧ (∀ t, tm (bankMint s d a) t = tm s t) ∧
    (∀ x, x ≠ d → bs (bankMint s d a) x = bs s x) ∧ (∀ x, x ≠ d → mb (bankMint s d a) x = mb s x) ∧
    bs (bankMint s d a) d = bs s d + a ∧ mb (bankMint s d a) d = mb s d + a := by
  refine ⟨⟨rfl, rfl, rfl⟩, fun _ => rfl, fun _ => rfl, ?_, ?_, ?_, ?_⟩
  · intro x hx; simp [bs, bankMint, upd, hx]
  · intro x hx; simp [mb, bankMint, upd2, hx]
  · simp [bs, bankMint]
  · simp [mb, bankMint]

theorem bankBurn_eff {s s' : State} {d : String} {a : Nat} (h : bankBurn s d a = some s') :
    SameFrame s s' ∧ (∀ t, ts s' t = ts s t) ∧ (∀ t, tm s' t = tm s t) ∧
    (∀ x, x ≠ d → bs s' x = bs s x) ∧ (∀ x, x ≠ d → mb s' x = mb s x) ∧
    bs s' d = bs s d - a ∧ mb s' d = mb s d - a ∧ a ≤ mb s d := by
  unfold bankBurn at h
  split at h
  · cases h
  · rename_i hlt
    injection h with h
    subst h
    refine ⟨⟨rfl, rfl, rfl⟩, fun _ => rfl, fun _ => rfl, ?_, ?_, ?_, ?_, ?_⟩
    · intro x hx; simp [bs, upd, hx]
    · intro x hx; simp [mb, upd2, hx]
    · simp [bs]
    · simp [mb]
    · simp only [mb]; omega

theorem tokMint_eff (s : State) (t dst a : Nat) :
    SameFrame s (tokMint s t dst a) ∧ (∀ x, bs (tokMint s t dst a) x = bs s x) ∧ (∀ x, mb (tokMint s t dst a) x = mb s x) ∧
    (∀ x, x ≠ t → ts (tokMint s t dst a) x = ts s x) ∧ (∀ x, x ≠ t → tm (tokMint s t dst a) x = tm s x) ∧
    ts (tokMint s t dst a) t = ts s t + a ∧ tm s t ≤ tm (tokMint s t dst a) t := by
  refine ⟨⟨rfl, rfl, rfl⟩, fun _ => rfl, fun _ => rfl, ?_, ?_, ?_, ?_⟩
  · intro x hx; simp [ts, tokMint, upd, hx]
  · intro x hx; simp [tm, tokMint, upd2, hx]
  · simp [ts, tokMint]
  · by_cases c : modAcct = dst
    · subst c; simp [tm, tokMint]
    · simp [tm, tokMint, upd2, c]

theorem tokBurn_eff {s s' : State} {t src a : Nat} (h : tokBurn s t src a = some s') :
    SameFrame s s' ∧ (∀ x, bs s' x = bs s x) ∧ (∀ x, mb s' x = mb s x) ∧
    (∀ x, x ≠ t → ts s' x = ts s x) ∧ (∀ x, x ≠ t → tm s' x = tm s x) ∧
    ts s' t = ts s t - a ∧ (src ≠ modAcct → tm s' t = tm s t) ∧ (src = modAcct → tm s' t = tm s t - a) := by
  unfold tokBurn at h
  split at h
  · cases h
  · injection h with h
    subst h
    refine ⟨⟨rfl, rfl, rfl⟩, fun _ => rfl, fun _ => rfl, ?_, ?_, ?_, ?_, ?_⟩
    · intro x hx; simp [ts, upd, hx]
    · intro x hx; simp [tm, upd2, hx]
    · simp [ts]
    · intro hs; simp [tm, upd2, Ne.symm hs]
    · intro hs; subst hs; simp [tm]

theorem tokMove_eff {s s' : State} {t src dst a : Nat} (h : tokMove s t src dst a = some s') :
    SameFrame s s' ∧ (∀ x, bs s' x = bs s x) ∧ (∀ x, mb s' x = mb s x) ∧ (∀ x, ts s' x = ts s x) ∧
    (∀ x, x ≠ t → tm s' x = tm s x) ∧
    (tm s' t + (if modAcct = src then a else 0) = tm s t + (if modAcct = dst then a else 0)) ∧
    (∀ x y, x ≠ t → s'.tbal x y = s.tbal x y) ∧ s'.kind = s.kind := by
  unfold tokMove at h
  split at h
  · cases h
  · injection h with h
    subst h
    refine ⟨⟨rfl, rfl, rfl⟩, fun _ => rfl, fun _ => rfl, fun _ => rfl, ?_, ?_, ?_, rfl⟩
    · intro x hx; simp [tm, upd2, hx]
    · exact upd2_move s.tbal t src dst a modAcct (by omega)
    · intro x y hx; simp [upd2, hx]

/-- an ERC20 transfer never changes the total supply; the module's balance cannot fall unless the module is the sender, and then
    by at most the amount (this is the "standard token" behaviour the property speaks of) -/
theorem tokTransferRaw_eff {s s' : State} {t src dst a : Nat} (h : tokTransferRaw s t src dst a = some s') :
    SameFrame s s' ∧ (∀ x, bs s' x = bs s x) ∧ (∀ x, mb s' x = mb s x) ∧ (∀ x, ts s' x = ts s x) ∧
    (∀ x, x ≠ t → tm s' x = tm s x) ∧ (src ≠ modAcct → tm s t ≤ tm s' t) ∧ (tm s t - a ≤ tm s' t) := by
  unfold tokTransferRaw at h
  split at h
  · -- fee token: two moves
    split at h
    · cases h
    · split at h
      · cases h
      · cases h1 : tokMove s t src (tokSelf t) (a * 10 / 100) with
        | none => simp [h1] at h
        | some s1 =>
          simp only [h1, Option.bind_some] at h
          obtain ⟨f1, b1, m1, t1, o1, e1, _, _⟩ := tokMove_eff h1
          obtain ⟨f2, b2, m2, t2, o2, e2, _, _⟩ := tokMove_eff h
          have hf : a * 10 / 100 ≤ a := by omega
          refine ⟨f1.trans f2, fun x => (b2 x).trans (b1 x), fun x => (m2 x).trans (m1 x), fun x => (t2 x).trans (t1 x),
            fun x hx => (o2 x hx).trans (o1 x hx), ?_, ?_⟩
          · intro hs
            have hs' : ¬ modAcct = src := fun e => hs e.symm
            rw [if_neg hs'] at e1 e2
            omega
          · have s1 := ite_le_self (modAcct = src) (a * 10 / 100)
            have s2 := ite_le_self (modAcct = src) (a - a * 10 / 100)
            omega
  · obtain ⟨f1, b1, m1, t1, o1, e1, _, _⟩ := tokMove_eff h
    refine ⟨f1, b1, m1, t1, o1, ?_, ?_⟩
    · intro hs
      have hs' : ¬ modAcct = src := fun e => hs e.symm
      rw [if_neg hs'] at e1
      omega
    · have s1 := ite_le_self (modAcct = src) a
      omega

theorem keeperTransfer_eff {s s' : State} {t src dst a got : Nat} (h : keeperTransfer s t src dst a = some (s', got)) :
    tokTransferRaw s t src dst a = some s' ∧ got = s'.tbal t dst - s.tbal t dst ∧ s.tbal t dst < s'.tbal t dst := by
  unfold keeperTransfer at h
  cases hr : tokTransferRaw s t src dst a with
  | none => simp [hr] at h
  | some s1 =>
    simp only [hr] at h
    split at h
    · cases h
    · injection h with h
      injection h with h1 h2
      subst h1
      exact ⟨rfl, h2.symm, by omega⟩

/-! ### lookups -/

theorem findByTok_some {s : State} {t : Nat} {m : Mapping} (h : findByTok s t = some m) : m ∈ s.reg ∧ m.tok = t := by
  unfold findByTok at h
  exact ⟨List.mem_of_find?_eq_some h, by simpa using List.find?_some h⟩

theorem findByDenom_some {s : State} {d : String} {m : Mapping} (h : findByDenom s d = some m) : m ∈ s.reg ∧ m.denom = d := by
  unfold findByDenom at h
  exact ⟨List.mem_of_find?_eq_some h, by simpa using List.find?_some h⟩

theorem findByDenom_none {s : State} {d : String} (h : findByDenom s d = none) : ∀ m ∈ s.reg, m.denom ≠ d := by
  unfold findByDenom at h
  intro m hm
  have := List.find?_eq_none.mp h m hm
  simpa using this

theorem findByTok_none {s : State} {t : Nat} (h : findByTok s t = none) : ∀ m ∈ s.reg, m.tok ≠ t := by
  unfold findByTok at h
  intro m hm
  have := List.find?_eq_none.mp h m hm
  simpa using this

theorem nodup_map_inj {α β : Type} {f : α → β} {l : List α} (h : (l.map f).Nodup) {a b : α} (ha : a ∈ l) (hb : b ∈ l)
    (hab : f a = f b) : a = b := by
  induction l with
  | nil => cases ha
  | cons x t ih =>
    simp only [List.map_cons, List.nodup_cons, List.mem_map, not_exists, not_and] at h
    rcases List.mem_cons.mp ha with rfl | ha' <;> rcases List.mem_cons.mp hb with rfl | hb'
    · rfl
    · exact absurd hab.symm (h.1 b hb')
    · exact absurd hab (h.1 a ha')
    · exact ih h.2 ha' hb'

/-! ### two ways to re-establish the invariant -/

/-- operations that touch no mapping: supplies may only fall, the module's holdings may only rise -/
theorem inv_mono {s s' : State} (hf : SameFrame s s') (hi : Inv' s)
    (h1 : ∀ t, ts s' t ≤ ts s t) (h2 : ∀ d, mb s d ≤ mb s' d) (h3 : ∀ d, bs s' d ≤ bs s d) (h4 : ∀ t, tm s t ≤ tm s' t) : Inv' s' := by
  obtain ⟨⟨hc, he, hu, hw⟩, ho⟩ := hi
  refine ⟨⟨?_, ?_, ?_, ?_⟩, ?_⟩
  · intro m hm hcoin
    rw [hf.reg] at hm
    have := hc m hm hcoin
    have a1 := h1 m.tok; have a2 := h2 m.denom
    simp only [ts, mb] at a1 a2
    omega
  · intro m hm hcoin
    rw [hf.reg] at hm
    have := he m hm hcoin
    have a3 := h3 m.denom; have a4 := h4 m.tok
    simp only [bs, tm] at a3 a4
    omega
  · unfold Unique; rw [hf.reg]; exact hu
  · intro m hm; rw [hf.reg] at hm; rw [hf.ntok, hf.kind]; exact hw m hm
  · intro t hno
    rw [hf.reg] at hno
    have := ho t hno
    have a3 := h3 (ercDenom t)
    simp only [bs] at a3
    omega

/-- operations on one mapping `m`: everything about other tokens and other denoms is untouched, and `m` stays backed -/
theorem inv_local {s s' : State} (hf : SameFrame s s') (hi : Inv' s) (m : Mapping) (hm : m ∈ s.reg)
    (e1 : ∀ t, t ≠ m.tok → ts s' t = ts s t ∧ tm s' t = tm s t)
    (e2 : ∀ d, d ≠ m.denom → mb s' d = mb s d ∧ bs s' d = bs s d)
    (hcoin : m.fromCoin = true → ts s' m.tok ≤ mb s' m.denom)
    (herc : m.fromCoin = false → bs s' m.denom ≤ tm s' m.tok) : Inv' s' := by
  obtain ⟨⟨hc, he, hu, hw⟩, ho⟩ := hi
  have other : ∀ m' ∈ s.reg, m' ≠ m → m'.tok ≠ m.tok ∧ m'.denom ≠ m.denom := by
    intro m' hm' hne
    exact ⟨fun e => hne (nodup_map_inj hu.1 hm' hm e), fun e => hne (nodup_map_inj hu.2 hm' hm e)⟩
  refine ⟨⟨?_, ?_, ?_, ?_⟩, ?_⟩
  · intro m' hm' hc'
    rw [hf.reg] at hm'
    by_cases hmm : m' = m
    · subst hmm; have := hcoin hc'; simpa [ts, mb] using this
    · obtain ⟨ht, hd⟩ := other m' hm' hmm
      have a := (e1 m'.tok ht).1; have b := (e2 m'.denom hd).1
      have := hc m' hm' hc'
      simp only [ts, mb] at a b
      omega
  · intro m' hm' hc'
    rw [hf.reg] at hm'
    by_cases hmm : m' = m
    · subst hmm; have := herc hc'; simpa [bs, tm] using this
    · obtain ⟨ht, hd⟩ := other m' hm' hmm
      have a := (e1 m'.tok ht).2; have b := (e2 m'.denom hd).2
      have := he m' hm' hc'
      simp only [bs, tm] at a b
      omega
  · unfold Unique; rw [hf.reg]; exact hu
  · intro m' hm'; rw [hf.reg] at hm'; rw [hf.ntok, hf.kind]; exact hw m' hm'
  · intro t hno
    rw [hf.reg] at hno
    have hne : ercDenom t ≠ m.denom := fun e => hno m hm e.symm
    have := ho t hno
    have b := (e2 (ercDenom t) hne).2
    simp only [bs] at b
    omega

/-! ### every operation preserves the invariant -/

theorem createCoin_preserves (s s' : State) (d : String) (hi : Inv' s) (h : exec s (.createCoin d) = some s') : Inv' s' := by
  obtain ⟨⟨hc, he, hu, hw⟩, ho⟩ := hi
  simp only [exec] at h
  split at h
  · cases h
  · rename_i hnone
    split at h
    · cases h
    · injection h with h
      subst h
      have hnone' : findByDenom s d = none := by
        cases hf : findByDenom s d with
        | none => rfl
        | some m => simp [hf] at hnone
      have hdn := findByDenom_none hnone'
      have hlt : ∀ m ∈ s.reg, m.tok ≠ s.ntok := fun m hm e => by have := (hw m hm).1; omega
      refine ⟨⟨?_, ?_, ?_, ?_⟩, ?_⟩
      · intro m hm hcoin
        rcases List.mem_append.mp hm with hm | hm
        · have := hc m hm hcoin
          simpa [upd, hlt m hm] using this
        · simp only [List.mem_singleton] at hm
          subst hm
          simp [upd]
      · intro m hm hcoin
        rcases List.mem_append.mp hm with hm | hm
        · have := he m hm hcoin
          simpa [hlt m hm] using this
        · simp only [List.mem_singleton] at hm
          subst hm
          simp at hcoin
      · constructor
        · simp only [List.map_append, List.map_cons, List.map_nil]
          refine List.nodup_append.mpr ⟨hu.1, by simp, ?_⟩
          intro a ha b hb
          simp only [List.mem_singleton] at hb
          subst hb
          obtain ⟨m, hm, rfl⟩ := List.mem_map.mp ha
          exact hlt m hm
        · simp only [List.map_append, List.map_cons, List.map_nil]
          refine List.nodup_append.mpr ⟨hu.2, by simp, ?_⟩
          intro a ha b hb
          simp only [List.mem_singleton] at hb
          subst hb
          obtain ⟨m, hm, rfl⟩ := List.mem_map.mp ha
          exact hdn m hm
      · intro m hm
        rcases List.mem_append.mp hm with hm | hm
        · obtain ⟨a, b, c⟩ := hw m hm
          refine ⟨by simp only; omega, ?_, ?_⟩
          · intro hcoin; simp [hlt m hm, b hcoin]
          · intro hcoin; simp [hlt m hm, c hcoin]
        · simp only [List.mem_singleton] at hm
          subst hm
          simp
      · intro t hno
        exact ho t (fun m hm => hno m (List.mem_append.mpr (Or.inl hm)))

theorem createErc20_preserves (s s' : State) (t : Nat) (hi : Inv' s) (h : exec s (.createErc20 t) = some s') : Inv' s' := by
  obtain ⟨⟨hc, he, hu, hw⟩, ho⟩ := hi
  simp only [exec] at h
  split at h
  · cases h
  · rename_i h1
    split at h
    · cases h
    · rename_i h2
      split at h
      · cases h
      · rename_i h3
        split at h
        · cases h
        · split at h
          · cases h
          · rename_i h5
            injection h with h
            subst h
            have n1 : findByTok s t = none := by
              cases hf : findByTok s t with
              | none => rfl
              | some m => simp [hf] at h1
            have n2 : findByDenom s (ercDenom t) = none := by
              cases hf : findByDenom s (ercDenom t) with
              | none => rfl
              | some m => simp [hf] at h5
            have ht := findByTok_none n1
            have hd := findByDenom_none n2
            refine ⟨⟨?_, ?_, ?_, ?_⟩, ?_⟩
            · intro m hm hcoin
              rcases List.mem_append.mp hm with hm | hm
              · exact hc m hm hcoin
              · simp only [List.mem_singleton] at hm
                subst hm
                simp at hcoin
            · intro m hm hcoin
              rcases List.mem_append.mp hm with hm | hm
              · exact he m hm hcoin
              · simp only [List.mem_singleton] at hm
                subst hm
                have := ho t hd
                simp only
                omega
            · constructor
              · simp only [List.map_append, List.map_cons, List.map_nil]
                refine List.nodup_append.mpr ⟨hu.1, by simp, ?_⟩
                intro a ha b hb
                simp only [List.mem_singleton] at hb
                subst hb
                obtain ⟨m, hm, rfl⟩ := List.mem_map.mp ha
                exact ht m hm
              · simp only [List.map_append, List.map_cons, List.map_nil]
                refine List.nodup_append.mpr ⟨hu.2, by simp, ?_⟩
                intro a ha b hb
                simp only [List.mem_singleton] at hb
                subst hb
                obtain ⟨m, hm, rfl⟩ := List.mem_map.mp ha
                exact hd m hm
            · intro m hm
              rcases List.mem_append.mp hm with hm | hm
              · exact hw m hm
              · simp only [List.mem_singleton] at hm
                subst hm
                refine ⟨by simp only; omega, by simp, ?_⟩
                intro _
                simpa using h3
            · intro t' hno
              exact ho t' (fun m hm => hno m (List.mem_append.mpr (Or.inl hm)))

theorem bankMove_preserves {s s' : State} {d : String} {src dst a : Nat} (hi : Inv' s) (hs : src ≠ modAcct)
    (h : bankMove s d src dst a = some s') : Inv' s' := by
  obtain ⟨f, t1, t2, b1, m1, e, _, _, _, _⟩ := bankMove_eff h
  have hs' : ¬ modAcct = src := fun x => hs x.symm
  rw [if_neg hs'] at e
  refine inv_mono f hi (fun t => Nat.le_of_eq (t1 t)) ?_ (fun x => Nat.le_of_eq (b1 x)) (fun t => Nat.le_of_eq (t2 t).symm)
  intro x
  by_cases hx : x = d
  · subst hx; omega
  · exact Nat.le_of_eq (m1 x hx).symm

theorem convert_preserves (s s' : State) (sender : Nat) (d : String) (a dst : Nat) (hw : sender ≠ modAcct) (hi : Inv' s)
    (h : exec s (.convert sender d a dst) = some s') : Inv' s' := by
  simp only [exec] at h
  cases hf : findByDenom s d with
  | none => simp [hf] at h
  | some m =>
    simp only [hf] at h
    obtain ⟨hm, hd⟩ := findByDenom_some hf
    have hs' : ¬ modAcct = sender := fun x => hw x.symm
    split at h
    · -- coin-born: escrow, then mint
      rename_i hcoin
      cases h1 : bankMove s d sender modAcct a with
      | none => simp [h1] at h
      | some s1 =>
        simp only [h1, Option.map_some, Option.some.injEq] at h
        subst h
        obtain ⟨f1, t1, tm1, b1, m1, e1, _, _, _, _⟩ := bankMove_eff h1
        rw [if_neg hs', if_pos rfl] at e1
        obtain ⟨f2, b2, m2, o2, om2, e2, g2⟩ := tokMint_eff s1 m.tok dst a
        refine inv_local (f1.trans f2) hi m hm ?_ ?_ ?_ ?_
        · intro t ht; exact ⟨(o2 t ht).trans (t1 t), (om2 t ht).trans (tm1 t)⟩
        · intro x hx; rw [hd] at hx; exact ⟨(m2 x).trans (m1 x hx), (b2 x).trans (b1 x)⟩
        · intro _
          have := hi.1.1 m hm hcoin
          rw [hd] at this ⊢
          have k := m2 d
          have k2 := t1 m.tok
          simp only [ts, mb] at *
          omega
        · intro hne; rw [hcoin] at hne; cases hne
    · -- ERC20-born: escrow, burn the coin, release the ERC20
      rename_i hcoin
      have hcoin' : m.fromCoin = false := by simpa using hcoin
      cases h1 : bankMove s d sender modAcct a with
      | none => simp [h1] at h
      | some s1 =>
        simp only [h1] at h
        cases h2 : bankBurn s1 d a with
        | none => simp [h2] at h
        | some s2 =>
          simp only [h2] at h
          cases h3 : keeperTransfer s2 m.tok modAcct dst a with
          | none => simp [h3] at h
          | some r =>
            obtain ⟨s3, got⟩ := r
            simp only [h3, Option.map_some, Option.some.injEq] at h
            subst h
            obtain ⟨f1, t1, tm1, b1, m1, e1, _, _, _, _⟩ := bankMove_eff h1
            obtain ⟨f2, t2, tm2, b2, m2, eb2, em2, _⟩ := bankBurn_eff h2
            obtain ⟨hraw, _, _⟩ := keeperTransfer_eff h3
            obtain ⟨f3, b3, m3, t3, o3, _, low3⟩ := tokTransferRaw_eff hraw
            refine inv_local ((f1.trans f2).trans f3) hi m hm ?_ ?_ ?_ ?_
            · intro t ht; exact ⟨((t3 t).trans (t2 t)).trans (t1 t), ((o3 t ht).trans (tm2 t)).trans (tm1 t)⟩
            · intro x hx; rw [hd] at hx
              exact ⟨((m3 x).trans (m2 x hx)).trans (m1 x hx), ((b3 x).trans (b2 x hx)).trans (b1 x)⟩
            · intro hc; rw [hcoin'] at hc; cases hc
            · intro _
              have := hi.1.2.1 m hm hcoin'
              rw [hd] at this ⊢
              have k1 := b3 d; have k2 := b1 d; have k3 := tm2 m.tok; have k4 := tm1 m.tok
              simp only [ts, mb, bs, tm] at *
              omega

theorem sendToBank_preserves (s s' : State) (caller t a dst : Nat) (hw : caller ≠ modAcct) (hi : Inv' s)
    (h : exec s (.sendToBank caller t a dst) = some s') : Inv' s' := by
  simp only [exec] at h
  cases hf : findByTok s t with
  | none => simp [hf] at h
  | some m =>
    simp only [hf] at h
    obtain ⟨hm, ht⟩ := findByTok_some hf
    split at h
    · cases h
    · cases h1 : keeperTransfer s t caller modAcct a with
      | none => simp [h1] at h
      | some r =>
        obtain ⟨s1, got⟩ := r
        simp only [h1] at h
        obtain ⟨hraw, hgot, hinc⟩ := keeperTransfer_eff h1
        obtain ⟨f1, b1, m1, t1, o1, _, _⟩ := tokTransferRaw_eff hraw
        have hgot' : tm s1 t = tm s t + got := by simp only [tm]; omega
        by_cases hcoin : m.fromCoin = true
        · -- coin-born: burn what the module received, release the coin
          simp only [hcoin, if_true] at h
          cases h2 : tokBurn s1 t modAcct got with
          | none => simp [h2] at h
          | some s2 =>
            simp only [h2] at h
            split at h
            · cases h
            · rename_i hblk
              obtain ⟨f2, b2, m2, o2, om2, e2, _, em2⟩ := tokBurn_eff h2
              obtain ⟨f3, t3, tm3, b3, m3, e3, hle3, _, _, _⟩ := bankMove_eff h
              have hd0 : ¬ modAcct = dst := by
                intro e; apply hblk; simp [blocked, e.symm]
              rw [if_pos rfl, if_neg hd0] at e3
              refine inv_local ((f1.trans f2).trans f3) hi m hm ?_ ?_ ?_ ?_
              · intro x hx; rw [ht] at hx
                exact ⟨((t3 x).trans (o2 x hx)).trans (t1 x), ((tm3 x).trans (om2 x hx)).trans (o1 x hx)⟩
              · intro x hx
                exact ⟨((m3 x hx).trans (m2 x)).trans (m1 x), ((b3 x).trans (b2 x)).trans (b1 x)⟩
              · intro _
                have := hi.1.1 m hm hcoin
                rw [ht] at this ⊢
                have k1 := t3 t; have k2 := t1 t; have k3 := m2 m.denom; have k4 := m1 m.denom
                simp only [ts, mb] at *
                omega
              · intro hne; rw [hcoin] at hne; cases hne
        · -- ERC20-born: mint the coin for what the module received, send it out
          have hcoin' : m.fromCoin = false := by simpa using hcoin
          simp only [hcoin', Bool.false_eq_true, if_false] at h
          split at h
          · cases h
          · rename_i hblk
            obtain ⟨f2, t2, tm2, ob2, om2, eb2, emb2⟩ := bankMint_eff s1 m.denom got
            obtain ⟨f3, t3, tm3, b3, m3, e3, _, _, _, _⟩ := bankMove_eff h
            have hd0 : ¬ modAcct = dst := by
              intro e; apply hblk; simp [blocked, e.symm]
            rw [if_pos rfl, if_neg hd0] at e3
            refine inv_local ((f1.trans f2).trans f3) hi m hm ?_ ?_ ?_ ?_
            · intro x hx; rw [ht] at hx
              exact ⟨((t3 x).trans (t2 x)).trans (t1 x), ((tm3 x).trans (tm2 x)).trans (o1 x hx)⟩
            · intro x hx
              exact ⟨((m3 x hx).trans (om2 x hx)).trans (m1 x), ((b3 x).trans (ob2 x hx)).trans (b1 x)⟩
            · intro hc; rw [hcoin'] at hc; cases hc
            · intro _
              have := hi.1.2.1 m hm hcoin'
              rw [ht] at this ⊢
              have k1 := b3 m.denom; have k2 := b1 m.denom; have k3 := tm3 t; have k4 := tm2 t
              simp only [ts, mb, bs, tm] at *
              omega

theorem sendToEvm_preserves (s s' : State) (caller : Nat) (d : String) (a dst : Nat) (hw : caller ≠ modAcct) (hi : Inv' s)
    (h : exec s (.sendToEvm caller d a dst) = some s') : Inv' s' := by
  simp only [exec] at h
  cases hf : findByDenom s d with
  | none => simp [hf] at h
  | some m =>
    simp only [hf] at h
    obtain ⟨hm, hd⟩ := findByDenom_some hf
    have hs' : ¬ modAcct = caller := fun x => hw x.symm
    split at h
    · cases h
    · cases h1 : bankMove s d caller modAcct a with
      | none => simp [h1] at h
      | some s1 =>
        simp only [h1] at h
        obtain ⟨f1, t1, tm1, b1, m1, e1, _, _, _, _⟩ := bankMove_eff h1
        rw [if_neg hs', if_pos rfl] at e1
        split at h
        · rename_i hcoin
          injection h with h
          subst h
          obtain ⟨f2, b2, m2, o2, om2, e2, g2⟩ := tokMint_eff s1 m.tok dst a
          refine inv_local (f1.trans f2) hi m hm ?_ ?_ ?_ ?_
          · intro t ht; exact ⟨(o2 t ht).trans (t1 t), (om2 t ht).trans (tm1 t)⟩
          · intro x hx; rw [hd] at hx; exact ⟨(m2 x).trans (m1 x hx), (b2 x).trans (b1 x)⟩
          · intro _
            have := hi.1.1 m hm hcoin
            rw [hd] at this ⊢
            have k := m2 d
            have k2 := t1 m.tok
            simp only [ts, mb] at *
            omega
          · intro hne; rw [hcoin] at hne; cases hne
        · rename_i hcoin
          have hcoin' : m.fromCoin = false := by simpa using hcoin
          cases h3 : keeperTransfer s1 m.tok modAcct dst a with
          | none => simp [h3] at h
          | some r =>
            obtain ⟨s2, got⟩ := r
            simp only [h3] at h
            obtain ⟨hraw, _, _⟩ := keeperTransfer_eff h3
            obtain ⟨f2, b2, m2, t2, o2, _, low2⟩ := tokTransferRaw_eff hraw
            obtain ⟨f3, t3, tm3, b3, m3, eb3, em3, _⟩ := bankBurn_eff h
            refine inv_local ((f1.trans f2).trans f3) hi m hm ?_ ?_ ?_ ?_
            · intro t ht; exact ⟨((t3 t).trans (t2 t)).trans (t1 t), ((tm3 t).trans (o2 t ht)).trans (tm1 t)⟩
            · intro x hx; rw [hd] at hx
              exact ⟨((m3 x hx).trans (m2 x)).trans (m1 x hx), ((b3 x hx).trans (b2 x)).trans (b1 x)⟩
            · intro hc; rw [hcoin'] at hc; cases hc
            · intro _
              have := hi.1.2.1 m hm hcoin'
              rw [hd] at this ⊢
              have k1 := b2 d; have k2 := b1 d; have k3 := tm3 m.tok; have k4 := tm1 m.tok
              simp only [ts, mb, bs, tm] at *
              omega

/-- **C06 (one step).** Every operation not signed / called by the module account keeps every mapping backed and unique. -/
theorem exec_preserves (s s' : State) (o : Op) (hw : o.WF) (hi : Inv' s) (h : exec s o = some s') : Inv' s' := by
  cases o with
  | createCoin d => exact createCoin_preserves s s' d hi h
  | createErc20 t => exact createErc20_preserves s s' t hi h
  | convert sender d a dst => exact convert_preserves s s' sender d a dst hw hi h
  | sendToBank caller t a dst => exact sendToBank_preserves s s' caller t a dst hw hi h
  | sendToEvm caller d a dst => exact sendToEvm_preserves s s' caller d a dst hw hi h
  | bankMsgSend caller dst d a =>
    simp only [exec] at h
    split at h
    · cases h
    · split at h
      · cases h
      · exact bankMove_preserves hi hw h
  | send src dst d a =>
    simp only [exec] at h
    split at h
    · cases h
    · split at h
      · cases h
      · exact bankMove_preserves hi hw h
  | transfer t src dst a =>
    simp only [exec] at h
    obtain ⟨f, b, m, tt, o, up, _⟩ := tokTransferRaw_eff h
    refine inv_mono f hi (fun x => Nat.le_of_eq (tt x)) (fun x => Nat.le_of_eq (m x).symm) (fun x => Nat.le_of_eq (b x)) ?_
    intro x
    by_cases hx : x = t
    · subst hx; exact up hw
    · exact Nat.le_of_eq (o x hx).symm
  | burn t src a =>
    simp only [exec] at h
    split at h
    · obtain ⟨f, b, m, o, om, e, same, _⟩ := tokBurn_eff h
      refine inv_mono f hi ?_ (fun x => Nat.le_of_eq (m x).symm) (fun x => Nat.le_of_eq (b x)) ?_
      · intro x
        by_cases hx : x = t
        · subst hx; omega
        · exact Nat.le_of_eq (o x hx)
      · intro x
        by_cases hx : x = t
        · subst hx; exact Nat.le_of_eq (same hw).symm
        · exact Nat.le_of_eq (om x hx).symm
    · cases h
  | reverted inner => simp [exec] at h

theorem step_preserves (s : State) (o : Op) (hw : o.WF) (hi : Inv' s) : Inv' (step s o) := by
  unfold step
  cases h : exec s o with
  | none => simpa using hi
  | some s' => simpa using exec_preserves s s' o hw hi h

/-- **C06 (all histories).** From any state in which every mapping is backed and unique, after every history of FunToken
    creations, conversions in both directions (message and precompile, also inside frames that revert), bankMsgSend, direct ERC20
    transfers and burns and bank sends — with any amounts, recipients and senders other than the module account itself —
    every coin-born mapping has ERC20 total supply ≤ escrowed coin, every ERC20-born mapping has bank supply ≤ the module's ERC20
    balance, and each ERC20 and each denom belongs to at most one mapping. -/
theorem C06_backing_invariant (s : State) (ops : List Op) (hw : ∀ o ∈ ops, o.WF) (hi : Inv' s) : Inv' (run s ops) := by
  induction ops generalizing s with
  | nil => exact hi
  | cons o t ih =>
    simp only [run, List.foldl_cons]
    exact ih (step s o) (fun o' ho' => hw o' (List.mem_cons_of_mem _ ho')) (step_preserves s o (hw o (List.mem_cons_self ..)) hi)

theorem C06_coin_born_backed (s : State) (ops : List Op) (hw : ∀ o ∈ ops, o.WF) (hi : Inv' s) : BackedCoin (run s ops) :=
  (C06_backing_invariant s ops hw hi).1.1

theorem C06_erc20_born_backed (s : State) (ops : List Op) (hw : ∀ o ∈ ops, o.WF) (hi : Inv' s) : BackedErc20 (run s ops) :=
  (C06_backing_invariant s ops hw hi).1.2.1

theorem C06_unique_mapping (s : State) (ops : List Op) (hw : ∀ o ∈ ops, o.WF) (hi : Inv' s) : Unique (run s ops) :=
  (C06_backing_invariant s ops hw hi).1.2.2.1

/-- a chain without mappings and without "erc20/…" supply satisfies the invariant (the genesis of the property) -/
theorem C06_inv_initial (s : State) (h0 : s.reg = []) (h1 : ∀ t, s.bsupply (ercDenom t) = 0) : Inv' s := by
  refine ⟨⟨?_, ?_, ?_, ?_⟩, fun t _ => h1 t⟩
  · intro m hm; rw [h0] at hm; cases hm
  · intro m hm; rw [h0] at hm; cases hm
  · unfold Unique; rw [h0]; simp
  · intro m hm; rw [h0] at hm; cases hm

/-- an operation inside a frame that reverts leaves nothing behind -/
theorem C06_reverted_frame_no_change (s : State) (o : Op) : step s (.reverted o) = s := by
  simp [step, exec]

/-- a failing operation changes nothing -/
theorem C06_failed_no_change (s : State) (o : Op) (h : exec s o = none) : step s o = s := by
  simp [step, h]

/-- equality for standard tokens: a conversion out and back leaves supply and escrow where they were (non-vacuity of the
    invariant: the hypotheses are met by a concrete history with both kinds of mappings) -/
def demoState : State :=
  { ntok := 1, kind := fun _ => .std, hasMeta := fun d => d = "ulog",
    tbal := fun t a => if t = 0 ∧ a = 1 then 500 else 0, tsupply := fun t => if t = 0 then 500 else 0,
    bbal := fun d a => if d = "ulog" ∧ a = 1 then 100 else 0, bsupply := fun d => if d = "ulog" then 100 else 0 }

def demoOps : List Op :=
  [.createCoin "ulog", .createErc20 0, .convert 1 "ulog" 30 2, .sendToBank 1 0 40 3, .sendToEvm 3 "e0" 15 2,
   .sendToBank 2 1 10 1, .reverted (.sendToBank 2 1 5 1), .transfer 0 1 0 7]

example : (run demoState demoOps).reg.length = 2 ∧ (run demoState demoOps).tsupply 1 = 20 ∧
    (run demoState demoOps).bbal "ulog" modAcct = 20 ∧ (run demoState demoOps).bsupply "e0" = 25 ∧
    (run demoState demoOps).tbal 0 modAcct = 32 := by decide

/-! ### T1 (regenerated from x/evm on every run) -/

/-- the bank ledger the model speaks about is the one the StateDB mirrors: outside `bank_extension.go` (where the overrides
    delegate) only `Keeper.SetAccBalance` — the write-back of the StateDB itself — selects the embedded `BaseKeeper`; every
    FunToken flow moves coins through the `NibiruBankKeeper` overrides, which keep the in-flight StateDB in step with the bank -/
theorem fact_C06_bank_calls_go_through_the_wrapper :
    Generated.bankBaseKeeperBypassSites = ["x/evm/keeper:Keeper.SetAccBalance"] := by decide

/-- no FunToken flow builds a second StateDB in the middle of an execution: the only callers of the publishing constructor
    `Keeper.NewStateDB` are the five state-machine entry points. A precompile method that built its own (seed C06-15: `balance()`)
    would re-point `Keeper.Bank.StateDB`: the bank moves of the rest of the transaction would be mirrored into a throw-away StateDB
    and the real one would write stale balances back at `Commit` — the atomicity the model's operations assume. -/
theorem fact_C06_only_entry_points_publish_a_statedb :
    Generated.publishingConstructorCallers =
      ["x/evm/keeper:Keeper.EthereumTx", "x/evm/keeper:Keeper.convertCoinToEvmBornCoin", "x/evm/keeper:Keeper.convertCoinToEvmBornERC20",
       "x/evm/keeper:Keeper.createFunTokenFromERC20", "x/evm/keeper:Keeper.deployERC20ForBankCoin"] := by decide +kernel

end Nibiru.FunToken
