package main

import (
	"math/rand"
	"time"

	abci "github.com/cometbft/cometbft/abci/types"
	tmproto "github.com/cometbft/cometbft/proto/tendermint/types"
	cryptotypes "github.com/cosmos/cosmos-sdk/crypto/types"
	"github.com/cosmos/cosmos-sdk/testutil/sims"
	sdk "github.com/cosmos/cosmos-sdk/types"

	"github.com/NibiruChain/nibiru/v2/app"
	"github.com/NibiruChain/nibiru/v2/x/common/testutil/testapp"
)

// Chain drives a real NibiruApp through the ABCI life cycle (BeginBlock / DeliverTx / EndBlock / Commit).
type Chain struct {
	App      *app.NibiruApp
	Height   int64
	Time     time.Time
	Proposer []byte
	inBlock  bool
	rnd      *rand.Rand
}

// NewChain creates the app (InitChain with the test genesis), runs `setup` on the genesis deliver-state and commits.
func NewChain(setup func(ctx sdk.Context, a *app.NibiruApp)) *Chain {
	a, _ := testapp.NewNibiruTestApp(app.GenesisState{})
	c := &Chain{App: a, Time: time.Date(2024, 1, 1, 0, 0, 0, 0, time.UTC), rnd: rand.New(rand.NewSource(7))}
	ctx := a.NewContext(false, tmproto.Header{Height: 1, Time: c.Time})
	c.Proposer = testapp.FirstBlockProposer(a, ctx)
	if setup != nil {
		setup(ctx, a)
	}
	a.Commit()
	c.Height = a.LastBlockHeight()
	return c
}

func (c *Chain) header() tmproto.Header {
	return tmproto.Header{Height: c.Height + 1, Time: c.Time, ProposerAddress: c.Proposer}
}

func (c *Chain) Begin() {
	c.Time = c.Time.Add(5 * time.Second)
	c.App.BeginBlock(abci.RequestBeginBlock{Header: c.header()})
	c.inBlock = true
}

// Ctx is the deliver-state context of the block in progress (reads see the effects of the txs delivered so far).
func (c *Chain) Ctx() sdk.Context {
	return c.App.NewContext(false, c.header())
}

func (c *Chain) Deliver(tx sdk.Tx) abci.ResponseDeliverTx {
	bz, err := c.App.GetTxConfig().TxEncoder()(tx)
	if err != nil {
		return abci.ResponseDeliverTx{Code: 1, Codespace: "harness-encode", Log: err.Error()}
	}
	return c.App.DeliverTx(abci.RequestDeliverTx{Tx: bz})
}

func (c *Chain) End() abci.ResponseEndBlock {
	res := c.App.EndBlock(abci.RequestEndBlock{Height: c.Height + 1})
	return res
}

func (c *Chain) Commit() []byte {
	r := c.App.Commit()
	c.Height = c.App.LastBlockHeight()
	c.inBlock = false
	return r.Data
}

// SignCosmos builds a Cosmos tx with the given messages signed by `privs` (account numbers / sequences read from state).
func (c *Chain) SignCosmos(ctx sdk.Context, msgs []sdk.Msg, fee sdk.Coins, gas uint64, privs ...cryptotypes.PrivKey) (sdk.Tx, error) {
	var nums, seqs []uint64
	for _, p := range privs {
		acc := c.App.AccountKeeper.GetAccount(ctx, sdk.AccAddress(p.PubKey().Address()))
		if acc == nil {
			nums, seqs = append(nums, 0), append(seqs, 0)
			continue
		}
		nums, seqs = append(nums, acc.GetAccountNumber()), append(seqs, acc.GetSequence())
	}
	return sims.GenSignedMockTx(c.rnd, c.App.GetTxConfig(), msgs, fee, gas, ctx.ChainID(), nums, seqs, privs...)
}
