/-
  NibiruModel.Inflation — x/inflation: AfterEpochEnd hook (keeper/hooks.go), CalculateEpochMintProvision / polynomial
  (types/inflation_calculation.go), AllocatePolynomialInflation / GetProportions (keeper/inflation.go), ToggleInflation and
  EditInflationParams (keeper/sudo.go, permission check excluded: that is C16).
  Counters are unbounded naturals (the Go code uses uint64/int64; the generator keeps them below 2^62).
-/
import NibiruModel.SdkDec
namespace Nibiru.Inflation
open Nibiru.Dec

structure Params where
  enabled   : Bool
  started   : Bool          -- HasInflationStarted
  epp       : Nat           -- EpochsPerPeriod
  maxPeriod : Nat
  ppy       : Nat           -- PeriodsPerYear
  factors   : List Int      -- raw decimals, highest degree first
  pStaking  : Int           -- raw decimal proportions
  pCommunity : Int
  pStrategic : Int
deriving Repr, DecidableEq, Inhabited

structure State where
  params   : Params
  period   : Nat
  skipped  : Nat
  moduleBal : Int := 0      -- unibi held by the inflation module account
deriving Repr, DecidableEq, Inhabited

/-- `polynomial(factors, x)` with `x = NewDec(period)` : Σ factorᵢ · x^(len-i-1), then ·10^6 -/
def polyAux (x : Int) : List Int → Int
  | [] => 0
  | f :: fs => mul f (power x fs.length) + polyAux x fs

def polynomial (factors : List Int) (period : Nat) : Int :=
  mul (polyAux (ofInt period) factors) (ofInt 1000000)

/-- `CalculateEpochMintProvision` (raw decimal) -/
def provision (p : Params) (period : Nat) : Int :=
  if p.epp = 0 || !p.enabled || decide (period ≥ p.maxPeriod) then 0
  else
    let v := polynomial p.factors period
    if v < 0 then 0 else quo v (ofInt p.epp)

/-- `GetProportions`: NewDecFromInt(amount).Mul(proportion).TruncateInt() -/
def proportion (amount : Int) (prop : Int) : Int := truncateInt (mul (ofInt amount) prop)

structure Out where
  minted    : Int := 0
  staking   : Int := 0
  community : Int := 0
  strategic : Int := 0
deriving Repr, DecidableEq, Inhabited

/-- `MintAndAllocateInflation`: returns (module balance afterwards, amounts). Nothing at all happens when the amount is not
    positive; otherwise mint, send the two truncated proportions, and send the whole remaining module balance to the sudo root. -/
def allocate (p : Params) (bal m : Int) : Int × Out :=
  if m > 0 then
    let st := proportion m p.pStaking
    let cm := proportion m p.pCommunity
    (0, { minted := m, staking := st, community := cm, strategic := bal + m - st - cm })
  else (bal, {})

/-- the period roll-over test `int64(n) - int64(E*period) - int64(skipped) >= int64(E)` -/
def rollover (s : State) (n : Nat) : Bool :=
  decide ((n : Int) - ((s.params.epp * s.period : Nat) : Int) - (s.skipped : Int) ≥ (s.params.epp : Int))

/-- `Hooks.AfterEpochEnd` for the "day" identifier; `n` is the finished epoch number -/
def afterEpochEnd (s : State) (n : Nat) : State × Out :=
  if s.params.enabled = false then
    if s.params.started = false then ({ s with skipped := n }, {})
    else ({ s with skipped := s.skipped + 1 }, {})
  else if provision s.params s.period ≤ 0 then (s, {})
  else
    let a := allocate s.params s.moduleBal (truncateInt (provision s.params s.period))
    ({ s with moduleBal := a.1, period := if rollover s n then s.period + 1 else s.period }, a.2)

/-- `ToggleInflation` (after the permission check) -/
def toggle (s : State) (en : Bool) : State :=
  { s with params := { s.params with enabled := en, started := s.params.started || en } }

/-- `Params.Validate` as far as it constrains the modelled fields -/
def validParams (p : Params) : Bool :=
  decide (p.epp > 0) && decide (p.ppy > 0) && !p.factors.isEmpty &&
  decide (p.pStaking ≥ 0) && decide (p.pCommunity ≥ 0) && decide (p.pStrategic ≥ 0) &&
  decide (p.pStaking + p.pStrategic + p.pCommunity = prec)

/-! ### line protocol -/

def parseInts (s : String) : Option (List Int) :=
  if s = "-" then some [] else (s.splitOn ",").mapM parseInt?

def renderOut (s : State) (o : Out) : String :=
  s!"{o.minted} {o.staking} {o.community} {o.strategic} bal={s.moduleBal} period={s.period} skipped={s.skipped} en={boolStr s.params.enabled} st={boolStr s.params.started}"

def step (s : State) (args : List String) : State × String :=
  match args with
  | ["reset", period, skipped, en, st, epp, maxp, ppy, ps, pc, pr, factors] =>
    match parseNat? period, parseNat? skipped, parseNat? epp, parseNat? maxp, parseNat? ppy, parseInt? ps, parseInt? pc, parseInt? pr, parseInts factors with
    | some period, some skipped, some epp, some maxp, some ppy, some ps, some pc, some pr, some fs =>
      let p : Params := { enabled := en = "1", started := st = "1", epp := epp, maxPeriod := maxp, ppy := ppy, factors := fs,
                          pStaking := ps, pCommunity := pc, pStrategic := pr }
      ({ params := p, period := period, skipped := skipped }, "ok")
    | _, _, _, _, _, _, _, _, _ => (s, "bad-op")
  | ["epoch", n] =>
    match parseNat? n with
    | some n => let (s', o) := afterEpochEnd s n; (s', renderOut s' o)
    | none => (s, "bad-op")
  | ["toggle", en] => let s' := toggle s (en = "1"); (s', renderOut s' {})
  | ["edit", epp, maxp, ppy, ps, pc, pr, factors] =>
    -- EditInflationParams: "-" keeps a field; distribution fields come together
    match parseInts factors with
    | none => (s, "bad-op")
    | some fs =>
      let p := s.params
      let p := if factors = "-" then p else { p with factors := fs }
      let p := match parseInt? ps, parseInt? pc, parseInt? pr with
        | some a, some b, some c => { p with pStaking := a, pCommunity := b, pStrategic := c }
        | _, _, _ => p
      let p := match parseNat? epp with | some e => { p with epp := e } | none => p
      let p := match parseNat? ppy with | some e => { p with ppy := e } | none => p
      let p := match parseNat? maxp with | some e => { p with maxPeriod := e } | none => p
      if validParams p then ({ s with params := p }, "ok " ++ renderOut { s with params := p } {})
      else (s, "invalid " ++ renderOut s {})
  | _ => (s, "bad-op")

end Nibiru.Inflation
