package main

import (
	"go/ast"
	"sort"
	"strings"
)

// Facts about the nonce check of the EVM ante chain (C07): the model accepts a message iff its nonce EQUALS the signer's current
// sequence. In the code that is one comparison, made per message after the previous message's bump.
//   evmAnteNonceConditions   every `if` condition in the non-test files of app/evmante that mentions a nonce, as "func: cond", sorted
func init() {
	extractors["ethnonce"] = func(repo string, out *leanFile, js map[string]any) error {
		var conds []string
		for _, sf := range loadDir(repo, "app/evmante") {
			if strings.HasSuffix(sf.rel, "_test.go") {
				continue
			}
			for _, d := range sf.file.Decls {
				fd, ok := d.(*ast.FuncDecl)
				if !ok || fd.Body == nil {
					continue
				}
				ast.Inspect(fd.Body, func(n ast.Node) bool {
					if is, ok := n.(*ast.IfStmt); ok {
						c := exprString(is.Cond)
						if strings.Contains(strings.ToLower(c), "nonce") {
							conds = append(conds, funcName(fd)+": "+c)
						}
					}
					return true
				})
			}
		}
		sort.Strings(conds)
		out.f("def evmAnteNonceConditions : List String := %s\n", leanStrList(conds))
		return nil
	}
}
