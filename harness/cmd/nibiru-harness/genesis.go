package main

// genesis: C20 — a generated history populates every custom module of a real app, the whole application state is exported
// (ModuleManager.ExportGenesisForModules on the working context), a FRESH app is initialised from that export with InitChain,
// and exported again.  Observations per case:
//   sections : which custom-module sections of the two exports differ (epochs modulo current_epoch_start_height)
//   stores   : for every custom-module KV store, the key namespaces (first key byte) in which the raw contents of the two apps
//              differ
//   queries  : bank balances, account sequences, contract code/storage and ERC20 balanceOf results for sampled accounts that
//              differ between the two apps

import (
	"bytes"
	"encoding/json"
	"fmt"
	"math/big"
	"os"
	"sort"
	"strings"
	"time"

	tmdb "github.com/cometbft/cometbft-db"
	abci "github.com/cometbft/cometbft/abci/types"
	"github.com/cometbft/cometbft/libs/log"
	tmproto "github.com/cometbft/cometbft/proto/tendermint/types"
	sdkmath "cosmossdk.io/math"
	"github.com/NibiruChain/collections"
	sims "github.com/cosmos/cosmos-sdk/testutil/sims"
	sdk "github.com/cosmos/cosmos-sdk/types"
	authtypes "github.com/cosmos/cosmos-sdk/x/auth/types"
	gethcommon "github.com/ethereum/go-ethereum/common"
	"github.com/ethereum/go-ethereum/crypto"

	"github.com/NibiruChain/nibiru/v2/app"
	"github.com/NibiruChain/nibiru/v2/eth"
	"github.com/NibiruChain/nibiru/v2/x/common/asset"
	"github.com/NibiruChain/nibiru/v2/x/common/testutil"
	"github.com/NibiruChain/nibiru/v2/x/common/testutil/testapp"
	devgastypes "github.com/NibiruChain/nibiru/v2/x/devgas/v1/types"
	"github.com/NibiruChain/nibiru/v2/x/epochs"
	"github.com/NibiruChain/nibiru/v2/x/evm"
	"github.com/NibiruChain/nibiru/v2/x/evm/embeds"
	"github.com/NibiruChain/nibiru/v2/x/evm/evmtest"
	evmkeeper "github.com/NibiruChain/nibiru/v2/x/evm/keeper"
	"github.com/NibiruChain/nibiru/v2/x/evm/precompile"
	"github.com/NibiruChain/nibiru/v2/x/evm/statedb"
	inflationtypes "github.com/NibiruChain/nibiru/v2/x/inflation/types"
	oracletypes "github.com/NibiruChain/nibiru/v2/x/oracle/types"
	sudokeeper "github.com/NibiruChain/nibiru/v2/x/sudo/keeper"
	sudotypes "github.com/NibiruChain/nibiru/v2/x/sudo/types"
	tftypes "github.com/NibiruChain/nibiru/v2/x/tokenfactory/types"

	"verif/harness/internal/easm"
	"verif/harness/internal/hx"
)

func init() { runners["genesis"] = runGenesis }

var genesisModules = []string{"evm", "tokenfactory", "sudo", "inflation", "devgas", "oracle", "epochs"}

func canonJSON(raw json.RawMessage, dropKeys map[string]bool) string {
	var v any
	if err := json.Unmarshal(raw, &v); err != nil {
		return string(raw)
	}
	var strip func(x any) any
	strip = func(x any) any {
		switch t := x.(type) {
		case map[string]any:
			for k := range t {
				if dropKeys[k] {
					delete(t, k)
				} else {
					t[k] = strip(t[k])
				}
			}
			return t
		case []any:
			for i := range t {
				t[i] = strip(t[i])
			}
			return t
		}
		return x
	}
	bz, _ := json.Marshal(strip(v))
	return string(bz)
}

func runGenesis(r *hx.R, n int, w *hx.W, _ []string) error {
	one18 := new(big.Int).Exp(big.NewInt(10), big.NewInt(18), nil)
	e12 := big.NewInt(1_000_000_000_000)
	wasmCode, err := os.ReadFile(os.Getenv("VERIF_REPO_DIR") + "/x/devgas/v1/keeper/testdata/reflect.wasm")
	if err != nil {
		wasmCode, err = os.ReadFile("/repo/x/devgas/v1/keeper/testdata/reflect.wasm")
		if err != nil {
			return err
		}
	}
	for c := 0; c < n; c++ {
		deps := evmtest.NewTestDeps()
		k := deps.EvmKeeper
		a1 := deps.App
		ctx := deps.Ctx
		var hist []string
		note := func(s string) { hist = append(hist, s) }
		try := func(label string, f func() error) {
			res := hx.Recover(func() string {
				if err := f(); err != nil {
					return "err"
				}
				return "ok"
			})
			k.Bank.StateDB = nil
			note(label + "=" + res)
			w.Count(strings.SplitN(label, ":", 2)[0] + ":" + res)
		}
		fund := func(a sdk.AccAddress, denom string, amt *big.Int) {
			_ = testapp.FundAccount(a1.BankKeeper, ctx, a, sdk.NewCoins(sdk.NewCoin(denom, sdk.NewIntFromBigInt(amt))))
		}
		_ = testapp.FundModuleAccount(a1.BankKeeper, ctx, authtypes.FeeCollectorName, sdk.NewCoins(sdk.NewCoin("unibi", sdk.NewIntFromBigInt(one18))))
		fund(deps.Sender.NibiruAddr, "unibi", new(big.Int).Mul(one18, big.NewInt(100)))
		fund(deps.Sender.NibiruAddr, "stake", big.NewInt(1000))
		sender := deps.Sender.EthAddr
		gasPrice := big.NewInt(0)
		ethTx := func(to *gethcommon.Address, data []byte, value *big.Int) (*evm.MsgEthereumTxResponse, error) {
			nonce := k.GetAccNonce(ctx, sender)
			msg, err := signedEthTx(&deps, deps.Sender, nonce, to, value, 3_000_000, gasPrice, data)
			if err != nil {
				return nil, err
			}
			cctx, write := ctx.CacheContext()
			resp, err := k.EthereumTx(sdk.WrapSDKContext(cctx), msg)
			k.Bank.StateDB = nil
			if err != nil {
				return nil, err
			}
			write()
			return resp, nil
		}
		var contracts []gethcommon.Address
		var erc20s []gethcommon.Address
		// ---- evm: generated multi-frame contracts with storage (some self-destruct), twice the same bytecode sometimes
		nprog := 1 + r.Pick(2)
		for p := 0; p < nprog; p++ {
			frames := edGenFrames(r)
			nonce := k.GetAccNonce(ctx, sender)
			addrA, addrB := crypto.CreateAddress(sender, nonce), crypto.CreateAddress(sender, nonce+1)
			codeA, codeB := edCompile(frames, addrA, addrB), edCompile(frames, addrB, addrA)
			try("evm:deploy", func() error { _, e := ethTx(nil, easm.Deployer(codeA), new(big.Int).Mul(big.NewInt(20), e12)); return e })
			try("evm:deploy", func() error { _, e := ethTx(nil, easm.Deployer(codeB), new(big.Int).Mul(big.NewInt(20), e12)); return e })
			contracts = append(contracts, addrA, addrB)
			for i := 0; i < 1+r.Pick(4); i++ {
				to := []gethcommon.Address{addrA, addrB}[r.Pick(2)]
				fr := r.Pick(len(frames))
				try("evm:call", func() error { _, e := ethTx(&to, []byte{byte(fr)}, big.NewInt(0)); return e })
			}
		}
		// two instances of the same ERC20 bytecode, with different balances
		for i := 0; i < 1+r.Pick(2); i++ {
			nonce := k.GetAccNonce(ctx, sender)
			args, _ := embeds.SmartContract_TestERC20.ABI.Pack("")
			try("evm:erc20", func() error {
				_, e := ethTx(nil, append(append([]byte{}, embeds.SmartContract_TestERC20.Bytecode...), args...), big.NewInt(0))
				return e
			})
			tok := crypto.CreateAddress(sender, nonce)
			erc20s = append(erc20s, tok)
			in, _ := embeds.SmartContract_ERC20MinterWithMetadataUpdates.ABI.Pack("transfer", edFresh[i%2], big.NewInt(r.Range(1, 5000)))
			try("evm:erc20transfer", func() error { _, e := ethTx(&tok, in, big.NewInt(0)); return e })
			if r.Chance(3, 4) {
				// a slot written in one committed tx and cleared in a later one: Commit persists it as an explicit zero value, which
				// the export lists and the import has to reproduce
				up, _ := embeds.SmartContract_ERC20MinterWithMetadataUpdates.ABI.Pack("approve", edFresh[(i+1)%2], big.NewInt(r.Range(1, 5000)))
				down, _ := embeds.SmartContract_ERC20MinterWithMetadataUpdates.ABI.Pack("approve", edFresh[(i+1)%2], big.NewInt(0))
				try("evm:erc20approve", func() error { _, e := ethTx(&tok, up, big.NewInt(0)); return e })
				try("evm:erc20approve0", func() error { _, e := ethTx(&tok, down, big.NewInt(0)); return e })
			}
		}
		// ---- funtoken
		for _, d := range []string{"ulog", "ufoo"} {
			if r.Chance(3, 4) {
				a1.BankKeeper.SetDenomMetaData(ctx, mkMetaPc(d))
				fund(deps.Sender.NibiruAddr, d, big.NewInt(1_000_000))
				dd := d
				try("ft:createcoin", func() error {
					cctx, write := ctx.CacheContext()
					_, e := k.CreateFunToken(sdk.WrapSDKContext(cctx), &evm.MsgCreateFunToken{FromBankDenom: dd, Sender: deps.Sender.NibiruAddr.String()})
					if e == nil {
						write()
					}
					return e
				})
				try("ft:convert", func() error {
					cctx, write := ctx.CacheContext()
					_, e := k.ConvertCoinToEvm(sdk.WrapSDKContext(cctx), &evm.MsgConvertCoinToEvm{Sender: deps.Sender.NibiruAddr.String(),
						BankCoin: sdk.NewInt64Coin(dd, r.Range(1, 9000)), ToEthAddr: eth.EIP55Addr{Address: edFresh[r.Pick(2)]}})
					if e == nil {
						write()
					}
					return e
				})
			}
		}
		if len(erc20s) > 0 && r.Chance(3, 4) {
			tok := erc20s[0]
			try("ft:createerc20", func() error {
				cctx, write := ctx.CacheContext()
				_, e := k.CreateFunToken(sdk.WrapSDKContext(cctx), &evm.MsgCreateFunToken{FromErc20: &eth.EIP55Addr{Address: tok}, Sender: deps.Sender.NibiruAddr.String()})
				if e == nil {
					write()
				}
				return e
			})
			in, _ := embeds.SmartContract_FunToken.ABI.Pack("sendToBank", tok, big.NewInt(r.Range(1, 900)), deps.Sender.NibiruAddr.String())
			pc := precompile.PrecompileAddr_FunToken
			try("ft:sendToBank", func() error { _, e := ethTx(&pc, in, big.NewInt(0)); return e })
		}
		// a FunToken mapping whose ERC20 has self-destructed since: DeleteAccount removes the contract's account, code and storage
		// but not the mapping, which export and import have to carry over like any other
		if r.Chance(1, 2) {
			nonce := k.GetAccNonce(ctx, sender)
			kc := easm.New()
			kc.Op(easm.CALLDATASIZE, easm.ISZERO).JumpiTo("kill")
			kc.Push(0x20).Push(0).Op(easm.MSTORE).Push(3).Push(0x20).Op(easm.MSTORE)
			kc.PushBytes(append([]byte("TKN"), make([]byte, 29)...)).Push(0x40).Op(easm.MSTORE)
			kc.Push(0x60).Push(0).Op(easm.RETURN)
			kc.Label("kill").Push(0).Op(easm.SUICIDE)
			try("evm:killable", func() error { _, e := ethTx(nil, easm.Deployer(kc.Bytes()), big.NewInt(0)); return e })
			killable := crypto.CreateAddress(sender, nonce)
			try("ft:createerc20-killable", func() error {
				cctx, write := ctx.CacheContext()
				_, e := k.CreateFunToken(sdk.WrapSDKContext(cctx), &evm.MsgCreateFunToken{FromErc20: &eth.EIP55Addr{Address: killable}, Sender: deps.Sender.NibiruAddr.String()})
				if e == nil {
					write()
				}
				return e
			})
			try("evm:kill", func() error { _, e := ethTx(&killable, nil, big.NewInt(0)); return e })
		}
		// ---- tokenfactory
		tfMsg := a1.TokenFactoryKeeper
		for i := 0; i < r.Pick(3); i++ {
			sub := fmt.Sprintf("sub%d", i)
			try("tf:create", func() error {
				_, e := tfMsg.CreateDenom(sdk.WrapSDKContext(ctx), &tftypes.MsgCreateDenom{Sender: deps.Sender.NibiruAddr.String(), Subdenom: sub})
				return e
			})
			denom := tftypes.TFDenom{Creator: deps.Sender.NibiruAddr.String(), Subdenom: sub}.Denom().String()
			try("tf:mint", func() error {
				_, e := tfMsg.Mint(sdk.WrapSDKContext(ctx), &tftypes.MsgMint{Sender: deps.Sender.NibiruAddr.String(), Coin: sdk.NewInt64Coin(denom, r.Range(1, 999)), MintTo: ""})
				return e
			})
			if r.Chance(1, 2) {
				try("tf:changeadmin", func() error {
					_, e := tfMsg.ChangeAdmin(sdk.WrapSDKContext(ctx), &tftypes.MsgChangeAdmin{Sender: deps.Sender.NibiruAddr.String(), Denom: denom,
						NewAdmin: sdk.AccAddress(edFresh[0].Bytes()).String()})
					return e
				})
			}
		}
		// ---- sudo
		if r.Chance(3, 4) {
			sk := sudokeeper.NewMsgServer(a1.SudoKeeper)
			var cs []string
			for i := 0; i < 2+r.Pick(3); i++ {
				b := make([]byte, 20)
				r.Read(b)
				cs = append(cs, sdk.AccAddress(b).String())
			}
			try("sudo:add", func() error {
				_, e := sk.EditSudoers(sdk.WrapSDKContext(ctx), &sudotypes.MsgEditSudoers{Action: "add_contracts", Contracts: cs, Sender: testutil.ADDR_SUDO_ROOT})
				return e
			})
			if r.Chance(1, 3) {
				try("sudo:changeroot", func() error {
					_, e := sk.ChangeRoot(sdk.WrapSDKContext(ctx), &sudotypes.MsgChangeRoot{Sender: testutil.ADDR_SUDO_ROOT, NewRoot: deps.Sender.NibiruAddr.String()})
					return e
				})
			}
		}
		// ---- module parameters at legal boundary values (a zero fee, a zero share, an empty / a one-element list, zero gas):
		// what governance may set, export and import have to carry over unchanged
		if r.Chance(2, 3) {
			try("params:evm", func() error {
				p := k.GetParams(ctx)
				switch r.Pick(3) {
				case 0:
					p.CreateFuntokenFee = sdkmath.ZeroInt()
				case 1:
					p.CreateFuntokenFee = sdkmath.NewInt(r.Range(1, 5))
				}
				if r.Chance(1, 2) {
					p.EVMChannels = []string{"channel-7"}
				} else if r.Chance(1, 2) {
					p.EVMChannels = []string{}
				}
				return k.SetParams(ctx, p)
			})
			try("params:devgas", func() error {
				p, err := a1.DevGasKeeper.ModuleParams.Get(ctx)
				if err != nil {
					return err
				}
				switch r.Pick(3) {
				case 0:
					p.DeveloperShares = sdkmath.LegacyZeroDec()
				case 1:
					p.DeveloperShares = sdkmath.LegacyOneDec()
				}
				p.EnableFeeShare = r.Chance(1, 2)
				if r.Chance(1, 2) {
					p.AllowedDenoms = []string{"unibi"}
				}
				if err := p.Validate(); err != nil { // only what UpdateParams would accept
					return err
				}
				a1.DevGasKeeper.ModuleParams.Set(ctx, p)
				return nil
			})
			try("params:tf", func() error {
				p := tftypes.ModuleParams{DenomCreationGasConsume: uint64(r.Pick(3))}
				if err := p.Validate(); err != nil { // zero is refused by UpdateModuleParams as well
					return err
				}
				a1.TokenFactoryKeeper.Store.ModuleParams.Set(ctx, p)
				return nil
			})
		}
		// ---- inflation
		if r.Chance(2, 3) {
			try("infl:state", func() error {
				p := a1.InflationKeeper.GetParams(ctx)
				p.InflationEnabled = r.Chance(1, 2)
				p.HasInflationStarted = p.InflationEnabled || r.Chance(1, 2)
				p.EpochsPerPeriod = uint64(r.Range(1, 40))
				a1.InflationKeeper.Params.Set(ctx, p)
				a1.InflationKeeper.CurrentPeriod.Set(ctx, uint64(r.Range(0, 9)))
				a1.InflationKeeper.NumSkippedEpochs.Set(ctx, uint64(r.Range(0, 30)))
				_ = inflationtypes.ModuleName
				return nil
			})
		}
		// ---- epochs: advance
		for i := 0; i < r.Pick(4); i++ {
			ctx = ctx.WithBlockHeight(ctx.BlockHeight() + 1).WithBlockTime(ctx.BlockTime().Add(time.Duration(r.Range(1, 40)) * time.Hour))
			deps.Ctx = ctx
			try("epochs:begin", func() error { epochs.BeginBlocker(ctx, *a1.EpochsKeeper); return nil })
		}
		// ---- devgas
		if r.Chance(2, 3) {
			try("devgas:register", func() error {
				c := mustInstantiate(a1, ctx, wasmCode, deps.Sender.NibiruAddr.String(), "")
				_, e := a1.DevGasKeeper.RegisterFeeShare(ctx, &devgastypes.MsgRegisterFeeShare{ContractAddress: c,
					DeployerAddress: deps.Sender.NibiruAddr.String(), WithdrawerAddress: sdk.AccAddress(edFresh[1].Bytes()).String()})
				return e
			})
		}
		// ---- oracle: prices, pending prevotes / votes, feeder delegation, miss counters, rewards
		if r.Chance(4, 5) {
			vals := a1.StakingKeeper.GetValidators(ctx, 5)
			if len(vals) > 0 {
				val := vals[0].GetOperator()
				try("oracle:state", func() error {
					ok := a1.OracleKeeper
					// a price history over time (the TWAP window), then the current price
					for i := 0; i < r.Pick(4); i++ {
						ok.SetPrice(ctx, asset.MustNewPair("unibi:uusd"), sdkmath.LegacyNewDecWithPrec(r.Range(1, 99999), 3))
						ctx = ctx.WithBlockHeight(ctx.BlockHeight() + 1).WithBlockTime(ctx.BlockTime().Add(time.Duration(r.Range(1, 5)) * time.Minute))
						deps.Ctx = ctx
					}
					ok.SetPrice(ctx, asset.MustNewPair("unibi:uusd"), sdkmath.LegacyNewDecWithPrec(r.Range(1, 99999), 3))
					if r.Chance(1, 2) {
						ok.FeederDelegations.Insert(ctx, val, deps.Sender.NibiruAddr)
					} else {
						// the validator took its consent back: an explicit delegation to its own account (what MsgDelegateFeedConsent
						// writes), which export and import have to carry over like any other entry
						ok.FeederDelegations.Insert(ctx, val, sdk.AccAddress(val))
					}
					ok.MissCounters.Insert(ctx, val, uint64(r.Range(0, 20)))
					// a pending prevote: submitted in this vote period or anywhere in the previous one (both are still revealable /
					// not yet swept), with a short vote period so that the export can fall several periods into the chain
					op, _ := ok.Params.Get(ctx)
					if r.Chance(2, 3) {
						op.VotePeriod = uint64(r.Range(2, 8))
						ok.Params.Set(ctx, op)
						ctx = ctx.WithBlockHeight(ctx.BlockHeight() + r.Range(0, 20))
						deps.Ctx = ctx
					}
					h, vp := ctx.BlockHeight(), int64(op.VotePeriod)
					lo := (h/vp - 1) * vp
					if lo < 0 {
						lo = 0
					}
					submit := lo + r.Range(0, h-lo)
					ok.Prevotes.Insert(ctx, val, oracletypes.NewAggregateExchangeRatePrevote(oracletypes.AggregateVoteHash([]byte{1, 2, 3}), val, uint64(submit)))
					if r.Chance(1, 2) {
						ok.Votes.Insert(ctx, val, oracletypes.NewAggregateExchangeRateVote(oracletypes.ExchangeRateTuples{{Pair: asset.MustNewPair("unibi:uusd"), ExchangeRate: sdkmath.LegacyNewDec(r.Range(1, 50))}}, val))
					}
					total := sdk.NewCoins(sdk.NewInt64Coin("unibi", r.Range(1000, 99999)))
					if r.Chance(1, 2) {
						// a second denom worth less than one unit per vote period: AllocateRewards stores it as a zero-amount coin,
						// which export and import have to carry over like the rest of the reward
						total = total.Add(sdk.NewInt64Coin("uusd", r.Range(1, 5)))
					}
					if err := testapp.FundModuleAccount(a1.BankKeeper, ctx, "inflation", total); err != nil {
						return err
					}
					return ok.AllocateRewards(ctx, "inflation", total, uint64(r.Range(6, 9)))
				})
			}
		}

		// ================= export / import / export
		obs := hx.Recover(func() string {
			gen1 := a1.ModuleManager.ExportGenesisForModules(ctx, a1.AppCodec(), nil)
			stateBytes, err := json.Marshal(gen1)
			if err != nil {
				return "export-marshal-error"
			}
			a2 := app.NewNibiruApp(log.NewNopLogger(), tmdb.NewMemDB(), nil, true, sims.EmptyAppOptions{})
			importHeight := ctx.BlockHeight() + 1
			a2.InitChain(abci.RequestInitChain{ConsensusParams: sims.DefaultConsensusParams, AppStateBytes: stateBytes,
				InitialHeight: importHeight, Time: ctx.BlockTime()})
			ctx2 := a2.NewContext(false, tmproto.Header{Height: importHeight, Time: ctx.BlockTime()}).WithChainID(ctx.ChainID())
			gen2 := a2.ModuleManager.ExportGenesisForModules(ctx2, a2.AppCodec(), nil)
			var secDiff []string
			for _, m := range genesisModules {
				drop := map[string]bool{}
				if m == "epochs" {
					drop["current_epoch_start_height"] = true
				}
				if canonJSON(gen1[m], drop) != canonJSON(gen2[m], drop) {
					secDiff = append(secDiff, m)
				}
			}
			// raw stores
			var storeDiff []string
			for _, m := range genesisModules {
				d1, d2 := dumpStore(a1, ctx, m), dumpStore(a2, ctx2, m)
				m1, m2 := map[string]string{}, map[string]string{}
				for _, kv := range d1 {
					m1[kv[0]] = kv[1]
				}
				for _, kv := range d2 {
					m2[kv[0]] = kv[1]
				}
				ns := map[string]bool{}
				for kk, v := range m1 {
					if m2[kk] != v {
						ns[kk[:2]] = true
					}
				}
				for kk, v := range m2 {
					if m1[kk] != v {
						ns[kk[:2]] = true
					}
				}
				if len(ns) > 0 {
					var l []string
					for x := range ns {
						l = append(l, x)
					}
					sort.Strings(l)
					storeDiff = append(storeDiff, m+":"+strings.Join(l, "+"))
				}
			}
			// queries
			var qDiff []string
			k2 := a2.EvmKeeper
			accs := []sdk.AccAddress{deps.Sender.NibiruAddr, sdk.AccAddress(edFresh[0].Bytes()), sdk.AccAddress(edFresh[1].Bytes()), eth.EthAddrToNibiruAddr(evm.EVM_MODULE_ADDRESS)}
			for _, c := range contracts {
				accs = append(accs, sdk.AccAddress(c.Bytes()))
			}
			for _, a := range accs {
				if !a1.BankKeeper.GetAllBalances(ctx, a).IsEqual(a2.BankKeeper.GetAllBalances(ctx2, a)) {
					qDiff = append(qDiff, "balance")
				}
				s1, s2 := uint64(0), uint64(0)
				if x := a1.AccountKeeper.GetAccount(ctx, a); x != nil {
					s1 = x.GetSequence()
				}
				if x := a2.AccountKeeper.GetAccount(ctx2, a); x != nil {
					s2 = x.GetSequence()
				}
				if s1 != s2 {
					qDiff = append(qDiff, "sequence")
				}
			}
			allC := append(append([]gethcommon.Address{}, contracts...), erc20s...)
			for _, ft := range k.FunTokens.Iterate(ctx, collections.Range[[]byte]{}).Values() {
				allC = append(allC, ft.Erc20Addr.Address)
			}
			for _, c := range allC {
				acc1, acc2 := k.GetAccount(ctx, c), k2.GetAccount(ctx2, c)
				if (acc1 == nil) != (acc2 == nil) {
					qDiff = append(qDiff, "contract-account")
					continue
				}
				if acc1 == nil {
					continue
				}
				// Keeper.GetCode panics for a hash without stored bytecode (an account without code): ask only for contracts
				var code1, code2 []byte
				if acc1.IsContract() {
					code1 = k.GetCode(ctx, gethcommon.BytesToHash(acc1.CodeHash))
				}
				if acc2.IsContract() {
					code2 = k2.GetCode(ctx2, gethcommon.BytesToHash(acc2.CodeHash))
				}
				if !bytes.Equal(code1, code2) {
					qDiff = append(qDiff, "code")
				}
				for s := int64(0); s <= 7; s++ {
					key := gethcommon.BigToHash(big.NewInt(s))
					if k.GetState(ctx, c, key) != k2.GetState(ctx2, c, key) {
						qDiff = append(qDiff, "storage")
						break
					}
				}
				// contract behaviour through a query: ERC20 balanceOf / totalSupply where the contract answers
				for _, who := range []gethcommon.Address{edFresh[0], edFresh[1], sender, evm.EVM_MODULE_ADDRESS} {
					b1 := erc20Query(k, ctx, c, who)
					b2 := erc20Query(k2, ctx2, c, who)
					if b1 != b2 {
						qDiff = append(qDiff, "eth_call")
						break
					}
				}
			}
			// oracle queries
			pair := asset.MustNewPair("unibi:uusd")
			t1, e1 := a1.OracleKeeper.GetExchangeRateTwap(ctx, pair)
			t2, e2 := a2.OracleKeeper.GetExchangeRateTwap(ctx2, pair)
			if (e1 == nil) != (e2 == nil) || (e1 == nil && !t1.Equal(t2)) {
				qDiff = append(qDiff, "oracle-twap")
			}
			sort.Strings(qDiff)
			qDiff = uniqStrings(qDiff)
			// behaviour after the round trip: the same operations on both apps must leave the same module state
			var after []string
			{
				total := sdk.NewCoins(sdk.NewInt64Coin("unibi", 50_000))
				for _, x := range []struct {
					a *app.NibiruApp
					c sdk.Context
				}{{a1, ctx}, {a2, ctx2}} {
					_ = testapp.FundModuleAccount(x.a.BankKeeper, x.c, "inflation", total)
					_ = x.a.OracleKeeper.AllocateRewards(x.c, "inflation", total, 3)
				}
				r1 := fmt.Sprint(a1.OracleKeeper.Rewards.Iterate(ctx, collections.Range[uint64]{}).Values())
				r2 := fmt.Sprint(a2.OracleKeeper.Rewards.Iterate(ctx2, collections.Range[uint64]{}).Values())
				if r1 != r2 {
					after = append(after, "oracle-rewards-after-next-allocation")
				}
				for _, x := range []struct {
					a *app.NibiruApp
					c sdk.Context
				}{{a1, ctx}, {a2, ctx2}} {
					_, _ = x.a.TokenFactoryKeeper.CreateDenom(sdk.WrapSDKContext(x.c), &tftypes.MsgCreateDenom{Sender: deps.Sender.NibiruAddr.String(), Subdenom: "afterimport"})
				}
				if canonJSON(a1.AppCodec().MustMarshalJSON(a1.TokenFactoryKeeper.ExportGenesis(ctx)), nil) != canonJSON(a2.AppCodec().MustMarshalJSON(a2.TokenFactoryKeeper.ExportGenesis(ctx2)), nil) {
					after = append(after, "tokenfactory-after-create-denom")
				}
			}
			return fmt.Sprintf("sections=%s stores=%s queries=%s after=%s", items(secDiff), items(storeDiff), items(qDiff), items(after))
		})
		if obs == "panic" {
			obs = "panic msg=" + strings.ReplaceAll(hx.LastPanic, " ", "_")
		}
		w.Step(fmt.Sprintf("genesis case %d hist=%s", c, strings.Join(hist, ",")), obs)
	}
	return nil
}

func uniqStrings(l []string) []string {
	var out []string
	for i, s := range l {
		if i == 0 || l[i-1] != s {
			out = append(out, s)
		}
	}
	return out
}

func erc20Query(k *evmkeeper.Keeper, ctx sdk.Context, c, who gethcommon.Address) string {
	return hx.Recover(func() string {
		sdb := k.NewStateDB(ctx, statedb.NewEmptyTxConfig(gethcommon.Hash{}))
		evmObj := k.NewEVM(ctx, evmtest.MOCK_GETH_MESSAGE, k.GetEVMConfig(ctx), evm.NewNoOpTracer(), sdb)
		defer func() { k.Bank.StateDB = nil }()
		b, err := k.ERC20().BalanceOf(c, who, ctx, evmObj)
		if err != nil {
			return "err"
		}
		return b.String()
	})
}
