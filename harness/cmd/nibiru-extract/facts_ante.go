package main

import (
	"fmt"
	"go/ast"
	"strings"
)

// decoratorChain returns the ordered decorator names passed to sdk.ChainAnteDecorators inside the named function.
func decoratorChain(repo, dir, fn string) ([]string, error) {
	fd := findFunc(repo, dir, fn)
	if fd == nil {
		return nil, fmt.Errorf("function %s not found in %s", fn, dir)
	}
	var chain []string
	ast.Inspect(fd.Body, func(n ast.Node) bool {
		ce, ok := n.(*ast.CallExpr)
		if !ok {
			return true
		}
		se, ok := ce.Fun.(*ast.SelectorExpr)
		if !ok || se.Sel.Name != "ChainAnteDecorators" {
			return true
		}
		for _, a := range ce.Args {
			switch v := a.(type) {
			case *ast.CallExpr:
				chain = append(chain, exprString(v.Fun))
			case *ast.CompositeLit:
				chain = append(chain, exprString(v.Type))
			default:
				chain = append(chain, exprString(a))
			}
		}
		return false
	})
	if len(chain) == 0 {
		return nil, fmt.Errorf("no ChainAnteDecorators call in %s", fn)
	}
	return chain, nil
}

func init() {
	extractors["ante"] = func(repo string, out *leanFile, js map[string]any) error {
		nonEvm, err := decoratorChain(repo, "app", "NewAnteHandlerNonEVM")
		if err != nil {
			return err
		}
		evm, err := decoratorChain(repo, "app/evmante", "NewAnteHandlerEVM")
		if err != nil {
			return err
		}
		out.f("def anteChainNonEVM : List String := %s\n", leanStrList(nonEvm))
		out.f("def anteChainEVM : List String := %s\n", leanStrList(evm))
		// the extension-option routing of NewAnteHandler: the case labels of the type-URL switch and what the default does
		fd := findFunc(repo, "app", "NewAnteHandler")
		if fd == nil {
			return fmt.Errorf("NewAnteHandler not found")
		}
		var cases []string
		ast.Inspect(fd.Body, func(n ast.Node) bool {
			sw, ok := n.(*ast.SwitchStmt)
			if !ok || sw.Init == nil {
				return true
			}
			if !strings.Contains(exprStringStmt(sw.Init), "GetTypeUrl") {
				return true
			}
			for _, st := range sw.Body.List {
				cc := st.(*ast.CaseClause)
				label := "default"
				if len(cc.List) > 0 {
					label = exprString(cc.List[0])
				}
				action := "other"
				for _, b := range cc.Body {
					s := exprStringStmt(b)
					if strings.Contains(s, "NewAnteHandlerEVM") {
						action = "evm-chain"
					}
					if strings.HasPrefix(s, "return ctx, fmt.Errorf") {
						action = "reject"
					}
				}
				cases = append(cases, label+"=>"+action)
			}
			return false
		})
		out.f("def anteExtensionRouting : List String := %s\n", leanStrList(cases))
		return nil
	}
}

func exprStringStmt(s ast.Stmt) string {
	var sb strings.Builder
	_ = printerFprint(&sb, s)
	return strings.Join(strings.Fields(sb.String()), " ")
}
