/-
  SDBNested — call frames nested to any depth: Nibiru's journaled StateDB stays related to the go-ethereum reference.

  A transaction body is a tree: a write call, or a call frame with a body of its own that either returns normally (its snapshot
  stays in the revision list, as in go-ethereum) or fails (RevertToSnapshot).  From related states, with the touched accounts
  cached, the whole tree runs on both sides without an invalid snapshot id and ends in related states.  The induction carries
  `Ext`: what a run leaves behind beyond the observables — the journal grew by entries whose reversal (newest first) leads back to
  an observationally equal state, the revision list grew only by younger ids, the accounts outside `A` and the cache context are
  untouched.  `Ext` composes (`Ext.trans`), is established by a write, by Snapshot, and by RevertToSnapshot of a frame whose body
  satisfied it; mutual structural recursion over the nested inductive `Body` does the rest.
-/
import NibiruProofs.SDBFrames

namespace Nibiru.SDB
open Nibiru

inductive Body where
  | w (op : WOp)
  | frame (ok : Bool) (body : List Body)

mutual
/-- every account written anywhere in the tree is in `A` -/
def Body.On (A : List Nat) : Body → Prop
  | .w op => ∀ a, op.acct = some a → a ∈ A
  | .frame _ body => Body.OnL A body
def Body.OnL (A : List Nat) : List Body → Prop
  | [] => True
  | b :: t => Body.On A b ∧ Body.OnL A t
end

mutual
/-- Nibiru's side: `none` = an invalid snapshot id was used (the code panics) -/
def runB (s : S) : Body → Option S
  | .w op => some (applyW s op)
  | .frame ok body =>
    match runBL (snapshot s).1 body with
    | none => none
    | some s2 => if ok then some s2 else revertToSnapshot s2 (snapshot s).2
def runBL (s : S) : List Body → Option S
  | [] => some s
  | b :: t => match runB s b with | none => none | some s1 => runBL s1 t
end

mutual
/-- the reference's side -/
def runGB (g : GethSpec.G) : Body → GethSpec.G
  | .w op => (GethSpec.apply g (toSpec op)).1
  | .frame ok body =>
    if ok then runGBL (GethSpec.apply g .snapshot).1 body
    else (GethSpec.apply (runGBL (GethSpec.apply g .snapshot).1 body) (.revert g.next)).1
def runGBL (g : GethSpec.G) : List Body → GethSpec.G
  | [] => g
  | b :: t => runGBL (runGB g b) t
end

/-! ### what a run leaves behind on Nibiru's side -/

structure Ext (A : List Nat) (s s' : S) : Prop where
  undo : ∃ es, s'.journal = s.journal ++ es ∧ (∀ e ∈ es, EntryOn A e) ∧ Eqv A (revertEntries s' es.reverse) s
  cached : Cached A s'
  revs : ∃ ex, s'.revisions = s.revisions ++ ex ∧ ∀ r ∈ ex, s.nextRev ≤ r.1 ∧ r.1 < s'.nextRev
  next : s.nextRev ≤ s'.nextRev
  cache : s'.cache = s.cache
  out : ∀ b, b ∉ A → AList.find? s'.objs b = AList.find? s.objs b

theorem Ext.refl {A : List Nat} (s : S) (hc : Cached A s) : Ext A s s :=
  ⟨⟨[], by simp, by simp, Eqv.refl A s hc⟩, hc, ⟨[], by simp, by simp⟩, Nat.le_refl _, rfl, fun _ _ => rfl⟩

theorem Ext.trans {A : List Nat} {s s1 s2 : S} (h1 : Ext A s s1) (h2 : Ext A s1 s2) : Ext A s s2 := by
  obtain ⟨es1, j1, on1, e1⟩ := h1.undo
  obtain ⟨es2, j2, on2, e2⟩ := h2.undo
  obtain ⟨ex1, r1, b1⟩ := h1.revs
  obtain ⟨ex2, r2, b2⟩ := h2.revs
  refine ⟨⟨es1 ++ es2, by rw [j2, j1, List.append_assoc], ?_, ?_⟩, h2.cached, ⟨ex1 ++ ex2, by rw [r2, r1, List.append_assoc], ?_⟩,
    Nat.le_trans h1.next h2.next, h2.cache.trans h1.cache, fun b hb => (h2.out b hb).trans (h1.out b hb)⟩
  · intro e he
    rcases List.mem_append.mp he with h | h
    · exact on1 e h
    · exact on2 e h
  · rw [List.reverse_append, revertEntries_append]
    exact (revertEntries_congr es1.reverse (fun e he => on1 e (List.mem_reverse.mp he)) e2).trans e1
  · intro r hr
    have n1 := h1.next
    have n2 := h2.next
    rcases List.mem_append.mp hr with h | h
    · have := b1 r h; omega
    · have := b2 r h; omega

theorem Ext.revOK {A : List Nat} {s s' : S} (h : Ext A s s') (hrev : RevOK s) : RevOK s' := by
  obtain ⟨ex, r, b⟩ := h.revs
  intro x hx
  rw [r] at hx
  have := h.next
  rcases List.mem_append.mp hx with h1 | h1
  · have := hrev x h1; omega
  · exact (b x h1).2

theorem ext_write {A : List Nat} (s : S) (hc : Cached A s) (w : WOp) (hw : ∀ a, w.acct = some a → a ∈ A) : Ext A s (applyW s w) := by
  obtain ⟨es, hj, hon, hc1, he⟩ := undoW s hc w hw
  obtain ⟨r1, r2⟩ := applyW_revisions s w
  refine ⟨⟨es, hj, hon, he⟩, hc1, ⟨[], by simp [r1], by simp⟩, by rw [r2]; exact Nat.le_refl _, applyW_cache s w, ?_⟩
  intro b hb
  exact (applyW_other s w b (fun e => hb (hw b e))).2.2

theorem ext_snapshot {A : List Nat} (s : S) (hc : Cached A s) : Ext A s (snapshot s).1 := by
  refine ⟨⟨[], by simp [snapshot], by simp, ?_⟩, cached_of_objs hc rfl, ⟨[(s.nextRev, s.journal.length)], rfl, ?_⟩,
    Nat.le_succ _, rfl, fun _ _ => rfl⟩
  · exact eqv_of_fields hc rfl rfl rfl rfl rfl rfl
  · intro r hr
    simp only [List.mem_singleton] at hr
    subst hr
    exact ⟨Nat.le_refl _, Nat.lt_succ_self _⟩

theorem find_ge_appended2 (l ex : List (Nat × Nat)) (n j : Nat) (h : ∀ r ∈ l, r.1 < n) :
    ((l ++ [(n, j)]) ++ ex).find? (fun r => decide (r.1 ≥ n)) = some (n, j) := by
  rw [List.find?_append, find_ge_appended l n j h]
  rfl

theorem filter_lt_appended2 (l ex : List (Nat × Nat)) (n j : Nat) (h : ∀ r ∈ l, r.1 < n) (hex : ∀ r ∈ ex, n + 1 ≤ r.1) :
    ((l ++ [(n, j)]) ++ ex).filter (fun r => decide (r.1 < n)) = l := by
  rw [List.filter_append, List.filter_append]
  have h1 : l.filter (fun r => decide (r.1 < n)) = l := List.filter_eq_self.mpr (fun r hr => by simpa using h r hr)
  have h2 : ex.filter (fun r => decide (r.1 < n)) = [] := by
    apply List.filter_eq_nil_iff.mpr
    intro r hr
    have := hex r hr
    simp only [decide_eq_true_eq]; omega
  rw [h1, h2]
  simp

/-- **RevertToSnapshot of a frame whose body satisfied `Ext`.** The id is valid, and the state after the revert extends the state
    from before the frame with an EMPTY journal suffix: it is observationally equal to it on `A`, identical outside `A`, its
    revision list is the old one. -/
theorem ext_revert {A : List Nat} (s s2 : S) (hc : Cached A s) (hrev : RevOK s) (h : Ext A (snapshot s).1 s2) :
    ∃ s3, revertToSnapshot s2 (snapshot s).2 = some s3 ∧ Ext A s s3 ∧ Eqv A s3 s ∧ s3.journal = s.journal ∧
      s3.revisions = s.revisions := by
  obtain ⟨es, hj, hon, he⟩ := h.undo
  obtain ⟨ex, hr, hb⟩ := h.revs
  have hj' : s2.journal = s.journal ++ es := hj
  have hr' : s2.revisions = (s.revisions ++ [(s.nextRev, s.journal.length)]) ++ ex := hr
  have hb' : ∀ r ∈ ex, s.nextRev + 1 ≤ r.1 := fun r hx => (hb r hx).1
  have hid : (snapshot s).2 = s.nextRev := rfl
  have hfind := find_ge_appended2 s.revisions ex s.nextRev s.journal.length hrev
  have hfil := filter_lt_appended2 s.revisions ex s.nextRev s.journal.length hrev hb'
  have hdrop : s2.journal.drop s.journal.length = es := by rw [hj']; simp
  have htake : s2.journal.take s.journal.length = s.journal := by rw [hj']; simp
  have hes : ∀ e ∈ es.reverse, EntryOn A e := fun e h' => hon e (List.mem_reverse.mp h')
  refine ⟨{ (revertTo s2 s.journal.length) with revisions := s2.revisions.filter (fun r => r.1 < s.nextRev) }, ?_, ?_⟩
  · unfold revertToSnapshot
    rw [hid, hr', hfind]
    simp
  · have e0 : Eqv A (revertEntries s2 (s2.journal.drop s.journal.length).reverse) s := by
      rw [hdrop]
      exact he.trans (eqv_of_fields hc rfl rfl rfl rfl rfl rfl)
    have e1 : Eqv A { (revertTo s2 s.journal.length) with revisions := s2.revisions.filter (fun r => r.1 < s.nextRev) } s :=
      eqv_of_same_core e0 _ rfl rfl rfl rfl rfl rfl
    refine ⟨⟨⟨[], ?_, by simp, ?_⟩, cached_of_eqv e1, ⟨[], ?_, by simp⟩, ?_, ?_, ?_⟩, e1, htake, by rw [hr']; exact hfil⟩
    · show s2.journal.take s.journal.length = s.journal ++ []
      rw [htake]; simp
    · exact e1
    · show s2.revisions.filter (fun r => decide (r.1 < s.nextRev)) = s.revisions ++ []
      rw [hr', hfil]; simp
    · show s.nextRev ≤ (revertEntries s2 (s2.journal.drop s.journal.length).reverse).nextRev
      rw [revertEntries_revs]
      have := h.next
      have e : (snapshot s).1.nextRev = s.nextRev + 1 := rfl
      omega
    · show (revertEntries s2 (s2.journal.drop s.journal.length).reverse).cache = s.cache
      rw [hdrop, revertEntries_cache2 es.reverse hes]
      exact h.cache
    · intro b hb2
      show AList.find? (revertEntries s2 (s2.journal.drop s.journal.length).reverse).objs b = _
      rw [hdrop, (revertEntries_other es.reverse hes s2 b hb2).2]
      exact h.out b hb2

/-! ### what a run leaves behind on the reference's side -/

structure ExtG (g g' : GethSpec.G) : Prop where
  base : g'.base = g.base
  snaps : ∃ ex, g'.snaps = g.snaps ++ ex ∧ ∀ r ∈ ex, g.next ≤ r.1 ∧ r.1 < g'.next
  next : g.next ≤ g'.next

theorem ExtG.refl (g : GethSpec.G) : ExtG g g := ⟨rfl, ⟨[], by simp, by simp⟩, Nat.le_refl _⟩

theorem ExtG.trans {g g1 g2 : GethSpec.G} (h1 : ExtG g g1) (h2 : ExtG g1 g2) : ExtG g g2 := by
  obtain ⟨ex1, r1, b1⟩ := h1.snaps
  obtain ⟨ex2, r2, b2⟩ := h2.snaps
  refine ⟨h2.base.trans h1.base, ⟨ex1 ++ ex2, by rw [r2, r1, List.append_assoc], ?_⟩, Nat.le_trans h1.next h2.next⟩
  intro r hr
  have n1 := h1.next
  have n2 := h2.next
  rcases List.mem_append.mp hr with h | h
  · have := b1 r h; omega
  · have := b2 r h; omega

theorem ExtG.idsBelow {g g' : GethSpec.G} (h : ExtG g g') (hg : GethSpec.IdsBelow g) : GethSpec.IdsBelow g' := by
  obtain ⟨ex, r, b⟩ := h.snaps
  intro x hx
  rw [r] at hx
  have := h.next
  rcases List.mem_append.mp hx with h1 | h1
  · have := hg x h1; omega
  · exact (b x h1).2

theorem extG_plain (g : GethSpec.G) (o : GethSpec.Op) (h : o.plain = true) : ExtG g (GethSpec.apply g o).1 := by
  obtain ⟨hb, hs, hn⟩ := GethSpec.apply_plain_frame g o h
  exact ⟨hb, ⟨[], by simp [hs], by simp⟩, by rw [hn]; exact Nat.le_refl _⟩

theorem extG_snapshot (g : GethSpec.G) : ExtG g (GethSpec.apply g .snapshot).1 := by
  refine ⟨rfl, ⟨[(g.next, g.tx)], rfl, ?_⟩, Nat.le_succ _⟩
  intro r hr
  simp only [List.mem_singleton] at hr
  subst hr
  exact ⟨Nat.le_refl _, Nat.lt_succ_self _⟩

theorem find_eq_appended2 (l ex : List (Nat × GethSpec.Tx)) (n : Nat) (t : GethSpec.Tx) (h : ∀ r ∈ l, r.1 < n) :
    ((l ++ [(n, t)]) ++ ex).find? (fun r => decide (r.1 = n)) = some (n, t) := by
  rw [List.find?_append, GethSpec.find_appended l n t h]
  rfl

theorem filter_lt_appendedG (l ex : List (Nat × GethSpec.Tx)) (n : Nat) (t : GethSpec.Tx) (h : ∀ r ∈ l, r.1 < n)
    (hex : ∀ r ∈ ex, n + 1 ≤ r.1) :
    ((l ++ [(n, t)]) ++ ex).filter (fun r => decide (r.1 < n)) = l := by
  rw [List.filter_append, GethSpec.filter_appended l n t h]
  have h2 : ex.filter (fun r => decide (r.1 < n)) = [] := by
    apply List.filter_eq_nil_iff.mpr
    intro r hr
    have := hex r hr
    simp only [decide_eq_true_eq]; omega
  rw [h2]; simp

/-- the reference's revert of a frame whose body only extended the snapshot list: the transaction state and the snapshot list
    are exactly those from before the frame, the persisted base is untouched -/
theorem extG_revert (g g2 : GethSpec.G) (hg : GethSpec.IdsBelow g) (h : ExtG (GethSpec.apply g .snapshot).1 g2) :
    (GethSpec.apply g2 (.revert g.next)).1.tx = g.tx ∧ (GethSpec.apply g2 (.revert g.next)).1.base = g.base ∧
    (GethSpec.apply g2 (.revert g.next)).1.snaps = g.snaps ∧ (GethSpec.apply g2 (.revert g.next)).1.next = g2.next := by
  obtain ⟨ex, hs, hb⟩ := h.snaps
  have hs' : g2.snaps = (g.snaps ++ [(g.next, g.tx)]) ++ ex := hs
  have hb' : ∀ r ∈ ex, g.next + 1 ≤ r.1 := fun r hx => (hb r hx).1
  have hbase : g2.base = g.base := h.base
  have hfind := find_eq_appended2 g.snaps ex g.next g.tx hg
  have hfil := filter_lt_appendedG g.snaps ex g.next g.tx hg hb'
  have key : GethSpec.apply g2 (.revert g.next) =
      ({ g2 with tx := g.tx, snaps := g2.snaps.filter (fun r => r.1 < g.next) }, "ok") := by
    simp only [GethSpec.apply]
    rw [hs', hfind]
  rw [key]
  refine ⟨rfl, hbase, ?_, rfl⟩
  show g2.snaps.filter (fun r => decide (r.1 < g.next)) = g.snaps
  rw [hs']; exact hfil

/-! ### the theorem -/

mutual
theorem runB_sim {A : List Nat} (b : Body) (s : S) (g : GethSpec.G) (h : Sim s g) (hc : Cached A s) (hrev : RevOK s)
    (hg : GethSpec.IdsBelow g) (hw : Body.On A b) :
    ∃ s', runB s b = some s' ∧ Sim s' (runGB g b) ∧ Ext A s s' ∧ ExtG g (runGB g b) := by
  cases b with
  | w op =>
    simp only [Body.On] at hw
    exact ⟨applyW s op, rfl, by simp only [runGB]; exact sim_applyW s g h op, ext_write s hc op hw,
      by simp only [runGB]; exact extG_plain g (toSpec op) (toSpec_plain op)⟩
  | frame ok body =>
    simp only [Body.On] at hw
    have hs1 : Sim (snapshot s).1 (GethSpec.apply g .snapshot).1 :=
      sim_congr_ref (snapshot s).1 g _ rfl rfl
        ⟨h.cache, h.storeOK, fun a => Rel_congr s (snapshot s).1 g g rfl rfl a _ _ (h.objs a), h.refund, h.logs, h.alA, h.alS⟩
    have x0 := ext_snapshot s hc
    have y0 := extG_snapshot g
    obtain ⟨s2, hrun, hsim2, x2, y2⟩ := runBL_sim body (snapshot s).1 (GethSpec.apply g .snapshot).1 hs1 x0.cached
      (x0.revOK hrev) (y0.idsBelow hg) hw
    cases ok with
    | true =>
      refine ⟨s2, ?_, ?_, x0.trans x2, ?_⟩
      · simp only [runB, hrun]; rfl
      · simp only [runGB, if_true]; exact hsim2
      · simp only [runGB, if_true]; exact y0.trans y2
    | false =>
      obtain ⟨s3, h3, x3, e3, _, _⟩ := ext_revert s s2 hc hrev x2
      obtain ⟨t1, t2, t3, t4⟩ := extG_revert g _ hg y2
      have hsim3 : Sim s3 g := sim_of_eqv s s3 g h e3 (x3.cache.trans h.cache) x3.out
      refine ⟨s3, ?_, ?_, x3, ?_⟩
      · simp only [runB, hrun]; exact h3
      · simp only [runGB, Bool.false_eq_true, if_false]
        exact sim_congr_ref s3 g _ t2 t1 hsim3
      · simp only [runGB, Bool.false_eq_true, if_false]
        refine ⟨t2, ⟨[], by simp [t3], by simp⟩, ?_⟩
        rw [t4]
        exact Nat.le_trans y0.next y2.next
theorem runBL_sim {A : List Nat} (bs : List Body) (s : S) (g : GethSpec.G) (h : Sim s g) (hc : Cached A s) (hrev : RevOK s)
    (hg : GethSpec.IdsBelow g) (hw : Body.OnL A bs) :
    ∃ s', runBL s bs = some s' ∧ Sim s' (runGBL g bs) ∧ Ext A s s' ∧ ExtG g (runGBL g bs) := by
  cases bs with
  | nil => exact ⟨s, rfl, h, Ext.refl s hc, ExtG.refl g⟩
  | cons b t =>
    simp only [Body.OnL] at hw
    obtain ⟨s1, hr1, hs1, x1, y1⟩ := runB_sim b s g h hc hrev hg hw.1
    obtain ⟨s2, hr2, hs2, x2, y2⟩ := runBL_sim t s1 (runGB g b) hs1 x1.cached (x1.revOK hrev) (y1.idsBelow hg) hw.2
    refine ⟨s2, ?_, ?_, x1.trans x2, y1.trans y2⟩
    · simp only [runBL, hr1]; exact hr2
    · simp only [runGBL]; exact hs2
end

/-- **C03 (partial) — call frames nested to any depth.** From related states, with every touched account cached and well-formed
    revision ids on both sides: ANY tree of write calls and call frames — frames inside frames to any depth, each returning
    normally or failing — runs to the end on Nibiru's journaled StateDB (no invalid snapshot id) and ends related to the reference
    run of the same tree: every account read, `GetState`, `GetCommittedState`, refund counter, log count, access list agree. -/
theorem C03_nested_frames_simulate_reference_partial {A : List Nat} (body : List Body) (s : S) (g : GethSpec.G)
    (h : Sim s g) (hc : Cached A s) (hrev : RevOK s) (hg : GethSpec.IdsBelow g) (hw : Body.OnL A body) :
    ∃ s', runBL s body = some s' ∧ Sim s' (runGBL g body) := by
  obtain ⟨s', hr, hs, _, _⟩ := runBL_sim body s g h hc hrev hg hw
  exact ⟨s', hr, hs⟩

/-! ### Nibiru's side alone: a failed frame with any nested body restores every observable (C04, frames without precompiles) -/

mutual
theorem runB_ext {A : List Nat} (b : Body) (s : S) (hc : Cached A s) (hrev : RevOK s) (hw : Body.On A b) :
    ∃ s', runB s b = some s' ∧ Ext A s s' := by
  cases b with
  | w op =>
    simp only [Body.On] at hw
    exact ⟨applyW s op, rfl, ext_write s hc op hw⟩
  | frame ok body =>
    simp only [Body.On] at hw
    have x0 := ext_snapshot s hc
    obtain ⟨s2, hrun, x2⟩ := runBL_ext body (snapshot s).1 x0.cached (x0.revOK hrev) hw
    cases ok with
    | true => exact ⟨s2, by simp only [runB, hrun]; rfl, x0.trans x2⟩
    | false =>
      obtain ⟨s3, h3, x3, _, _, _⟩ := ext_revert s s2 hc hrev x2
      exact ⟨s3, by simp only [runB, hrun]; exact h3, x3⟩
theorem runBL_ext {A : List Nat} (bs : List Body) (s : S) (hc : Cached A s) (hrev : RevOK s) (hw : Body.OnL A bs) :
    ∃ s', runBL s bs = some s' ∧ Ext A s s' := by
  cases bs with
  | nil => exact ⟨s, rfl, Ext.refl s hc⟩
  | cons b t =>
    simp only [Body.OnL] at hw
    obtain ⟨s1, hr1, x1⟩ := runB_ext b s hc hrev hw.1
    obtain ⟨s2, hr2, x2⟩ := runBL_ext t s1 x1.cached (x1.revOK hrev) hw.2
    exact ⟨s2, by simp only [runBL, hr1]; exact hr2, x1.trans x2⟩
end

/-- **C04 (partial) — a failed frame is atomic whatever it contains, as long as it contains no precompile call.** Snapshot, ANY tree
    of writes and nested frames (returning or failing, to any depth), RevertToSnapshot: the revert succeeds and balances, nonces,
    code hashes, self-destruct flags, current and committed value of every slot, refund counter, log count and access list are what
    they were at the snapshot; the objects of all other accounts, the store and the cache context are untouched, the journal and
    the revision list are exactly the old ones. -/
theorem C04_nested_frame_revert_restores_partial {A : List Nat} (s : S) (hc : Cached A s) (hrev : RevOK s) (body : List Body)
    (hw : Body.OnL A body) :
    ∃ s3, runB s (.frame false body) = some s3 ∧ Eqv A s3 s ∧ s3.journal = s.journal ∧ s3.revisions = s.revisions ∧
      s3.cache = s.cache ∧ ∀ b, b ∉ A → AList.find? s3.objs b = AList.find? s.objs b := by
  have x0 := ext_snapshot s hc
  obtain ⟨s2, hrun, x2⟩ := runBL_ext body (snapshot s).1 x0.cached (x0.revOK hrev) hw
  obtain ⟨s3, h3, x3, e3, hj3, hr3⟩ := ext_revert s s2 hc hrev x2
  exact ⟨s3, by simp only [runB, hrun]; exact h3, e3, hj3, hr3, x3.cache, x3.out⟩

/-! ### non-vacuity -/

def demoBody : List Body :=
  [ .w (.setState 1 0 5),
    .frame true [ .w (.addBalance 1 3000000000000),
                  .frame false [ .w (.setState 1 0 9), .frame true [ .w (.suicide 1) ], .w .addLog ],
                  .w (.setNonce 1 4) ],
    .frame false [ .frame true [ .w (.setCode 1 8) ], .frame false [ .w (.addRefund 3) ] ],
    .w (.setState 1 1 2) ]

theorem demoBody_on : Body.OnL [1] demoBody := by
  simp [demoBody, Body.OnL, Body.On, WOp.acct]

/-- the hypotheses are met by a concrete three-level tree over a store with one contract; the run completes and ends related -/
example : ∃ s', runBL (applyW { txStore := demoStore } (.addBalance 1 0)) demoBody = some s' ∧
    Sim s' (runGBL (GethSpec.apply { base := demoBase } (.addBalance 1 0)).1 demoBody) := by
  apply C03_nested_frames_simulate_reference_partial (A := [1]) _ _ _ (sim_applyW _ _ demo_sim (.addBalance 1 0))
  · intro a ha
    simp only [List.mem_singleton] at ha
    subst ha
    exact ⟨{ balance := 5000000000000, nonce := 1, codeHash := 7 }, by decide⟩
  · intro r hr; cases hr
  · intro r hr; cases hr
  · exact demoBody_on

end Nibiru.SDB
