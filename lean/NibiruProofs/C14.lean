/-
  C14 — Epochs tick once per elapsed duration with hooks in order.
  Theorems about NibiruModel.Epochs (x/epochs/abci.go BeginBlocker).  Core-only proofs.
-/
import NibiruModel.Epochs
namespace Nibiru.Epochs

/-- Well-formedness of a stored epoch info: before counting starts the epoch number is 0
    (what `DefaultGenesis` and every sensible genesis provide; preserved by every tick). -/
def WF (e : EpochInfo) : Prop := e.started = false → e.current = 0

/-- The advance condition, in the words of the property. -/
theorem C14_advance_iff (t : Int) (e : EpochInfo) :
    advances e t = true ↔
      (e.startTime ≤ t ∧ (e.started = false ∨ e.curStart + e.duration ≤ t)) := by
  unfold advances shouldStart
  cases hs : e.started <;> simp <;> omega

/-- No advance: nothing changes and no hook runs. -/
theorem C14_no_advance (t h : Int) (e : EpochInfo) (hna : advances e t = false) :
    tick t h e = (e, []) := by
  simp [tick, hna]

/-- Advance: the number goes up by exactly one, start height/time are those of the block, and the hooks are
    `AfterEpochEnd n` (none on the very first tick) followed by `BeforeEpochStart (n+1)`. -/
theorem C14_advance (t h : Int) (e : EpochInfo) (hwf : WF e) (ha : advances e t = true) :
    (tick t h e).1.current = e.current + 1 ∧
    (tick t h e).1.curStart = t ∧ (tick t h e).1.curHeight = h ∧ (tick t h e).1.started = true ∧
    (tick t h e).1.id = e.id ∧ (tick t h e).1.duration = e.duration ∧ (tick t h e).1.startTime = e.startTime ∧
    (tick t h e).2 =
      (if e.started then [HookCall.afterEnd e.id e.current, .beforeStart e.id (e.current + 1)]
       else [.beforeStart e.id 1]) := by
  cases hs : e.started
  · have := hwf hs
    simp [tick, ha, hs, this]
  · simp [tick, ha, hs]

/-- exactly one, iff -/
theorem C14_advances_by_one_iff (t h : Int) (e : EpochInfo) (hwf : WF e) :
    (tick t h e).1.current = e.current + 1 ↔ advances e t = true := by
  constructor
  · intro hc
    cases ha : advances e t
    · rw [C14_no_advance t h e ha] at hc; simp at hc
    · rfl
  · intro ha; exact (C14_advance t h e hwf ha).1

theorem C14_at_most_one_advance_per_block (t h : Int) (e : EpochInfo) (hwf : WF e) :
    (tick t h e).1.current = e.current ∨ (tick t h e).1.current = e.current + 1 := by
  cases ha : advances e t
  · left; rw [C14_no_advance t h e ha]
  · right; exact (C14_advance t h e hwf ha).1

theorem tick_WF (t h : Int) (e : EpochInfo) (hwf : WF e) : WF (tick t h e).1 := by
  cases ha : advances e t
  · rw [C14_no_advance t h e ha]; exact hwf
  · intro hs; have := (C14_advance t h e hwf ha).2.2.2.1; rw [this] at hs; cases hs

theorem tick_id (t h : Int) (e : EpochInfo) : (tick t h e).1.id = e.id := by
  unfold tick; split
  · rfl
  · split <;> rfl

/-- `BeginBlocker` visits every stored epoch info exactly once, in key order: the new store is the pointwise tick
    and the hook log is the concatenation of the per-identifier logs. -/
theorem beginBlock_eq_map (t h : Int) (s : State) :
    beginBlock t h s = (s.map (fun e => (tick t h e).1), (s.map (fun e => (tick t h e).2)).flatten) := by
  induction s with
  | nil => rfl
  | cons e es ih => simp [beginBlock, ih]

/-! ### histories of one identifier -/

/-- run a history of blocks `(time, height)` on one epoch info, collecting the hook log -/
def run : List (Int × Int) → EpochInfo → EpochInfo × List HookCall
  | [], e => (e, [])
  | (t, h) :: bs, e =>
    let (e1, c1) := tick t h e
    let (e2, c2) := run bs e1
    (e2, c1 ++ c2)

/-- the hook calls of `k` consecutive advances of a started epoch whose number is `c` -/
def advSeq (id : String) (c : Nat) : Nat → List HookCall
  | 0 => []
  | k + 1 => [.afterEnd id c, .beforeStart id (c + 1)] ++ advSeq id (c + 1) k

/-- the complete expected log of an identifier that reached epoch `n` from a fresh (not started) state:
    `B 1, A 1, B 2, A 2, …, B n` -/
def fullLog (id : String) : Nat → List HookCall
  | 0 => []
  | n + 1 => .beforeStart id 1 :: advSeq id 1 n

theorem run_id (bs : List (Int × Int)) (e : EpochInfo) : (run bs e).1.id = e.id := by
  induction bs generalizing e with
  | nil => rfl
  | cons b bs ih => obtain ⟨t, h⟩ := b; simp [run, ih, tick_id]

theorem run_WF (bs : List (Int × Int)) (e : EpochInfo) (hwf : WF e) : WF (run bs e).1 := by
  induction bs generalizing e with
  | nil => exact hwf
  | cons b bs ih => obtain ⟨t, h⟩ := b; simp only [run]; exact ih _ (tick_WF t h e hwf)

theorem C14_epoch_monotone (bs : List (Int × Int)) (e : EpochInfo) (hwf : WF e) :
    e.current ≤ (run bs e).1.current := by
  induction bs generalizing e with
  | nil => exact Nat.le_refl _
  | cons b bs ih =>
    obtain ⟨t, h⟩ := b
    simp only [run]
    have h1 := C14_at_most_one_advance_per_block t h e hwf
    have h2 := ih _ (tick_WF t h e hwf)
    omega

theorem started_stays (bs : List (Int × Int)) (e : EpochInfo) (hs : e.started = true) :
    (run bs e).1.started = true := by
  induction bs generalizing e with
  | nil => exact hs
  | cons b bs ih =>
    obtain ⟨t, h⟩ := b
    simp only [run]
    apply ih
    unfold tick; split
    · exact hs
    · split <;> simp_all

theorem advSeq_append (id : String) (c k j : Nat) :
    advSeq id c k ++ advSeq id (c + k) j = advSeq id c (k + j) := by
  induction k generalizing c with
  | zero => simp [advSeq]
  | succ k ih =>
    have : c + (k + 1) = (c + 1) + k := by omega
    rw [this, show k + 1 + j = (k + j) + 1 by omega]
    simp [advSeq, ih]

/-- Hook trace of a started epoch over any history: exactly the `A n, B n+1` pairs for the epochs passed,
    in order, each exactly once. -/
theorem hook_trace_started (bs : List (Int × Int)) (e : EpochInfo) (hs : e.started = true) :
    (run bs e).2 = advSeq e.id e.current ((run bs e).1.current - e.current) := by
  induction bs generalizing e with
  | nil => simp [run, advSeq]
  | cons b bs ih =>
    obtain ⟨t, h⟩ := b
    have hwf : WF e := by intro h'; rw [hs] at h'; cases h'
    simp only [run]
    cases ha : advances e t
    · rw [C14_no_advance t h e ha]; simp [ih e hs]
    · obtain ⟨hc, _, _, hst, hid, _, _, hlog⟩ := C14_advance t h e hwf ha
      have hmono := C14_epoch_monotone bs _ (tick_WF t h e hwf)
      rw [ih _ hst, hlog, hid, hc]
      simp only [hs, if_true]
      have := advSeq_append e.id e.current 1 ((run bs (tick t h e).1).1.current - (e.current + 1))
      simp only [advSeq, List.append_nil] at this
      rw [this]
      congr 1
      omega

/-- C14 hook trace, from a fresh state: for every history of block times, the whole hook log of the identifier is
    `B 1, A 1, B 2, …, A (n-1), B n` where `n` is the epoch number reached — `AfterEpochEnd k` exactly once for each
    finished epoch, none on the very first tick, always before `BeforeEpochStart (k+1)`. -/
theorem C14_hook_trace (bs : List (Int × Int)) (e : EpochInfo) (hns : e.started = false) (hz : e.current = 0) :
    (run bs e).2 = fullLog e.id (run bs e).1.current := by
  induction bs generalizing e with
  | nil => simp [run, fullLog, hz]
  | cons b bs ih =>
    obtain ⟨t, h⟩ := b
    have hwf : WF e := fun _ => hz
    simp only [run]
    cases ha : advances e t
    · rw [C14_no_advance t h e ha]; simpa using ih e hns hz
    · obtain ⟨hc, _, _, hst, hid, _, _, hlog⟩ := C14_advance t h e hwf ha
      have htr := hook_trace_started bs _ hst
      have hmono := C14_epoch_monotone bs _ (tick_WF t h e hwf)
      rw [htr, hlog, hid, hc, hz]
      simp only [hns, Bool.false_eq_true, if_false]
      rw [hc, hz] at hmono
      obtain ⟨m, hm⟩ : ∃ m, (run bs (tick t h e).1).1.current = m + 1 := ⟨(run bs (tick t h e).1).1.current - 1, by omega⟩
      rw [hm]; simp [fullLog]

/-- the recorded start height/time are those of the last advancing block -/
theorem C14_start_recorded (t h : Int) (e : EpochInfo) (hwf : WF e) (ha : advances e t = true) :
    (tick t h e).1.curStart = t ∧ (tick t h e).1.curHeight = h :=
  ⟨(C14_advance t h e hwf ha).2.1, (C14_advance t h e hwf ha).2.2.1⟩

/-- a multi-duration gap still gives one advance per block (the next block advances again) -/
example : (run [(100, 2), (100, 3), (1000, 4), (1000, 5), (1000, 6)]
    { id := "d", startTime := 0, duration := 10, current := 0, curStart := 0, started := false, curHeight := 0 }).1.current = 2 := by
  decide

/-- non-vacuity: a fresh epoch meets the hypotheses and produces a non-trivial log -/
example : (run [(100, 2), (105, 3), (110, 4), (500, 5), (500, 6)]
    { id := "d", startTime := 50, duration := 10, current := 0, curStart := 0, started := false, curHeight := 0 }).2
    = fullLog "d" 3 := by decide

/-! ### AddEpochInfo mid-history -/

theorem C14_add_fresh_is_WF (s : State) (t h : Int) (e : EpochInfo) (hwf : WF e) :
    ∀ x ∈ (addEpochInfo s t h e).1, (∀ y ∈ s, WF y) → WF x := by
  intro x hx hall
  unfold addEpochInfo at hx
  split at hx; · exact hall x hx
  split at hx; · exact hall x hx
  split at hx; · exact hall x hx
  split at hx; · exact hall x hx
  simp only at hx
  have key : ∀ (s : State) (e' : EpochInfo), WF e' → (∀ y ∈ s, WF y) → ∀ x ∈ insert s e', WF x := by
    intro s e' he'
    induction s with
    | nil => intro _ x hx; simp [insert] at hx; subst hx; exact he'
    | cons a as ih =>
      intro hall x hx
      unfold insert at hx
      split at hx
      · rcases List.mem_cons.mp hx with h | h
        · subst h; exact he'
        · exact hall x h
      · split at hx
        · rcases List.mem_cons.mp hx with h | h
          · subst h; exact he'
          · exact hall x (List.mem_cons_of_mem _ h)
        · rcases List.mem_cons.mp hx with h | h
          · subst h; exact hall _ (List.mem_cons_self)
          · exact ih (fun y hy => hall y (List.mem_cons_of_mem _ hy)) x h
  exact key s _ (by intro hs; exact hwf hs) hall x hx

end Nibiru.Epochs
