package main

// gentx: C17 — the staking messages of a genesis file's gentxs are delivered by x/genutil during InitChain through the application's
// DeliverTx, i.e. through the ante handler, at block height 0.  Each case starts a fresh application whose genesis carries one signed
// MsgCreateValidator with a generated commission rate and reports whether InitChain accepted it and the highest commission rate among
// the validators afterwards.  Oracle-judged (no step model): "no accepted transaction creates a validator above the cap, however
// the staking message is delivered".

import (
	"encoding/json"
	"fmt"
	"time"

	sdkmath "cosmossdk.io/math"
	tmdb "github.com/cometbft/cometbft-db"
	abci "github.com/cometbft/cometbft/abci/types"
	"github.com/cometbft/cometbft/libs/log"
	tmproto "github.com/cometbft/cometbft/proto/tendermint/types"
	"github.com/cosmos/cosmos-sdk/client/tx"
	"github.com/cosmos/cosmos-sdk/crypto/keys/ed25519"
	"github.com/cosmos/cosmos-sdk/crypto/keys/secp256k1"
	sims "github.com/cosmos/cosmos-sdk/testutil/sims"
	sdk "github.com/cosmos/cosmos-sdk/types"
	"github.com/cosmos/cosmos-sdk/types/tx/signing"
	xauthsigning "github.com/cosmos/cosmos-sdk/x/auth/signing"
	authtypes "github.com/cosmos/cosmos-sdk/x/auth/types"
	banktypes "github.com/cosmos/cosmos-sdk/x/bank/types"
	genutiltypes "github.com/cosmos/cosmos-sdk/x/genutil/types"
	stakingtypes "github.com/cosmos/cosmos-sdk/x/staking/types"

	"github.com/NibiruChain/nibiru/v2/app"
	"github.com/NibiruChain/nibiru/v2/x/common/testutil"
	epochstypes "github.com/NibiruChain/nibiru/v2/x/epochs/types"
	sudotypes "github.com/NibiruChain/nibiru/v2/x/sudo/types"

	"verif/harness/internal/hx"
)

func init() { runners["gentx"] = runGentx }

func runGentx(r *hx.R, n int, w *hx.W, _ []string) error {
	for c := 0; c < n; c++ {
		// rate in units of 10^-18: around the cap (0.25), at it, far above, far below
		var raw int64
		switch r.Pick(5) {
		case 0:
			raw = 250_000_000_000_000_000
		case 1:
			raw = 250_000_000_000_000_000 + r.Range(1, 1000)
		case 2:
			raw = r.Range(250_000_000_000_000_001, 1_000_000_000_000_000_000)
		case 3:
			raw = 1_000_000_000_000_000_000
		default:
			raw = r.Range(0, 250_000_000_000_000_000)
		}
		rate := sdkmath.LegacyNewDecFromBigIntWithPrec(sdkmath.NewInt(raw).BigInt(), 18)
		op := fmt.Sprintf("gentx case %d rate=%d", c, raw)
		obs := hx.Recover(func() string {
			nibiru := app.NewNibiruApp(log.NewNopLogger(), tmdb.NewMemDB(), nil, true, sims.EmptyAppOptions{})
			cdc := nibiru.AppCodec()
			gen := nibiru.DefaultGenesis()
			gen[epochstypes.ModuleName] = cdc.MustMarshalJSON(epochstypes.DefaultGenesisFromTime(time.Date(2024, 1, 1, 0, 0, 0, 0, time.UTC)))
			gen[sudotypes.ModuleName] = cdc.MustMarshalJSON(&sudotypes.GenesisState{Sudoers: sudotypes.Sudoers{Root: testutil.ADDR_SUDO_ROOT, Contracts: []string{testutil.ADDR_SUDO_ROOT}}})
			var stakingGen stakingtypes.GenesisState
			cdc.MustUnmarshalJSON(gen[stakingtypes.ModuleName], &stakingGen)
			bond := stakingGen.Params.BondDenom
			opKey := secp256k1.GenPrivKeyFromSecret([]byte(fmt.Sprintf("verif-gentx-%d", c)))
			operator := sdk.AccAddress(opKey.PubKey().Address())
			funds := sdk.NewCoins(sdk.NewInt64Coin(bond, 10_000_000))
			gen[authtypes.ModuleName] = cdc.MustMarshalJSON(authtypes.NewGenesisState(authtypes.DefaultParams(),
				[]authtypes.GenesisAccount{authtypes.NewBaseAccount(operator, nil, 0, 0)}))
			var bankGen banktypes.GenesisState
			cdc.MustUnmarshalJSON(gen[banktypes.ModuleName], &bankGen)
			bankGen.Balances = append(bankGen.Balances, banktypes.Balance{Address: operator.String(), Coins: funds})
			bankGen.Supply = bankGen.Supply.Add(funds...)
			gen[banktypes.ModuleName] = cdc.MustMarshalJSON(&bankGen)
			msg, err := stakingtypes.NewMsgCreateValidator(sdk.ValAddress(operator), ed25519.GenPrivKeyFromSecret([]byte(fmt.Sprintf("verif-gentx-val-%d", c))).PubKey(),
				sdk.NewInt64Coin(bond, 1_000_000), stakingtypes.NewDescription("gentx-validator", "", "", "", ""),
				stakingtypes.NewCommissionRates(rate, sdkmath.LegacyOneDec(), sdkmath.LegacyOneDec()), sdkmath.OneInt())
			if err != nil || msg.ValidateBasic() != nil {
				return "invalid-msg"
			}
			txConfig := nibiru.GetTxConfig()
			tb := txConfig.NewTxBuilder()
			if err := tb.SetMsgs(msg); err != nil {
				return "invalid-msg"
			}
			tb.SetGasLimit(1_000_000)
			tb.SetMemo("gentx")
			mode := txConfig.SignModeHandler().DefaultMode()
			_ = tb.SetSignatures(signing.SignatureV2{PubKey: opKey.PubKey(), Data: &signing.SingleSignatureData{SignMode: mode}, Sequence: 0})
			sig, err := tx.SignWithPrivKey(mode, xauthsigning.SignerData{ChainID: "", AccountNumber: 0, Sequence: 0}, tb, opKey, txConfig, 0)
			if err != nil {
				return "sign-error"
			}
			_ = tb.SetSignatures(sig)
			genTxJSON, err := txConfig.TxJSONEncoder()(tb.GetTx())
			if err != nil {
				return "encode-error"
			}
			gen[genutiltypes.ModuleName] = cdc.MustMarshalJSON(genutiltypes.NewGenesisState([]json.RawMessage{genTxJSON}))
			stateBytes, err := json.MarshalIndent(gen, "", " ")
			if err != nil {
				return "encode-error"
			}
			rejected := ""
			func() {
				defer func() {
					if x := recover(); x != nil {
						rejected = fmt.Sprint(x)
					}
				}()
				nibiru.InitChain(abci.RequestInitChain{ChainId: "", ConsensusParams: sims.DefaultConsensusParams, AppStateBytes: stateBytes})
			}()
			if rejected != "" {
				return "rejected"
			}
			ctx := nibiru.NewContext(false, tmproto.Header{Height: 1, Time: time.Date(2024, 1, 1, 0, 0, 1, 0, time.UTC)})
			max := sdkmath.LegacyZeroDec()
			nv := 0
			for _, v := range nibiru.StakingKeeper.GetAllValidators(ctx) {
				nv++
				if v.Commission.Rate.GT(max) {
					max = v.Commission.Rate
				}
			}
			return fmt.Sprintf("accepted validators=%d maxrate=%s", nv, max.BigInt().String())
		})
		w.Count("gentx:" + obs[:min(8, len(obs))])
		w.Step(op, obs)
	}
	return nil
}
