package main

import (
	"go/ast"
	"sort"
	"strings"
)

// Facts about the Cosmos signature path (C02): the model assumes that an account whose key is an Ethereum key (eth_secp256k1) cannot
// sign a Cosmos tx (`EthAddrDisjoint`). The mechanism in the code: the ante chain's signature gas consumer is the SDK's
// DefaultSigVerificationGasConsumer, which knows ed25519, secp256k1, secp256r1 and multisig keys only and rejects every other key type.
//   sigGasConsumerValues   every value given to a field or variable named SigGasConsumer in the non-test files of app/, as
//                          "file: expr", sorted
func init() {
	extractors["sigconsumer"] = func(repo string, out *leanFile, js map[string]any) error {
		var vals []string
		for _, dir := range []string{"app", "app/ante", "app/evmante"} {
			for _, sf := range loadDir(repo, dir) {
				if strings.HasSuffix(sf.rel, "_test.go") {
					continue
				}
				ast.Inspect(sf.file, func(n ast.Node) bool {
					switch x := n.(type) {
					case *ast.KeyValueExpr:
						if id, ok := x.Key.(*ast.Ident); ok && id.Name == "SigGasConsumer" {
							vals = append(vals, sf.rel+": "+exprString(x.Value))
						}
					case *ast.AssignStmt:
						for i, l := range x.Lhs {
							if se, ok := l.(*ast.SelectorExpr); ok && se.Sel.Name == "SigGasConsumer" && i < len(x.Rhs) {
								vals = append(vals, sf.rel+": "+exprString(x.Rhs[i]))
							}
						}
					}
					return true
				})
			}
		}
		sort.Strings(vals)
		uniq := vals[:0:0]
		for i, v := range vals {
			if i == 0 || v != vals[i-1] {
				uniq = append(uniq, v)
			}
		}
		vals = uniq
		out.f("def sigGasConsumerValues : List String := %s\n", leanStrList(vals))
		return nil
	}
}
