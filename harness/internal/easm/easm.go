// Package easm is a tiny EVM assembler used by the harness to build test contracts (labels, PUSHn, raw opcodes).
package easm

import (
	"fmt"
	"math/big"
)

type item struct {
	op    byte
	data  []byte
	label string // definition (JUMPDEST) or reference (PUSH2 label)
	kind  int    // 0 raw op, 1 label def, 2 label ref
}

type Asm struct{ items []item }

func New() *Asm { return &Asm{} }

// opcodes used by the harness
const (
	STOP, ADD, MUL, SUB, DIV                      = 0x00, 0x01, 0x02, 0x03, 0x04
	LT, GT, EQ, ISZERO, AND, OR, NOT, SHL, SHR    = 0x10, 0x11, 0x14, 0x15, 0x16, 0x17, 0x19, 0x1b, 0x1c
	ADDRESS, BALANCE, ORIGIN, CALLER, CALLVALUE   = 0x30, 0x31, 0x32, 0x33, 0x34
	CALLDATALOAD, CALLDATASIZE, CALLDATACOPY      = 0x35, 0x36, 0x37
	CODESIZE, CODECOPY, RETURNDATASIZE            = 0x38, 0x39, 0x3d
	RETURNDATACOPY, SELFBALANCE                   = 0x3e, 0x47
	POP, MLOAD, MSTORE, MSTORE8, SLOAD, SSTORE    = 0x50, 0x51, 0x52, 0x53, 0x54, 0x55
	JUMP, JUMPI, GAS, JUMPDEST                    = 0x56, 0x57, 0x5a, 0x5b
	DUP1, DUP2, DUP3, DUP4, SWAP1, SWAP2, SWAP3   = 0x80, 0x81, 0x82, 0x83, 0x90, 0x91, 0x92
	LOG0, LOG1, LOG2                              = 0xa0, 0xa1, 0xa2
	CREATE, CALL, CALLCODE, RETURN, DELEGATECALL  = 0xf0, 0xf1, 0xf2, 0xf3, 0xf4
	CREATE2, STATICCALL, REVERT, INVALID, SUICIDE = 0xf5, 0xfa, 0xfd, 0xfe, 0xff
)

func (a *Asm) Op(ops ...byte) *Asm {
	for _, o := range ops {
		a.items = append(a.items, item{op: o})
	}
	return a
}

// Push pushes an integer with the shortest PUSHn.
func (a *Asm) Push(v int64) *Asm { return a.PushBig(big.NewInt(v)) }

func (a *Asm) PushBig(v *big.Int) *Asm {
	b := v.Bytes()
	if len(b) == 0 {
		b = []byte{0}
	}
	return a.PushBytes(b)
}

func (a *Asm) PushBytes(b []byte) *Asm {
	if len(b) == 0 || len(b) > 32 {
		panic("bad push size")
	}
	a.items = append(a.items, item{op: byte(0x5f + len(b)), data: append([]byte{}, b...)})
	return a
}

func (a *Asm) Label(name string) *Asm {
	a.items = append(a.items, item{kind: 1, label: name})
	return a
}

// PushLabel pushes the code offset of a label (PUSH2).
func (a *Asm) PushLabel(name string) *Asm {
	a.items = append(a.items, item{kind: 2, label: name})
	return a
}

func (a *Asm) JumpTo(name string) *Asm  { return a.PushLabel(name).Op(JUMP) }
func (a *Asm) JumpiTo(name string) *Asm { return a.PushLabel(name).Op(JUMPI) }

func (a *Asm) Bytes() []byte {
	pos := map[string]int{}
	off := 0
	for _, it := range a.items {
		switch it.kind {
		case 1:
			pos[it.label] = off
			off++
		case 2:
			off += 3
		default:
			off += 1 + len(it.data)
		}
	}
	var out []byte
	for _, it := range a.items {
		switch it.kind {
		case 1:
			out = append(out, JUMPDEST)
		case 2:
			p, ok := pos[it.label]
			if !ok {
				panic(fmt.Sprintf("unknown label %s", it.label))
			}
			out = append(out, 0x61, byte(p>>8), byte(p))
		default:
			out = append(out, it.op)
			out = append(out, it.data...)
		}
	}
	return out
}

// Deployer wraps runtime code in init code that returns it.
func Deployer(runtime []byte) []byte {
	a := New()
	a.Push(int64(len(runtime))).Op(DUP1).PushLabel("rt").Push(0).Op(CODECOPY).Push(0).Op(RETURN).Label("rt")
	code := a.Bytes()
	// the label emits a JUMPDEST byte which must not be part of the copied runtime: point one past it
	// (simplest: rebuild with the exact offset)
	b := New()
	b.Push(int64(len(runtime))).Op(DUP1).Push(int64(len(code))).Push(0).Op(CODECOPY).Push(0).Op(RETURN)
	for len(b.Bytes()) != len(code) {
		b.Op(STOP)
	}
	return append(b.Bytes(), runtime...)
}
