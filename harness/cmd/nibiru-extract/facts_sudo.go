package main

import (
	"go/ast"
	"sort"
)

func init() {
	extractors["sudo"] = func(repo string, out *leanFile, js map[string]any) error {
		// every function of the node's own code that consults the sudo permission check
		var sites []string
		for _, cs := range callSites(repo, []string{"x", "app", "eth"}, "CheckPermissions") {
			sites = append(sites, cs.where)
		}
		sort.Strings(sites)
		out.f("def sudoCheckSites : List String := %s\n", leanStrList(sites))
		// in each gated function the permission check comes before the first store write
		writers := map[string]bool{"Set": true, "Insert": true, "Delete": true, "SetDenomMetaData": true, "UpdateParams": true}
		var order []string
		for _, cs := range callSites(repo, []string{"x", "app", "eth"}, "CheckPermissions") {
			checkIdx, writeIdx := -1, -1
			for i, st := range cs.fn.Body.List {
				ast.Inspect(st, func(n ast.Node) bool {
					if ce, ok := n.(*ast.CallExpr); ok {
						if se, ok := ce.Fun.(*ast.SelectorExpr); ok {
							if se.Sel.Name == "CheckPermissions" && checkIdx < 0 {
								checkIdx = i
							}
							if writers[se.Sel.Name] && writeIdx < 0 {
								writeIdx = i
							}
						}
					}
					return true
				})
			}
			ok := "check-before-write"
			if writeIdx >= 0 && (checkIdx < 0 || checkIdx >= writeIdx) {
				ok = "WRITE-BEFORE-CHECK"
			}
			order = append(order, cs.where+"="+ok)
		}
		sort.Strings(order)
		out.f("def sudoCheckOrder : List String := %s\n", leanStrList(order))
		var root []string
		for _, n := range []string{"senderHasPermission", "validateRootPermissions"} {
			for _, cs := range callSites(repo, []string{"x/sudo"}, n) {
				root = append(root, n+"@"+cs.where)
			}
		}
		sort.Strings(root)
		out.f("def sudoRootCheckSites : List String := %s\n", leanStrList(root))
		return nil
	}
}
