/-
  NibiruModel.MsgTree — how a message can reach its handler: the non-EVM ante chain's guards (app/ante:
  AnteDecoratorPreventEtheruemTxMsgs — top level only; AnteDecoratorAuthzGuard — one level into MsgExec;
  AnteDecoratorStakingCommission), the EVM ante chain's "only MsgEthereumTx" rule, and the routers that execute nested messages
  without any ante: authz `DispatchActions` (implicit accept iff the inner signer is the grantee, else a grant is needed), gov
  `SubmitProposal` (every message must be signed by the gov account), the wasm message handler (app/wasmext: signer must be the
  contract, MsgEthereumTx refused).
  Accounts are naturals. The signer of a MsgEthereumTx is the address recovered from its signature.
-/
import NibiruModel.Prelude
namespace Nibiru.MsgTree

inductive Kind where | eth | comm | send | exec | grant | proposal | wasm
deriving Repr, DecidableEq

inductive Msg where
  | eth (sender : Nat)                              -- MsgEthereumTx, `sender` recovered from the signature
  | comm (operator : Nat) (rate : Nat)              -- MsgCreateValidator / MsgEditValidator with a commission rate in units of 10⁻¹⁸ (the raw LegacyDec integer)
  | send (signer : Nat)                             -- any other ordinary message
  | grant (granter grantee : Nat) (k : Kind)        -- authz MsgGrant with a generic authorization for message kind k
  | exec (grantee : Nat) (inner : List Msg)         -- authz MsgExec
  | proposal (proposer : Nat) (inner : List Msg)    -- gov MsgSubmitProposal
  | wasm (sender : Nat) (contract : Nat) (emitted : List Msg)   -- MsgExecuteContract whose contract dispatches `emitted`
deriving Repr

def Msg.kind : Msg → Kind
  | .eth _ => .eth | .comm _ _ => .comm | .send _ => .send | .grant _ _ _ => .grant
  | .exec _ _ => .exec | .proposal _ _ => .proposal | .wasm _ _ _ => .wasm

/-- `GetSigners()[0]` -/
def Msg.signer : Msg → Nat
  | .eth s => s | .comm o _ => o | .send s => s | .grant g _ _ => g
  | .exec g _ => g | .proposal p _ => p | .wasm s _ _ => s

structure State where
  grants     : List (Nat × Nat × Kind) := []       -- (granter, grantee, kind)
  commission : List (Nat × Nat) := []              -- operator ↦ rate (raw LegacyDec, 10⁻¹⁸)
  ethRuns    : Nat := 0                            -- how often the EthereumTx handler ran outside the EVM ante pipeline
  ethLegit   : Nat := 0                            -- … behind it
deriving Repr, Inhabited

/-- 25% as a raw LegacyDec: 0.25 · 10¹⁸ -/
def cap : Nat := 250000000000000000
def govAcct : Nat := 4

def hasGrant (s : State) (granter grantee : Nat) (k : Kind) : Bool :=
  s.grants.any (fun g => g.1 = granter && g.2.1 = grantee && g.2.2 = k)

mutual
/-- executing a message through the message router (no ante). `none` = an error: the whole tx fails. -/
def run (s : State) : Msg → Option State
  | .eth _ => some { s with ethRuns := s.ethRuns + 1 }
  | .comm o r => some { s with commission := AList.set s.commission o r }
  | .send _ => some s
  | .grant g e k => if g = e then none else some { s with grants := (g, e, k) :: s.grants }
  | .exec grantee inner => dispatch s grantee inner
  | .proposal _ inner => if proposalOk inner then some s else none        -- content is executed only if the proposal passes
  | .wasm _ c emitted => wasmDispatch s c emitted
/-- authz `DispatchActions` -/
def dispatch (s : State) (grantee : Nat) : List Msg → Option State
  | [] => some s
  | m :: ms =>
    if m.signer = grantee || hasGrant s m.signer grantee m.kind then
      match run s m with
      | some s' => dispatch s' grantee ms
      | none => none
    else none
/-- the wasm message handler: signer must be the contract, MsgEthereumTx is refused -/
def wasmDispatch (s : State) (c : Nat) : List Msg → Option State
  | [] => some s
  | m :: ms =>
    if m.signer = c && m.kind ≠ .eth then
      match run s m with
      | some s' => wasmDispatch s' c ms
      | none => none
    else none
/-- gov `SubmitProposal`: every message must have the gov account as its signer -/
def proposalOk : List Msg → Bool
  | [] => true
  | m :: ms => decide (m.signer = govAcct) && proposalOk ms
end

/-! ### ante guards of the non-EVM chain -/

def isEth : Msg → Bool | .eth _ => true | _ => false

/-- AnteDecoratorPreventEtheruemTxMsgs (top level) and AnteDecoratorAuthzGuard (one level into MsgExec; generic grants for
    MsgEthereumTx at top level) -/
def guardEth : Msg → Bool
  | .eth _ => false
  | .exec _ inner => !inner.any isEth
  | .grant _ _ k => k ≠ .eth
  | _ => true

mutual
/-- AnteDecoratorStakingCommission, looking through MsgExec at any depth
    (fix: commit "commission cap is enforced inside authz MsgExec") -/
def guardCommission : Msg → Bool
  | .comm _ r => decide (r ≤ cap)
  | .exec _ inner => guardCommissionAll inner
  | _ => true
def guardCommissionAll : List Msg → Bool
  | [] => true
  | m :: ms => guardCommission m && guardCommissionAll ms
end

/-- the decorator as it was before the repair: top-level messages only -/
def guardCommissionTopOnly : Msg → Bool
  | .comm _ r => decide (r ≤ cap)
  | _ => true

def runAll (s : State) : List Msg → Option State
  | [] => some s
  | m :: ms => match run s m with
    | some s' => runAll s' ms
    | none => none

structure Tx where
  evmExt  : Bool            -- carries ExtensionOptionsEthereumTx
  sigOk   : Bool            -- every top-level signer is an account that can sign a Cosmos tx, and signed
  msgs    : List Msg

/-- which commission guard the node runs (facts regenerated from app/ante/commission.go decide) -/
inductive CommGuard where | topOnly | throughExec
deriving Repr, DecidableEq

/-- read the guard off the regenerated facts: the decorator looks through MsgExec iff its type switch has a case for it -/
def guardOfFacts (cases : List String) : CommGuard :=
  if cases.contains "*authz.MsgExec" && cases.contains "calls:GetMessages" then .throughExec else .topOnly

def commGuardOk (g : CommGuard) (msgs : List Msg) : Bool :=
  match g with
  | .throughExec => msgs.all guardCommission
  | .topOnly => msgs.all guardCommissionTopOnly

/-- DeliverTx. `none` = rejected by a modelled rule (the implementation may reject for further reasons). -/
def deliver (g : CommGuard) (s : State) (tx : Tx) : Option State :=
  if tx.evmExt then
    -- EVM ante chain: every message must be a MsgEthereumTx; they then run behind the EVM admission pipeline
    if tx.msgs.all isEth then some { s with ethLegit := s.ethLegit + tx.msgs.length } else none
  else
    if !tx.sigOk then none
    else if !tx.msgs.all guardEth then none
    else if !commGuardOk g tx.msgs then none
    else runAll s tx.msgs

/-! ### line protocol: a small parser for the tree syntax of the harness
    `eth` | `comm:op:rate` | `send:who` | `grant:g:e:kind` | `exec:g[m;m]` | `proposal:p[..]` | `wasm:s[..]`, top level separated by `,` -/

def parseKind : String → Kind
  | "eth" => .eth | "comm" => .comm | "send" => .send | "exec" => .exec | "grant" => .grant | "proposal" => .proposal | _ => .wasm

def ethAcct : Nat := 5
def contractAcct : Nat := 3

/-- tokenizer: splits on the structural characters, keeping them -/
def tokenize (s : String) : List String :=
  let rec go (cs : List Char) (cur : List Char) (acc : List String) : List String :=
    match cs with
    | [] => (if cur.isEmpty then acc else String.ofList cur.reverse :: acc).reverse
    | c :: rest =>
      if c = '[' || c = ']' || c = ';' || c = ',' then
        let acc' := if cur.isEmpty then acc else String.ofList cur.reverse :: acc
        go rest [] (String.singleton c :: acc')
      else go rest (c :: cur) acc
  go s.toList [] []

def leafOf (t : String) : Option Msg :=
  match t.splitOn ":" with
  | ["eth"] => some (.eth ethAcct)
  | ["comm", o, r] => some (.comm (o.toNat?.getD 0) (r.toNat?.getD 0))
  | ["send", w] => some (.send (w.toNat?.getD 0))
  | ["grant", g, e, k] => some (.grant (g.toNat?.getD 0) (e.toNat?.getD 0) (parseKind k))
  | _ => none

/-- recursive-descent parser with fuel; returns the parsed messages up to a closing bracket and the remaining tokens -/
def parseList : Nat → List String → List Msg → Option (List Msg × List String)
  | 0, _, _ => none
  | _, [], acc => some (acc.reverse, [])
  | fuel + 1, t :: ts, acc =>
    if t = "]" then some (acc.reverse, ts)
    else if t = ";" || t = "," then parseList fuel ts acc
    else
      match ts with
      | "[" :: rest =>
        match parseList fuel rest [] with
        | some (inner, rest') =>
          let hd := t.splitOn ":"
          let who := ((hd.getD 1 "0").toNat?).getD 0
          let m : Msg := match hd.getD 0 "" with
            | "exec" => .exec who inner
            | "proposal" => .proposal who inner
            | _ => .wasm who contractAcct inner
          parseList fuel rest' (m :: acc)
        | none => none
      | _ =>
        match leafOf t with
        | some m => parseList fuel ts (m :: acc)
        | none => none

def parseMsgs (s : String) : Option (List Msg) :=
  let toks := tokenize s
  (parseList (toks.length + 2) toks []).map (·.1)

def renderVals (s : State) : String :=
  renderItems "," ((sortBy (fun a b => decide (a.1 ≤ b.1)) s.commission).map (fun x => s!"{x.1}:{x.2}"))

def step (g : CommGuard) (s : State) (args : List String) : State × String :=
  match args with
  | ["reset", vals] =>
    let v := (parseItems "," ((vals.drop 4).toString)).filterMap (fun it => match it.splitOn ":" with
      | [o, r] => match o.toNat?, r.toNat? with | some o, some r => some (o, r) | _, _ => none
      | _ => none)
    ({ s with commission := v }, "ok")
  | ["tx", ext, sig, implRes, body] =>
    match parseMsgs body with
    | none => (s, "bad-op")
    | some msgs =>
      -- `implRes`: ok | fail (before or inside the ante chain, not by an Ethereum guard) | failguard | failexec (in message execution).
      -- The Ethereum guards are the first decorators of the non-EVM chain: a tx they refuse can fail earlier only in basic
      -- validation (`fail`), never reach message execution, and never be attributed to them when the model's guard accepts it.
      let failOut := if implRes = "failexec" then "fail:exec" else "fail"
      if ext ≠ "1" && !msgs.all guardEth then (s, if implRes = "fail" then "fail" else "fail:ethguard") else
      match deliver g s { evmExt := ext = "1", sigOk := sig = "1", msgs := msgs } with
      | none => (s, failOut)                      -- must fail by a modelled rule
      | some s' =>
        if implRes ≠ "ok" then (s, failOut)       -- rejected by the implementation for a reason outside the model
        else (s', s!"ok eth={s'.ethRuns - s.ethRuns + (s'.ethLegit - s.ethLegit)} VAL={renderVals s'}")
  | _ => (s, "bad-op")

end Nibiru.MsgTree
