package main

import (
	"fmt"
	"go/ast"
	"sort"
	"strings"
)

// storeFields: for every custom module, each `collections.*` field of its keeper/store struct, and whether the module's
// ExportGenesis and InitGenesis mention it (directly, or through a keeper method whose body mentions it).
// Consumed by NibiruModel/Genesis.lean (C20): every field must be classified.
func init() {
	type mod struct {
		name       string
		structDirs []string // where the keeper structs live
		structs    []string
		genDir     string   // where Init/ExportGenesis live
		genFuncs   [2]string
	}
	mods := []mod{
		{"evm", []string{"x/evm/keeper"}, []string{"EvmState", "Keeper"}, "x/evm/evmmodule", [2]string{"InitGenesis", "ExportGenesis"}},
		{"oracle", []string{"x/oracle/keeper"}, []string{"Keeper"}, "x/oracle", [2]string{"InitGenesis", "ExportGenesis"}},
		{"tokenfactory", []string{"x/tokenfactory/keeper"}, []string{"StoreAPI"}, "x/tokenfactory/keeper", [2]string{"Keeper.InitGenesis", "Keeper.ExportGenesis"}},
		{"sudo", []string{"x/sudo/keeper"}, []string{"Keeper"}, "x/sudo", [2]string{"InitGenesis", "ExportGenesis"}},
		{"inflation", []string{"x/inflation/keeper"}, []string{"Keeper"}, "x/inflation", [2]string{"InitGenesis", "ExportGenesis"}},
		{"epochs", []string{"x/epochs/keeper"}, []string{"Keeper"}, "x/epochs", [2]string{"InitGenesis", "ExportGenesis"}},
		{"devgas", []string{"x/devgas/v1/keeper"}, []string{"Keeper"}, "x/devgas/v1", [2]string{"InitGenesis", "ExportGenesis"}},
	}
	extractors["storefields"] = func(repo string, out *leanFile, js map[string]any) error {
		var rows []string
		for _, m := range mods {
			// fields
			type fld struct{ name, typ string }
			var fields []fld
			for _, d := range m.structDirs {
				for _, sf := range loadDir(repo, d) {
					if strings.Contains(sf.rel, "/testutil") {
						continue
					}
					for _, decl := range sf.file.Decls {
						gd, ok := decl.(*ast.GenDecl)
						if !ok {
							continue
						}
						for _, sp := range gd.Specs {
							ts, ok := sp.(*ast.TypeSpec)
							if !ok {
								continue
							}
							st, ok := ts.Type.(*ast.StructType)
							if !ok {
								continue
							}
							want := false
							for _, s := range m.structs {
								if ts.Name.Name == s {
									want = true
								}
							}
							if !want || filepathDir(sf.rel) != d {
								continue
							}
							for _, f := range st.Fields.List {
								t := exprString(f.Type)
								if t == "FunTokenState" { // type FunTokenState = collections.IndexedMap[…]
									t = "collections.IndexedMap"
								}
								if !strings.HasPrefix(t, "collections.") {
									continue
								}
								kind := t
								if i := strings.IndexAny(kind, "["); i > 0 {
									kind = kind[:i]
								}
								for _, n := range f.Names {
									fields = append(fields, fld{n.Name, kind})
								}
							}
						}
					}
				}
			}
			if len(fields) == 0 {
				return fmt.Errorf("no collections fields found for module %s", m.name)
			}
			// mentions: names reachable from the genesis function (one level of keeper methods/functions of the struct dirs)
			mention := func(fn string) map[string]bool {
				seen := map[string]bool{}
				fd := findFunc(repo, m.genDir, fn)
				if fd == nil {
					return seen
				}
				var visit func(body *ast.BlockStmt, depth int)
				visit = func(body *ast.BlockStmt, depth int) {
					ast.Inspect(body, func(n ast.Node) bool {
						se, ok := n.(*ast.SelectorExpr)
						if !ok {
							return true
						}
						seen[se.Sel.Name] = true
						if depth < 2 {
							for _, d := range append([]string{m.genDir}, m.structDirs...) {
								for _, sf := range loadDir(repo, d) {
									for _, decl := range sf.file.Decls {
										if g, ok := decl.(*ast.FuncDecl); ok && g.Body != nil && g.Name.Name == se.Sel.Name && g != fd {
											visit(g.Body, depth+1)
										}
									}
								}
							}
						}
						return true
					})
				}
				visit(fd.Body, 0)
				return seen
			}
			inInit, inExport := mention(m.genFuncs[0]), mention(m.genFuncs[1])
			sort.Slice(fields, func(i, j int) bool { return fields[i].name < fields[j].name })
			for _, f := range fields {
				rows = append(rows, fmt.Sprintf("(%s, %s, %s, %v, %v)", leanStr(m.name), leanStr(f.name), leanStr(f.typ), inExport[f.name], inInit[f.name]))
			}
		}
		out.f("def storeFields : List (String × String × String × Bool × Bool) := [%s]\n", strings.Join(rows, ",\n  "))
		return nil
	}
}

func filepathDir(p string) string {
	if i := strings.LastIndex(p, "/"); i >= 0 {
		return p[:i]
	}
	return "."
}

// oracleRewardsIDInit: the expression InitGenesis stores as the oracle's RewardsID sequence (the NEXT id handed out by
// AllocateRewards is the stored value: collections.Sequence.Next returns the current value and stores value+1).
func init() {
	extractors["oraclegenesis"] = func(repo string, out *leanFile, js map[string]any) error {
		fd := findFunc(repo, "x/oracle", "InitGenesis")
		if fd == nil {
			return fmt.Errorf("oracle InitGenesis not found")
		}
		var exprs []string
		ast.Inspect(fd.Body, func(n ast.Node) bool {
			if call, ok := n.(*ast.CallExpr); ok && exprString(call.Fun) == "keeper.RewardsID.Set" && len(call.Args) == 2 {
				exprs = append(exprs, exprString(call.Args[1]))
			}
			return true
		})
		out.f("def oracleRewardsIDInit : List String := %s\n", leanStrList(exprs))
		return nil
	}
}
