package main

// gspec: C03, interface level — the same generated sequences of vm.StateDB calls (several transactions per history) are executed
//   gspecnib : on Nibiru's real x/evm/statedb.StateDB over the real keeper, and
//   gspecgeth: on upstream go-ethereum's real core/state.StateDB (in-memory trie database);
// both print the observations that the reference semantics NibiruModel/GethSpec.lean must predict.
// The generator stays inside what the interpreter can do: storage writes only to contract accounts, CreateAccount only where no
// storage is persisted, nonce/code never reset to empty, balances never negative, amounts in whole unibi (10^12 wei).

import (
	"fmt"
	"math/big"
	"sort"
	"strings"

	sdk "github.com/cosmos/cosmos-sdk/types"
	gethcommon "github.com/ethereum/go-ethereum/common"
	"github.com/ethereum/go-ethereum/core/rawdb"
	gethstate "github.com/ethereum/go-ethereum/core/state"
	gethcore "github.com/ethereum/go-ethereum/core/types"
	"github.com/ethereum/go-ethereum/core/vm"

	"github.com/NibiruChain/nibiru/v2/x/evm/evmtest"
	"github.com/NibiruChain/nibiru/v2/x/evm/statedb"

	"verif/harness/internal/hx"
)

func init() {
	runners["gspecnib"] = func(r *hx.R, n int, w *hx.W, _ []string) error { return runGspec(r, n, w, "nib") }
	runners["gspecgeth"] = func(r *hx.R, n int, w *hx.W, _ []string) error { return runGspec(r, n, w, "geth") }
}

type gsBackend interface {
	db() vm.StateDB
	logs() int
	commit() // end of transaction: persist, start the next one
	persisted(i int) (nonce uint64, code []byte, bal *big.Int)
	persistedSlot(i, j int) gethcommon.Hash
}

var gsKeys = []gethcommon.Hash{gethcommon.BigToHash(big.NewInt(0)), gethcommon.BigToHash(big.NewInt(1)), gethcommon.BigToHash(big.NewInt(2))}

// ---- Nibiru
type gsNib struct {
	deps *evmtest.TestDeps
	ctx  sdk.Context
	sdb  *statedb.StateDB
	tx   int
}

func (b *gsNib) newTx() {
	b.tx++
	b.sdb = b.deps.EvmKeeper.NewStateDB(b.ctx, statedb.NewEmptyTxConfig(gethcommon.BigToHash(big.NewInt(int64(b.tx)))))
}
func (b *gsNib) db() vm.StateDB { return b.sdb }
func (b *gsNib) logs() int      { return len(b.sdb.Logs()) }
func (b *gsNib) commit() {
	if err := b.sdb.Commit(); err != nil {
		panic(err)
	}
	b.deps.EvmKeeper.Bank.StateDB = nil
	b.newTx()
}
func (b *gsNib) persisted(i int) (uint64, []byte, *big.Int) {
	k := b.deps.EvmKeeper
	acc := k.GetAccount(b.ctx, sdbAddrs[i])
	if acc == nil {
		return 0, nil, big.NewInt(0)
	}
	var code []byte
	if acc.IsContract() {
		code = k.GetCode(b.ctx, gethcommon.BytesToHash(acc.CodeHash))
	}
	return acc.Nonce, code, new(big.Int).Mul(acc.BalanceNative, big.NewInt(1_000_000_000_000))
}
func (b *gsNib) persistedSlot(i, j int) gethcommon.Hash {
	return b.deps.EvmKeeper.GetState(b.ctx, sdbAddrs[i], gsKeys[j])
}

// ---- go-ethereum
type gsGeth struct {
	sdb *gethstate.StateDB
	tx  int
}

func (b *gsGeth) thash() gethcommon.Hash { return gethcommon.BigToHash(big.NewInt(int64(b.tx))) }
func (b *gsGeth) newTx() {
	b.tx++
	b.sdb.Prepare(b.thash(), b.tx)
	b.sdb.PrepareAccessList(gethcommon.Address{0xff}, nil, nil, nil)
}
func (b *gsGeth) db() vm.StateDB { return b.sdb }
func (b *gsGeth) logs() int      { return len(b.sdb.GetLogs(b.thash(), gethcommon.Hash{})) }
func (b *gsGeth) commit() {
	b.sdb.Finalise(true)
	b.newTx()
}
func (b *gsGeth) persisted(i int) (uint64, []byte, *big.Int) {
	a := sdbAddrs[i]
	return b.sdb.GetNonce(a), b.sdb.GetCode(a), b.sdb.GetBalance(a)
}
func (b *gsGeth) persistedSlot(i, j int) gethcommon.Hash { return b.sdb.GetCommittedState(sdbAddrs[i], gsKeys[j]) }

func runGspec(r *hx.R, n int, w *hx.W, mode string) error {
	var deps evmtest.TestDeps
	if mode == "nib" {
		deps = evmtest.NewTestDeps()
	}
	e12 := big.NewInt(1_000_000_000_000)
	for h := 0; h < n; h++ {
		// initial persisted state: 0 = funded EOA, 1 = absent (or funded), 2,3 = contracts with storage
		type initAcc struct {
			nonce uint64
			code  byte
			bal   int64 // unibi
			slots [3]int64
		}
		init := []initAcc{
			{nonce: uint64(r.Range(0, 3)), bal: r.Range(1, 50)},
			{},
			{nonce: 1, code: byte(r.Range(1, 5)), bal: r.Range(0, 9), slots: [3]int64{r.Range(0, 4), r.Range(0, 4), 0}},
			{nonce: 1, code: byte(r.Range(1, 5)), bal: 0, slots: [3]int64{0, r.Range(0, 4), r.Range(0, 4)}},
		}
		if r.Chance(1, 3) {
			init[1] = initAcc{nonce: 0, bal: r.Range(1, 9)}
		}
		var be gsBackend
		if mode == "nib" {
			cctx, _ := deps.Ctx.CacheContext()
			k := deps.EvmKeeper
			setup := k.NewStateDB(cctx, statedb.NewEmptyTxConfig(gethcommon.Hash{}))
			for i, ia := range init {
				a := sdbAddrs[i]
				if ia.nonce == 0 && ia.code == 0 && ia.bal == 0 {
					continue
				}
				setup.SetNonce(a, ia.nonce)
				setup.AddBalance(a, new(big.Int).Mul(big.NewInt(ia.bal), e12))
				if ia.code != 0 {
					setup.SetCode(a, []byte{ia.code})
				}
				for j, v := range ia.slots {
					if v != 0 {
						setup.SetState(a, gsKeys[j], gethcommon.BigToHash(big.NewInt(v)))
					}
				}
			}
			if err := setup.Commit(); err != nil {
				return err
			}
			k.Bank.StateDB = nil
			nb := &gsNib{deps: &deps, ctx: cctx}
			nb.newTx()
			be = nb
		} else {
			sdb, err := gethstate.New(gethcommon.Hash{}, gethstate.NewDatabase(rawdb.NewMemoryDatabase()), nil)
			if err != nil {
				return err
			}
			for i, ia := range init {
				a := sdbAddrs[i]
				if ia.nonce == 0 && ia.code == 0 && ia.bal == 0 {
					continue
				}
				sdb.SetNonce(a, ia.nonce)
				sdb.AddBalance(a, new(big.Int).Mul(big.NewInt(ia.bal), e12))
				if ia.code != 0 {
					sdb.SetCode(a, []byte{ia.code})
				}
				for j, v := range ia.slots {
					if v != 0 {
						sdb.SetState(a, gsKeys[j], gethcommon.BigToHash(big.NewInt(v)))
					}
				}
			}
			sdb.Finalise(true)
			gb := &gsGeth{sdb: sdb}
			gb.newTx()
			be = gb
		}
		renderBase := func() string {
			var accts, slots []string
			for i := range sdbAddrs {
				nonce, code, bal := be.persisted(i)
				accts = append(accts, fmt.Sprintf("%d:%d:%d:%s", i, nonce, codeID(code), bal))
				for j := range gsKeys {
					if v := be.persistedSlot(i, j); (v != gethcommon.Hash{}) {
						slots = append(slots, fmt.Sprintf("%d.%d=%s", i, j, hashInt(v)))
					}
				}
			}
			return fmt.Sprintf("ACC=%s ST=%s", items(accts), items(slots))
		}
		w.Step("gspec reset "+renderBase(), "ok")
		readAcc := func(i int) string {
			db := be.db()
			a := sdbAddrs[i]
			s := b01(db.HasSuicided(a))
			if !db.Exist(a) || db.Empty(a) {
				return "E" + s + ":0:0:0"
			}
			return fmt.Sprintf("X%s:%s:%d:%d", s, db.GetBalance(a), db.GetNonce(a), codeID(db.GetCode(a)))
		}
		misc := func() string {
			db := be.db()
			var al []int
			ns := 0
			for i, a := range sdbAddrs {
				if db.AddressInAccessList(a) {
					al = append(al, i)
				}
				for _, key := range gsKeys {
					if _, ok := db.SlotInAccessList(a, key); ok {
						ns++
					}
				}
			}
			sort.Ints(al)
			var als []string
			for _, x := range al {
				als = append(als, fmt.Sprint(x))
			}
			return fmt.Sprintf("R=%d L=%d AL=%s/%d", db.GetRefund(), be.logs(), items(als), ns)
		}
		txs := 1 + r.Pick(3)
		for t := 0; t < txs; t++ {
			var live []int // valid snapshot ids (as sequence numbers within the tx)
			realID := map[int]int{}
			nextSeq := 0
			steps := 6 + r.Pick(25)
			for s := 0; s < steps; s++ {
				db := be.db()
				var op string
				res := hx.Recover(func() string {
					c := r.Pick(30)
					switch {
					case c < 4:
						i := r.Pick(4)
						op = fmt.Sprintf("gspec read %d", i)
						return readAcc(i)
					case c < 8:
						i, j := r.Pick(4), r.Pick(3)
						op = fmt.Sprintf("gspec getState %d %d", i, j)
						a := sdbAddrs[i]
						return fmt.Sprintf("%s/%s", hashInt(db.GetState(a, gsKeys[j])), hashInt(db.GetCommittedState(a, gsKeys[j])))
					case c < 11:
						i := r.Pick(4)
						d := r.Range(0, 6)
						if r.Chance(1, 3) {
							// a debit the account can afford
							bal := new(big.Int).Div(db.GetBalance(sdbAddrs[i]), e12).Int64()
							if bal > 0 {
								d = -r.Range(1, bal)
							}
						}
						op = fmt.Sprintf("gspec addBalance %d %s", i, new(big.Int).Mul(big.NewInt(d), e12))
						if d >= 0 {
							db.AddBalance(sdbAddrs[i], new(big.Int).Mul(big.NewInt(d), e12))
						} else {
							db.SubBalance(sdbAddrs[i], new(big.Int).Mul(big.NewInt(-d), e12))
						}
						return "ok"
					case c < 13:
						i := r.Pick(4)
						v := db.GetNonce(sdbAddrs[i]) + uint64(r.Range(1, 2))
						op = fmt.Sprintf("gspec setNonce %d %d", i, v)
						db.SetNonce(sdbAddrs[i], v)
						return "ok"
					case c < 14:
						i := 2 + r.Pick(2)
						v := byte(r.Range(1, 9))
						op = fmt.Sprintf("gspec setCode %d %d", i, v)
						db.SetCode(sdbAddrs[i], []byte{v})
						return "ok"
					case c < 19:
						i, j := 2+r.Pick(2), r.Pick(3)
						v := r.Range(0, 4)
						if db.GetNonce(sdbAddrs[i]) == 0 && len(db.GetCode(sdbAddrs[i])) == 0 {
							// the interpreter writes storage only in the frame of an account with code or under construction (nonce 1)
							op = fmt.Sprintf("gspec read %d", i)
							return readAcc(i)
						}
						op = fmt.Sprintf("gspec setState %d %d %d", i, j, v)
						db.SetState(sdbAddrs[i], gsKeys[j], gethcommon.BigToHash(big.NewInt(v)))
						return "ok"
					case c < 20:
						i := r.Pick(2)
						if db.GetNonce(sdbAddrs[i]) != 0 || len(db.GetCode(sdbAddrs[i])) != 0 {
							// evm.create refuses an address with a nonce or code (collision) before it calls CreateAccount
							op = fmt.Sprintf("gspec read %d", i)
							return readAcc(i)
						}
						op = fmt.Sprintf("gspec createAccount %d", i)
						db.CreateAccount(sdbAddrs[i])
						return "ok"
					case c < 21:
						i := r.Pick(4)
						if !db.Exist(sdbAddrs[i]) || db.Empty(sdbAddrs[i]) {
							// SELFDESTRUCT runs in the frame of the account itself: it has code or is under construction
							op = fmt.Sprintf("gspec read %d", i)
							return readAcc(i)
						}
						op = fmt.Sprintf("gspec suicide %d", i)
						return b01(db.Suicide(sdbAddrs[i]))
					case c < 22:
						op = "gspec addLog"
						db.AddLog(&gethcore.Log{Address: sdbAddrs[2]})
						return "ok"
					case c < 23:
						g := r.Range(1, 5000)
						op = fmt.Sprintf("gspec addRefund %d", g)
						db.AddRefund(uint64(g))
						return "ok"
					case c < 24:
						g := r.Range(1, 5000)
						if cur := db.GetRefund(); cur > 0 && r.Chance(4, 5) {
							g = r.Range(1, int64(cur))
						}
						op = fmt.Sprintf("gspec subRefund %d", g)
						db.SubRefund(uint64(g))
						return "ok"
					case c < 25:
						if r.Chance(1, 2) {
							i := r.Pick(4)
							op = fmt.Sprintf("gspec addAddr %d", i)
							db.AddAddressToAccessList(sdbAddrs[i])
						} else {
							i, j := r.Pick(4), r.Pick(3)
							op = fmt.Sprintf("gspec addSlot %d %d", i, j)
							db.AddSlotToAccessList(sdbAddrs[i], gsKeys[j])
						}
						return "ok"
					case c < 26:
						op = "gspec misc"
						return misc()
					case c < 28:
						op = "gspec snapshot"
						id := db.Snapshot()
						realID[nextSeq] = id
						live = append(live, nextSeq)
						nextSeq++
						return fmt.Sprintf("id=%d", nextSeq-1)
					default:
						if len(live) == 0 || r.Chance(1, 25) {
							bad := nextSeq + 3
							op = fmt.Sprintf("gspec revert %d", bad)
							db.RevertToSnapshot(1_000_000 + bad)
							return "ok"
						}
						idx := r.Pick(len(live))
						seq := live[idx]
						op = fmt.Sprintf("gspec revert %d", seq)
						db.RevertToSnapshot(realID[seq])
						live = live[:idx]
						return "ok"
					}
				})
				w.Count(strings.Fields(op)[1])
				w.Step(op, res)
			}
			w.Step("gspec misc", misc())
			for i := range sdbAddrs {
				w.Step(fmt.Sprintf("gspec read %d", i), readAcc(i))
			}
			be.commit()
			w.Step("gspec commit", "P:"+renderBase())
		}
	}
	return nil
}
