package main

import (
	"fmt"
	"math/big"
	"os"
	"path/filepath"
	"sort"
	"strings"

	sdk "github.com/cosmos/cosmos-sdk/types"
	gethcommon "github.com/ethereum/go-ethereum/common"
	gethcore "github.com/ethereum/go-ethereum/core/types"

	"github.com/ethereum/go-ethereum/core/vm"
	"github.com/NibiruChain/nibiru/v2/x/common/testutil/testapp"
	"github.com/NibiruChain/nibiru/v2/x/evm/embeds"
	"github.com/NibiruChain/nibiru/v2/x/evm/evmtest"
	"github.com/NibiruChain/nibiru/v2/x/evm/precompile"
	"github.com/NibiruChain/nibiru/v2/x/evm/statedb"

	"verif/harness/internal/hx"
)

// sdbEnterPrecompile runs the REAL entry sequence of a Nibiru precompile call (precompile.OnRunStart: journal entry with the
// multistore snapshot, per-tx call limit, intermediate flush of the dirty StateDB into the cache context) on `db` and returns the
// cache context the precompile body would work on. A call without side effect enters through a query method (whoAmI), one with a
// side effect through a mutating method (bankMsgSend): the entry sequence must not depend on which.
func sdbEnterPrecompile(db *statedb.StateDB, mutating bool) (sdk.Context, error) {
	abi := embeds.SmartContract_FunToken.ABI
	var input []byte
	var err error
	if mutating {
		input, err = abi.Pack("bankMsgSend", "nibi1qqqqqqqqqqqqqqqqqqqqqqqqqqqqqqqqq3mcxl", "unibi", big.NewInt(1))
	} else {
		input, err = abi.Pack("whoAmI", "nibi1qqqqqqqqqqqqqqqqqqqqqqqqqqqqqqqqq3mcxl")
	}
	if err != nil {
		panic(err)
	}
	res, err := precompile.OnRunStart(&vm.EVM{StateDB: db}, input, abi, 50_000_000)
	if err != nil {
		return sdk.Context{}, err
	}
	return res.CacheCtx, nil
}

func init() { runners["sdb"] = runStateDB }

var sdbAddrs = []gethcommon.Address{
	gethcommon.HexToAddress("0x1000000000000000000000000000000000000001"),
	gethcommon.HexToAddress("0x2000000000000000000000000000000000000002"),
	gethcommon.HexToAddress("0x3000000000000000000000000000000000000003"),
	gethcommon.HexToAddress("0x4000000000000000000000000000000000000004"),
}

func codeID(code []byte) int {
	if len(code) == 0 {
		return 0
	}
	return int(code[0])
}

func hashInt(h gethcommon.Hash) string { return new(big.Int).SetBytes(h.Bytes()).String() }

func runStateDB(r *hx.R, n int, w *hx.W, _ []string) error {
	deps := evmtest.NewTestDeps()
	k := deps.EvmKeeper
	bank := deps.App.BankKeeper
	e12 := big.NewInt(1_000_000_000_000)
	keys := []gethcommon.Hash{gethcommon.BigToHash(big.NewInt(0)), gethcommon.BigToHash(big.NewInt(1)), gethcommon.BigToHash(big.NewInt(2))}
	renderStore := func(ctx sdk.Context) string {
		var accts, slots []string
		for i, a := range sdbAddrs {
			other := bank.GetBalance(ctx, sdk.AccAddress(a.Bytes()), "utest").Amount
			acc := k.GetAccount(ctx, a)
			if acc == nil {
				accts = append(accts, fmt.Sprintf("%d:-:%s", i, other))
			} else {
				cid := 0
				if acc.IsContract() {
					cid = codeID(k.GetCode(ctx, gethcommon.BytesToHash(acc.CodeHash)))
				}
				accts = append(accts, fmt.Sprintf("%d:%d:%d:%s:%s", i, acc.Nonce, cid, acc.BalanceNative, other))
			}
			for j, key := range keys {
				v := k.GetState(ctx, a, key)
				if (v != gethcommon.Hash{}) {
					slots = append(slots, fmt.Sprintf("%d.%d=%s", i, j, hashInt(v)))
				}
			}
		}
		return fmt.Sprintf("ACC=%s ST=%s", items(accts), items(slots))
	}
	readAcc := func(db *statedb.StateDB, i int) string {
		a := sdbAddrs[i]
		return fmt.Sprintf("%s%s%s:%s:%d:%d", b01(db.Exist(a)), b01(db.Empty(a)), b01(db.HasSuicided(a)), db.GetBalance(a), db.GetNonce(a), codeID(db.GetCode(a)))
	}
	renderMisc := func(db *statedb.StateDB) string {
		var al []int
		nslots := 0
		for i, a := range sdbAddrs {
			if db.AddressInAccessList(a) {
				al = append(al, i)
			}
			for _, key := range keys {
				if _, ok := db.SlotInAccessList(a, key); ok {
					nslots++
				}
			}
		}
		sort.Ints(al)
		var als []string
		for _, x := range al {
			als = append(als, fmt.Sprint(x))
		}
		return fmt.Sprintf("R=%d L=%d AL=%s/%d", db.GetRefund(), len(db.Logs()), items(als), nslots)
	}
	// corpus first: hand-written and minimised sequences (corpus/C04/*.ops), executed op by op on the real StateDB
	corpusDir := os.Getenv("VERIF_CORPUS")
	if corpusDir == "" {
		corpusDir = "/verif/corpus"
	}
	files, _ := filepath.Glob(filepath.Join(corpusDir, "C04", "*.ops"))
	sort.Strings(files)
	for _, f := range files {
		bz, err := os.ReadFile(f)
		if err != nil {
			continue
		}
		var db *statedb.StateDB
		var cctx sdk.Context
		for _, line := range strings.Split(string(bz), "\n") {
			line = strings.TrimSpace(line)
			if line == "" || strings.HasPrefix(line, "#") {
				continue
			}
			a := strings.Fields(line)
			num := func(i int) int64 { v, _ := new(big.Int).SetString(a[i], 10); return v.Int64() }
			res := hx.Recover(func() string {
				switch a[1] {
				case "reset":
					cctx, _ = deps.Ctx.CacheContext()
					init := k.NewStateDB(cctx, statedb.NewEmptyTxConfig(gethcommon.Hash{}))
					for _, it := range strings.Split(strings.TrimPrefix(a[2], "ACC="), ",") {
						f := strings.Split(it, ":")
						var i int
						fmt.Sscan(f[0], &i)
						if f[1] == "-" {
							continue
						}
						var nonce, code, bal, other int64
						fmt.Sscan(f[1], &nonce)
						fmt.Sscan(f[2], &code)
						fmt.Sscan(f[3], &bal)
						fmt.Sscan(f[4], &other)
						init.AddBalance(sdbAddrs[i], new(big.Int).Mul(e12, big.NewInt(bal)))
						init.SetNonce(sdbAddrs[i], uint64(nonce))
						if code != 0 {
							init.SetCode(sdbAddrs[i], []byte{byte(code)})
						}
						if other > 0 {
							_ = testapp.FundAccount(bank, cctx, sdk.AccAddress(sdbAddrs[i].Bytes()), sdk.NewCoins(sdk.NewInt64Coin("utest", other)))
						}
					}
					if st := strings.TrimPrefix(a[3], "ST="); st != "-" {
						for _, it := range strings.Split(st, ",") {
							var ai, ki int
							var v int64
							fmt.Sscanf(it, "%d.%d=%d", &ai, &ki, &v)
							init.SetState(sdbAddrs[ai], keys[ki], gethcommon.BigToHash(big.NewInt(v)))
						}
					}
					if err := init.Commit(); err != nil {
						return "reset-error"
					}
					db = k.NewStateDB(cctx, statedb.NewEmptyTxConfig(gethcommon.Hash{}))
					return "ok"
				case "read":
					return readAcc(db, int(num(2)))
				case "getState":
					return hashInt(db.GetState(sdbAddrs[num(2)], keys[num(3)])) + "/" + hashInt(db.GetCommittedState(sdbAddrs[num(2)], keys[num(3)]))
				case "misc":
					return renderMisc(db)
				case "setState":
					db.SetState(sdbAddrs[num(2)], keys[num(3)], gethcommon.BigToHash(big.NewInt(num(4))))
				case "addBalance":
					v, _ := new(big.Int).SetString(a[3], 10)
					if v.Sign() < 0 {
						db.SubBalance(sdbAddrs[num(2)], new(big.Int).Neg(v))
					} else {
						db.AddBalance(sdbAddrs[num(2)], v)
					}
				case "setNonce":
					db.SetNonce(sdbAddrs[num(2)], uint64(num(3)))
				case "setCode":
					db.SetCode(sdbAddrs[num(2)], []byte{byte(num(3))})
				case "createAccount":
					db.CreateAccount(sdbAddrs[num(2)])
				case "suicide":
					return b01(db.Suicide(sdbAddrs[num(2)]))
				case "addLog":
					db.AddLog(&gethcore.Log{Address: sdbAddrs[0]})
				case "addRefund":
					db.AddRefund(uint64(num(2)))
				case "snapshot":
					return fmt.Sprintf("id=%d", db.Snapshot())
				case "revert":
					db.RevertToSnapshot(int(num(2)))
				case "precompile":
					cacheCtx, err := sdbEnterPrecompile(db, a[2] != "none")
					if err != nil {
						if strings.Contains(err.Error(), "exceeded maximum number") {
							return "limit " + renderMisc(db) + " C:" + renderStore(*db.GetCacheContext())
						}
						return "flush-error"
					}
					out := "ok"
					switch a[2] {
					case "other":
						if err := testapp.FundAccount(bank, cacheCtx, sdk.AccAddress(sdbAddrs[num(3)].Bytes()), sdk.NewCoins(sdk.NewInt64Coin("utest", num(4)))); err != nil {
							out = "error"
						}
					case "move":
						if err := bank.SendCoins(cacheCtx, sdk.AccAddress(sdbAddrs[num(3)].Bytes()), sdk.AccAddress(sdbAddrs[num(4)].Bytes()), sdk.NewCoins(sdk.NewInt64Coin("unibi", num(5)))); err != nil {
							out = "insufficient"
						}
					}
					return out + " " + renderMisc(db) + " C:" + renderStore(*db.GetCacheContext())
				case "commit":
					if err := db.Commit(); err != nil {
						return "commit-error"
					}
					k.Bank.StateDB = nil
					return "P:" + renderStore(cctx)
				default:
					return "unknown-op"
				}
				return "ok"
			})
			w.Count("corpus")
			w.Step(line, res)
		}
		k.Bank.StateDB = nil
	}
	for c := 0; c < n; c++ {
		ctx, _ := deps.Ctx.CacheContext()
		// initial persisted state: accounts 0 and 1 exist (1 is a contract with storage), 2 and 3 usually do not
		{
			init := k.NewStateDB(ctx, statedb.NewEmptyTxConfig(gethcommon.Hash{}))
			for i := 0; i < 2; i++ {
				init.AddBalance(sdbAddrs[i], new(big.Int).Mul(e12, big.NewInt(r.Range(0, 1000))))
				init.SetNonce(sdbAddrs[i], uint64(r.Range(0, 5)))
			}
			if r.Chance(1, 4) {
				init.AddBalance(sdbAddrs[2], new(big.Int).Mul(e12, big.NewInt(r.Range(1, 50))))
			}
			init.SetCode(sdbAddrs[1], []byte{byte(7 + r.Pick(3))})
			for j := range keys {
				if r.Chance(1, 2) {
					init.SetState(sdbAddrs[1], keys[j], gethcommon.BigToHash(big.NewInt(r.Range(1, 9))))
				}
			}
			if err := init.Commit(); err != nil {
				return err
			}
			k.Bank.StateDB = nil
			for i := range sdbAddrs {
				if r.Chance(1, 3) {
					_ = testapp.FundAccount(bank, ctx, sdk.AccAddress(sdbAddrs[i].Bytes()), sdk.NewCoins(sdk.NewInt64Coin("utest", r.Range(1, 100))))
				}
			}
		}
		w.Step("sdb reset "+renderStore(ctx), "ok")
		db := k.NewStateDB(ctx, statedb.NewEmptyTxConfig(gethcommon.Hash{}))
		var snaps []int
		// SELFDESTRUCT and Nibiru precompile calls are not mixed in one generated transaction: with both, the real code can
		// panic (an intermediate flush deletes the suicided state object that later journal reverts dereference). That
		// family is exercised by the dedicated probes (runner "sdbprobe") and recorded as a known finding of C04.
		withPrecompile := r.Chance(2, 3)
		steps := 4 + r.Pick(30)
		committed := false
		var forced []int
		didForce := false
		for i := 0; i < steps && !committed; i++ {
			a := r.Pick(4)
			addr := sdbAddrs[a]
			var op, res string
			if r.Chance(1, 4) { // an explicit read (it also caches the object, as in the real StateDB)
				if r.Chance(1, 2) {
					w.Step(fmt.Sprintf("sdb read %d", a), hx.Recover(func() string { return readAcc(db, a) }))
				} else {
					kk := r.Pick(3)
					w.Step(fmt.Sprintf("sdb getState %d %d", a, kk), hx.Recover(func() string {
						return hashInt(db.GetState(addr, keys[kk])) + "/" + hashInt(db.GetCommittedState(addr, keys[kk]))
					}))
				}
				if r.Chance(1, 3) {
					w.Step("sdb misc", hx.Recover(func() string { return renderMisc(db) }))
				}
			}
			ch := r.Pick(28)
			// aimed (once per history, sometimes): two precompile calls with nothing journaled in between — the second one inside a
			// frame of its own that is then reverted (a failing call caught by the caller). Every call needs its own journal entry.
			if withPrecompile && len(forced) == 0 && !didForce && r.Chance(1, 10) {
				forced, didForce = []int{26, 20, 26, 23}, true
			}
			if len(forced) > 0 {
				ch, forced = forced[0], forced[1:]
			}
			switch {
			case ch < 4:
				d := new(big.Int).Mul(e12, big.NewInt(r.Range(0, 20)))
				if r.Chance(1, 5) {
					d = big.NewInt(r.Range(1, 999_999_999_999))
				}
				sign := ""
				if r.Chance(1, 3) && db.GetBalance(addr).Cmp(d) >= 0 {
					sign = "-"
				}
				op = fmt.Sprintf("sdb addBalance %d %s%s", a, sign, d)
				res = hx.Recover(func() string {
					if sign == "-" {
						db.SubBalance(addr, d)
					} else {
						db.AddBalance(addr, d)
					}
					return "ok"
				})
			case ch < 6:
				v := r.Range(0, 9)
				op = fmt.Sprintf("sdb setNonce %d %d", a, v)
				res = hx.Recover(func() string { db.SetNonce(addr, uint64(v)); return "ok" })
			case ch < 8:
				h := 1 + r.Pick(6)
				op = fmt.Sprintf("sdb setCode %d %d", a, h)
				res = hx.Recover(func() string { db.SetCode(addr, []byte{byte(h)}); return "ok" })
			case ch < 14:
				kk, v := r.Pick(3), r.Range(0, 5)
				op = fmt.Sprintf("sdb setState %d %d %d", a, kk, v)
				res = hx.Recover(func() string {
					db.SetState(addr, keys[kk], gethcommon.BigToHash(big.NewInt(v)))
					return "ok"
				})
			case ch < 15:
				op = fmt.Sprintf("sdb createAccount %d", a)
				res = hx.Recover(func() string { db.CreateAccount(addr); return "ok" })
			case ch < 16:
				if withPrecompile {
					continue
				}
				op = fmt.Sprintf("sdb suicide %d", a)
				res = hx.Recover(func() string { ok := db.Suicide(addr); return b01(ok) })
			case ch < 17:
				op = "sdb addLog"
				res = hx.Recover(func() string { db.AddLog(&gethcore.Log{Address: addr}); return "ok" })
			case ch < 18:
				g := r.Range(0, 5000)
				if r.Chance(1, 3) {
					op = fmt.Sprintf("sdb subRefund %d", g)
					res = hx.Recover(func() string { db.SubRefund(uint64(g)); return "ok" })
				} else {
					op = fmt.Sprintf("sdb addRefund %d", g)
					res = hx.Recover(func() string { db.AddRefund(uint64(g)); return "ok" })
				}
			case ch < 19:
				if r.Chance(1, 2) {
					op = fmt.Sprintf("sdb addAddr %d", a)
					res = hx.Recover(func() string { db.AddAddressToAccessList(addr); return "ok" })
				} else {
					kk := r.Pick(3)
					op = fmt.Sprintf("sdb addSlot %d %d", a, kk)
					res = hx.Recover(func() string { db.AddSlotToAccessList(addr, keys[kk]); return "ok" })
				}
			case ch < 22:
				op = "sdb snapshot"
				res = hx.Recover(func() string { id := db.Snapshot(); snaps = append(snaps, id); return fmt.Sprintf("id=%d", id) })
			case ch < 25:
				if len(snaps) == 0 {
					continue
				}
				j := len(snaps) - 1 - r.Pick(min(len(snaps), 2))
				id := snaps[j]
				if r.Chance(1, 15) {
					id = 99 // not a valid revision
				}
				op = fmt.Sprintf("sdb revert %d", id)
				res = hx.Recover(func() string {
					db.RevertToSnapshot(id)
					snaps = snaps[:j]
					return "ok"
				})
			case ch < 27: // a precompile call: OnRunStart sequence + a side effect in the cache context
				if !withPrecompile {
					continue
				}
				b := r.Pick(4)
				kind := r.Pick(3)
				amt := r.Range(1, 30)
				multiDenom := r.Chance(1, 2)
				switch kind {
				case 0:
					op = "sdb precompile none"
				case 1:
					op = fmt.Sprintf("sdb precompile other %d %d", a, amt)
				default:
					op = fmt.Sprintf("sdb precompile move %d %d %d", a, b, amt)
				}
				res = hx.Recover(func() string {
					cacheCtx, err := sdbEnterPrecompile(db, kind != 0)
					if err != nil {
						if strings.Contains(err.Error(), "exceeded maximum number") {
							return "limit " + renderMisc(db) + " C:" + renderStore(*db.GetCacheContext())
						}
						return "flush-error"
					}
					out := "ok"
					switch kind {
					case 1:
						if amt > 0 {
							if err := testapp.FundAccount(bank, cacheCtx, sdk.AccAddress(addr.Bytes()), sdk.NewCoins(sdk.NewInt64Coin("utest", amt))); err != nil {
								out = "error"
							}
						}
					case 2:
						if amt > 0 {
							coins := sdk.NewCoins(sdk.NewInt64Coin("unibi", amt))
							// half of the time the unibi travel in a coin set with other denoms around them ("aaa" sorts before
							// "unibi", "zzz" after): the StateDB has to be kept in step with the bank for such a send too. Only when
							// the send is going to succeed, so that funding the extra denoms does not create an account the model
							// does not know of.
							if multiDenom && bank.GetBalance(cacheCtx, sdk.AccAddress(addr.Bytes()), "unibi").Amount.GTE(sdk.NewInt(amt)) {
								extra := sdk.NewCoins(sdk.NewInt64Coin("aaa", 3), sdk.NewInt64Coin("zzz", 2))
								if err := testapp.FundAccount(bank, cacheCtx, sdk.AccAddress(addr.Bytes()), extra); err == nil {
									coins = coins.Add(extra...)
								}
							}
							if err := bank.SendCoins(cacheCtx, sdk.AccAddress(addr.Bytes()), sdk.AccAddress(sdbAddrs[b].Bytes()), coins); err != nil {
								out = "insufficient"
							}
						}
					}
					return out + " " + renderMisc(db) + " C:" + renderStore(*db.GetCacheContext())
				})
			default:
				for j := range sdbAddrs {
					jj := j
					w.Step(fmt.Sprintf("sdb read %d", jj), hx.Recover(func() string { return readAcc(db, jj) }))
				}
				op = "sdb commit"
				res = hx.Recover(func() string {
					if err := db.Commit(); err != nil {
						return "commit-error"
					}
					return "P:" + renderStore(ctx)
				})
				committed = true
			}
			w.Count(strings.Fields(op)[1] + ":" + strings.SplitN(strings.SplitN(res, " ", 2)[0], ":", 2)[0][:1])
			w.Step(op, res)
		}
		if !committed {
			for j := range sdbAddrs {
				jj := j
				w.Step(fmt.Sprintf("sdb read %d", jj), hx.Recover(func() string { return readAcc(db, jj) }))
				for kk := range keys {
					k2 := kk
					w.Step(fmt.Sprintf("sdb getState %d %d", jj, k2), hx.Recover(func() string {
						return hashInt(db.GetState(sdbAddrs[jj], keys[k2])) + "/" + hashInt(db.GetCommittedState(sdbAddrs[jj], keys[k2]))
					}))
				}
			}
			res := hx.Recover(func() string {
				if err := db.Commit(); err != nil {
					return "commit-error"
				}
				return "P:" + renderStore(ctx)
			})
			w.Step("sdb commit", res)
		}
		k.Bank.StateDB = nil
	}
	return nil
}
